/-
  C11 — Include loading is independent of cache history.

  Model: `HL.Loader` (`stepOp`: load / loadFromContent / edit+invalidate / clear on one shared
  loader).  `m : Mode` says which repairs the tree has; the theorems hold for every tree that
  has the cache-descent repair (`m.descend`), whatever the other two flags; the behaviour of
  the pinned tree is kept as counterexample theorems.
-/
import HL.Lemmas.Loader
namespace HL.Props.C11
open HL HL.Loader HL.Reach HL.Lemmas.Loader

/-- The histories the property speaks about: every change on disk is followed by `InvalidateFile`. -/
def allowed : Op → Bool
  | .editSilently _ _ => false
  | _ => true

/-- Worlds (files on disk + loader cache) that a history of allowed operations can produce,
    starting from any files and a new loader. -/
inductive Reachable (lim : Limits) (m : Mode) (fs0 : FS) : World → Prop where
  | init : Reachable lim m fs0 ⟨fs0, []⟩
  | step {w : World} (op : Op) : Reachable lim m fs0 w → allowed op = true →
      Reachable lim m fs0 (stepOp lim m w op).1

theorem cons_nil (fs : FS) (lim : Limits) : Cons fs lim [] := by
  intro p f h; simp [Cache.get] at h

theorem loadFromContent_cons (fs : FS) (lim : Limits) (m : Mode) (c : Cache) (root : Path) (f : File)
    (hc : Cons fs lim c) : Cons fs lim (loadFromContent fs lim m c root f).cache := by
  unfold loadFromContent
  split
  · exact hc
  · split
    · exact hc
    · rename_i r es st e
      exact (loadF_cons fs lim m _ _ _ _ _ _ _ _ _ hc e).1

theorem load_cons (fs : FS) (lim : Limits) (m : Mode) (c : Cache) (root : Path)
    (hc : Cons fs lim c) : Cons fs lim (load fs lim m c root).cache := by
  unfold load
  split
  · exact hc
  · exact loadFromContent_cons fs lim m c root _ hc

/-- One allowed operation keeps every cache entry equal to the parse of the file on disk. -/
theorem step_cons (lim : Limits) (m : Mode) (w : World) (op : Op) (ha : allowed op = true)
    (hc : Cons w.fs lim w.cache) :
    Cons (stepOp lim m w op).1.fs lim (stepOp lim m w op).1.cache := by
  cases op with
  | load r => exact load_cons w.fs lim m w.cache r hc
  | loadContent r f => exact loadFromContent_cons w.fs lim m w.cache r f hc
  | edit p f =>
    intro q g hq
    simp only [stepOp] at hq ⊢
    rw [get_del] at hq
    by_cases e : q = p
    · simp [e] at hq
    · simp only [e, if_false] at hq
      simp only [FS.set, e, if_false]
      exact hc q g hq
  | editSilently p f => simp [allowed] at ha
  | clear => exact cons_nil _ _

/-- **cache_consistent** (invariant, every tree): after any history of loads, edits followed by
    invalidation, and cache clears, every cache entry is the parse of the file as it is on disk
    now (and the file is within the size limit). -/
theorem cache_consistent (lim : Limits) (m : Mode) (fs0 : FS) (w : World)
    (h : Reachable lim m fs0 w) : Cons w.fs lim w.cache := by
  induction h with
  | init => exact cons_nil _ _
  | step op _ ha ih => exact step_cons lim m _ op ha ih

theorem loadFromContent_indep (fs : FS) (lim : Limits) (m : Mode) (hm : m.descend = true)
    (c : Cache) (root : Path) (f : File) (hc : Cons fs lim c) :
    (loadFromContent fs lim m c root f).res = (freshContent fs lim m root f).res ∧
    (loadFromContent fs lim m c root f).errs = (freshContent fs lim m root f).errs := by
  unfold freshContent loadFromContent
  split
  · exact ⟨rfl, rfl⟩
  · have := loadF_rel fs lim m hm (fuelFor lim) root f [] 0 ⟨[], c⟩ ⟨[], []⟩ rfl hc (cons_nil fs lim)
    revert this
    cases loadF fs lim m (fuelFor lim) root f [] 0 ⟨[], c⟩ with
    | none =>
      cases loadF fs lim m (fuelFor lim) root f [] 0 ⟨[], []⟩ with
      | none => intro _; exact ⟨rfl, rfl⟩
      | some y => intro hh; exact hh.elim
    | some x =>
      cases loadF fs lim m (fuelFor lim) root f [] 0 ⟨[], []⟩ with
      | none => intro hh; exact hh.elim
      | some y =>
        obtain ⟨x1, x2, x3⟩ := x
        obtain ⟨y1, y2, y3⟩ := y
        intro hh
        exact ⟨hh.1, hh.2.1⟩

theorem load_indep (fs : FS) (lim : Limits) (m : Mode) (hm : m.descend = true)
    (c : Cache) (root : Path) (hc : Cons fs lim c) :
    (load fs lim m c root).res = (fresh fs lim m root).res ∧
    (load fs lim m c root).errs = (fresh fs lim m root).errs := by
  unfold fresh load
  split
  · exact ⟨rfl, rfl⟩
  · exact loadFromContent_indep fs lim m hm c root _ hc

/-- **load_history_independent**: on a tree with the cache-descent repair, after *any* history
    of allowed operations on one shared loader (any number of loads of any roots, edits followed
    by invalidation, cache clears; any files, any include graph, any limits), `Load(root)`
    returns the same journal set, order, contents and diagnostics as a brand-new loader
    reading the files as they are now. -/
theorem load_history_independent (lim : Limits) (m : Mode) (hm : m.descend = true) (fs0 : FS)
    (w : World) (h : Reachable lim m fs0 w) (root : Path) :
    (load w.fs lim m w.cache root).res = (fresh w.fs lim m root).res ∧
    (load w.fs lim m w.cache root).errs = (fresh w.fs lim m root).errs :=
  load_indep w.fs lim m hm w.cache root (cache_consistent lim m fs0 w h)

/-- The same for `LoadFromContent(root, content)` (the unsaved buffer of an open document). -/
theorem loadFromContent_history_independent (lim : Limits) (m : Mode) (hm : m.descend = true)
    (fs0 : FS) (w : World) (h : Reachable lim m fs0 w) (root : Path) (f : File) :
    (loadFromContent w.fs lim m w.cache root f).res = (freshContent w.fs lim m root f).res ∧
    (loadFromContent w.fs lim m w.cache root f).errs = (freshContent w.fs lim m root f).errs :=
  loadFromContent_indep w.fs lim m hm w.cache root f (cache_consistent lim m fs0 w h)

/-! ### The same statement over explicit histories (lists of operations) -/

/-- What each step of a history returns on the shared loader (journal and diagnostics). -/
def run (lim : Limits) (m : Mode) : World → List Op → List (Option (Option Res × List Err))
  | _, [] => []
  | w, op :: rest =>
    ((stepOp lim m w op).2.map fun r => (r.res, r.errs)) :: run lim m (stepOp lim m w op).1 rest

/-- The files on disk after an operation. -/
def fsAfter (fs : FS) : Op → FS
  | .edit p f => fs.set p f
  | .editSilently p f => fs.set p f
  | _ => fs

/-- What a brand-new loader returns at each step, reading the files as they are then. -/
def runFresh (lim : Limits) (m : Mode) : FS → List Op → List (Option (Option Res × List Err))
  | _, [] => []
  | fs, op :: rest =>
    (match op with
      | .load r => some ((fresh fs lim m r).res, (fresh fs lim m r).errs)
      | .loadContent r f => some ((freshContent fs lim m r f).res, (freshContent fs lim m r f).errs)
      | _ => none) ::
    runFresh lim m (fsAfter fs op) rest

theorem run_eq_runFresh (lim : Limits) (m : Mode) (hm : m.descend = true) (ops : List Op)
    (ha : ops.all allowed = true) (w : World) (hc : Cons w.fs lim w.cache) :
    run lim m w ops = runFresh lim m w.fs ops := by
  induction ops generalizing w with
  | nil => rfl
  | cons op rest ih =>
    simp only [List.all_cons, Bool.and_eq_true] at ha
    have hc' := step_cons lim m w op ha.1 hc
    simp only [run, runFresh]
    have hfs : (stepOp lim m w op).1.fs = fsAfter w.fs op := by cases op <;> rfl
    rw [ih ha.2 _ hc', hfs]
    congr 1
    cases op with
    | load r =>
      obtain ⟨h1, h2⟩ := load_indep w.fs lim m hm w.cache r hc
      simp only [stepOp, Option.map_some, h1, h2]
    | loadContent r f =>
      obtain ⟨h1, h2⟩ := loadFromContent_indep w.fs lim m hm w.cache r f hc
      simp only [stepOp, Option.map_some, h1, h2]
    | edit p f => rfl
    | editSilently p f => rfl
    | clear => rfl

/-- **history_independent_all**: every step of every allowed history on a new loader returns
    what a brand-new loader would return at that moment. -/
theorem history_independent_all (lim : Limits) (m : Mode) (hm : m.descend = true) (fs0 : FS)
    (ops : List Op) (ha : ops.all allowed = true) :
    run lim m ⟨fs0, []⟩ ops = runFresh lim m fs0 ops :=
  run_eq_runFresh lim m hm ops ha ⟨fs0, []⟩ (cons_nil fs0 lim)

/-! ### Non-vacuity and the pinned behaviour -/

def mkInc (p : Nat) (l : Nat) : Inc := ⟨"", ⟨⟨l, 1, 0⟩, ⟨l, 9, 8⟩⟩, .file p⟩
def mkFile (ver : Nat) (ts : List Nat) : File :=
  ⟨10, ver, ts.zipIdx.map (fun (t, i) => mkInc t (i + 1)), []⟩

/-- chain f0 → f1 → f2 → f3 -/
def chain : FS := fun p => match p with
  | 0 => some (mkFile 0 [1]) | 1 => some (mkFile 1 [2]) | 2 => some (mkFile 2 [3])
  | 3 => some (mkFile 3 []) | _ => none

/-- f0 includes f1 twice -/
def twice : FS := fun p => match p with
  | 0 => some (mkFile 0 [1, 1]) | 1 => some (mkFile 1 []) | _ => none

def lim50 : Limits := ⟨1000, 50⟩

def orderOf (r : Result) : Option (List Path) := r.res.map (·.order)

/-- Pinned tree (DESIGN §8 row 10, reproduced against the real loader, replays/C11/): the second
    `Load` of a chain on the same loader returns only the first included file. -/
theorem chain_second_load_counterexample :
    orderOf (load chain lim50 .pinned [] 0) = some [1, 2, 3] ∧
    orderOf (load chain lim50 .pinned (load chain lim50 .pinned [] 0).cache 0) = some [1] := by
  decide +kernel

/-- Pinned tree (DESIGN §8 row 21): a directive repeated in the root gives a cycle error on a
    cold cache and a duplicated `FileOrder` on a warm cache. -/
theorem duplicate_warm_cache_counterexample :
    orderOf (load twice lim50 .pinned [] 0) = some [1] ∧
    (load twice lim50 .pinned [] 0).errs.map (·.kind) = [.cycle] ∧
    orderOf (load twice lim50 .pinned (load twice lim50 .pinned [] 0).cache 0) = some [1, 1] ∧
    (load twice lim50 .pinned (load twice lim50 .pinned [] 0).cache 0).errs = [] := by
  decide +kernel

/-- The repaired tree on the same inputs (what the theorems above promise). -/
example :
    orderOf (load chain lim50 .repaired (load chain lim50 .repaired [] 0).cache 0) = some [1, 2, 3] ∧
    orderOf (load twice lim50 .repaired (load twice lim50 .repaired [] 0).cache 0) = some [1] ∧
    (load twice lim50 .repaired (load twice lim50 .repaired [] 0).cache 0).errs = [] := by
  decide +kernel

/-- Non-vacuity of `load_history_independent`: a reachable world with a warm cache. -/
example : Reachable lim50 .repaired chain (stepOp lim50 .repaired ⟨chain, []⟩ (.load 0)).1 :=
  .step (.load 0) .init rfl
example : (stepOp lim50 .repaired ⟨chain, []⟩ (.load 0)).1.cache.length = 3 := by decide +kernel

/-- A silent edit (not followed by `InvalidateFile`) is outside the property and really breaks
    independence, also on the repaired tree: the guard `allowed` cannot be dropped. -/
theorem silent_edit_counterexample :
    let w1 := (stepOp lim50 .repaired ⟨chain, []⟩ (.load 0)).1
    let w2 := (stepOp lim50 .repaired w1 (.editSilently 1 (some (mkFile 9 [])))).1
    orderOf (load w2.fs lim50 .repaired w2.cache 0) = some [1, 2, 3] ∧
    orderOf (fresh w2.fs lim50 .repaired 0) = some [1] := by
  decide +kernel

end HL.Props.C11
