/-
  C06 — Every request is total and time-bounded on arbitrary content: the lexer sentence.
  "Tokenisation always makes progress: tokens cover the input left to right without overlap,
   stay inside it and end with end-of-input."

  All theorems quantify over EVERY byte string (invalid UTF-8, NUL, unterminated constructs …),
  EVERY lexer state and EVERY classifier `C : Classes` (unicode.IsLetter/IsUpper/IsDigit are
  parameters of the model).  Helper lemmas: HL/Lemmas/Lexer.lean, HL/Lemmas/Utf8.lean.
  The model `HL.Lex` is tied to internal/parser/lexer.go by the op `lex.tokens`.
-/
import HL.Lemmas.Lexer
import HL.Lemmas.LexLocal
import HL.Lemmas.LexCover
import HL.Lemmas.LexMisc
import HL.Lemmas.LexCache
import HL.Lemmas.LexLexeme
import HL.Lemmas.LexTextExact
import HL.Generated.Expect.PureLexer
namespace HL.Props.C06
open HL HL.Lex HL.Spec.LexSpec

/-! ### one step -/

/-- `advance` consumes at least one byte whenever input remains (the width of a decoded rune,
    valid or not, is ≥ 1). -/
theorem advance_rem_lt (z : Z) (h : z.after ≠ []) : (advance z).after.length < z.after.length :=
  HL.Lex.advance_rem_lt z h

/-- Progress: while input remains, `Next` consumes at least one byte — there is no branch of the
    lexer that returns without moving. -/
theorem next_progress (C : Classes) (z : Z) (h : z.after ≠ []) :
    (next C z).2.after.length < z.after.length :=
  (next_res C z).prog h

/-- An EOF token is produced only when nothing is left, and it is empty. -/
theorem next_eof_only_at_end (C : Classes) (z : Z) (h : (next C z).1.ty = .eof) :
    (next C z).2.after = [] ∧ (next C z).1.pos = (next C z).1.stop ∧
      (next C z).1.pos.off = z.input.length := by
  have hr := next_res C z
  obtain ⟨h1, h2⟩ := hr.eof h
  refine ⟨h1, h2, ?_⟩
  have ht := hr.adv.total
  have hs := hr.stop_eof h
  rw [h2, hs]
  simp only [Z.input, List.length_append, List.length_reverse]
  rw [h1] at ht
  simp at ht
  omega

/-- Inside: the token lies between the old and the new position: its `End` lies at or before the
    new position — *at* it for every token but an account token (behind whose name `scanAccount`
    steps over a single blank) and a text token (behind whose value `scanText` steps over white
    space; see `token_end_is_lexeme_end`) —, the new position is inside the input, and the input
    itself is untouched. -/
theorem next_inside (C : Classes) (z : Z) :
    z.off ≤ (next C z).1.pos.off ∧ (next C z).1.pos.off ≤ (next C z).1.stop.off ∧
      (next C z).1.stop.off ≤ (next C z).2.off ∧
      ((next C z).1.ty ≠ .account → (next C z).1.ty ≠ .text → (next C z).1.stop.off = (next C z).2.off) ∧
      (next C z).2.off ≤ z.input.length ∧ (next C z).2.input = z.input := by
  have hr := next_res C z
  refine ⟨hr.pos_ge, hr.pos_le, hr.stop_le, fun h1 h2 => by rw [next_stop C z h1 h2]; rfl, ?_, hr.adv.input⟩
  have ht := hr.adv.total
  simp only [Z.off, Z.input, List.length_append, List.length_reverse]
  omega

/-- Every token but the EOF is non-empty: it covers at least one byte. -/
theorem next_nonempty (C : Classes) (z : Z) (h : (next C z).1.ty ≠ .eof) :
    (next C z).1.pos.off < (next C z).1.stop.off :=
  (next_res C z).nonempty h

/-- Monotone: the next token never starts before the previous one ended. -/
theorem next_monotone (C : Classes) (z : Z) :
    (next C z).1.stop.off ≤ (next C (next C z).2).1.pos.off := by
  have h1 := (next_res C z).stop_le
  have h2 := (next_res C (next C z).2).pos_ge
  omega

/-! ### the whole stream -/

/-- The fuel `|input| + 2` of `lexAll` is never exhausted: more fuel gives the same stream
    (so the stream really is "call `Next` until EOF"). -/
theorem lexAll_fuel_suffices (C : Classes) (input : Bytes) (k : Nat) :
    lexF C (input.length + 2 + k) (Z.init input) = lexAll C input :=
  lexF_fuel C _ _ _ (by simp [Z.init]; omega) (by simp [Z.init])

/-- The executable oracle that judges the implementation's streams holds for the model's
    stream of every input: tokens run left to right, do not overlap, stay inside the input,
    each but the EOF is non-empty, and the stream ends with one EOF at `|input|`. -/
theorem lexAll_ordered (C : Classes) (input : Bytes) :
    ordered input.length 0 (lexAll C input) = true := by
  have := lexF_ordered C (input.length + 2) (Z.init input) (by simp [Z.init])
  simpa [Z.init, lexAll] using this

/-- The stream ends with end-of-input: exactly one EOF token, the last one, at offset `|input|`;
    every other token is non-EOF and lies inside the input. -/
theorem lex_ends_with_eof (C : Classes) (input : Bytes) :
    ∃ ts e, lexAll C input = ts ++ [e] ∧ e.ty = .eof ∧ e.pos.off = input.length ∧
      e.stop.off = input.length ∧
      ∀ t ∈ ts, t.ty ≠ .eof ∧ t.pos.off < t.stop.off ∧ t.stop.off ≤ input.length :=
  ordered_last _ _ _ (lexAll_ordered C input)

/-- Without overlap, left to right, with progress: for any two tokens of the stream, the later
    one starts at or behind the end of the earlier one and (unless it is the EOF) ends strictly
    behind it. -/
theorem lex_no_overlap (C : Classes) (input : Bytes) :
    (lexAll C input).Pairwise
      (fun a b => a.stop.off ≤ b.pos.off ∧ (b.ty ≠ .eof → a.stop.off < b.stop.off)) :=
  (ordered_pairwise _ _ _ (lexAll_ordered C input)).2

/-! ### cover -/

/-- **Cover**, for every input, no guard: every byte that no token extent `[Pos.off, End.off)`
    contains is a blank (0x20) or a tab (0x09) — exactly the bytes `skipSpaces` steps over between
    tokens and before the EOF, and the single blank `scanAccount` steps over behind an account
    name — or, directly behind a Text token, part of a run of white-space runes (a text token
    ends with its trimmed value: what `strings.TrimSpace` cut off at the end lies behind it). -/
theorem tokens_cover (C : Classes) (input : Bytes) : covered input (lexAll C input) = true := by
  rw [covered, lexAll_eq_lexS]
  have := lexS_gapsOk C input.length (Z.init input) (by simp [Z.init]) none [] [] (by simp [Z.init])
    (gapOk_nil none)
  simpa [Z.init, Z.input] using this

/-- **Tiling**: the blank/tab runs and the token extents, concatenated in stream order, are the
    input — every byte lies in exactly one gap or in exactly one token. -/
theorem tokens_tile (C : Classes) (input : Bytes) : pieces input 0 (lexAll C input) = input := by
  have := ordered_pieces input 0 (lexAll C input) (lexAll_ordered C input)
  simpa using this

/-- the one-character tokens `( ) [ ] |` cover their character (regression example for the
    repaired finding `punct-empty-extent`) -/
example : (lexAll Classes.ascii (asc "a | b")).map (fun t => (t.ty, t.pos.off, t.stop.off)) =
    [(.text, 0, 1), (.pipe, 2, 3), (.text, 4, 5), (.eof, 5, 5)] := by decide +kernel

/-! ### a token ends with its lexeme -/

/-- the bytes of the input between a token's `Pos` and its `End` -/
def extent (input : Bytes) (t : Token) : Bytes := (input.drop t.pos.off).take (t.stop.off - t.pos.off)

theorem extOf_eq_extent (C : Classes) (z : Z) : extOf (next C z) = extent z.input (next C z).1 := by
  have hr := next_res C z
  have h1 := hr.pos_le
  have h2 := hr.stop_le
  rw [← hr.adv.input]
  generalize next C z = r at *
  simp only [extOf, extent, Z.input]
  have hd : (r.2.before.reverse ++ r.2.after).drop r.1.pos.off =
      (r.2.before.take (r.2.before.length - r.1.pos.off)).reverse ++ r.2.after := by
    rw [List.drop_append_of_le_length (by simp; omega), List.drop_reverse]
  rw [hd, List.take_append_of_le_length (by simp; omega), List.take_reverse, List.length_take,
    Nat.min_eq_left (by omega), List.drop_take]
  congr 2
  · omega
  · congr 1; omega

/-- **token_end_is_lexeme_end.**  For every byte string, every classifier and every token the
    lexer returns, the bytes between `Pos.offset` and `End.offset` are the token's lexeme and
    nothing else (`HL.Lex.Lexeme`, by token type): the value itself for an account — no blank
    behind the name —, a date, a number, an indent, a directive word, a status mark, a sign, the
    one- and two-character tokens, an unquoted commodity and the end of input; `;` and the
    value for a comment; the value in its parentheses for a code and in its double quotes for a
    quoted commodity (the closing delimiter may be missing at the end of the line); LF or CR LF
    for a Newline token; and for a text token what `strings.TrimRightFunc(·, unicode.IsSpace)`
    keeps of the scanned text — it ends with a rune that is not white space, the run of white
    space behind it lies outside the token, and the value is `strings.TrimSpace` of the two
    (`HL.Lex.TextLexeme`; a text of white space only keeps what was scanned, so that no token but
    the EOF is empty).  A text token that does not start with white space covers exactly its
    value (behind `skipSpaces` only white space other than blank and tab can stand at the start of
    a text: there the extent keeps it in front of the value, the token's Pos being where the scan
    started). -/
theorem token_end_is_lexeme_end (C : Classes) (input : Bytes) :
    ∀ t ∈ lexAll C input,
      Lexeme t.ty t.val (extent input t) ∧
      (t.ty = .text → isSpaceRune (Utf8.decodeRune (input.drop t.pos.off)).1 = false → extent input t = t.val) := by
  rw [lexAll_eq_lexS]
  refine lexS_forall_input C input _ ?_ input.length (Z.init input) (by simp [Z.init]) (by simp [Z.init, Z.input])
  intro z hz
  have h1 := next_lexeme C z
  have h2 := next_textExact C z
  unfold LexemeOk at h1
  unfold TextExact at h2
  rw [extOf_eq_extent C z, hz] at h1 h2
  rw [(next_res C z).adv.input, hz] at h2
  exact ⟨h1, h2⟩

/-- An account token covers exactly the account name: the single blank `scanAccount` steps over
    behind it (in front of `;` `=` `@` `)` `]` or the end of the line) is not part of the token
    (`HL.Props.C08.pinned_account_trailing_blank_counterexample` keeps the old token). -/
theorem account_token_is_its_name (C : Classes) (input : Bytes) :
    ∀ t ∈ lexAll C input, t.ty = .account → extent input t = t.val := by
  intro t ht hty
  have := (token_end_is_lexeme_end C input t ht).1
  rw [hty] at this
  exact this

/-- A text token that does not start with white space — e.g. a commodity written in lower case
    or in non-ASCII letters, a description, a payee — covers exactly its value: the blanks
    between it and a comment lie behind its End. -/
theorem text_token_is_its_value (C : Classes) (input : Bytes) :
    ∀ t ∈ lexAll C input, t.ty = .text →
      isSpaceRune (Utf8.decodeRune (input.drop t.pos.off)).1 = false → extent input t = t.val :=
  fun t ht => (token_end_is_lexeme_end C input t ht).2

/-- `  a:b ;c` / `  c:d  1 руб \t; c`: the account token `a:b` ends before the blank (offsets 2–5),
    the text token `руб` — six bytes, three runes — before the blank and the tab (18–24, End
    column 13); the comments start at 6 and 26. -/
example : (lexAll Classes.go [0x20, 0x20, 0x61, 0x3A, 0x62, 0x20, 0x3B, 0x63, 0x0A, 0x20, 0x20, 0x63, 0x3A, 0x64,
      0x20, 0x20, 0x31, 0x20, 0xD1, 0x80, 0xD1, 0x83, 0xD0, 0xB1, 0x20, 0x09, 0x3B, 0x20, 0x63]).map
      (fun t => (t.ty, t.pos.off, t.stop.off, t.stop.col)) =
    [(.indent, 0, 2, 3), (.account, 2, 5, 6), (.comment, 6, 8, 9), (.newline, 8, 9, 1), (.indent, 9, 11, 3),
     (.account, 11, 14, 6), (.number, 16, 17, 9), (.text, 18, 24, 13), (.comment, 26, 29, 18),
     (.eof, 29, 29, 18)] := by decide +kernel

/-! ### lines -/

/-- Every LF byte becomes exactly one Newline token (the token ends with that LF; in order), and
    there is no other Newline token. -/
theorem newlines_are_the_lf_bytes (C : Classes) (input : Bytes) :
    newlineOffsets (lexAll C input) = lfOffsets input := by
  rw [lexAll_eq_lexS]
  exact lexS_newlines C input.length (Z.init input) (by simp [Z.init])

/-- A Newline token is one line end: the LF alone, or the CR directly in front of it and the LF
    (`"\r\n"` is ONE token that starts at the CR); it ends at column 1 of the next line. -/
theorem newline_is_one_line_end (C : Classes) (input : Bytes) :
    ∀ t ∈ lexAll C input, t.ty = .newline → newlineShape input t = true := by
  rw [lexAll_eq_lexS]
  exact lexS_forall_input C input (fun t => t.ty = .newline → newlineShape input t = true)
    (fun z hz => by rw [← hz]; exact next_newline_shape C z) input.length (Z.init input)
    (by simp [Z.init]) (by simp [Z.init, Z.input])

/-- A token's line is 1 + the number of LF bytes in front of it. -/
theorem token_lines (C : Classes) (input : Bytes) : linesOk input (lexAll C input) = true := by
  rw [linesOk, List.all_eq_true, lexAll_eq_lexS]
  intro t ht
  have := lexS_lines C 1 input.length (Z.init input) (by simp [Z.init]) (by simp [Z.init, countLF]) t ht
  simp only [Z.init, Z.input, List.reverse_nil, List.nil_append, countLF] at this
  simp [this]

/-- The executable oracle that judges the implementation's streams in `lex.tokens` accepts the
    model's stream of ANY input. -/
theorem oracle_on_model (C : Classes) (input : Bytes) : (judge input (lexAll C input)).ok = true := by
  have h1 := lexAll_ordered C input
  have h2 := newlines_are_the_lf_bytes C input
  have h3 := token_lines C input
  have h4 := tokens_cover C input
  have h5 : (lexAll C input).all (fun t => t.ty != .newline || newlineShape input t) = true := by
    rw [List.all_eq_true, lexAll_eq_lexS]
    intro t ht
    have := lexS_forall_input C input (fun t => t.ty = .newline → newlineShape input t = true)
      (fun z hz => by rw [← hz]; exact next_newline_shape C z) input.length (Z.init input)
      (by simp [Z.init]) (by simp [Z.init, Z.input]) t ht
    by_cases hty : t.ty = .newline
    · simp [this hty]
    · simp [hty]
  unfold judge
  simp only [h1, h2, h3, h4, h5, Bool.not_true, Bool.false_eq_true, if_false, bne_self_eq_false]

/-! ### line-locality (lexical premise of C07, layer L2 of C03) -/

/-- `Next` never reads behind the next line feed: with a line feed still ahead, appending any
    bytes `x` to the unread input changes nothing but the unread input.  Checked for every
    scan function and every look-ahead predicate (`looksLikeDate`'s index arithmetic,
    `looksLikeAccount`, `looksLikeVirtualAccount`, `nextIsLetterCommodity`,
    `nextIsCurrencySymbol`, the blank-group and exponent look-ahead of `scanNumber`, the
    double-blank test of `scanAccount`, multi-byte decoding). -/
theorem next_reads_no_further_than_lf (C : Classes) (z : Z) (x : Bytes) (h : (0x0A : UInt8) ∈ z.after) :
    next C (z.ext x) = ((next C z).1, (next C z).2.ext x) :=
  next_ext x C h

/-- The only look-behind, `followsAmountNumber`, walks back over blanks only: behind a line
    feed the lexer behaves as on a fresh document, with lines and offsets shifted. -/
theorem next_looks_behind_no_further_than_lf (C : Classes) (k : Nat) (pre : Bytes) (z : Z) :
    next C (z.shift k (0x0A :: pre)) =
      (shiftTok k (pre.length + 1) (next C z).1, (next C z).2.shift k (0x0A :: pre)) := by
  rw [next_shift]; simp [shiftR]

/-- One call of `Next` consumes blanks and then either bytes without a line feed (staying on the
    line), or exactly one line feed (with the carriage return in front of it, if any: `sp` is
    blanks, possibly followed by that CR), for which it returns the Newline token and moves to
    column 1 of the next line, at line start. -/
theorem next_consumes_lf_only_as_newline (C : Classes) (z : Z) :
    ∃ cons, z.after = cons ++ (next C z).2.after ∧ (next C z).2.before = cons.reverse ++ z.before ∧
      (((0x0A : UInt8) ∉ cons ∧ (next C z).2.line = z.line ∧ (next C z).1.ty ≠ .newline) ∨
       (∃ sp, cons = sp ++ [0x0A] ∧ (0x0A : UInt8) ∉ sp ∧ (next C z).2.line = z.line + 1 ∧
          (next C z).2.col = 1 ∧ (next C z).2.atStart = true ∧ (next C z).1.ty = .newline)) :=
  (next_step C z).coarse

/-- **Line-locality of the whole stream**, for all byte strings `a`, `b`, no guard:
    `lex (a ++ "\n" ++ b) = lex (a ++ "\n")` without its EOF, followed by `lex b` with lines
    shifted by (number of LF in `a`) + 1 and offsets by `|a| + 1`. -/
theorem lex_line_local (C : Classes) (a b : Bytes) :
    lexAll C (a ++ 0x0A :: b) =
      (lexAll C (a ++ [0x0A])).dropLast ++
        (lexAll C b).map (shiftTok (countLF a + 1) (a.length + 1)) :=
  lexAll_line_local C a b

/-! ### no panic, no exhausted fuel, UTF-8 -/

/-- `utf8.DecodeRuneInString` on any non-empty byte string: the width is between 1 and 4 and
    never exceeds what is there (so `l.pos += size` stays inside the input). -/
theorem decodeRune_width (b : UInt8) (t : Bytes) :
    1 ≤ (Utf8.decodeRune (b :: t)).2 ∧ (Utf8.decodeRune (b :: t)).2 ≤ 4 ∧
      (Utf8.decodeRune (b :: t)).2 ≤ (b :: t).length :=
  ⟨Utf8.decodeRune_width_pos b t, Utf8.decodeRune_width_le4 _, Utf8.decodeRune_width_le_length b t⟩

/-- `DecodeRuneInString(string(c) + r) = (c, RuneLen(c))` for every Unicode scalar value `c`. -/
theorem decodeRune_encodeRune (c : Nat) (r : Bytes) (hv : Utf8.validRune c) :
    Utf8.decodeRune (Utf8.encodeRune c ++ r) = (c, (Utf8.encodeRune c).length) ∧
      Utf8.runeLen c = some (Utf8.encodeRune c).length :=
  Utf8.decodeRune_encodeRune c r hv

/-- The only unguarded index arithmetic of the lexer, `looksLikeDate` (`l.input[l.pos+i]`,
    i ≤ 7, behind the guard `l.pos+8 > len`): the transcription with checked reads never hits an
    index out of range — no panic, for every input. -/
theorem looksLikeDate_no_panic (a : Bytes) : looksLikeDateChk a = some (looksLikeDate a) :=
  looksLikeDateChk_eq a

/-- Every inner loop of the lexer terminates within its fuel (= bytes left): with any larger
    fuel the result is the same.  (`lexAll_fuel_suffices` is the same statement for `Next`.) -/
theorem scan_loops_fuel_suffice (n : Nat) :
    (∀ p z, z.after.length ≤ n → advWhileF p n z = advWhile p z) ∧
    (∀ p z, z.after.length ≤ n → advLineF p n z = advLine p z) ∧
    (∀ z l, z.after.length ≤ n → scanAccountF n z l = scanAccountF z.after.length z l) ∧
    (∀ z hd, z.after.length ≤ n → scanNumberF n z hd = scanNumberF z.after.length z hd) ∧
    (∀ a hc, a.length ≤ n → looksLikeAccountF n a hc = looksLikeAccountF a.length a hc) ∧
    (∀ s, s.length ≤ n → trimLeftFuncF n s = trimLeftFuncF s.length s) ∧
    (∀ s, s.length ≤ n → lastIndexNotSpaceF n s = lastIndexNotSpaceF s.length s) ∧
    (∀ s, s.length ≤ n → Utf8.runesF n s = Utf8.runes s) :=
  ⟨fun p z h => (advWhile_eq_fuel p z n h).symm,
   fun p z h => (advLine_eq_fuel p z n h).symm,
   fun z l h => scanAccountF_fuel _ _ z l h (Nat.le_refl _),
   fun z hd h => scanNumberF_fuel _ _ z hd h (Nat.le_refl _),
   fun a hc h => looksLikeAccountF_fuel _ _ a hc h (Nat.le_refl _),
   fun s h => trimLeftFuncF_fuel _ _ s h (Nat.le_refl _),
   fun s h => lastIndexNotSpaceF_fuel _ _ s h (Nat.le_refl _),
   fun s h => runesF_fuel _ _ s h (Nat.le_refl _)⟩

/-- Soundness of the cache of `(*Lexer).looksLikeAccount` (`noColonFrom`/`noColonUntil`): if a
    scan from `a` walked over `lookStop a` bytes and found no colon, then from every rune
    boundary `j` inside that stretch (the only places the lexer can be at, `advance_on_chain`)
    the scan finds no colon either — answering `false` from the cache is what the uncached
    function would have answered. -/
theorem looksLikeAccount_cache_sound (a : Bytes) (h : looksLikeAccount a = false) (j : Nat)
    (hc : OnChain a j) (hj : j < lookStop a) : looksLikeAccount (a.drop j) = false :=
  HL.Lex.looksLikeAccount_cache_sound a h j hc hj

/-- Non-vacuity / sanity: a concrete stream (date, text, pipe, text, newline, EOF). -/
example : (lexAll Classes.ascii (asc "2024-01-15 a | b\n")).map (·.ty) =
    [.date, .text, .pipe, .text, .newline, .eof] := by decide +kernel

end HL.Props.C06
