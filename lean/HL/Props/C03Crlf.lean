/-
  C03 (shared with C06, C07, C08, C17) — CRLF line ends are line ends.

  The repaired lexer (internal/parser/lexer.go, `atLineEnd`; model HL/Model/Lexer.lean `atEol`)
  treats a carriage return that is directly followed by a line feed as part of the line end.
  `crlf_is_lf`: for EVERY byte string without a carriage return (invalid UTF-8, unterminated
  constructs, any number of lines, with or without a final line end) and every classifier, the
  token stream of the text with every LF replaced by CR LF is the token stream of the text
  itself — same token types, same values, same lines and columns — with every byte offset moved
  by the number of line ends in front of it.  Helper lemmas: HL/Lemmas/LexCrlfLine.lean (one
  line: every scan function, loop and look-ahead), HL/Lemmas/LexCrlfFile.lean (composition with
  line-locality).  On the pinned lexer this was false: `HL.Props.C03Cex.pinned_crlf_line_ends_counterexample`.
-/
import HL.Lemmas.LexCrlfFile
import HL.Lemmas.ParserShift
import HL.Lemmas.GCoreCrlf
import HL.Lemmas.ParseGCore
import HL.Model.Pipeline
namespace HL.Props.C03
open HL HL.Lex

/-- **crlf_is_lf.**  Lexing `t` with every LF replaced by CR LF yields the tokens of `t` with
    every offset moved by the number of preceding line ends (`crShift`: a position on line `n`
    is `n − 1` bytes further on; type, value, line and column of every token are unchanged; a
    Newline token starts at the CR and ends behind the LF).  No guard but the absence of CR in
    `t`: all byte strings, all classifiers. -/
theorem crlf_is_lf (C : Classes) (t : Bytes) (h : (0x0D : UInt8) ∉ t) :
    lexAll C (toCrlf t) = (lexAll C t).map crShift :=
  lexAll_crlf C t h

/-- What `crShift` does to a token, spelled out. -/
theorem crShift_spec (x : Token) :
    (crShift x).ty = x.ty ∧ (crShift x).val = x.val ∧
    (crShift x).pos.line = x.pos.line ∧ (crShift x).pos.col = x.pos.col ∧
    (crShift x).stop.line = x.stop.line ∧ (crShift x).stop.col = x.stop.col ∧
    (crShift x).pos.off = x.pos.off + (x.pos.line - 1) ∧
    (crShift x).stop.off = x.stop.off + (x.stop.line - 1) :=
  ⟨rfl, rfl, rfl, rfl, rfl, rfl, rfl, rfl⟩

/-- Consequently the parser, which never looks at offsets, is handed the same token types, values,
    lines and columns for the CRLF text as for the LF text. -/
theorem crlf_same_tokens (C : Classes) (t : Bytes) (h : (0x0D : UInt8) ∉ t) :
    (lexAll C (toCrlf t)).map (fun x => (x.ty, x.val, x.pos.line, x.pos.col, x.stop.line, x.stop.col)) =
    (lexAll C t).map (fun x => (x.ty, x.val, x.pos.line, x.pos.col, x.stop.line, x.stop.col)) := by
  rw [crlf_is_lf C t h, List.map_map]
  rfl

/-- **Mixed line ends.**  The same for the whole domain "CR only as part of CRLF" — LF files,
    CRLF files and files that mix the two line ends: for every byte string `t` in which every
    carriage return is directly followed by a line feed (`CrOk`) and every classifier, the token
    stream of `t` is the token stream of `t` without its carriage returns — same types, values,
    lines and columns — with every offset moved by the number of carriage returns in front of
    the position's line (`mixShift t`). -/
theorem crlf_mixed_is_lf (C : Classes) (t : Bytes) (h : CrOk t = true) :
    lexAll C t = (lexAll C (dropCR t)).map (mixShift t) :=
  lexAll_mixed C t h

/-- One line (the core of the proof, for every lexer state): with `s ++ "\n"` ahead and neither
    CR nor LF in `s`, lexing `s ++ "\r\n"` instead gives the same tokens; only the end of the
    Newline token and the EOF token lie one byte further on. -/
theorem crlf_is_lf_one_line (C : Classes) (z : Z) (s : Bytes) (hz : z.after = s ++ [0x0A])
    (h1 : (0x0A : UInt8) ∉ s) (h2 : (0x0D : UInt8) ∉ s) :
    lexS C { z with after := s ++ [0x0D, 0x0A] } = (lexS C z).map (crLine z.line) := by
  have hol : OL z := ⟨s, hz, h1, h2⟩
  have : ({ z with after := s ++ [0x0D, 0x0A] } : Z) = z.crx := by
    simp only [Z.crx, hz, crx_append]
  rw [this]
  exact lexS_crx C _ hol (Nat.le_refl _)

/-! ### the parser: the tree and the errors of the CRLF text are those of the LF text -/

open HL.Parser (crlfShift crlfShift_pos crShift_eq_tok)

/-- **CRLF is LF, for the whole of `parser.Parse`.**  For every byte string `t` without a carriage
    return — any text at all: journals inside and outside grammar G, malformed text, invalid
    UTF-8 — and every classifier: parsing `t` with every LF replaced by CR LF yields the syntax
    tree and the error list of `t` itself, with every position moved by `crlfShift` (same lines
    and columns, offsets grown by the number of preceding line ends) and nothing else changed:
    the same transactions, postings, amounts, comments, tags and directives, the same error
    messages.  In particular a journal parses silently with LF line ends iff it does with CRLF
    line ends. -/
theorem crlf_parse_is_lf (C : Classes) (t : Bytes) (h : (0x0D : UInt8) ∉ t) :
    HL.Pipeline.parseText C (toCrlf t) =
      (crlfShift.journal (HL.Pipeline.parseText C t).1, (HL.Pipeline.parseText C t).2.map crlfShift.perr) := by
  unfold HL.Pipeline.parseText
  rw [crlf_is_lf C t h]
  have : (lexAll C t).map crShift = (lexAll C t).map crlfShift.tok :=
    List.map_congr_left fun x _ => crShift_eq_tok x
  rw [this]
  exact HL.Parser.parseTokens_shift _ _ crlfShift _

/-- silently with LF ⇔ silently with CRLF -/
theorem crlf_same_errors (C : Classes) (t : Bytes) (h : (0x0D : UInt8) ∉ t) :
    (HL.Pipeline.parseText C (toCrlf t)).2 = [] ↔ (HL.Pipeline.parseText C t).2 = [] := by
  rw [crlf_parse_is_lf C t h]
  simp

/-! ### the core grammar, printed with CRLF line ends -/

/-- **C03 for the core grammar with CRLF line ends.**  Every well-formed `GCore` journal — any
    number of transactions and postings, names, words and digit strings of any length — printed
    with `"\r\n"` line ends (`GCore.printC true`) parses without a single error to exactly the
    tree that text was written from (`GCore.expectedC true`: the nodes, lines and columns of the
    LF tree, every offset counted in the CRLF text), for every classifier that gets the ASCII
    letters right.  Composition of `C03_faithful_core` with `crlf_parse_is_lf`. -/
theorem C03_faithful_core_crlf_classes (C : Classes) (hC : GCore.ClassesOk C = true) (j : GCore.Journal)
    (h : GCore.WF j = true) :
    HL.Pipeline.parseText C (GCore.printC true j) = (GCore.expectedC true j, []) := by
  rw [GCore.printC_true j h, crlf_parse_is_lf C _ (GCore.print_noCR j h), GCore.expectedC_true]
  have : HL.Pipeline.parseText C (GCore.print j) = (GCore.expected j, []) := by
    unfold HL.Pipeline.parseText
    rw [GCore.lexAll_print C hC j h]
    exact GCore.parseTokens_toks _ j h
  rw [this]
  rfl

theorem C03_faithful_core_crlf (j : GCore.Journal) (h : GCore.WF j = true) :
    HL.Pipeline.parseText Classes.go (GCore.printC true j) = (GCore.expectedC true j, []) :=
  C03_faithful_core_crlf_classes Classes.go (by decide +kernel) j h

/-- With LF line ends `printC` / `expectedC` are `print` / `expected`: the statement above for
    `cr = false` is `C03_faithful_core`. -/
theorem printC_expectedC_false (j : GCore.Journal) :
    GCore.printC false j = GCore.print j ∧ GCore.expectedC false j = GCore.expected j :=
  ⟨GCore.printC_false j, GCore.expectedC_false j⟩

/-- non-vacuity: a two-transaction journal with every optional part, by evaluation of the model -/
example :
    let j : GCore.Journal := [
      { date := ⟨[50, 48, 50, 52], [48, 49], [49, 53]⟩
        words := [[103, 114, 111, 99, 101, 114, 121], [115, 116, 111, 114, 101]]
        postings := [
          ⟨[[97, 115, 115, 101, 116, 115], [99, 97, 115, 104]], some ⟨true, [49, 50], some [53, 48], some [85, 83, 68]⟩⟩,
          ⟨[[101, 120, 112, 101, 110, 115, 101, 115], [102, 111, 111, 100], [120]], none⟩] },
      { date := ⟨[50, 48, 50, 52], [48, 50], [48, 49]⟩
        words := [[114, 101, 110, 116]]
        postings := [
          ⟨[[97], [98]], some ⟨false, [49, 50, 48, 48], none, none⟩⟩,
          ⟨[[99], [100]], some ⟨false, [48], some [49, 50, 53], some [69]⟩⟩] }]
    GCore.WF j = true ∧ (GCore.printC true j).length = (GCore.print j).length + 7 ∧
      HL.Pipeline.parseText Classes.go (GCore.printC true j) = (GCore.expectedC true j, []) := by
  decide +kernel

/-- Non-vacuity, evaluated by the kernel: a three-line journal with a comment, a code, a quoted
    commodity and a line without a final line end. -/
example :
    let t : Bytes := asc "2024-01-15 * (c1) shop | note ; k:v\n    a:b  1 \"X Y\" @ 2 USD  ; c\n\n    (c:d)  -3 EUR"
    (0x0D : UInt8) ∉ t ∧ lexAll Classes.go (toCrlf t) = (lexAll Classes.go t).map crShift ∧
      (lexAll Classes.go t).length = 26 := by decide +kernel

end HL.Props.C03
