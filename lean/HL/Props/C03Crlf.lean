/-
  C03 (shared with C06, C07, C08, C17) — CRLF line ends are line ends.

  The repaired lexer (internal/parser/lexer.go, `atLineEnd`; model HL/Model/Lexer.lean `atEol`)
  treats a carriage return that is directly followed by a line feed as part of the line end.
  `crlf_is_lf`: for EVERY byte string without a carriage return (invalid UTF-8, unterminated
  constructs, any number of lines, with or without a final line end) and every classifier, the
  token stream of the text with every LF replaced by CR LF is the token stream of the text
  itself — same token types, same values, same lines and columns — with every byte offset moved
  by the number of line ends in front of it.  Helper lemmas: HL/Lemmas/LexCrlfLine.lean (one
  line: every scan function, loop and look-ahead), HL/Lemmas/LexCrlfFile.lean (composition with
  line-locality).  On the pinned lexer this was false: `HL.Props.C03Cex.pinned_crlf_line_ends_counterexample`.
-/
import HL.Lemmas.LexCrlfFile
namespace HL.Props.C03
open HL HL.Lex

/-- **crlf_is_lf.**  Lexing `t` with every LF replaced by CR LF yields the tokens of `t` with
    every offset moved by the number of preceding line ends (`crShift`: a position on line `n`
    is `n − 1` bytes further on; type, value, line and column of every token are unchanged; a
    Newline token starts at the CR and ends behind the LF).  No guard but the absence of CR in
    `t`: all byte strings, all classifiers. -/
theorem crlf_is_lf (C : Classes) (t : Bytes) (h : (0x0D : UInt8) ∉ t) :
    lexAll C (toCrlf t) = (lexAll C t).map crShift :=
  lexAll_crlf C t h

/-- What `crShift` does to a token, spelled out. -/
theorem crShift_spec (x : Token) :
    (crShift x).ty = x.ty ∧ (crShift x).val = x.val ∧
    (crShift x).pos.line = x.pos.line ∧ (crShift x).pos.col = x.pos.col ∧
    (crShift x).stop.line = x.stop.line ∧ (crShift x).stop.col = x.stop.col ∧
    (crShift x).pos.off = x.pos.off + (x.pos.line - 1) ∧
    (crShift x).stop.off = x.stop.off + (x.stop.line - 1) :=
  ⟨rfl, rfl, rfl, rfl, rfl, rfl, rfl, rfl⟩

/-- Consequently the parser, which never looks at offsets, is handed the same token types, values,
    lines and columns for the CRLF text as for the LF text. -/
theorem crlf_same_tokens (C : Classes) (t : Bytes) (h : (0x0D : UInt8) ∉ t) :
    (lexAll C (toCrlf t)).map (fun x => (x.ty, x.val, x.pos.line, x.pos.col, x.stop.line, x.stop.col)) =
    (lexAll C t).map (fun x => (x.ty, x.val, x.pos.line, x.pos.col, x.stop.line, x.stop.col)) := by
  rw [crlf_is_lf C t h, List.map_map]
  rfl

/-- One line (the core of the proof, for every lexer state): with `s ++ "\n"` ahead and neither
    CR nor LF in `s`, lexing `s ++ "\r\n"` instead gives the same tokens; only the end of the
    Newline token and the EOF token lie one byte further on. -/
theorem crlf_is_lf_one_line (C : Classes) (z : Z) (s : Bytes) (hz : z.after = s ++ [0x0A])
    (h1 : (0x0A : UInt8) ∉ s) (h2 : (0x0D : UInt8) ∉ s) :
    lexS C { z with after := s ++ [0x0D, 0x0A] } = (lexS C z).map (crLine z.line) := by
  have hol : OL z := ⟨s, hz, h1, h2⟩
  have : ({ z with after := s ++ [0x0D, 0x0A] } : Z) = z.crx := by
    simp only [Z.crx, hz, crx_append]
  rw [this]
  exact lexS_crx C _ hol (Nat.le_refl _)

/-- Non-vacuity, evaluated by the kernel: a three-line journal with a comment, a code, a quoted
    commodity and a line without a final line end. -/
example :
    let t : Bytes := asc "2024-01-15 * (c1) shop | note ; k:v\n    a:b  1 \"X Y\" @ 2 USD  ; c\n\n    (c:d)  -3 EUR"
    (0x0D : UInt8) ∉ t ∧ lexAll Classes.go (toCrlf t) = (lexAll Classes.go t).map crShift ∧
      (lexAll Classes.go t).length = 26 := by decide +kernel

end HL.Props.C03
