import HL.Props.C02
import HL.Props.C03Faithful
import HL.Lemmas.GCoreValue
import HL.Lemmas.BalanceDiag
/-!
  C02 "Unbalanced-transaction verdicts are exact" — the composed theorem from TEXT to VERDICT
  for the core grammar `GCore` (HL/Spec/GCore.lean), unbounded in every dimension.

  `C02_pipeline_core`: for EVERY well-formed `GCore` journal `j` — any number of transactions,
  postings, digits — the balance diagnostics that the model of `Analyzer.Analyze`
  (`Balance.analyzeBalance`, HL/Model/BalanceDiag.lean) computes on the model of
  `parser.Parse` applied to the printed text `GCore.print j` are, transaction by transaction in
  the order written, each attached to its transaction's range in the text, exactly the codes the
  exact-sum rule `Spec.Bal.verdict` demands for the values WRITTEN (`GCore.txImage`, positional
  value of the digit strings): UNBALANCED iff no posting lacks an amount and the exact rational
  sum of the written values differs from zero in some commodity, MULTIPLE_INFERRED iff more
  than one posting lacks an amount, nothing otherwise (`core_code_iff`).  The analysis never
  panics on such a journal (no costs, so no `decimal.Mul`; `not_overflows_expected`).

  `C02_pipeline_core_messages`: each published diagnostic, whole: range, severity, code, the
  fixed MULTIPLE_INFERRED text, and for UNBALANCED the message assembled from a list of
  (commodity, number) pairs, each commodity once, such that the number text printed after
  "off by" (`Decimal.String()`), read back as a decimal, is the exact absolute value of the
  written sum of that commodity, and exactly the commodities with a non-zero sum are named.

  Put together from `C03_faithful_core` (text → tree), `quantity_toRat` / `image_expected`
  (tree → written values), `check_exact` / `message_numbers_exact` (tree → verdict) and
  `Num.toString_roundtrip` (numbers in the message).

  `analyzeBalance_exact` / `analyzeBalance_codes` are the same statements for ANY syntax tree
  whose transactions do not overflow `decimal.Mul` (verdict of the rational image of the tree).
-/
namespace HL.Props.C02
open HL HL.Ast HL.Balance HL.Spec.Bal

/-! ### what a published balance diagnostic states -/

/-- The UNBALANCED message names residuals `res`: it is assembled from a list of
    (commodity, decimal) pairs, each commodity once; the number named for `c`, as `read`, is
    the absolute residual of `c`, and exactly the commodities with a non-zero residual occur. -/
def NamesResiduals (read : Dec → Option Rat) (msg : Bytes) (res : Bytes → Rat) : Prop :=
  ∃ named : Sums,
    msg = bs "transaction does not balance: " ++ messageParts named ∧
    (KV.keys named).Nodup ∧
    ∀ c, (KV.find? named c).bind read = if res c = 0 then none else some (rabs (res c))

/-- Diagnostic `d` is the one the exact-sum rule demands for the transaction `tx` (as exact
    rationals) standing at `rng`. -/
structure States (read : Dec → Option Rat) (d : BalDiag) (rng : Rng) (tx : RTx) : Prop where
  range : d.range = rng
  severity : d.severity = 0
  code : some d.code = codeOf (verdict tx)
  multiple : d.code = .multipleInferred →
    d.message = bs "transaction has multiple postings without amounts"
  unbalanced : d.code = .unbalanced → NamesResiduals read d.message (residual totalBySignum tx)

/-- element-wise relation between two lists of the same length (core has no `List.Forall₂`) -/
inductive Matched {α β} (R : α → β → Prop) : List α → List β → Prop
  | nil : Matched R [] []
  | cons {a b as bs} : R a b → Matched R as bs → Matched R (a :: as) (b :: bs)

/-- the decimal itself -/
def readDec (v : Dec) : Option Rat := some (Dec.toRat v)
/-- the decimal as PRINTED in the message (`Decimal.String()`) and read back -/
def readPrinted (v : Dec) : Option Rat := (Dec.ofString (Dec.toString v)).map Dec.toRat

/-! ### one transaction of any syntax tree -/

/-- `CheckBalance` + `createBalanceDiagnostic` on one transaction: a diagnostic is made exactly
    when the verdict demands one, and it states that verdict. -/
theorem txDiag_exact (read : Dec → Option Rat) (tx : Transaction) (h : ¬ Overflows tx)
    (hread : ∀ r, check tx = some r → ∀ kv ∈ r.differences, read kv.2 = some (Dec.toRat kv.2)) :
    ∃ r, check tx = some r ∧
      (r.balanced = true → codeOf (verdict (image tx)) = none) ∧
      (r.balanced = false → (codeOf (verdict (image tx))).isSome = true ∧
        States read (mkBalDiag tx r) tx.range (image tx)) := by
  have hc := check_exact tx
  cases hr : check tx with
  | none => rw [hr] at hc; exact absurd hc h
  | some r =>
    refine ⟨r, rfl, ?_⟩
    have hc' := hc
    rw [hr] at hc'
    cases hv : verdict (image tx) with
    | ok =>
      rw [hv] at hc'
      refine ⟨fun _ => rfl, fun hb => ?_⟩
      rw [hc'.1] at hb; cases hb
    | multiple =>
      rw [hv] at hc'
      obtain ⟨h1, h2, h3⟩ := hc'
      refine ⟨fun hb => (by rw [h1] at hb; cases hb), fun _ => ⟨rfl, ?_⟩⟩
      have hbd : balanceDiagnostic r =
          (.multipleInferred, bs "transaction has multiple postings without amounts") := by
        unfold balanceDiagnostic
        simp [h2, h3]
      refine ⟨rfl, rfl, ?_, ?_, ?_⟩
      · show some (balanceDiagnostic r).1 = _
        rw [hbd, hv]; rfl
      · intro _
        show (balanceDiagnostic r).2 = _
        rw [hbd]
      · intro hcode
        have : (balanceDiagnostic r).1 = .unbalanced := hcode
        rw [hbd] at this
        cases this
    | unbalanced d =>
      rw [hv] at hc'
      obtain ⟨h1, h2, h3, _⟩ := hc'
      refine ⟨fun hb => (by rw [h1] at hb; cases hb), fun _ => ⟨rfl, ?_⟩⟩
      have hne : r.differences.isEmpty = false := by
        cases hh : r.differences with
        | nil => exact absurd hh h2
        | cons _ _ => rfl
      have hbd : balanceDiagnostic r =
          (.unbalanced, bs "transaction does not balance: " ++ messageParts (sortedDifferences r.differences)) := by
        unfold balanceDiagnostic
        simp [hne]
      refine ⟨rfl, rfl, ?_, ?_, ?_⟩
      · show some (balanceDiagnostic r).1 = _
        rw [hbd, hv]; rfl
      · intro hcode
        have : (balanceDiagnostic r).1 = .multipleInferred := hcode
        rw [hbd] at this
        cases this
      · intro _
        refine ⟨sortedDifferences r.differences, ?_, ?_, ?_⟩
        · show (balanceDiagnostic r).2 = _
          rw [hbd]
        · rw [keys_sortedDifferences]
          exact (sortStrings_perm' _).nodup_iff.2 h3
        · intro c
          rw [find?_sortedDifferences _ h3]
          have hm := message_numbers_exact tx r hr h1 h2 c
          cases hf : KV.find? r.differences c with
          | none => rw [hf] at hm; simpa using hm
          | some v =>
            rw [hf] at hm
            simp only [Option.bind_some]
            rw [hread r hr (c, v) (KV.mem_of_find? _ _ _ hf)]
            simpa using hm

/-! ### the analysis of any syntax tree -/

/-- the transactions for which the exact-sum rule demands a diagnostic -/
def flagged (txs : List Transaction) : List Transaction :=
  txs.filter fun tx => (codeOf (verdict (image tx))).isSome

/-- **analyzeBalance_exact** (any tree).  If no transaction overflows `decimal.Mul`, the
    analysis returns, in order, one diagnostic for each transaction the exact-sum rule flags on
    the rational image of the tree and none for the others; each states its verdict. -/
theorem analyzeTxs_exact (read : Dec → Option Rat) (txs : List Transaction)
    (h : ∀ tx ∈ txs, ¬ Overflows tx)
    (hread : ∀ tx ∈ txs, ∀ r, check tx = some r → ∀ kv ∈ r.differences, read kv.2 = some (Dec.toRat kv.2)) :
    ∃ ds, analyzeTxs txs = some ds ∧
      Matched (fun d tx => States read d tx.range (image tx)) ds (flagged txs) := by
  induction txs with
  | nil => exact ⟨[], rfl, Matched.nil⟩
  | cons tx rest ih =>
    obtain ⟨ds, hds, hall⟩ := ih (fun t ht => h t (List.mem_cons_of_mem _ ht))
      (fun t ht => hread t (List.mem_cons_of_mem _ ht))
    obtain ⟨r, hr, hb1, hb2⟩ := txDiag_exact read tx (h tx List.mem_cons_self) (hread tx List.mem_cons_self)
    unfold analyzeTxs
    rw [hr, hds]
    simp only
    unfold flagged
    rw [List.filter_cons]
    cases hbal : r.balanced with
    | true =>
      rw [hb1 hbal]
      exact ⟨ds, rfl, hall⟩
    | false =>
      obtain ⟨hs, hst⟩ := hb2 hbal
      rw [hs]
      exact ⟨mkBalDiag tx r :: ds, rfl, Matched.cons hst hall⟩

theorem analyzeBalance_exact (j : Journal) (h : ∀ tx ∈ j.transactions, ¬ Overflows tx) :
    ∃ ds, analyzeBalance j = some ds ∧
      Matched (fun d tx => States readDec d tx.range (image tx)) ds (flagged j.transactions) :=
  analyzeTxs_exact readDec j.transactions h (fun _ _ _ _ _ _ => rfl)

/-- (range, code) of the diagnostics a list of transactions demands -/
def demandedOf (txs : List Transaction) : List (Rng × Code) :=
  txs.filterMap fun tx => (codeOf (verdict (image tx))).map fun c => (tx.range, c)

theorem forall₂_codes {α} (read : Dec → Option Rat) (rngOf : α → Rng) (imgOf : α → RTx)
    (ds : List BalDiag) (l : List α)
    (h : Matched (fun d x => States read d (rngOf x) (imgOf x)) ds
      (l.filter fun x => (codeOf (verdict (imgOf x))).isSome)) :
    ds.map (fun d => (d.range, d.code)) =
      l.filterMap fun x => (codeOf (verdict (imgOf x))).map fun c => (rngOf x, c) := by
  induction l generalizing ds with
  | nil => cases h; rfl
  | cons x l ih =>
    rw [List.filter_cons] at h
    rw [List.filterMap_cons]
    cases hx : codeOf (verdict (imgOf x)) with
    | none =>
      rw [hx] at h
      simp only [Option.isSome_none, Bool.false_eq_true, if_false] at h
      simp only [Option.map_none]
      exact ih ds h
    | some c =>
      rw [hx] at h
      simp only [Option.isSome_some, if_true] at h
      cases h with
      | cons hd htl =>
        rename_i d ds'
        simp only [Option.map_some, List.map_cons]
        rw [ih ds' htl]
        have := hd.code
        rw [hx] at this
        cases this
        rw [hd.range]

/-- **analyzeBalance_codes** (any tree): the list of (range, code) published. -/
theorem analyzeBalance_codes (j : Journal) (h : ∀ tx ∈ j.transactions, ¬ Overflows tx) :
    (analyzeBalance j).map (List.map fun d => (d.range, d.code)) = some (demandedOf j.transactions) := by
  obtain ⟨ds, hds, hall⟩ := analyzeBalance_exact j h
  rw [hds]
  simp only [Option.map_some, Option.some.injEq]
  exact forall₂_codes readDec (fun tx : Transaction => tx.range) image ds j.transactions hall

/-! ### the core grammar: from the tree to the written values -/

open HL.GCore in
/-- A tree of the core grammar holds no cost, so `decimal.Mul` is never called:
    `CheckBalance` cannot panic, whatever the digit counts. -/
theorem not_overflows_expected (t : GCore.Tx) (ln o : Nat) : ¬ Overflows (t.expected ln o) := by
  rintro ⟨_, p, hp, a, c, _, hc, _⟩
  have hp' : p ∈ (t.expected ln o).postings := (List.mem_filter.1 hp).1
  have := cost_expectedPostings t.postings _ _ p hp'
  rw [this] at hc
  cases hc

theorem mem_expectedTxs (ts : List GCore.Tx) (ln o : Nat) (tx : Transaction)
    (h : tx ∈ GCore.expectedTxs ts ln o) : ∃ t ∈ ts, ∃ ln' o', tx = t.expected ln' o' := by
  induction ts generalizing ln o with
  | nil => cases h
  | cons t ts ih =>
    simp only [GCore.expectedTxs, List.mem_cons] at h
    rcases h with h | h
    · exact ⟨t, List.mem_cons_self, ln, o, h⟩
    · obtain ⟨t', ht', r⟩ := ih _ _ h
      exact ⟨t', List.mem_cons_of_mem _ ht', r⟩

theorem check_differences (tx : Transaction) (r : Result) (h : check tx = some r) :
    r.differences = [] ∨
    ∃ sums, sumByCommodity (filterReal tx.postings) [] = some sums ∧ r.differences = differencesOf sums := by
  unfold check at h
  simp only at h
  generalize countInferred (filterReal tx.postings) 0 (0, -1) = ci at h
  obtain ⟨cnt, idx⟩ := ci
  simp only at h
  by_cases h1 : cnt > 1
  · simp only [h1, if_true, Option.some.injEq] at h
    subst h
    exact Or.inl rfl
  · simp only [h1, if_false] at h
    cases hs : sumByCommodity (filterReal tx.postings) [] with
    | none => rw [hs] at h; cases h
    | some sums =>
      rw [hs] at h
      simp only at h
      cases h2 : (cnt == 1) with
      | true =>
        simp only [h2, if_true, Option.some.injEq] at h
        subst h
        exact Or.inl rfl
      | false =>
        simp only [h2, Bool.false_eq_true, if_false, Option.some.injEq] at h
        subst h
        exact Or.inr ⟨sums, rfl, rfl⟩

/-- In a well-formed transaction of the core grammar every difference `CheckBalance` reports
    has a decimal exponent between -1000 and 0 (minus a number of decimals written). -/
theorem differences_exp_expected (t : GCore.Tx) (ln o : Nat) (hwf : t.wf = true) (r : Result)
    (h : check (t.expected ln o) = some r) : ∀ kv ∈ r.differences, -1000 ≤ kv.2.exp := by
  intro kv hkv
  rcases check_differences _ r h with e | ⟨sums, hs, e⟩
  · rw [e] at hkv; cases hkv
  · rw [e] at hkv
    obtain ⟨v0, hv0, hv⟩ := mem_differencesOf sums kv hkv
    rw [hv, abs_exp]
    have hps : t.postings.all GCore.Posting.wf = true := by
      unfold GCore.Tx.wf at hwf
      simp only [Bool.and_eq_true] at hwf
      exact hwf.2
    refine sum_exp_lower _ [] sums hs (-1000) (by omega) (fun _ hm => by cases hm) ?_ (kv.1, v0) hv0
    intro p hp k q hc
    have hp' : p ∈ (t.expected ln o).postings := (List.mem_filter.1 hp).1
    have hcost := GCore.cost_expectedPostings t.postings _ _ p hp'
    unfold contribution at hc
    cases ha : p.amount with
    | none => rw [ha] at hc; cases hc
    | some a =>
      rw [ha, hcost] at hc
      simp only [Option.some.injEq, Prod.mk.injEq] at hc
      rw [← hc.2]
      exact (GCore.exp_expectedPostings t.postings _ _ hps p hp' a ha).1

/-- so the number printed for it reads back as its exact value -/
theorem readPrinted_expected (t : GCore.Tx) (ln o : Nat) (hwf : t.wf = true) (r : Result)
    (h : check (t.expected ln o) = some r) :
    ∀ kv ∈ r.differences, readPrinted kv.2 = some (Dec.toRat kv.2) := by
  intro kv hkv
  have := differences_exp_expected t ln o hwf r h kv hkv
  exact Num.toString_roundtrip kv.2 (by unfold Dec.int32Min; omega)

/-! ### the rule on the written values, spelled out -/

theorem real_txImage (t : GCore.Tx) : real (GCore.txImage t) = GCore.txImage t := by
  unfold real GCore.txImage
  apply List.filter_eq_self.2
  intro a ha
  obtain ⟨p, _, rfl⟩ := List.mem_map.1 ha
  rfl

/-- the "missing" postings of the rule are the postings written without an amount -/
theorem missing_txImage (t : GCore.Tx) : missing (GCore.txImage t) = GCore.amountless t := by
  unfold missing
  rw [real_txImage]
  unfold GCore.txImage GCore.amountless
  rw [List.filter_map, List.length_map]
  congr 1
  apply List.filter_congr
  intro p _
  simp [GCore.postingImage]

/-- the residual of the rule is the exact sum of the values written in that commodity -/
theorem residual_txImage (rule : TotalRule) (t : GCore.Tx) (c : Bytes) :
    residual rule (GCore.txImage t) c = GCore.writtenSum t c := by
  unfold residual contributions
  rw [real_txImage]
  unfold GCore.txImage GCore.writtenSum
  rw [List.filterMap_map]
  congr 2
  funext p
  simp only [Function.comp, converted, GCore.postingImage]
  cases p.amount with
  | none => rfl
  | some a => rfl

theorem diffs_ne_nil_iff (rule : TotalRule) (tx : RTx) :
    diffs rule tx ≠ [] ↔ ∃ c, residual rule tx c ≠ 0 := by
  constructor
  · intro h
    cases hd : diffs rule tx with
    | nil => exact absurd hd h
    | cons kv rest =>
      obtain ⟨k, v⟩ := kv
      refine ⟨k, fun hz => ?_⟩
      have := find?_diffs rule tx k
      rw [hd, hz] at this
      simp [KV.find?] at this
  · rintro ⟨c, hc⟩ hd
    have := find?_diffs rule tx c
    rw [hd] at this
    simp [KV.find?, hc] at this

/-- **core_code_iff.**  The verdict on a transaction of the core grammar, in words:
    MULTIPLE_INFERRED iff more than one posting is written without an amount; UNBALANCED iff
    every posting has an amount and the exact sum of the written values differs from zero in
    some commodity; nothing otherwise. -/
theorem core_code_iff (t : GCore.Tx) :
    (codeOf (verdict (GCore.txImage t)) = some .multipleInferred ↔ GCore.amountless t > 1) ∧
    (codeOf (verdict (GCore.txImage t)) = some .unbalanced ↔
      GCore.amountless t = 0 ∧ ∃ c, GCore.writtenSum t c ≠ 0) ∧
    (codeOf (verdict (GCore.txImage t)) = none ↔
      GCore.amountless t = 1 ∨ (GCore.amountless t = 0 ∧ ∀ c, GCore.writtenSum t c = 0)) := by
  have hd := diffs_ne_nil_iff totalBySignum (GCore.txImage t)
  simp only [residual_txImage] at hd
  have hm := missing_txImage t
  by_cases h1 : GCore.amountless t > 1
  · have hv : verdict (GCore.txImage t) = .multiple := by
      unfold verdict verdictWith
      rw [hm, if_pos h1]
    rw [hv]
    refine ⟨⟨fun _ => h1, fun _ => rfl⟩, ⟨fun h => ?_, fun h => ?_⟩, ⟨fun h => ?_, fun h => ?_⟩⟩
    · cases h
    · omega
    · cases h
    · omega
  · by_cases h2 : GCore.amountless t = 1
    · have hv : verdict (GCore.txImage t) = .ok := by
        unfold verdict verdictWith
        rw [hm, if_neg h1, if_pos h2]
      rw [hv]
      refine ⟨⟨fun h => ?_, fun h => ?_⟩, ⟨fun h => ?_, fun h => ?_⟩, ⟨fun _ => Or.inl h2, fun _ => rfl⟩⟩
      · cases h
      · omega
      · cases h
      · omega
    · have h0 : GCore.amountless t = 0 := by omega
      cases hdd : diffs totalBySignum (GCore.txImage t) with
      | nil =>
        have hall : ∀ c, GCore.writtenSum t c = 0 := by
          intro c
          apply Classical.byContradiction
          intro hc
          exact (hd.2 ⟨c, hc⟩) hdd
        have hv : verdict (GCore.txImage t) = .ok := by
          unfold verdict verdictWith
          rw [hm, if_neg h1, if_neg h2]
          simp only [hdd, List.isEmpty_nil, if_true]
        rw [hv]
        refine ⟨⟨fun h => ?_, fun h => ?_⟩, ⟨fun h => ?_, fun h => ?_⟩, ⟨fun _ => Or.inr ⟨h0, hall⟩, fun _ => rfl⟩⟩
        · cases h
        · omega
        · cases h
        · obtain ⟨_, c, hc⟩ := h
          exact absurd (hall c) hc
      | cons kv rest =>
        have hex : ∃ c, GCore.writtenSum t c ≠ 0 := hd.1 (by rw [hdd]; exact List.cons_ne_nil _ _)
        have hv : verdict (GCore.txImage t) = .unbalanced (kv :: rest) := by
          unfold verdict verdictWith
          rw [hm, if_neg h1, if_neg h2]
          simp only [hdd, List.isEmpty_cons, Bool.false_eq_true, if_false]
        rw [hv]
        refine ⟨⟨fun h => ?_, fun h => ?_⟩, ⟨fun _ => ⟨h0, hex⟩, fun _ => rfl⟩, ⟨fun h => ?_, fun h => ?_⟩⟩
        · cases h
        · omega
        · cases h
        · rcases h with h | ⟨_, hall⟩
          · exact absurd h h2
          · obtain ⟨c, hc⟩ := hex
            exact absurd (hall c) hc

/-! ### the composed theorem -/

/-- (range, code) of the diagnostics the exact-sum rule demands for the journal as WRITTEN:
    for each transaction, in order, with its range in the printed text. -/
def demanded (j : GCore.Journal) : List (Rng × Code) :=
  (GCore.located j).filterMap fun tr => (codeOf (verdict (GCore.txImage tr.1))).map fun c => (tr.2, c)

/-- the located transactions for which the rule demands a diagnostic -/
def flaggedCore (j : GCore.Journal) : List (GCore.Tx × Rng) :=
  (GCore.located j).filter fun tr => (codeOf (verdict (GCore.txImage tr.1))).isSome

theorem forall₂_expected (read : Dec → Option Rat) (ts : List GCore.Tx) (ln o : Nat) (ds : List BalDiag)
    (h : Matched (fun d tx => States read d tx.range (image tx)) ds (flagged (GCore.expectedTxs ts ln o))) :
    Matched (fun d (tr : GCore.Tx × Rng) => States read d tr.2 (GCore.txImage tr.1)) ds
      ((ts.zip (GCore.txRanges ts ln o)).filter fun tr => (codeOf (verdict (GCore.txImage tr.1))).isSome) := by
  induction ts generalizing ln o ds with
  | nil => cases h; exact Matched.nil
  | cons t ts ih =>
    unfold flagged at h
    simp only [GCore.expectedTxs, GCore.txRanges, List.zip_cons_cons] at h ⊢
    rw [List.filter_cons] at h ⊢
    rw [GCore.image_expected] at h
    simp only
    cases hx : (codeOf (verdict (GCore.txImage t))).isSome with
    | false =>
      rw [hx] at h
      simp only [Bool.false_eq_true, if_false] at h ⊢
      exact ih _ _ ds h
    | true =>
      rw [hx] at h
      simp only [if_true] at h ⊢
      cases h with
      | cons hd htl =>
        refine Matched.cons ?_ (ih _ _ _ htl)
        rw [GCore.image_expected] at hd
        exact hd

/-- **C02_pipeline_core_messages.**  Text → published balance diagnostics, whole: for every
    well-formed journal of the core grammar the analysis of the parsed text returns (never
    panics), and its diagnostics are, in order, one for each transaction the exact-sum rule flags
    on the written values — at that transaction's range, severity error, with the demanded code,
    the fixed text for MULTIPLE_INFERRED, and for UNBALANCED a message naming exactly the
    commodities whose written sum is not zero, each once, the printed number reading back as the
    exact absolute value of that sum. -/
theorem C02_pipeline_core_messages (j : GCore.Journal) (h : GCore.WF j = true) :
    ∃ ds, analyzeBalance (Pipeline.parseText Classes.go (GCore.print j)).1 = some ds ∧
      Matched (fun d (tr : GCore.Tx × Rng) => States readPrinted d tr.2 (GCore.txImage tr.1))
        ds (flaggedCore j) := by
  rw [C03.C03_faithful_core j h]
  show ∃ ds, analyzeTxs (GCore.expectedTxs j 1 0) = some ds ∧ _
  have hwf : ∀ t ∈ j, t.wf = true := by
    unfold GCore.WF at h
    exact List.all_eq_true.1 h
  obtain ⟨ds, hds, hall⟩ := analyzeTxs_exact readPrinted (GCore.expectedTxs j 1 0)
    (by
      intro tx htx
      obtain ⟨t, _, ln, o, rfl⟩ := mem_expectedTxs j 1 0 tx htx
      exact not_overflows_expected t ln o)
    (by
      intro tx htx r hr
      obtain ⟨t, ht, ln, o, rfl⟩ := mem_expectedTxs j 1 0 tx htx
      exact readPrinted_expected t ln o (hwf t ht) r hr)
  exact ⟨ds, hds, forall₂_expected readPrinted j 1 0 ds hall⟩

/-- **C02_pipeline_core.**  Text → verdict: the (range, code) pairs of the balance diagnostics
    that the analysis publishes for the parsed text of a well-formed journal of the core grammar
    are exactly, in order, those the exact-sum rule demands for the values written
    (`demanded`; `core_code_iff` spells the rule out). -/
theorem C02_pipeline_core (j : GCore.Journal) (h : GCore.WF j = true) :
    (analyzeBalance (Pipeline.parseText Classes.go (GCore.print j)).1).map
        (List.map fun d => (d.range, d.code)) = some (demanded j) := by
  obtain ⟨ds, hds, hall⟩ := C02_pipeline_core_messages j h
  rw [hds]
  simp only [Option.map_some, Option.some.injEq]
  exact forall₂_codes readPrinted (fun tr : GCore.Tx × Rng => tr.2) (fun tr => GCore.txImage tr.1) ds
    (GCore.located j) hall

/-- The numbers of an UNBALANCED message, separately: if the analysis of the parsed text attaches
    an UNBALANCED diagnostic to the `i`-th flagged transaction, the message is assembled from
    pairs (commodity, number) in which `c` occurs iff the written sum of `c` is not zero, and
    then the text printed after "off by" reads back as exactly |written sum of c|. -/
theorem C02_pipeline_core_numbers (j : GCore.Journal) (h : GCore.WF j = true)
    (ds : List BalDiag) (hds : analyzeBalance (Pipeline.parseText Classes.go (GCore.print j)).1 = some ds)
    (i : Nat) (d : BalDiag) (tr : GCore.Tx × Rng) (hd : ds[i]? = some d) (ht : (flaggedCore j)[i]? = some tr)
    (hu : d.code = .unbalanced) :
    ∃ named : Sums, d.message = bs "transaction does not balance: " ++ messageParts named ∧
      (KV.keys named).Nodup ∧
      ∀ c, (KV.find? named c).bind readPrinted =
        if GCore.writtenSum tr.1 c = 0 then none else some (rabs (GCore.writtenSum tr.1 c)) := by
  obtain ⟨ds', hds', hall⟩ := C02_pipeline_core_messages j h
  rw [hds] at hds'
  cases hds'
  have hst : States readPrinted d tr.2 (GCore.txImage tr.1) := by
    clear hds
    generalize flaggedCore j = fl at hall ht
    induction hall generalizing i with
    | nil => simp at hd
    | cons hx _ ih =>
      cases i with
      | zero =>
        simp only [List.getElem?_cons_zero, Option.some.injEq] at hd ht
        subst hd; subst ht
        exact hx
      | succ i =>
        simp only [List.getElem?_cons_succ] at hd ht
        exact ih i hd ht
  obtain ⟨named, h1, h2, h3⟩ := hst.unbalanced hu
  refine ⟨named, h1, h2, fun c => ?_⟩
  rw [h3 c, residual_txImage]

/-- the codes alone depend on the written values only (not on where the text stands) -/
theorem demanded_codes (j : GCore.Journal) :
    (demanded j).map (·.2) = (j.map GCore.txImage).filterMap fun x => codeOf (verdict x) := by
  unfold demanded GCore.located
  generalize (1 : Nat) = ln
  generalize (0 : Nat) = o
  induction j generalizing ln o with
  | nil => rfl
  | cons t ts ih =>
    simp only [GCore.txRanges, List.zip_cons_cons, List.filterMap_cons, List.map_cons]
    cases hx : codeOf (verdict (GCore.txImage t)) with
    | none => simp only [Option.map_none]; exact ih _ _
    | some c => simp only [Option.map_some, List.map_cons]; rw [ih]

/-- **core_notation_invariant.**  Two well-formed journals of the core grammar that write the
    same values — however many leading zeros, trailing decimal zeros, `5` or `5.0` or `05.00`;
    whatever dates and descriptions — get the same sequence of balance codes. -/
theorem core_notation_invariant (j₁ j₂ : GCore.Journal) (h₁ : GCore.WF j₁ = true) (h₂ : GCore.WF j₂ = true)
    (himg : j₁.map GCore.txImage = j₂.map GCore.txImage) :
    (analyzeBalance (Pipeline.parseText Classes.go (GCore.print j₁)).1).map (List.map (·.code)) =
    (analyzeBalance (Pipeline.parseText Classes.go (GCore.print j₂)).1).map (List.map (·.code)) := by
  have e₁ := congrArg (Option.map (List.map (·.2))) (C02_pipeline_core j₁ h₁)
  have e₂ := congrArg (Option.map (List.map (·.2))) (C02_pipeline_core j₂ h₂)
  simp only [Option.map_map, Option.map_some, demanded_codes] at e₁ e₂
  have hf : ((List.map fun (x : Rng × Code) => x.2) ∘ List.map fun (d : BalDiag) => (d.range, d.code)) =
      List.map (·.code) := by
    funext l
    simp [List.map_map, Function.comp]
  rw [hf] at e₁ e₂
  rw [e₁, e₂, himg]

/-! ### non-vacuity -/

/-- ```
    2024-01-15 grocery store
        assets:cash  -12.50 USD
        expenses:food

    2024-02-01 rent
        assets:bank  -100.00 EUR
        expenses:rent  100.01 EUR
    ```
    The first transaction balances with an inferred posting; the second is off by 0.01 EUR. -/
def sample : GCore.Journal := [
  { date := ⟨[50, 48, 50, 52], [48, 49], [49, 53]⟩
    words := [[103, 114, 111, 99, 101, 114, 121], [115, 116, 111, 114, 101]]
    postings := [
      ⟨[[97, 115, 115, 101, 116, 115], [99, 97, 115, 104]], some ⟨true, [49, 50], some [53, 48], some [85, 83, 68]⟩⟩,
      ⟨[[101, 120, 112, 101, 110, 115, 101, 115], [102, 111, 111, 100]], none⟩] },
  { date := ⟨[50, 48, 50, 52], [48, 50], [48, 49]⟩
    words := [[114, 101, 110, 116]]
    postings := [
      ⟨[[97, 115, 115, 101, 116, 115], [98, 97, 110, 107]], some ⟨true, [49, 48, 48], some [48, 48], some [69, 85, 82]⟩⟩,
      ⟨[[101, 120, 112, 101, 110, 115, 101, 115], [114, 101, 110, 116]], some ⟨false, [49, 48, 48], some [48, 49], some [69, 85, 82]⟩⟩] }]

example : GCore.WF sample = true := by decide

/-- the hypotheses hold and the demanded list is not trivial: one UNBALANCED, at the second
    transaction (lines 5–8 of the text; the text is 147 bytes long) -/
example : demanded sample = [(⟨⟨5, 1, 72⟩, ⟨8, 1, 147⟩⟩, .unbalanced)] := by decide +kernel

/-- the model chain itself, evaluated (no theorem involved): lexer, parser, `CheckBalance`,
    `createBalanceDiagnostic` on the printed text -/
example : analyzeBalance (Pipeline.parseText Classes.go (GCore.print sample)).1 =
    some [⟨⟨⟨5, 1, 72⟩, ⟨8, 1, 147⟩⟩, 0, .unbalanced, bs "transaction does not balance: EUR off by 0.01"⟩] := by
  decide +kernel

/-- non-vacuity of `core_notation_invariant`: `-12.50 USD` / `12.5 USD` against
    `-012.5 USD` / `12.500 USD` (other date, other words) -/
example :
    let mk (d : Bytes) (a b : GCore.Amount) : GCore.Journal :=
      [⟨⟨[50, 48, 50, 52], [48, 49], d⟩, [[120]], [⟨[[97], [98]], some a⟩, ⟨[[99], [100]], some b⟩]⟩]
    let j₁ := mk [49, 53] ⟨true, [49, 50], some [53, 48], some [85, 83, 68]⟩ ⟨false, [49, 50], some [53], some [85, 83, 68]⟩
    let j₂ := mk [49, 54] ⟨true, [48, 49, 50], some [53], some [85, 83, 68]⟩ ⟨false, [49, 50], some [53, 48, 48, 48], some [85, 83, 68]⟩
    GCore.WF j₁ = true ∧ GCore.WF j₂ = true ∧ j₁ ≠ j₂ ∧ j₁.map GCore.txImage = j₂.map GCore.txImage := by
  decide +kernel

end HL.Props.C02

#print axioms HL.Props.C02.C02_pipeline_core
#print axioms HL.Props.C02.C02_pipeline_core_messages
#print axioms HL.Props.C02.C02_pipeline_core_numbers
#print axioms HL.Props.C02.core_code_iff
#print axioms HL.Props.C02.core_notation_invariant
#print axioms HL.Props.C02.analyzeBalance_exact
