import HL.Props.C04Core
/-!
  C05 for the core grammar `GCore`: the composed theorems are proved in HL/Props/C04Core.lean
  (they share the characterisation `format_core` with C04); they are restated here in namespace
  `HL.Props.C05` so that the audit of property C05 lists them with their axioms.
-/
namespace HL.Props.C05
open HL HL.GCore HL.Fmt HL.EditSpec

/-- **Idempotence, composed, core grammar**: parse the formatted text, format it with the tree
    of that parse, apply the edits — the text is unchanged.  Every well-formed core journal,
    every options value; the text shorter than 4 GiB (`uint32` positions). -/
theorem C05_idempotent_core (o : Options) (j : GCore.Journal) (h : GCore.WF j = true)
    (hsize : (GCore.canon o j).length < 4294967296) :
    HL.Props.C04.formatRun o (GCore.canon o j) = some (GCore.canon o j) :=
  HL.Props.C04.C05_idempotent_core o j h hsize

/-- … starting from the user's text: the second run returns what the first returned. -/
theorem C05_idempotent_twice_core (o : Options) (j : GCore.Journal) (h : GCore.WF j = true)
    (hsize : (GCore.print j).length < 4294967296) (hsize' : (GCore.canon o j).length < 4294967296) :
    (HL.Props.C04.formatRun o (GCore.print j)).bind (HL.Props.C04.formatRun o) =
      HL.Props.C04.formatRun o (GCore.print j) :=
  HL.Props.C04.C05_idempotent_twice_core o j h hsize hsize'

/-- **Alignment, composed, core grammar**: in the formatted text every amount starts at column
    `canonCol o j`, behind at least two blanks, and that column is at least indent + longest
    account + 2. -/
theorem C05_aligned_core (o : Options) (j : GCore.Journal) (halign : o.alignAmounts = true)
    (t : GCore.Tx) (ht : t ∈ j) (p : GCore.Posting) (hp : p ∈ t.postings) (a : GCore.Amount)
    (ha : p.amount = some a) :
    ∃ pre, p.printL (canonLayout o j) = pre ++ [0x20, 0x20] ++ a.print ∧
      (pre ++ [0x20, 0x20]).length = canonCol o j ∧
      canonIndent o + widest j + 2 ≤ canonCol o j ∧
      canonIndent o + p.acct.length + 2 ≤ canonCol o j :=
  HL.Props.C04.C05_aligned_core o j halign t ht p hp a ha

/-- **Well-formed edits, composed with the parser, core grammar.** -/
theorem C05_edits_wellformed_core (o : Options) (j : GCore.Journal) (h : GCore.WF j = true)
    (hsize : (GCore.print j).length < 4294967296) :
    editsWellFormed (GCore.print j)
      (formatText (HL.Pipeline.parseText Classes.go (GCore.print j)).1
        (HL.Pipeline.parseText Classes.go (GCore.print j)).2 (GCore.print j) none o) = true :=
  HL.Props.C04.C05_edits_wellformed_core o j h hsize

end HL.Props.C05
