/-
  C14, second part — the memory REACHABLE from shared fields.

  `HL.Props.C14.server_race_free` is about the field table: one location per field of a
  shared struct.  A slice, map or pointer field is only the handle of more memory (its store:
  backing array, map, pointee), and a handle that is loaded inside a lock region and used after
  the region was left still points to the same memory.  tools/access follows every reference
  that is loaded from shared memory — through locals, results, result structs, arguments,
  closures — and regenerates `HL.Generated.Access.escapes`: one row per class of access to a
  store (role, how the reference relates to its lock region, whether the access writes through
  it, the locks held).  Here:

    1. `lockset_sound_reachable` (general): for every field table T and escape table E, every
       pool of threads over the locations `fields ⊕ stores` whose accesses are instances of
       the rows of `fullTable T E`: if T is disciplined and E obeys the alias discipline
       (`aliasDisciplined`: no escaped reference is written through, and the accessors of every
       store — escaped aliases included — obey the lockset discipline), no reachable state has
       a data race, on a field or on a store.
    2. `alias_disciplined`, `escapes_covered`, `alias_translator_facts`: closed facts about the
       regenerated table, decided by the kernel; `coveredBy_sound` derives the discipline a
       second time from the hand-written protections of AccessExpect.lean.
    3. `server_race_free_reachable`: 1 applied to 2.
    4. The discipline is not vacuous: `escaped_unlocked_mutation_races` (general: an
       un-synchronised write through an escaped alias by a background role IS a reachable race
       of a conforming pool) and `seeded_alias_detected` (the rows extracted from the tree with
       the defensive copy of the cached parse errors removed fail the check, naming the row).
  Trusted, not proved: the translator's reference tracking (DESIGN 7.C14, tools/access/alias.go).
-/
import HL.Props.C14
namespace HL.Props.C14
open HL.Lockset HL.Lemmas.Lockset HL.Generated.Access HL.Generated.AccessExpect
set_option linter.unusedSectionVars false

section general
variable {ι κ σ : Type} [DecidableEq ι] [DecidableEq κ] [DecidableEq σ]

/-- **Soundness of the lockset discipline for fields and the memory reachable from them.**
    Threads access field locations (`inl`) and store locations (`inr`); every access is an
    instance of a row of the field table or of the escape table (an escaped alias is an access
    to the store with whatever locks are held at that point — usually none).  If the field
    table is disciplined and the escape table obeys the alias discipline, no reachable state
    has two running threads about to perform conflicting accesses. -/
theorem lockset_sound_reachable (T : List (Row ι κ)) (E : List (Escape σ κ)) (P : Pool (ι ⊕ σ) κ)
    (hC : Conforms (fullTable T E) P) (hW : WF P)
    (hD : disciplined T = true) (hA : aliasDisciplined E = true)
    {s : State κ} (hR : Reachable P s) : ¬ Race P s :=
  lockset_sound (fullTable T E) P hC hW
    (disciplined_fullTable hD (disciplined_of_aliasDisciplined hA)) hR

/-- Under the alias discipline every writer in the owner set of a store went through a
    reference that had not left its lock region (or through a copy it owns). -/
theorem writers_in_region (E : List (Escape σ κ)) (hA : aliasDisciplined E = true)
    (e : Escape σ κ) (he : e ∈ E) (hm : e.mutated = true) (hf : e.fresh = false) :
    e.how ≠ How.escaped := by
  have h := List.all_eq_true.mp (noEscapedMutation_of_aliasDisciplined hA) e he
  intro hh
  simp [hh, hm, hf] at h

/-- **The discipline forbids exactly what races.**  Take any escape table that contains a row of
    a background role (any number of instances run concurrently) writing through a reference
    with no lock held and not fresh.  Then some pool of threads that conforms to the table —
    initialisation, the handler thread, two goroutines of that role each performing that very
    access — reaches a state with a data race on the store. -/
theorem escaped_unlocked_mutation_races (E : List (Escape σ κ)) (e : Escape σ κ) (he : e ∈ E)
    (hm : e.mutated = true) (hf : e.fresh = false) (hl : e.locks = [])
    (hr : e.role = Role.publish ∨ e.role = Role.refresh) :
    ∃ P : Pool σ κ, Conforms (storeRows E) P ∧ WF P ∧ ∃ s, Reachable P s ∧ Race P s := by
  let a : Acc σ := ⟨e.store, .write, false, false⟩
  let P : Pool σ κ :=
    { prog := fun t => match t with
        | 0 => [.spawn 1]
        | 1 => [.spawn 2, .spawn 3]
        | 2 => [.acc a]
        | 3 => [.acc a]
        | _ => []
      role := fun t => match t with
        | 0 => .init
        | 1 => .main
        | _ => e.role }
  have hne_init : e.role ≠ Role.init := by rcases hr with h | h <;> rw [h] <;> decide
  have hne_main : e.role ≠ Role.main := by rcases hr with h | h <;> rw [h] <;> decide
  refine ⟨P, ?_, ?_, ?_⟩
  · -- conforms
    intro t n b hb
    have hrow : e.toRow ∈ storeRows E := List.mem_map.mpr ⟨e, he, rfl⟩
    have key : ∀ (t : Nat), (t = 2 ∨ t = 3) → n = 0 → b = a →
        ∃ r ∈ storeRows E, r.role = P.role t ∧ r.loc = b.loc ∧ r.kind = b.kind ∧ r.atomic = b.atomic ∧
          r.fresh = b.fresh ∧ ∀ x ∈ r.locks, x ∈ heldAfter ((P.prog t).take n) := by
      intro t ht hn hba
      subst hba
      refine ⟨e.toRow, hrow, ?_, rfl, ?_, rfl, hf, ?_⟩
      · rcases ht with rfl | rfl <;> rfl
      · simp [Escape.toRow, hm, a]
      · intro x hx
        simp [Escape.toRow, hl] at hx
    match t, n, hb with
    | 0, 0, hb => simp [P] at hb
    | 0, n+1, hb => simp [P] at hb
    | 1, 0, hb => simp [P] at hb
    | 1, 1, hb => simp [P] at hb
    | 1, n+2, hb => simp [P] at hb
    | 2, 0, hb =>
      have : b = a := by simp [P] at hb; exact hb.symm
      exact key 2 (Or.inl rfl) rfl this
    | 2, n+1, hb => simp [P] at hb
    | 3, 0, hb =>
      have : b = a := by simp [P] at hb; exact hb.symm
      exact key 3 (Or.inr rfl) rfl this
    | 3, n+1, hb => simp [P] at hb
    | t+4, n, hb => simp [P] at hb
  · -- thread structure
    refine ⟨?_, ?_, ?_⟩
    · intro t
      match t with
      | 0 => simp [P]
      | 1 => simp [P]
      | t+2 =>
        constructor
        · intro h; exact absurd h hne_init
        · intro h; omega
    · intro t1 t2 h1 h2
      match t1, t2, h1, h2 with
      | 1, 1, _, _ => rfl
      | 0, _, h1, _ => simp [P] at h1
      | _, 0, _, h2 => simp [P] at h2
      | t1+2, _, h1, _ => exact absurd h1 hne_main
      | _, t2+2, _, h2 => exact absurd h2 hne_main
    · intro n t' h
      match n, h with
      | 0, _ => rfl
      | n+1, h => simp [P] at h
  · -- the race
    let s1 : State κ := fire State.init 0 (.spawn 1 : Instr σ κ)
    let s2 : State κ := fire s1 1 (.spawn 2 : Instr σ κ)
    let s3 : State κ := fire s2 1 (.spawn 3 : Instr σ κ)
    have r1 : Reachable P s1 := .step .init ⟨0, .spawn 1, rfl, rfl, trivial, rfl⟩
    have r2 : Reachable P s2 := .step r1 ⟨1, .spawn 2, rfl, rfl, trivial, rfl⟩
    have r3 : Reachable P s3 := .step r2 ⟨1, .spawn 3, rfl, rfl, trivial, rfl⟩
    refine ⟨s3, r3, 2, 3, a, a, by decide, rfl, rfl, rfl, rfl, ?_⟩
    exact ⟨rfl, Or.inl rfl, by simp [a], rfl, rfl⟩

/-- The protections of AccessExpect.lean, for any location type and any assignment of
    protections to locations: if each row is covered by the protection stated for its location,
    the table obeys the lockset discipline. -/
theorem coveredBy_sound (prot : ι → Protection) (T : List (Row ι Lock))
    (hT : T.all (fun r => coveredBy (prot r.loc) r) = true) : disciplined T = true := by
  unfold disciplined
  apply List.all_eq_true.mpr
  intro r hr
  apply List.all_eq_true.mpr
  intro s hs
  have cr := List.all_eq_true.mp hT r hr
  have cs := List.all_eq_true.mp hT s hs
  unfold pairOK
  cases hc : rowConflict r s with
  | false => simp
  | true =>
    cases hcc : concurrentRoles r.role s.role with
    | false => simp
    | true =>
      simp only [Bool.and_self, Bool.not_true, Bool.false_or]
      unfold rowConflict at hc
      simp only [Bool.and_eq_true, beq_iff_eq, Bool.or_eq_true, Bool.not_eq_true'] at hc
      obtain ⟨⟨⟨⟨hloc, hw⟩, hat⟩, hfr⟩, hfs⟩ := hc
      unfold concurrentRoles at hcc
      simp only [Bool.and_eq_true, bne_iff_ne, ne_eq, Bool.not_eq_true', beq_eq_false_iff_ne, Bool.and_eq_false_iff] at hcc
      obtain ⟨⟨hri, hsi⟩, hmm⟩ := hcc
      unfold coveredBy at cr cs
      have hri' : (r.role == Role.init) = false := by simpa using hri
      have hsi' : (s.role == Role.init) = false := by simpa using hsi
      rw [hfr, hri'] at cr
      rw [hfs, hsi'] at cs
      simp only [Bool.false_or] at cr cs
      rw [← hloc] at cs
      have anyLock : ∀ {q : Row ι Lock} {l : Lock} {f : Lock × Mode → Bool},
          (q.locks.any fun x => x.1 == l && f x) = true → ∃ x ∈ q.locks, x.1 = l ∧ f x = true := by
        intro q l f h
        obtain ⟨x, hx, hxl⟩ := List.any_eq_true.mp h
        simp only [Bool.and_eq_true, beq_iff_eq] at hxl
        exact ⟨x, hx, hxl.1, hxl.2⟩
      have mk : ∀ {x y : Lock × Mode}, x ∈ r.locks → y ∈ s.locks → x.1 = y.1 →
          (x.2 = Mode.excl ∨ y.2 = Mode.excl) → commonLock r s = true := by
        intro x y hx hy hl hm
        unfold commonLock
        apply List.any_eq_true.mpr
        refine ⟨x, hx, List.any_eq_true.mpr ⟨y, hy, ?_⟩⟩
        simp only [Bool.and_eq_true, beq_iff_eq, Bool.or_eq_true]
        exact ⟨hl, hm⟩
      cases hp : prot r.loc with
      | guardedBy l =>
        rw [hp] at cr cs
        simp only at cr cs
        obtain ⟨x, hx, hxl, hxm⟩ := anyLock cr
        obtain ⟨y, hy, hyl, hym⟩ := anyLock cs
        simp only [Bool.or_eq_true, beq_iff_eq] at hxm hym
        apply mk hx hy (hxl.trans hyl.symm)
        rcases hw with h | h
        · rcases hxm with h1 | h1
          · rw [h] at h1; cases h1
          · exact Or.inl h1
        · rcases hym with h1 | h1
          · rw [h] at h1; cases h1
          · exact Or.inr h1
      | atomicCell =>
        rw [hp] at cr cs
        simp only at cr cs
        rw [cr, cs] at hat
        simp at hat
      | immutableAfterInit =>
        rw [hp] at cr cs
        simp only [beq_iff_eq] at cr cs
        rw [cr, cs] at hw
        simp at hw
      | mainOnly =>
        rw [hp] at cr cs
        simp only [beq_iff_eq] at cr cs
        rcases hmm with h | h
        · exact absurd cr h
        · exact absurd cs h
      | mainOwned l =>
        rw [hp] at cr cs
        simp only at cr cs
        by_cases hrm : r.role = Role.main
        · have hsm : s.role ≠ Role.main := by
            rcases hmm with h | h
            · exact absurd hrm h
            · exact h
          simp only [hrm, beq_self_eq_true, if_true, Bool.or_eq_true, beq_iff_eq] at cr
          have hsm' : (s.role == Role.main) = false := by simpa using hsm
          simp only [hsm', Bool.false_eq_true, if_false, Bool.and_eq_true, beq_iff_eq] at cs
          have cs2 : (s.locks.any fun x => x.1 == l && true) = true := by simpa using cs.2
          obtain ⟨y, hy, hyl, _⟩ := anyLock cs2
          have hrw : r.kind = Kind.write := by
            rcases hw with h | h
            · exact h
            · rw [cs.1] at h; cases h
          rcases cr with h | h
          · rw [h] at hrw; cases hrw
          · obtain ⟨x, hx, hxl, hxm⟩ := anyLock h
            simp only [beq_iff_eq] at hxm
            exact mk hx hy (hxl.trans hyl.symm) (Or.inl hxm)
        · have hrm' : (r.role == Role.main) = false := by simpa using hrm
          simp only [hrm', Bool.false_eq_true, if_false, Bool.and_eq_true, beq_iff_eq] at cr
          have cr2 : (r.locks.any fun x => x.1 == l && true) = true := by simpa using cr.2
          obtain ⟨x, hx, hxl, _⟩ := anyLock cr2
          by_cases hsm : s.role = Role.main
          · simp only [hsm, beq_self_eq_true, if_true, Bool.or_eq_true, beq_iff_eq] at cs
            have hsw : s.kind = Kind.write := by
              rcases hw with h | h
              · rw [cr.1] at h; cases h
              · exact h
            rcases cs with h | h
            · rw [h] at hsw; cases hsw
            · obtain ⟨y, hy, hyl, hym⟩ := anyLock h
              simp only [beq_iff_eq] at hym
              exact mk hx hy (hxl.trans hyl.symm) (Or.inr hym)
          · have hsm' : (s.role == Role.main) = false := by simpa using hsm
            simp only [hsm', Bool.false_eq_true, if_false, Bool.and_eq_true, beq_iff_eq] at cs
            rcases hw with h | h
            · rw [cr.1] at h; cases h
            · rw [cs.1] at h; cases h

end general

/-! ### The regenerated escape table -/

-- Diagnostics for the build log: if one of the closed facts below fails, these lines name the
-- rows responsible (store, role, function and line in the Go source).
#eval show IO Unit from do
  let short := fun (r : Role) => match r with
    | .init => "init" | .main => "main" | .publish => "publish" | .refresh => "refresh"
  let sites := fun (l : List String) => (l.take 3)
  for p in (racePairs (storeRows escapes)).take 4 do
    IO.println s!"C14 STORE RACE PAIR: {repr p.1.loc}: {repr p.1.kind} by {short p.1.role} holding {repr p.1.locks} at {sites p.1.sites}  ||  {repr p.2.kind} by {short p.2.role} holding {repr p.2.locks} at {sites p.2.sites}"
  for f in externalUseSites do
    if !externalsOK then IO.println s!"C14 EXTERNAL USE of shared memory: {f}"
  for f in funcValueUses do
    IO.println s!"C14 FUNCTION VALUE handed shared memory (not followed): {f}"
  for f in astWriters do
    IO.println s!"C14 WRITE INTO A SYNTAX TREE outside the parser: {f}"
  for e in uncoveredEscapes do
    IO.println s!"C14 UNCOVERED ESCAPE: store {e.store.name}: {if e.mutated then "write" else "read"} ({repr e.how}) by role {short e.role} holding {repr e.locks} at {sites e.sites} is not covered by the protection stated for the store in AccessExpect.lean"
  for e in escapedMutations escapes do
    IO.println s!"C14 ESCAPED ALIAS MUTATED: store {e.store.name}: role {short e.role} appends to / writes through a reference that has left the lock region it was loaded in (locks held at the write: {repr e.locks}) at {sites e.sites}"

/-- The escape table extracted from the current Go source obeys the alias discipline: no
    reference that outlives the lock region it was loaded in is appended to or written through,
    and every two conflicting accesses to the memory behind a shared field — through the field,
    through a copy being taken, through an escaped alias — that can be performed by two
    different threads hold a common lock, at least one exclusively. -/
theorem alias_disciplined : aliasDisciplined escapes = true := by decide +kernel

/-- Every row of the regenerated escape table is an instance of the protection that
    HL/Generated/AccessExpect.lean states for its store (default: immutable after
    publication). -/
theorem escapes_covered : escapes.all escapeCovered = true := by decide +kernel

/-- The discipline of the store rows, derived a second time: from the per-store protections. -/
theorem alias_disciplined_by_protection : disciplined (storeRows escapes) = true := by
  apply coveredBy_sound storeProtection
  apply List.all_eq_true.mpr
  intro r hr
  obtain ⟨e, he, rfl⟩ := List.mem_map.mp hr
  exact List.all_eq_true.mp escapes_covered e he

/-- Facts about the source the reference tracking relies on: no reference into shared memory is
    handed to a function value the translator cannot follow; functions of other modules that
    receive one are known to read only; nothing outside the parser writes into the memory of a
    syntax tree (the cached `*ast.Journal` trees are shared by the loader cache, the
    per-document include trees and the workspace: "escapes, never mutated"). -/
theorem alias_translator_facts :
    funcValueUses = [] ∧ externalsOK = true ∧ astWriters = [] := by
  refine ⟨by decide, by decide +kernel, by decide⟩

/-- The cached parse errors leave the loader's lock region only as copies: every access to
    their backing array is the read of `slices.Clone` (or a read inside the region). -/
theorem cached_errors_only_copied :
    (escapes.filter fun e => e.store.name == "cachedFile_errors").all
      (fun e => e.mutated == false && (e.how == How.copied || e.how == How.inRegion)) = true := by
  decide +kernel

/-- **C14, race part, for fields and the memory reachable from them.**  Every pool of threads
    that is an instance of the extracted field table and escape table — any number of publish
    and refresh goroutines, any interleaving with the serial handler thread — never reaches a
    state with a data race, neither on a shared field nor on the backing store of one. -/
theorem server_race_free_reachable (P : Pool (Loc ⊕ Store) Lock)
    (hC : Conforms (fullTable accessTable escapes) P) (hW : WF P)
    {s : State Lock} (hR : Reachable P s) : ¬ Race P s :=
  lockset_sound_reachable accessTable escapes P hC hW table_disciplined alias_disciplined hR

/-! ### The alias check is not vacuous: the tree without the defensive copy fails it -/

/-- The `cachedFile.errors` rows extracted from the source with `errors := slices.Clone(file.errors)`
    in `Loader.loadParsed` replaced by `errors := file.errors` (seeded/C14, frozen copy): the
    slice header is loaded under Loader.mu (`loadSingleInclude`), leaves the region inside the
    `cachedFile` value, and `loadParsed` appends include errors to it with no lock held — from
    any number of concurrent diagnostics goroutines, and from the handler thread under
    Workspace.mu only. -/
def seededErrorsRows : List (Escape Nat Nat) := [
  ⟨0, .main, .copied, false, [(1, .excl)], false, ["include.Loader.loadSingleInclude loader.go:275"]⟩,
  ⟨0, .main, .escaped, true, [(1, .excl)], false, ["include.Loader.loadParsed loader.go:160", "include.Loader.loadParsed loader.go:171"]⟩,
  ⟨0, .publish, .copied, false, [], false, ["include.Loader.loadSingleInclude loader.go:275"]⟩,
  ⟨0, .publish, .escaped, false, [], false, ["server.Server.publishDiagnosticsVersion server.go:377"]⟩,
  ⟨0, .publish, .escaped, true, [], false, ["include.Loader.loadParsed loader.go:160", "include.Loader.loadParsed loader.go:171"]⟩]

/-- On those rows the alias discipline fails on both counts: there are escaped references that
    are written through, and the store has conflicting accessors without a common lock (two
    diagnostics goroutines appending; one appending while another copies or reads; the handler
    thread's load under Workspace.mu against a goroutine's). -/
theorem seeded_alias_detected :
    aliasDisciplined seededErrorsRows = false ∧
    (escapedMutations seededErrorsRows).map (fun e => (e.role, e.locks)) =
      [(.main, [(1, .excl)]), (.publish, [])] ∧
    disciplined (storeRows seededErrorsRows) = false := by
  refine ⟨by decide +kernel, by decide +kernel, by decide +kernel⟩

/-- ... and by `escaped_unlocked_mutation_races` the race is real in the transition system. -/
theorem seeded_alias_race_reachable :
    ∃ P : Pool Nat Nat, Conforms (storeRows seededErrorsRows) P ∧ WF P ∧ ∃ s, Reachable P s ∧ Race P s :=
  escaped_unlocked_mutation_races seededErrorsRows
    ⟨0, .publish, .escaped, true, [], false, ["include.Loader.loadParsed loader.go:160", "include.Loader.loadParsed loader.go:171"]⟩
    (by simp [seededErrorsRows]) rfl rfl rfl (Or.inl rfl)

/-! ### Non-vacuity of the hypotheses of `server_race_free_reachable` -/

/-- the program "take the row's locks, perform its access, release them" over fields and stores -/
def progOfR (r : Row (Loc ⊕ Store) Lock) : List (Instr (Loc ⊕ Store) Lock) :=
  r.locks.map (fun x => Instr.acq x.1 x.2) ++ [.acc ⟨r.loc, r.kind, r.atomic, r.fresh⟩] ++
    r.locks.reverse.map (fun x => Instr.rel x.1)

def pickRowR (role : Role) (p : Row (Loc ⊕ Store) Lock → Bool) : List (Instr (Loc ⊕ Store) Lock) :=
  match (fullTable accessTable escapes).find? (fun r => r.role == role && p r) with
  | some r => progOfR r
  | none => []

def isStore (r : Row (Loc ⊕ Store) Lock) : Bool := match r.loc with | .inr _ => true | .inl _ => false

/-- A small instance built from rows of the regenerated tables (nothing is named): the handler
    thread writes a store inside a lock region; a diagnostics goroutine reads a store inside a
    lock region and reads another one with no lock held (an escaped, copied or immutable
    reference). -/
def demoPoolR : Pool (Loc ⊕ Store) Lock where
  prog := fun t => match t with
    | 0 => [.spawn 1]
    | 1 => [.spawn 2] ++ pickRowR .main (fun r => isStore r && r.kind == .write && r.locks.length == 1)
    | 2 => pickRowR .publish (fun r => isStore r && r.kind == .read && r.locks.length == 1) ++
           pickRowR .publish (fun r => isStore r && r.kind == .read && r.locks.isEmpty && !r.fresh)
    | _ => []
  role := fun t => match t with
    | 0 => .init
    | 1 => .main
    | _ => .publish

def hasAccessR (p : List (Instr (Loc ⊕ Store) Lock)) : Bool :=
  p.any fun i => match i with | .acc _ => true | _ => false

def progConformsR (T : List (Row (Loc ⊕ Store) Lock)) (role : Role) (p : List (Instr (Loc ⊕ Store) Lock)) : Bool :=
  (List.range p.length).all fun n =>
    match p[n]? with
    | some (.acc a) => T.any fun r => r.role == role && r.loc == a.loc && r.kind == a.kind &&
        r.atomic == a.atomic && r.fresh == a.fresh &&
        r.locks.all fun x => (heldAfter (p.take n)).contains x
    | _ => true

example : (List.range 3).all (fun t =>
    progConformsR (fullTable accessTable escapes) (demoPoolR.role t) (demoPoolR.prog t)) = true ∧
    hasAccessR (demoPoolR.prog 1) = true ∧
    ((demoPoolR.prog 2).filter fun i => match i with | .acc _ => true | _ => false).length = 2 := by
  decide +kernel

end HL.Props.C14
