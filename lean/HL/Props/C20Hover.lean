/-
  C20 (server-level part) — hover figures are exact aggregates over the whole include tree.
  Property theorems about the model HL/Model/Hover.lean (internal/server/hover.go,
  ResolvedJournal.AllTransactions, CalculateAccountBalancesFromTransactions), judged against
  HL/Spec/HoverSpec.lean.  Helper lemmas: HL/Lemmas/Hover.lean.
-/
import HL.Lemmas.Hover
import HL.Lemmas.HoverDec
import HL.Lemmas.PayeeRange
namespace HL.Props.C20Hover
open HL HL.Ast HL.Hover HL.HoverSpec HL.Lemmas.Hover HL.Lemmas.HoverDec

/-! ### Sums -/

/-- For every list of transactions, every account and every commodity: the decimal Hover keeps
    for (account, commodity) denotes exactly the sum of the amounts explicitly posted, and there
    is an entry exactly when something was explicitly posted.  Postings without an amount
    contribute nothing. -/
theorem account_sum_exact (txs : List Transaction) (a c : Bytes) :
    (balLookup (accountBalances txs) (a, c)).map decToRat = accountSum? (txs.map absTx) a c := by
  have h := balVal_balPostings [] (allPostings txs) a c
  rw [← accountBalances_eq] at h
  simp only [balVal] at h
  rw [h]
  simp only [balLookup, List.find?_nil, Option.map_none]
  rw [accF_none]
  simp only [accountSum?, amountsOf, postingsOf_abs]
  generalize List.filterMap (contrib a c) (List.map absPosting (allPostings txs)) = l
  cases l <;> rfl

/-- The lines of the "Balance" section of an account hover: every line shows a commodity
    explicitly posted to the account with a decimal denoting the exact sum; every such commodity
    has a line; an account with no explicit amounts has no line. -/
theorem account_lines_exact (txs : List Transaction) (a : Bytes) :
    (∀ c v, (c, v) ∈ accountBalanceLines (accountBalances txs) a →
        accountSum? (txs.map absTx) a c = some (decToRat v)) ∧
    (∀ c, accountSum? (txs.map absTx) a c ≠ none →
        ∃ v, (c, v) ∈ accountBalanceLines (accountBalances txs) a) := by
  constructor
  · intro c v h
    rw [mem_lines] at h
    have := lookup_of_mem _ _ _ (nodup_accountBalances txs) h
    rw [← account_sum_exact, this]; rfl
  · intro c h
    rw [← account_sum_exact] at h
    cases hl : balLookup (accountBalances txs) (a, c) with
    | none => simp [hl] at h
    | some v => exact ⟨v, (mem_lines _ _ _ _).mpr (mem_of_lookup _ _ _ hl)⟩

/-! ### Counts -/

/-- For transaction lists of any length: the posting count is the number of postings to the
    account (with or without an amount), the tag count the number of uses of the tag name on
    transactions and postings, the tag-value count the number of uses of that name with that
    value.  All comparisons are exact byte comparisons (case-sensitive). -/
theorem counts_exact (txs : List Transaction) :
    (∀ a, countPostings a txs = postingCount (txs.map absTx) a) ∧
    (∀ n, countTag n txs = tagCount (txs.map absTx) n) ∧
    (∀ n v, countTagValue n v txs = tagValueCount (txs.map absTx) n v) := by
  refine ⟨fun a => ?_, fun n => ?_, fun n v => ?_⟩
  · rw [countPostings_eq, postingCount, postingsOf_abs, List.countP_map]
    rfl
  · unfold countTag tagCount
    rw [foldl_count (fun t : Tag => t.name == n), tagsOf_abs, List.countP_map, Nat.zero_add]
    rfl
  · unfold countTagValue tagValueCount
    rw [foldl_count (fun t : Tag => t.name == n && t.value == v), tagsOf_abs, List.countP_map, Nat.zero_add]
    rfl

/-- What the parser guarantees about the header fields (parser.parseTransaction): either there
    is no payee, or the description is the payee, or it is `payee ++ " | " ++ note`. -/
def TxWF (tx : Transaction) : Prop :=
  tx.payee = [] ∨ tx.description = tx.payee ∨ tx.description = tx.payee ++ [32, 124, 32] ++ tx.note

/-- Payee hover counts the transactions that show this payee (`Payee == p || Description == p`
    in the code), for every list of well-formed transactions and every non-empty payee without
    `|` (the lexer ends a description at `|`, and Hover never reports an empty payee). -/
theorem payee_count_exact (txs : List Transaction) (p : Bytes)
    (hwf : ∀ tx ∈ txs, TxWF tx) (hp : (124 : UInt8) ∉ p) (hp0 : p ≠ []) :
    countPayee p txs = payeeCount (txs.map absTx) p := by
  unfold countPayee payeeCount
  rw [foldl_count (fun tx : Transaction => tx.payee == p || tx.description == p), Nat.zero_add,
    List.countP_map]
  apply List.countP_congr
  intro tx htx
  have wf := hwf tx htx
  simp only [Function.comp, absTx, payeeOrDescription, Bool.or_eq_true, beq_iff_eq]
  by_cases he : tx.payee = []
  · have : ¬ ([] : Bytes) = p := fun h => hp0 h.symm
    simp [he, this]
  · have hne : (tx.payee != []) = true := by simpa using he
    simp only [hne, if_true]
    constructor
    · rintro (h | h)
      · exact h
      · rcases wf with w | w | w
        · exact absurd w he
        · rw [← w]; exact h
        · exfalso; apply hp; rw [← h, w]; simp
    · intro h; exact Or.inl h

example : TxWF { (default : Transaction) with payee := [83], note := [110], description := [83, 32, 124, 32, 110] }
    ∧ (124 : UInt8) ∉ ([83] : Bytes) := ⟨Or.inr (Or.inr rfl), by decide⟩

/-! ### Which transactions: root + each member file once -/

def primaryTxs (r : Resolved) : List Transaction :=
  match r.primary with
  | some j => j.transactions
  | none => []

/-- If the resolved journal's `FileOrder` has no duplicates and lists exactly the member files,
    `AllTransactions` is (a rearrangement of) the root's transactions followed by each member
    file's transactions once. -/
theorem all_transactions_once (r : Resolved) (members : List Bytes)
    (hnd : r.order.Nodup) (hm : members.Nodup) (hmem : ∀ p, p ∈ r.order ↔ p ∈ members) :
    (allTransactions r).Perm (primaryTxs r ++ members.flatMap (fileTxs r.files)) := by
  have hp : r.order.Perm members := (List.perm_ext_iff_of_nodup hnd hm).mpr hmem
  exact List.Perm.append_left _ (List.Perm.flatMap_right _ hp)

example : ∃ r : Resolved, ∃ members : List Bytes, r.order.Nodup ∧ members.Nodup ∧
    (∀ p, p ∈ r.order ↔ p ∈ members) ∧ r.order ≠ members :=
  ⟨⟨none, [], [[1], [2]]⟩, [[2], [1]], by decide, by decide, by simp; grind, by decide⟩

/-- The aggregates of the specification do not depend on the order of the transactions. -/
theorem spec_perm {t t' : List GTx} (h : t.Perm t') :
    (∀ a c, accountSum? t a c = accountSum? t' a c) ∧
    (∀ a, postingCount t a = postingCount t' a) ∧
    (∀ p, payeeCount t p = payeeCount t' p) ∧
    (∀ n, tagCount t n = tagCount t' n) ∧
    (∀ n v, tagValueCount t n v = tagValueCount t' n v) := by
  have hps : (postingsOf t).Perm (postingsOf t') := List.Perm.flatMap_right _ h
  have htg : (tagsOf t).Perm (tagsOf t') := List.Perm.flatMap_right _ h
  refine ⟨fun a c => ?_, fun a => hps.countP_eq _, fun p => h.countP_eq _,
    fun n => htg.countP_eq _, fun n v => htg.countP_eq _⟩
  have ha : (amountsOf t a c).Perm (amountsOf t' a c) := hps.filterMap _
  unfold accountSum?
  cases h1 : amountsOf t a c with
  | nil =>
    rw [h1] at ha
    rw [← ha.nil_eq]
  | cons x xs =>
    cases h2 : amountsOf t' a c with
    | nil => rw [h2] at ha; rw [ha.eq_nil] at h1; cases h1
    | cons y ys =>
      rw [h1, h2] at ha
      simp only [sum_perm ha]

/-- The statement for a resolved journal whose `FileOrder` is a duplicate-free listing of the
    member files: every figure Hover computes is the exact aggregate over the root's
    transactions and each member file's transactions ONCE. -/
theorem hover_aggregates_exact_partial (r : Resolved) (members : List Bytes)
    (hnd : r.order.Nodup) (hm : members.Nodup) (hmem : ∀ p, p ∈ r.order ↔ p ∈ members) :
    let txs := allTransactions r
    let truth := (primaryTxs r ++ members.flatMap (fileTxs r.files)).map absTx
    (∀ a c, (balLookup (accountBalances txs) (a, c)).map decToRat = accountSum? truth a c) ∧
    (∀ a, countPostings a txs = postingCount truth a) ∧
    (∀ n, countTag n txs = tagCount truth n) ∧
    (∀ n v, countTagValue n v txs = tagValueCount truth n v) ∧
    (∀ p, (∀ tx ∈ txs, TxWF tx) → (124 : UInt8) ∉ p → p ≠ [] → countPayee p txs = payeeCount truth p) := by
  intro txs truth
  have hperm : (txs.map absTx).Perm truth := (all_transactions_once r members hnd hm hmem).map absTx
  obtain ⟨s1, s2, s3, s4, s5⟩ := spec_perm hperm
  obtain ⟨c1, c2, c3⟩ := counts_exact txs
  refine ⟨fun a c => ?_, fun a => ?_, fun n => ?_, fun n v => ?_, fun p hwf hp hp0 => ?_⟩
  · rw [account_sum_exact, s1]
  · rw [c1, s2]
  · rw [c2, s4]
  · rw [c3, s5]
  · rw [payee_count_exact txs p hwf hp hp0, s3]

/-! ### Which resolved journal: independent of the requesting file when there is a workspace -/

/-- With a workspace that has a resolved journal, Hover aggregates over that journal's root and
    members, whichever document the request comes from and whatever was stored for its URI. -/
theorem hover_uses_whole_tree (r : Resolved) (perUri perUri' : Option Resolved) (doc doc' : Journal) :
    hoverTransactions (some r) perUri doc = allTransactions r ∧
    hoverTransactions (some r) perUri doc = hoverTransactions (some r) perUri' doc' := by
  simp [hoverTransactions, workspaceResolved]

/-- Without a workspace: the requesting file and its own include tree, as resolved by
    publishDiagnostics for this URI; before any diagnostics run, the document alone. -/
theorem hover_without_workspace (r : Resolved) (doc : Journal) :
    hoverTransactions none (some r) doc = allTransactions r ∧
    hoverTransactions none none doc = doc.transactions := by
  simp [hoverTransactions, workspaceResolved]

/-! ### Amount hover -/

theorem findTag_not_amount {tags : List Tag} {p : LspPos} {rng : Rng} {a : Amount} {c : Option Cost} :
    findTagAtPosition tags p ≠ some (.amount rng a c) := by
  induction tags with
  | nil => simp [findTagAtPosition]
  | cons t ts ih =>
    unfold findTagAtPosition
    split
    · unfold tagElement; split <;> simp
    · exact ih

theorem findInComments_not_amount {cs : List Comment} {p : LspPos} {rng : Rng} {a : Amount} {c : Option Cost} :
    findInComments cs p ≠ some (.amount rng a c) := by
  induction cs with
  | nil => simp [findInComments]
  | cons x xs ih =>
    unfold findInComments
    split
    · next e he => intro h; cases h; exact findTag_not_amount he
    · exact ih

theorem amountElement_some {po : Posting} {p : LspPos} {rng : Rng} {a : Amount} {c : Option Cost}
    (h : amountElement po p = some (.amount rng a c)) :
    po.amount = some a ∧ po.cost = c ∧ rng = a.range ∧ positionInRange p a.range = true := by
  unfold amountElement at h
  split at h
  · next am hpa =>
    split at h
    · next hin => cases h; exact ⟨hpa, rfl, rfl, hin⟩
    · cases h
  · cases h

theorem amountElement_kind {po : Posting} {p : LspPos} {e : Element}
    (h : amountElement po p = some e) : ∃ rng a c, e = .amount rng a c := by
  unfold amountElement at h
  split at h
  · split at h
    · cases h; exact ⟨_, _, _, rfl⟩
    · cases h
  · cases h

theorem findInPostings_amount {ps : List Posting} {p : LspPos} {rng : Rng} {a : Amount} {c : Option Cost}
    (h : findInPostings ps p = some (.amount rng a c)) :
    ∃ po ∈ ps, po.amount = some a ∧ po.cost = c ∧ rng = a.range ∧ positionInRange p a.range = true := by
  induction ps with
  | nil => simp [findInPostings] at h
  | cons po ps ih =>
    unfold findInPostings at h
    split at h
    · cases h
    · split at h
      · next e he =>
        cases h
        exact ⟨po, List.mem_cons_self, amountElement_some he⟩
      · split at h
        · next e he => cases h; exact absurd he findTag_not_amount
        · obtain ⟨q, hq, r⟩ := ih h
          exact ⟨q, List.mem_cons_of_mem _ hq, r⟩

theorem payeeElement_not_amount {lns : List HL.Text.Txt} {tx : Transaction} {p : LspPos} {rng : Rng} {a : Amount}
    {c : Option Cost} : payeeElement lns tx p ≠ some (.amount rng a c) := by
  unfold payeeElement
  split
  · split <;> simp
  · simp

theorem findElement_amount {lns : List HL.Text.Txt} {txs : List Transaction} {p : LspPos} {rng : Rng} {a : Amount}
    {c : Option Cost} (h : findElement lns txs p = some (.amount rng a c)) :
    ∃ tx ∈ txs, ∃ po ∈ tx.postings, po.amount = some a ∧ po.cost = c ∧ rng = a.range ∧
      positionInRange p a.range = true := by
  induction txs with
  | nil => simp [findElement] at h
  | cons tx txs ih =>
    unfold findElement at h
    split at h
    · next e he =>
      cases h
      unfold findInTransaction at he
      split at he
      · cases he
      · split at he
        · next e' he' => cases he; exact absurd he' payeeElement_not_amount
        · split at he
          · next e' he' => cases he; exact absurd he' findInComments_not_amount
          · obtain ⟨po, hpo, r⟩ := findInPostings_amount he
            exact ⟨tx, List.mem_cons_self, po, hpo, r⟩
    · obtain ⟨t, ht, r⟩ := ih h
      exact ⟨t, List.mem_cons_of_mem _ ht, r⟩

/-- When the cursor is on an amount, Hover shows exactly that posting's quantity and commodity
    and exactly its cost (unit or total, quantity, commodity) — the decimals as parsed, with no
    arithmetic on them — whatever the workspace or include tree; and the amount shown belongs to
    a posting of the requesting document whose amount range contains the cursor. -/
theorem amount_hover_exact (ws perUri : Option Resolved) (doc : Journal) (lns : List HL.Text.Txt)
    (p : LspPos) (rng : Rng) (a : Amount) (c : Option Cost)
    (h : findElement lns doc.transactions (runePos lns p) = some (.amount rng a c)) :
    (hover ws perUri doc lns p).map (·.figures) =
      some (.amount a.quantity a.commodity.symbol
        (c.map fun c => (c.isTotal, c.amount.quantity, c.amount.commodity.symbol))) ∧
    ∃ tx ∈ doc.transactions, ∃ po ∈ tx.postings, po.amount = some a ∧ po.cost = c ∧
      positionInRange (runePos lns p) a.range = true := by
  refine ⟨by simp [hover, hoverR, h, buildFigures], ?_⟩
  obtain ⟨tx, htx, po, hpo, h1, h2, _, h4⟩ := findElement_amount h
  exact ⟨tx, htx, po, hpo, h1, h2, h4⟩

/-! ### Account and payee hover: which element, which figures -/

theorem findTag_not_account {tags : List Tag} {p : LspPos} {rng : Rng} {acc : Account} :
    findTagAtPosition tags p ≠ some (.account rng acc) := by
  induction tags with
  | nil => simp [findTagAtPosition]
  | cons t ts ih =>
    unfold findTagAtPosition
    split
    · unfold tagElement; split <;> simp
    · exact ih

theorem findInComments_not_account {cs : List Comment} {p : LspPos} {rng : Rng} {acc : Account} :
    findInComments cs p ≠ some (.account rng acc) := by
  induction cs with
  | nil => simp [findInComments]
  | cons x xs ih =>
    unfold findInComments
    split
    · next e he => intro h; cases h; exact findTag_not_account he
    · exact ih

theorem findInPostings_account {ps : List Posting} {p : LspPos} {rng : Rng} {acc : Account}
    (h : findInPostings ps p = some (.account rng acc)) : ∃ po ∈ ps, po.account = acc := by
  induction ps with
  | nil => simp [findInPostings] at h
  | cons po ps ih =>
    unfold findInPostings at h
    split at h
    · cases h; exact ⟨po, List.mem_cons_self, rfl⟩
    · split at h
      · next e he =>
        cases h
        obtain ⟨_, _, _, e⟩ := amountElement_kind he
        cases e
      · split at h
        · next e he => cases h; exact absurd he findTag_not_account
        · obtain ⟨q, hq, r⟩ := ih h
          exact ⟨q, List.mem_cons_of_mem _ hq, r⟩

theorem findElement_account {lns : List HL.Text.Txt} {txs : List Transaction} {p : LspPos} {rng : Rng} {acc : Account}
    (h : findElement lns txs p = some (.account rng acc)) :
    ∃ tx ∈ txs, ∃ po ∈ tx.postings, po.account = acc := by
  induction txs with
  | nil => simp [findElement] at h
  | cons tx txs ih =>
    unfold findElement at h
    split at h
    · next e he =>
      cases h
      unfold findInTransaction at he
      split at he
      · cases he
      · split at he
        · next e' he' =>
          cases he
          unfold payeeElement at he'
          split at he'
          · split at he' <;> cases he'
          · cases he'
        · split at he
          · next e' he' => cases he; exact absurd he' findInComments_not_account
          · obtain ⟨po, hpo, r⟩ := findInPostings_account he
            exact ⟨tx, List.mem_cons_self, po, hpo, r⟩
    · obtain ⟨t, ht, r⟩ := ih h
      exact ⟨t, List.mem_cons_of_mem _ ht, r⟩

/-- When the transactions of the requesting document are among those Hover aggregates over,
    an account hover counts at least the posting under the cursor.  (Was the positive form of
    the guard of the finding orphan-file-not-counted; `current_file_counted` below discharges
    the hypothesis for the repaired server.) -/
theorem current_file_counted_partial (ws perUri : Option Resolved) (doc : Journal)
    (lns : List HL.Text.Txt) (p : LspPos) (rng : Rng) (acc : Account)
    (h : findElement lns doc.transactions (runePos lns p) = some (.account rng acc))
    (hsub : ∀ tx ∈ doc.transactions, tx ∈ hoverTransactions ws perUri doc) :
    (hover ws perUri doc lns p).map (·.figures) =
      some (.account acc.name
        (accountBalanceLines (accountBalances (hoverTransactions ws perUri doc)) acc.name)
        (countPostings acc.name (hoverTransactions ws perUri doc))) ∧
    1 ≤ countPostings acc.name (hoverTransactions ws perUri doc) := by
  refine ⟨by simp [hover, hoverR, h, buildFigures], ?_⟩
  obtain ⟨tx, htx, po, hpo, hacc⟩ := findElement_account h
  rw [countPostings_eq]
  apply List.countP_pos_iff.mpr
  refine ⟨po, ?_, by simp [hacc]⟩
  simp only [allPostings, List.mem_flatMap]
  exact ⟨tx, hsub tx htx, hpo⟩

/-! ### Which resolved journal, per requesting file (fix-orphan-journal-own-tree.diff) -/

/-- From the root journal or a file of its include tree Hover aggregates over the workspace's
    tree; from any other journal (and without a workspace) over the document's own tree, as
    resolved for its URI, or over the document alone before that exists. -/
theorem hover_tree_choice (w : WsView) (perUri : Option Resolved) (path : Bytes) (doc : Journal)
    (lns : List HL.Text.Txt) (p : LspPos) :
    (w.contains path = true → hoverAt (some w) perUri path doc lns p = hover (some w.resolved) perUri doc lns p) ∧
    (w.contains path = false → hoverAt (some w) perUri path doc lns p = hover none perUri doc lns p) ∧
    hoverAt none perUri path doc lns p = hover none perUri doc lns p := by
  refine ⟨fun h => ?_, fun h => ?_, rfl⟩ <;> simp [hoverAt, workspaceResolvedFor, h]

/-- The snapshots Hover may consult hold the requesting document's own current tree: the
    workspace under the document's path (root journal or member file, which `FileOrder` lists),
    the per-URI resolved journal as its primary.  This is what the server maintains —
    workspace: every didOpen/didChange/didSave passes the buffer to `UpdateFile`
    (HL.Props.C09.workspace_follows_buffers); per URI: the stored tree is absent or that of the
    current text (HL.Props.C01Fresh.resolved_fresh). -/
structure InSync (v : Option WsView) (perUri : Option Resolved) (path : Bytes) (doc : Journal) : Prop where
  root : ∀ w, v = some w → path = w.root → w.resolved.primary = some doc
  member : ∀ w, v = some w → path ≠ w.root → (lookupFile w.resolved.files path).isSome = true →
    lookupFile w.resolved.files path = some doc ∧ path ∈ w.resolved.order
  own : ∀ r, perUri = some r → r.primary = some doc

/-- The transactions of the requesting document are among those Hover aggregates over,
    wherever the request comes from: root, member file, a journal outside the root's tree, or
    no workspace at all. -/
theorem current_file_in_scope (v : Option WsView) (perUri : Option Resolved) (path : Bytes)
    (doc : Journal) (hs : InSync v perUri path doc) :
    ∀ tx ∈ doc.transactions, tx ∈ hoverTransactions (workspaceResolvedFor v path) perUri doc := by
  intro tx htx
  have hown : tx ∈ hoverTransactions none perUri doc := by
    cases hp : perUri with
    | none => simpa [hoverTransactions, workspaceResolved] using htx
    | some r =>
      have := hs.own r hp
      simp only [hoverTransactions, workspaceResolved, allTransactions, this, List.mem_append]
      exact Or.inl htx
  cases hv : v with
  | none => simpa [workspaceResolvedFor] using hown
  | some w =>
    by_cases hc : w.contains path = true
    · simp only [workspaceResolvedFor, hc, if_true, hoverTransactions, workspaceResolved,
        allTransactions, List.mem_append]
      simp only [WsView.contains, Bool.and_eq_true, Bool.or_eq_true, beq_iff_eq] at hc
      by_cases hr : path = w.root
      · rw [hs.root w hv hr]; exact Or.inl htx
      · obtain ⟨hl, ho⟩ := hs.member w hv hr (by rcases hc.2 with h | h; exact absurd h hr; exact h)
        refine Or.inr (List.mem_flatMap.mpr ⟨path, ho, ?_⟩)
        simpa [fileTxs, hl] using htx
    · simp only [workspaceResolvedFor, hc]
      exact hown

/-- **current_file_counted** (no guard on where the request comes from): an account hover
    shows the balance lines and the posting count over the chosen tree, and that count
    includes the posting under the cursor. -/
theorem current_file_counted (v : Option WsView) (perUri : Option Resolved) (path : Bytes)
    (doc : Journal) (lns : List HL.Text.Txt) (p : LspPos) (rng : Rng) (acc : Account)
    (h : findElement lns doc.transactions (runePos lns p) = some (.account rng acc))
    (hs : InSync v perUri path doc) :
    let txs := hoverTransactions (workspaceResolvedFor v path) perUri doc
    (hoverAt v perUri path doc lns p).map (·.figures) =
      some (.account acc.name (accountBalanceLines (accountBalances txs) acc.name)
        (countPostings acc.name txs)) ∧
    1 ≤ countPostings acc.name txs :=
  current_file_counted_partial (workspaceResolvedFor v path) perUri doc lns p rng acc h
    (current_file_in_scope v perUri path doc hs)

open HL.Spec.HeaderG in
/-- **payee_found** (no guard on the shape of the header; repo_patches/fix-payee-range.diff).
    The header line of the transaction is any text up to the end of the date (`pre`) followed by
    a header of the grammar (HL/Spec/HeaderG.lean: optional secondary date, status mark and
    code, any runs of blanks and tabs before the payee, `| note`, comment; `cr`: what follows
    the printed header — nothing or the CR of a CRLF line end).  Every cursor from the first
    character of the payee to just past its last one, on that line, finds the payee, and Hover
    shows the number of transactions with that payee.  `p` is the cursor in runes (`runePos lns`
    of the request's position `p0`); `hdate`: the cursor is not on the date (it follows from the
    tree when something stands between the date and the payee). -/
theorem payee_found (ws perUri : Option Resolved) (doc : Journal) (lns : List HL.Text.Txt)
    (tx : Transaction) (rest : List Transaction) (p0 p : LspPos) (hp : runePos lns p0 = p)
    (hdoc : doc.transactions = tx :: rest)
    (hne : payeeOrDescription tx ≠ [])
    (pre : HL.Text.Txt) (h : Header) (cr : HL.Text.Txt)
    (h1 : 1 ≤ tx.date.range.start.line) (h2 : 1 ≤ tx.date.range.stop.col)
    (hl : lns[tx.date.range.start.line - 1]? = some (pre ++ (h.print ++ cr)))
    (hpre : pre.length = tx.date.range.stop.col - 1) (hw : h.wf = true)
    (hlen : h.payee.length = runeLen (payeeOrDescription tx))
    (hdate : positionInRange p tx.date.range = false)
    (hline : p.line + 1 = tx.date.range.start.line)
    (hlo : pre.length + h.lead.length ≤ p.char)
    (hhi : p.char ≤ pre.length + h.lead.length + h.payee.length) :
    (hover ws perUri doc lns p0).map (·.figures) =
      some (.payee (payeeOrDescription tx)
        (countPayee (payeeOrDescription tx) (hoverTransactions ws perUri doc))) := by
  have hcol : HL.PayeeRange.payeeStart lns tx.date.range.start.line tx.date.range.stop.col =
      some (tx.date.range.stop.col + h.lead.length) := by
    have h0 : tx.date.range.start.line ≠ 0 := by omega
    simp only [HL.PayeeRange.payeeStart, h0, if_false, hl, Header.print, List.append_assoc]
    exact HL.Lemmas.PayeeRange.descriptionColumn_header pre h (h.tail ++ cr) _ hw h2 hpre
  have hin : positionInRange p (payeeRange lns tx (payeeOrDescription tx)) = true := by
    have e1 : ¬ (p.line + 1 < tx.date.range.start.line ∨ p.line + 1 > tx.date.range.start.line) := by omega
    have e2 : ¬ (p.char + 1 < tx.date.range.stop.col + h.lead.length) := by omega
    have e3 : ¬ (p.char + 1 > tx.date.range.stop.col + h.lead.length + runeLen (payeeOrDescription tx)) := by omega
    simp [positionInRange, payeeRange, hcol, e1, e2, e3]
  have hb : (payeeOrDescription tx != []) = true := by simpa using hne
  have hf : findElement lns doc.transactions p =
      some (.payee (payeeRange lns tx (payeeOrDescription tx)) (payeeOrDescription tx) tx) := by
    rw [hdoc]
    simp [findElement, findInTransaction, hdate, payeeElement, hb, hin]
  simp [hover, hoverR, hp, hf, buildFigures]

/-! ### The judge accepts the model: what is shown, as text, is what the statement demands -/

/-- `Decimal.String()` prints exactly the value: reading the shown text back gives `decToRat`,
    whatever notation the amount was written in (the printed form depends on coefficient and
    exponent only). -/
theorem shown_decimal_exact (d : Dec) : readDec? (decStr d) = some (decToRat d) := decStr_exact d

/-- Account hover, end to end: for every transaction list and account, the executable judge
    `accountOk` — the one applied to the real server's markdown in every run — accepts what the
    model shows: one line per commodity explicitly posted, each printing the exact sum, no
    commodity twice, none missing, and the exact number of postings. -/
theorem account_hover_judged (txs : List Transaction) (a : Bytes) :
    accountOk (txs.map absTx) a
      (shownOf (.account a (accountBalanceLines (accountBalances txs) a) (countPostings a txs))) = true := by
  obtain ⟨l1, l2⟩ := account_lines_exact txs a
  simp only [shownOf, accountOk, Bool.and_eq_true, beq_self_eq_true, true_and, beq_iff_eq,
    decide_eq_true_eq, List.all_eq_true, List.any_eq_true, List.map_map]
  refine ⟨⟨⟨(counts_exact txs).1 a, ?_⟩, ?_⟩, ?_⟩
  · have := nodup_line_commodities (accountBalances txs) a (nodup_accountBalances txs)
    have hf : ((fun x : Bytes × Bytes => x.fst) ∘ fun e : Bytes × Dec => (e.fst, decStr e.snd))
        = fun x : Bytes × Dec => x.fst := by funext x; rfl
    rw [hf]; exact this
  · intro e he
    obtain ⟨⟨c, v⟩, hm, rfl⟩ := List.mem_map.mp he
    simp only [l1 c v hm, decStr_exact, beq_self_eq_true]
  · intro c hc
    simp only [accountCommodities, List.mem_filterMap] at hc
    obtain ⟨p, hp, hpc⟩ := hc
    have hne : accountSum? (txs.map absTx) a c ≠ none := by
      unfold accountSum?
      have : amountsOf (txs.map absTx) a c ≠ [] := by
        intro e
        have hm : ∀ q, q ∉ amountsOf (txs.map absTx) a c := by rw [e]; intro q hq; cases hq
        split at hpc
        · next hacc =>
          cases hpa : p.amount with
          | none => simp [hpa] at hpc
          | some am =>
            simp only [hpa, Option.map_some, Option.some.injEq] at hpc
            apply hm am.q
            simp only [amountsOf, List.mem_filterMap]
            exact ⟨p, hp, by simp [contrib, hacc, hpa, hpc]⟩
        · cases hpc
      cases h : amountsOf (txs.map absTx) a c with
      | nil => exact absurd h this
      | cons x xs => simp
    obtain ⟨v, hv⟩ := l2 c hne
    exact ⟨(c, decStr v), List.mem_map.mpr ⟨(c, v), hv, rfl⟩, rfl⟩

/-- Payee, tag and tag-value hover: the judge accepts the model's figures. -/
theorem count_hovers_judged (txs : List Transaction) :
    (∀ n vals, tagOk (txs.map absTx) n (shownOf (.tag n (countTag n txs) vals)) = true) ∧
    (∀ n v, tagValueOk (txs.map absTx) n v (shownOf (.tagValue n v (countTagValue n v txs))) = true) ∧
    (∀ p, (∀ tx ∈ txs, TxWF tx) → (124 : UInt8) ∉ p → p ≠ [] →
        payeeOk (txs.map absTx) p (shownOf (.payee p (countPayee p txs))) = true) := by
  obtain ⟨_, c2, c3⟩ := counts_exact txs
  refine ⟨fun n vals => ?_, fun n v => ?_, fun p hwf hp hp0 => ?_⟩
  · simp [shownOf, tagOk, c2]
  · simp [shownOf, tagValueOk, c3]
  · simp [shownOf, payeeOk, payee_count_exact txs p hwf hp hp0]

/-- Amount hover, end to end: the judge accepts the shown quantity, commodity and cost of the
    amount under the cursor. -/
theorem amount_hover_judged (a : Amount) (c : Option Cost) :
    amountOk ⟨decToRat a.quantity, a.commodity.symbol⟩
      (c.map fun c => ⟨c.isTotal, decToRat c.amount.quantity, c.amount.commodity.symbol⟩)
      (shownOf (.amount a.quantity a.commodity.symbol
        (c.map fun c => (c.isTotal, c.amount.quantity, c.amount.commodity.symbol)))) = true := by
  cases c with
  | none => simp [shownOf, amountOk, decStr_exact]
  | some c => simp [shownOf, amountOk, decStr_exact]

/-! ### Counterexamples (each reproduced against the real server by a witness in replays/C20) -/

namespace Cex

def rng (l c1 c2 : Nat) : Rng := ⟨⟨l, c1, 0⟩, ⟨l, c2, 0⟩⟩
/-- `x:y` -/
def xy : Bytes := [120, 58, 121]
/-- `o:p` -/
def op : Bytes := [111, 58, 112]
def usd : Bytes := [85, 83, 68]

def posting (acct : Bytes) (line : Nat) (q : Option Int) : Posting :=
  { (default : Posting) with
    account := ⟨acct, rng line 3 6⟩
    amount := q.map fun n => ⟨⟨n, 0⟩, [], ⟨usd, .right, rng line 8 13⟩, false, rng line 8 13⟩ }

def tx (line : Nat) (ps : List Posting) : Transaction :=
  { (default : Transaction) with date := ⟨2024, 1, 15, rng line 1 11⟩, postings := ps }

def journal (txs : List Transaction) : Journal := ⟨txs, [], [], []⟩

/-- file b: one transaction posting 5 USD to x:y -/
def fileB : Journal := journal [tx 1 [posting xy 2 (some 5)]]
def fileC : Journal := journal [tx 1 [posting xy 2 (some 7)]]
def b : Bytes := [98]
def c : Bytes := [99]

/-- root `include b` twice, resolved with a warm loader cache: `FileOrder = [b, b]`. -/
def resolvedDup : Resolved := ⟨some (journal []), [(b, fileB)], [b, b]⟩

/-- root includes b, b includes c; resolved with a warm cache: `FileOrder = [b]`, c is in
    neither `Files` nor `FileOrder`. -/
def resolvedTruncated : Resolved := ⟨some (journal []), [(b, fileB)], [b]⟩
def resolvedFull : Resolved := ⟨some (journal []), [(b, fileB), (c, fileC)], [b, c]⟩

end Cex

/-- The hypotheses of `amount_hover_exact` and `current_file_counted_partial` are satisfiable:
    a document with one posting `x:y  5 USD` on line 2, cursor on the amount / on the account. -/
example : ∃ rng a c, findElement [] (Cex.journal [Cex.tx 1 [Cex.posting Cex.xy 2 (some 5)]]).transactions ⟨1, 8⟩
    = some (.amount rng a c) := ⟨_, _, _, rfl⟩
example : ∃ rng acc, findElement [] (Cex.journal [Cex.tx 1 [Cex.posting Cex.xy 2 (some 5)]]).transactions ⟨1, 3⟩
    = some (.account rng acc) ∧
    ∀ tx ∈ (Cex.journal [Cex.tx 1 [Cex.posting Cex.xy 2 (some 5)]]).transactions,
      tx ∈ hoverTransactions none none (Cex.journal [Cex.tx 1 [Cex.posting Cex.xy 2 (some 5)]]) :=
  ⟨_, _, rfl, fun _ h => h⟩

/-- The hypotheses of `payee_found` are satisfiable: `2024-01-15=2024-01-16 ! (12)` + TAB +
    `😀 Shop | n ; c` on a CRLF line, cursor (runes) on `S`; and the canonical `2024-01-15 Shop`,
    cursor on `h`. -/
example :
    let tx : Transaction := { Cex.tx 1 [] with code := [49, 50], payee := "😀 Shop".toUTF8.toList }
    let h : HL.Spec.HeaderG.Header := {
      date2 := some ([], [], "2024-01-16".toList), status := some (" ".toList, '!'),
      code := some (" ".toList, "12".toList), gap := "\t".toList, payee := "😀 Shop".toList,
      note := some (" ".toList, " ".toList, "n".toList), comment := some (" ".toList, " c".toList) }
    let pre := "2024-01-15".toList
    let lns : List HL.Text.Txt := [pre ++ (h.print ++ ['\r']), []]
    let p : LspPos := ⟨0, 31⟩
    payeeOrDescription tx ≠ [] ∧ lns[tx.date.range.start.line - 1]? = some (pre ++ (h.print ++ ['\r'])) ∧
    pre.length = tx.date.range.stop.col - 1 ∧ h.wf = true ∧ h.payee.length = runeLen (payeeOrDescription tx) ∧
    positionInRange p tx.date.range = false ∧ p.line + 1 = tx.date.range.start.line ∧
    pre.length + h.lead.length ≤ p.char ∧ p.char ≤ pre.length + h.lead.length + h.payee.length ∧
    (findElement lns [tx] p).map Element.rng = some ⟨⟨1, 30, 0⟩, ⟨1, 36, 0⟩⟩ := by
  decide +kernel

example :
    let tx : Transaction := { Cex.tx 1 [] with description := [83, 104, 111, 112] }
    let h : HL.Spec.HeaderG.Header := { gap := " ".toList, payee := "Shop".toList }
    let pre := "2024-01-15".toList
    let p : LspPos := ⟨0, 12⟩
    h.wf = true ∧ h.payee.length = runeLen (payeeOrDescription tx) ∧
    positionInRange p tx.date.range = false ∧
    pre.length + h.lead.length ≤ p.char ∧ p.char ≤ pre.length + h.lead.length + h.payee.length := by
  decide +kernel

open Cex in
/-- A `FileOrder` that lists a file twice doubles that file's figures: 2 postings and 10 USD are
    shown where root + members once have 1 posting and 5 USD. -/
theorem dup_include_doubled_counterexample :
    ¬ resolvedDup.order.Nodup ∧
    countPostings xy (allTransactions resolvedDup) = 2 ∧
    balLookup (accountBalances (allTransactions resolvedDup)) (xy, usd) = some ⟨10, 0⟩ ∧
    countPostings xy (primaryTxs resolvedDup ++ [b].flatMap (fileTxs resolvedDup.files)) = 1 ∧
    balLookup (accountBalances (primaryTxs resolvedDup ++ [b].flatMap (fileTxs resolvedDup.files)))
      (xy, usd) = some ⟨5, 0⟩ := by
  decide

open Cex in
/-- A `FileOrder` that misses a member file (the loader does not follow the includes of a cached
    file) misses its figures. -/
theorem truncated_tree_counterexample :
    countPostings xy (allTransactions resolvedTruncated) = 1 ∧
    balLookup (accountBalances (allTransactions resolvedTruncated)) (xy, usd) = some ⟨5, 0⟩ ∧
    countPostings xy (allTransactions resolvedFull) = 2 ∧
    balLookup (accountBalances (allTransactions resolvedFull)) (xy, usd) = some ⟨12, 0⟩ := by
  decide

open Cex in
/-- Before fix-orphan-journal-own-tree.diff: with a workspace, a request from a file outside the
    root's include tree (`o`; the root is `b`) was answered from the root's tree only — the
    posting under the cursor was not counted (0 postings, no balance).  The repaired server
    answers from the document's own tree: 1 posting, 3 USD. -/
theorem pinned_orphan_file_counterexample :
    let w : WsView := ⟨⟨some fileB, [], []⟩, b⟩
    let doc := journal [tx 1 [posting op 2 (some 3)]]
    let lns : List HL.Text.Txt := ["2024-01-15 x".toList, "  o:p  3 USD".toList, []]
    w.contains [111] = false ∧
    pinnedHoverAt (some w) (some ⟨some doc, [], []⟩) [111] doc lns ⟨1, 2⟩
      = some ⟨.account op [] 0, (1, 2, 1, 5)⟩ ∧
    hoverAt (some w) (some ⟨some doc, [], []⟩) [111] doc lns ⟨1, 2⟩
      = some ⟨.account op [(usd, ⟨3, 0⟩)] 1, (1, 2, 1, 5)⟩ := by
  decide

open Cex in
/-- The hypotheses of `current_file_counted` hold on that very input (a journal outside the
    root's tree whose per-URI tree is that of its current text): non-vacuity on the shape that
    used to fail. -/
example :
    let w : WsView := ⟨⟨some fileB, [], []⟩, b⟩
    let doc := journal [tx 1 [posting op 2 (some 3)]]
    InSync (some w) (some ⟨some doc, [], []⟩) [111] doc ∧
    ∃ rng acc, findElement ["2024-01-15 x".toList, "  o:p  3 USD".toList, []] doc.transactions
      (runePos ["2024-01-15 x".toList, "  o:p  3 USD".toList, []] ⟨1, 2⟩) = some (.account rng acc) := by
  refine ⟨⟨?_, ?_, ?_⟩, _, _, rfl⟩
  · intro w hw hp; cases hw; exact absurd hp (by decide)
  · intro w hw _ hl; cases hw; exact absurd hl (by decide)
  · intro r hr; cases hr; rfl

open Cex in
/-- Known finding `unsaved-include-not-seen` (shared with C09): a document answered from its own
    tree (no workspace, or a journal outside the root's tree) includes `b`, which is open with
    an unsaved edit (7 USD where the file on disk has 5 USD); the per-URI resolved journal was
    loaded from disk and still holds the disk version: Hover shows 5 USD. -/
theorem unsaved_include_not_seen_counterexample :
    let held : Resolved := ⟨some (journal []), [(b, fileB)], [b]⟩
    let current : Resolved := ⟨some (journal []), [(b, fileC)], [b]⟩
    balLookup (accountBalances (hoverTransactions (workspaceResolvedFor none [111]) (some held) (journal []))) (xy, usd)
      = some ⟨5, 0⟩ ∧
    balLookup (accountBalances (allTransactions current)) (xy, usd) = some ⟨7, 0⟩ := by
  decide

open Cex in
/-- **pinned_payee_range_counterexample** (before repo_patches/fix-payee-range.diff).
    `2024-01-15 (12) Shop`: the payee range was estimated as "one column after the date" — what
    the model still computes when the mapper has no text (`lns = []`) — so a cursor on `Shop`
    (characters 16..20) found nothing while a cursor on the code found the payee.  With the text
    of the header line the payee is found on `Shop`, with its exact range, and the code is no
    payee. -/
theorem pinned_payee_range_counterexample :
    let t : Transaction := { tx 1 [] with code := [49, 50], description := [83, 104, 111, 112] }
    let lns : List HL.Text.Txt := ["2024-01-15 (12) Shop".toList, []]
    findElement [] [t] ⟨0, 16⟩ = none ∧ findElement [] [t] ⟨0, 18⟩ = none ∧
    (findElement [] [t] ⟨0, 12⟩).map Element.rng = some ⟨⟨1, 12, 0⟩, ⟨1, 16, 0⟩⟩ ∧
    (findElement lns [t] ⟨0, 16⟩).map Element.rng = some ⟨⟨1, 17, 0⟩, ⟨1, 21, 0⟩⟩ ∧
    (findElement lns [t] ⟨0, 18⟩).map Element.rng = some ⟨⟨1, 17, 0⟩, ⟨1, 21, 0⟩⟩ ∧
    (findElement lns [t] ⟨0, 20⟩).map Element.rng = some ⟨⟨1, 17, 0⟩, ⟨1, 21, 0⟩⟩ ∧
    findElement lns [t] ⟨0, 12⟩ = none ∧ findElement lns [t] ⟨0, 15⟩ = none := by
  decide

open Cex in
/-- Tags written on an indented comment line of a transaction never reach the syntax tree
    (parser.parsePosting parses the comment and discards it): for the tree the real parser
    returns for `2024-01-15 Shop⏎  ; trip:x⏎  x:y  5 USD⏎` the tag count is 0, the journal
    has 1 use. -/
theorem txline_tags_dropped_counterexample :
    let parsed : Transaction := { tx 1 [posting xy 3 (some 5)] with description := [83, 104, 111, 112] }
    let written : GTx := ⟨[83, 104, 111, 112], [([116, 114, 105, 112], [120])], [⟨xy, some ⟨5, usd⟩, none, []⟩]⟩
    countTag [116, 114, 105, 112] [parsed] = 0 ∧ tagCount [written] [116, 114, 105, 112] = 1 := by
  decide

end HL.Props.C20Hover

/-! ### Audit aliases

  `./check C20` audits the theorems whose names start with `HL.Props.C20.`; the statements are
  the ones above. -/
namespace HL.Props.C20
theorem hover_account_sum_exact : type_of% @HL.Props.C20Hover.account_sum_exact := @HL.Props.C20Hover.account_sum_exact
theorem hover_account_lines_exact : type_of% @HL.Props.C20Hover.account_lines_exact := @HL.Props.C20Hover.account_lines_exact
theorem hover_counts_exact : type_of% @HL.Props.C20Hover.counts_exact := @HL.Props.C20Hover.counts_exact
theorem hover_payee_count_exact : type_of% @HL.Props.C20Hover.payee_count_exact := @HL.Props.C20Hover.payee_count_exact
theorem hover_all_transactions_once : type_of% @HL.Props.C20Hover.all_transactions_once := @HL.Props.C20Hover.all_transactions_once
theorem hover_spec_perm : type_of% @HL.Props.C20Hover.spec_perm := @HL.Props.C20Hover.spec_perm
theorem hover_aggregates_exact_partial : type_of% @HL.Props.C20Hover.hover_aggregates_exact_partial := @HL.Props.C20Hover.hover_aggregates_exact_partial
theorem hover_uses_whole_tree : type_of% @HL.Props.C20Hover.hover_uses_whole_tree := @HL.Props.C20Hover.hover_uses_whole_tree
theorem hover_without_workspace : type_of% @HL.Props.C20Hover.hover_without_workspace := @HL.Props.C20Hover.hover_without_workspace
theorem hover_current_file_counted_partial : type_of% @HL.Props.C20Hover.current_file_counted_partial := @HL.Props.C20Hover.current_file_counted_partial
theorem hover_payee_found : type_of% @HL.Props.C20Hover.payee_found := @HL.Props.C20Hover.payee_found
theorem hover_shown_decimal_exact : type_of% @HL.Props.C20Hover.shown_decimal_exact := @HL.Props.C20Hover.shown_decimal_exact
theorem hover_account_hover_judged : type_of% @HL.Props.C20Hover.account_hover_judged := @HL.Props.C20Hover.account_hover_judged
theorem hover_count_hovers_judged : type_of% @HL.Props.C20Hover.count_hovers_judged := @HL.Props.C20Hover.count_hovers_judged
theorem hover_amount_hover_judged : type_of% @HL.Props.C20Hover.amount_hover_judged := @HL.Props.C20Hover.amount_hover_judged
theorem hover_amount_exact : type_of% @HL.Props.C20Hover.amount_hover_exact := @HL.Props.C20Hover.amount_hover_exact
theorem hover_dup_include_doubled_counterexample : type_of% @HL.Props.C20Hover.dup_include_doubled_counterexample := @HL.Props.C20Hover.dup_include_doubled_counterexample
theorem hover_truncated_tree_counterexample : type_of% @HL.Props.C20Hover.truncated_tree_counterexample := @HL.Props.C20Hover.truncated_tree_counterexample
theorem hover_tree_choice : type_of% @HL.Props.C20Hover.hover_tree_choice := @HL.Props.C20Hover.hover_tree_choice
theorem hover_current_file_in_scope : type_of% @HL.Props.C20Hover.current_file_in_scope := @HL.Props.C20Hover.current_file_in_scope
theorem hover_current_file_counted : type_of% @HL.Props.C20Hover.current_file_counted := @HL.Props.C20Hover.current_file_counted
theorem pinned_hover_orphan_file_counterexample : type_of% @HL.Props.C20Hover.pinned_orphan_file_counterexample := @HL.Props.C20Hover.pinned_orphan_file_counterexample
theorem hover_unsaved_include_not_seen_counterexample : type_of% @HL.Props.C20Hover.unsaved_include_not_seen_counterexample := @HL.Props.C20Hover.unsaved_include_not_seen_counterexample
theorem pinned_hover_payee_range_counterexample : type_of% @HL.Props.C20Hover.pinned_payee_range_counterexample := @HL.Props.C20Hover.pinned_payee_range_counterexample
theorem hover_txline_tags_dropped_counterexample : type_of% @HL.Props.C20Hover.txline_tags_dropped_counterexample := @HL.Props.C20Hover.txline_tags_dropped_counterexample
end HL.Props.C20
