import HL.Lemmas.ParserList
/-
  C03, parser side: per-line-shape lemmas (layer L4 of DESIGN 7.C03).  Given the exact token
  sequence of a line shape, the parser yields the intended syntax-tree node, leaves the error
  list untouched and stops in front of the right token.  Stated over the token-list source;
  `num`/`cls` arbitrary.  They compose with the lexer's extent lemmas (L3) into `C03_faithful`.

    date_full_ok, date_partial_ok           Y-M-D and M-D (after a Y directive)
    amount_number_only_ok                   `12.50`
    amount_number_commodity_ok              `12.50 EUR`      (right commodity)
    amount_commodity_number_ok              `$12.50`         (left commodity)
    amount_sign_commodity_number_ok         `-$12.50`        (sign before a left commodity)
    posting_account_only_ok                 `  assets:cash⏎`
    posting_amount_ok                       `  assets:cash  12.50 EUR⏎`
    header_date_text_ok                     `2024-01-15 grocery store⏎`
    top_comment_ok                          `; text` at top level
    year_directive_ok                       `Y 2024⏎` / `year 2024⏎`
-/
namespace HL.Props.C03
open HL HL.Ast HL.Parser HL.PStr

variable (num : NumDeps) (cls : Classes)

/-- An empty token stream (just EOF) parses to the empty journal without errors. -/
theorem parse_eof_only (p : Pos) :
    parseTokens num cls [⟨.eof, [], p, p⟩] = (jempty, []) := by
  rfl

@[simp] theorem advance_list (t : Token) (r : List Token) (c : Token) (e : List ParseError) (y : Int) :
    advance (listEnv num cls) ⟨t :: r, c, e, y⟩ = ⟨r, t, e, y⟩ := rfl

theorem listEnv_num : (listEnv num cls).num = num := rfl

/-- A full date `Y s M s D`. -/
theorem date_full_ok (d x : Token) (rest : List Token) (errs : List ParseError) (dy : Int)
    (a b c : Bytes) (y m dd : Int) (h : d.ty = .date)
    (hs : splitByte d.val (firstSep d.val) = [a, b, c])
    (ha : atoi a = some y) (hb : atoi b = some m) (hc : atoi c = some dd) :
    parseDate (listEnv num cls) ⟨x :: rest, d, errs, dy⟩ =
      (some ⟨y, m, dd, ⟨d.pos, d.stop⟩⟩, ⟨rest, x, errs, dy⟩) := by
  unfold parseDate
  simp only [h, ne_eq, not_true_eq_false, if_false, advance_list, hs, ha, hb, hc, toRange]

/-- A partial date `M s D` while a default year is in force. -/
theorem date_partial_ok (d x : Token) (rest : List Token) (errs : List ParseError) (dy : Int)
    (a b : Bytes) (m dd : Int) (h : d.ty = .date) (hdy : dy ≠ 0)
    (hs : splitByte d.val (firstSep d.val) = [a, b])
    (ha : atoi a = some m) (hb : atoi b = some dd) :
    parseDate (listEnv num cls) ⟨x :: rest, d, errs, dy⟩ =
      (some ⟨dy, m, dd, ⟨d.pos, d.stop⟩⟩, ⟨rest, x, errs, dy⟩) := by
  unfold parseDate
  simp only [h, ne_eq, not_true_eq_false, if_false, advance_list, hs, hdy, ha, hb, toRange]

/-- What makes a Number token an acceptable quantity. -/
def NumOk (n : Token) (q : Dec) : Prop :=
  num.decOfString (num.normalize (dropBlanks n.val)) = some q ∧
  ¬ (q.exp > maxAmountExponent ∨ q.exp < -maxAmountExponent)

/-- `12.50` followed by a token that is neither a commodity nor a commodity-like text. -/
theorem amount_number_only_ok (n x : Token) (rest : List Token) (errs : List ParseError) (dy : Int) (q : Dec)
    (h3 : n.ty = .number) (hx : x.ty ≠ .commodity) (hx' : x.ty ≠ .text) (hq : NumOk num n q) :
    parseAmount (listEnv num cls) ⟨x :: rest, n, errs, dy⟩ =
      (some ⟨q, n.val, emptyCommodity, false, ⟨n.pos, n.stop⟩⟩, ⟨x :: rest, n, errs, dy⟩ |> advance (listEnv num cls)) := by
  unfold parseAmount amountLeadSign amountLeftCommodity amountSecondSign amountNumber amountRightCommodity
  simp only [h3, advance_list, reduceCtorEq, if_false, ne_eq, not_true_eq_false, false_and, listEnv_num,
    hq.1, hq.2, emptyCommodity, if_true, hx, hx', false_or, toRange]

/-- `12.50 EUR`. -/
theorem amount_number_commodity_ok (n com x : Token) (rest : List Token) (errs : List ParseError) (dy : Int)
    (q : Dec) (h3 : n.ty = .number) (h4 : com.ty = .commodity) (hq : NumOk num n q) :
    parseAmount (listEnv num cls) ⟨com :: x :: rest, n, errs, dy⟩ =
      (some ⟨q, n.val, ⟨com.val, .right, ⟨com.pos, com.stop⟩⟩, false, ⟨n.pos, com.stop⟩⟩, ⟨rest, x, errs, dy⟩) := by
  unfold parseAmount amountLeadSign amountLeftCommodity amountSecondSign amountNumber amountRightCommodity
  simp only [h3, h4, advance_list, reduceCtorEq, if_false, ne_eq, not_true_eq_false, false_and, listEnv_num,
    hq.1, hq.2, emptyCommodity, if_true, true_or, toRange]

/-- `$12.50` (a left commodity with a non-empty symbol). -/
theorem amount_commodity_number_ok (com n x : Token) (rest : List Token) (errs : List ParseError) (dy : Int)
    (q : Dec) (h4 : com.ty = .commodity) (h3 : n.ty = .number) (hsym : com.val ≠ []) (hq : NumOk num n q) :
    parseAmount (listEnv num cls) ⟨n :: x :: rest, com, errs, dy⟩ =
      (some ⟨q, n.val, ⟨com.val, .left, ⟨com.pos, com.stop⟩⟩, false, ⟨com.pos, n.stop⟩⟩, ⟨rest, x, errs, dy⟩) := by
  unfold parseAmount amountLeadSign amountLeftCommodity amountSecondSign amountNumber amountRightCommodity
  simp only [h3, h4, advance_list, reduceCtorEq, if_false, if_true, ne_eq, not_true_eq_false, false_and,
    listEnv_num, hq.1, hq.2, hsym, Bool.false_and, toRange]

/-- `-$12.50`: the sign in front of a left commodity is kept in the raw quantity and in
    `signBeforeCommodity`; the number is negated by prefixing `-`. -/
theorem amount_sign_commodity_number_ok (sg com n x : Token) (rest : List Token) (errs : List ParseError)
    (dy : Int) (q : Dec) (h1 : sg.ty = .sign) (hv : sg.val = [0x2D]) (h4 : com.ty = .commodity)
    (h3 : n.ty = .number) (hsym : com.val ≠ []) (hn : ¬ ([0x2D] : Bytes).isPrefixOf n.val)
    (hq : num.decOfString (num.normalize (dropBlanks (0x2D :: n.val))) = some q)
    (hexp : ¬ (q.exp > maxAmountExponent ∨ q.exp < -maxAmountExponent)) :
    parseAmount (listEnv num cls) ⟨com :: n :: x :: rest, sg, errs, dy⟩ =
      (some ⟨q, 0x2D :: n.val, ⟨com.val, .left, ⟨com.pos, com.stop⟩⟩, true, ⟨sg.pos, n.stop⟩⟩,
       ⟨rest, x, errs, dy⟩) := by
  unfold parseAmount amountLeadSign amountLeftCommodity amountSecondSign amountNumber amountRightCommodity
  simp only [h1, h3, h4, hv, advance_list, reduceCtorEq, if_false, if_true, ne_eq, not_true_eq_false,
    listEnv_num, hsym, toRange, Bool.true_and, decide_true, Bool.true_or, true_and, hn, Bool.not_false,
    Bool.false_eq_true, not_false_eq_true, hq, hexp, List.cons_ne_self, List.cons.injEq, and_true]

/-- `  assets:cash⏎`: a posting with only an account. -/
theorem posting_account_only_ok (ind acc nl : Token) (rest : List Token) (errs : List ParseError) (dy : Int)
    (h1 : ind.ty = .indent) (h2 : acc.ty = .account) (h5 : nl.ty = .newline) :
    parsePosting (listEnv num cls) ⟨acc :: nl :: rest, ind, errs, dy⟩ =
      (some ⟨.none, ⟨acc.val, ⟨acc.pos, acc.stop⟩⟩, none, none, none, [], [], .none, ⟨acc.pos, nl.pos⟩⟩,
       ⟨rest, nl, errs, dy⟩) := by
  unfold parsePosting
  simp only [h1, ne_eq, not_true_eq_false, if_false, advance_list, h2, reduceCtorEq, or_self]
  unfold postingOpen
  simp only [h2, reduceCtorEq, if_false, ne_eq, not_true_eq_false, advance_list]
  unfold postingTail postingClosing postingAmount postingCost postingAssertion lineComment
  simp only [h5, reduceCtorEq, if_false, or_self, Option.some.injEq, toRange]

/-- `  assets:cash  12.50 EUR⏎`. -/
theorem posting_amount_ok (ind acc n com nl : Token) (rest : List Token) (errs : List ParseError) (dy : Int)
    (q : Dec) (h1 : ind.ty = .indent) (h2 : acc.ty = .account) (h3 : n.ty = .number)
    (h4 : com.ty = .commodity) (h5 : nl.ty = .newline) (hq : NumOk num n q) :
    parsePosting (listEnv num cls) ⟨acc :: n :: com :: nl :: rest, ind, errs, dy⟩ =
      (some ⟨.none, ⟨acc.val, ⟨acc.pos, acc.stop⟩⟩,
             some ⟨q, n.val, ⟨com.val, .right, ⟨com.pos, com.stop⟩⟩, false, ⟨n.pos, com.stop⟩⟩,
             none, none, [], [], .none, ⟨acc.pos, nl.pos⟩⟩,
       ⟨rest, nl, errs, dy⟩) := by
  unfold parsePosting
  simp only [h1, ne_eq, not_true_eq_false, if_false, advance_list, h2, reduceCtorEq, or_self]
  unfold postingOpen
  simp only [h2, reduceCtorEq, if_false, ne_eq, not_true_eq_false, advance_list]
  unfold postingTail postingClosing postingAmount postingCost postingAssertion lineComment
  simp only [h3, reduceCtorEq, if_false, if_true, or_true, true_or, Option.some.injEq,
    amount_number_commodity_ok num cls n com nl rest errs dy q h3 h4 hq, h5, or_self, toRange]

/-- `2024-01-15 grocery store⏎` followed by a line that is not indented: a transaction without
    postings whose description is the text token. -/
theorem header_date_text_ok (d tx nl x : Token) (rest : List Token) (errs : List ParseError) (dy : Int)
    (a b c : Bytes) (y m dd : Int) (h : d.ty = .date) (ht : tx.ty = .text) (hn : nl.ty = .newline)
    (hx : x.ty ≠ .indent)
    (hs : splitByte d.val (firstSep d.val) = [a, b, c])
    (ha : atoi a = some y) (hb : atoi b = some m) (hc : atoi c = some dd) :
    parseTransaction (listEnv num cls) ⟨tx :: nl :: x :: rest, d, errs, dy⟩ =
      (some ⟨⟨y, m, dd, ⟨d.pos, d.stop⟩⟩, none, .none, [], tx.val, [], [], [], [], [], ⟨d.pos, x.pos⟩⟩,
       ⟨rest, x, errs, dy⟩) := by
  unfold parseTransaction
  rw [date_full_ok num cls d tx (nl :: x :: rest) errs dy a b c y m dd h hs ha hb hc]
  simp only
  unfold txHeader txDate2 txStatus txCode txComment
  simp only [ht, reduceCtorEq, if_false]
  unfold txDescription
  simp only [ht, if_true, advance_list, hn, reduceCtorEq, if_false]
  unfold postingsF fuelOf
  simp only [hx, ne_eq, not_false_eq_true, if_true, toRange]

/-- A top-level comment line: the comment's text, its tags, and nothing else. -/
theorem top_comment_ok (cm x : Token) (rest : List Token) (errs : List ParseError) (dy : Int)
    (h : cm.ty = .comment) :
    journalStep (listEnv num cls) ⟨x :: rest, cm, errs, dy⟩ =
      (.comment ⟨cm.val, parseTags cm.val cm.pos, ⟨cm.pos, Pos.zero⟩⟩, ⟨rest, x, errs, dy⟩) := by
  unfold journalStep
  simp only [h, reduceCtorEq, if_false, if_true, parseComment, advance_list, toRange]

/-- `skipToNextLine` in front of a Newline just steps over it. -/
theorem skip_at_newline (nl x : Token) (rest : List Token) (errs : List ParseError) (dy : Int)
    (hn : nl.ty = .newline) :
    skipToNextLine (listEnv num cls) ⟨x :: rest, nl, errs, dy⟩ = ⟨rest, x, errs, dy⟩ := by
  unfold skipToNextLine fuelOf
  simp only [skipLoopF, isLineEnd, hn, decide_true, Bool.true_or, if_true, advance_list]

/-- `Y 2024⏎`: the year directive is recorded, the default year is set, nothing is reported. -/
theorem year_directive_ok (dt n nl x : Token) (rest : List Token) (errs : List ParseError) (dy : Int)
    (y : Int) (hty : dt.ty = .directive) (hd : dt.val = kwY ∨ dt.val = kwYear) (hn : n.ty = .number)
    (hnl : nl.ty = .newline) (hy : atoi n.val = some y) (hr : ¬ (y < 1 ∨ y > 9999)) :
    journalStep (listEnv num cls) ⟨n :: nl :: x :: rest, dt, errs, dy⟩ =
      (.dir (.year y ⟨dt.pos, nl.pos⟩), ⟨rest, x, errs, y⟩) := by
  have hpd : parseDirective (listEnv num cls) ⟨n :: nl :: x :: rest, dt, errs, dy⟩ =
      (.dir (.year y ⟨dt.pos, nl.pos⟩), ⟨rest, x, errs, y⟩) := by
    unfold parseDirective
    have e1 : dt.val ≠ kwAccount := by rcases hd with h | h <;> (rw [h]; decide)
    have e2 : dt.val ≠ kwCommodity := by rcases hd with h | h <;> (rw [h]; decide)
    have e3 : dt.val ≠ kwInclude := by rcases hd with h | h <;> (rw [h]; decide)
    have e4 : dt.val ≠ kwP := by rcases hd with h | h <;> (rw [h]; decide)
    simp only [e1, e2, e3, e4, if_false, hd, if_true, advance_list]
    unfold parseYearDirective
    simp only [hn, ne_eq, not_true_eq_false, if_false, hy, hr, advance_list, toRange,
      skip_at_newline num cls nl x rest errs y hnl, DirResult.ofDir]
  unfold journalStep
  simp only [hty, reduceCtorEq, if_false, if_true, hpd]

end HL.Props.C03
