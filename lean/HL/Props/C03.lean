import HL.Model.Parser
/-! C03 (parser part): per-line-shape lemmas; filled in below. -/
namespace HL.Props.C03
open HL HL.Parser

/-- An empty token stream (just EOF) parses to the empty journal without errors. -/
theorem parse_eof_only (num : NumDeps) (cls : Classes) (p : Pos) :
    parseTokens num cls [⟨.eof, [], p, p⟩] = (jempty, []) := by
  rfl

end HL.Props.C03
