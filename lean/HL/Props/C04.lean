/-
  C04 — Formatting never changes what the journal says.
  Property theorems only; helper lemmas live in HL/Lemmas/.

  What can be proved about the formatter alone (the parser is modelled by other builders; the
  composition "format, then parse again" is judged end to end by the oracle of the
  correspondence check on the real code):
    * `nonposting_lines`      — edits outside posting lines only remove trailing blanks;
    * `error_lines_untouched` — a line with a parse error gets no edit at all (so no text the
                                parser failed to understand is deleted);
    * `formatNumber_*`        — what `formatIsFaithful` protects against (counterexamples on
                                `formatNumber` alone) and that the guard is what the model's
                                `formatAmountQuantity` applies before using a format.
-/
import HL.Props.C05
namespace HL.Props.C04
open HL HL.Ast HL.FmtText HL.Fmt HL.EditSpec HL.Lemmas.FmtText HL.Lemmas.Format HL.Props.C05

/-- Edits on lines that are not posting lines are exactly removals of trailing blanks/tabs. -/
theorem nonposting_lines (j : Journal) (errs : List ParseError) (doc : Bytes)
    (formats : Option Formats) (o : Options) (h : TreeFits doc j) :
    ∀ e ∈ formatText j errs doc formats o,
      ¬ ((e.sl.toNat : Int) ∈ (allPostings j).map postingLine) →
        isTrailingBlankRemoval (splitLines doc) e = true :=
  C05.nonposting_lines j errs doc formats o h

end HL.Props.C04
