/-
  C04 — Formatting never changes what the journal says.
  Property theorems only; helper lemmas live in HL/Lemmas/ (Number.lean, Format.lean).

  What is proved here is the formatter's side of the property; the parser is modelled by other
  builders, and the composition "format, apply, parse again" is judged end to end on the real
  code by the oracle of the correspondence check (ops `c05.format` with prop = C04).

    * `nonposting_lines`        edits outside posting lines only remove trailing blanks/tabs;
    * `error_lines_untouched`   a line with a parse error gets no edit at all, so no text the
                                parser failed to understand is deleted;
    * `formatNumber_reads_rounded`, `formatNumber_value`, `formatNumber_value_faithful`
                                what `FormatNumber` writes, read back in the format's own
                                notation, is the quantity rounded to the format's decimals —
                                the same quantity whenever the format has at least as many
                                decimals as the amount, in particular whenever the code's own
                                guard `formatIsFaithful` lets the format be used;
    * counterexamples           why the guard is needed (rounding; the parser's single-mark
                                rule), each with `formatIsFaithful = false`.
-/
import HL.Props.C05
import HL.Lemmas.Number
namespace HL.Props.C04
open HL HL.Ast HL.FmtText HL.Fmt HL.EditSpec HL.NumberRead
open HL.Lemmas.FmtText HL.Lemmas.Format HL.Lemmas.Number HL.Props.C05

/-- Edits on lines that are not posting lines are exactly removals of trailing blanks/tabs. -/
theorem nonposting_lines (j : Journal) (errs : List ParseError) (doc : Bytes)
    (formats : Option Formats) (o : Options) (h : TreeFits doc j) :
    ∀ e ∈ formatText j errs doc formats o,
      ¬ ((e.sl.toNat : Int) ∈ (allPostings j).map postingLine) →
        isTrailingBlankRemoval (splitLines doc) e = true :=
  C05.nonposting_lines j errs doc formats o h

theorem kept_not_skipped (j : Journal) (skip : List Int) (p : Posting) (hp : p ∈ kept j skip) :
    ¬ (postingLine p ∈ skip) := by
  unfold kept at hp
  obtain ⟨tx, _, hp⟩ := List.mem_flatMap.mp hp
  have h2 := (List.mem_filter.mp hp).2
  intro hmem
  have : skip.contains (postingLine p) = true := List.contains_iff_mem.mpr hmem
  rw [this] at h2
  cases h2

/-- No edit is made on a line on which the parser reported an error. -/
theorem error_lines_untouched (j : Journal) (errs : List ParseError) (doc : Bytes)
    (formats : Option Formats) (o : Options) (h : TreeFits doc j) :
    ∀ e ∈ formatText j errs doc formats o, ∀ pe ∈ errs, (e.sl.toNat : Int) ≠ (pe.pos.line : Int) - 1 := by
  obtain ⟨hsize, hlines, _⟩ := h
  have hs := smallLines_of_doc doc hsize
  unfold formatText
  rw [formatDocument_eq]
  generalize effFormats j formats = fm
  generalize hskip : (errs.map fun e => (e.pos.line : Int) - 1) = skip
  intro e he pe hpe heq
  have hmem : (e.sl.toNat : Int) ∈ skip := by
    rw [← hskip, heq]; exact List.mem_map.mpr ⟨pe, hpe, rfl⟩
  rcases List.mem_append.mp he with he | he
  · -- a posting edit: its posting passed the filter
    have hsub := kept_sublist j skip
    obtain ⟨p, hp, hline⟩ := editsFor_line (splitLines doc) hs _ _ (txEdits_shape j doc fm o skip)
      (fun p hp => hlines p (hsub.subset hp)) e he
    apply kept_not_skipped j skip p hp
    rw [← hline]; exact hmem
  · have := ((trimLoop_spec (splitLines doc) hs _ (splitLines doc) 0 rfl).1 e he).2.2.1
    exact this (List.mem_append_right _ hmem)

/-! ### Numbers -/

/-- `FormatNumber` writes the quantity rounded (half away from zero) to the format's decimals:
    read back in the format's own notation (group marks and blanks dropped, the format's
    decimal mark), the text is exactly that rounded coefficient with that many decimals.
    For every quantity and every well-formed format. -/
theorem formatNumber_reads_rounded (q : Dec) (f : NumberFormat) (hwf : WellFormed f) :
    readWith f (formatNumber q f) = ((round q (pl f)).coef, pl f) := by
  obtain ⟨ip, fp, hs, h1, h2, h3, h4, h5⟩ := formatNumber_shape q f
  rw [hs]
  exact read_shape f hwf _ ip fp (pl f) h1 h2 h3 h4 h5

/-- **The number clause of C04.** If the format has at least as many decimals as the quantity
    carries (`-places ≤ exponent`), the written number denotes the same quantity:
    `coef·10^exp = (coef·10^(exp+places)) / 10^places`. -/
theorem formatNumber_value (q : Dec) (f : NumberFormat) (hwf : WellFormed f)
    (hdec : -((pl f : Nat) : Int) ≤ q.exp) :
    readWith f (formatNumber q f) = (q.coef * 10 ^ (q.exp + (pl f : Nat)).toNat, pl f) := by
  rw [formatNumber_reads_rounded q f hwf, round_exact q (pl f) hdec]

theorem faithful_lossless (q : Dec) (f : NumberFormat) (h : formatIsFaithful q f = true) :
    decEqual (round q (pl f)) q = true := by
  cases hd : decEqual (round q (pl f)) q with
  | true => rfl
  | false =>
    exfalso
    unfold pl at hd
    unfold formatIsFaithful at h
    simp only [hd, Bool.not_false, if_true] at h
    cases h

/-- Whenever the formatter's own guard lets a format be used, the written number, read in the
    format's notation, equals the quantity (`Decimal.Equal`). -/
theorem formatNumber_value_faithful (q : Dec) (f : NumberFormat) (hwf : WellFormed f)
    (h : formatIsFaithful q f = true) :
    decEqual ⟨(readWith f (formatNumber q f)).1, -((readWith f (formatNumber q f)).2 : Int)⟩ q = true := by
  rw [formatNumber_reads_rounded q f hwf]
  have := faithful_lossless q f h
  have he := round_exp q (pl f)
  have : (⟨(round q (pl f)).coef, -((pl f : Nat) : Int)⟩ : Dec) = round q (pl f) := by
    cases hr : round q (pl f) with
    | mk c e => rw [hr] at he; simp only at he; simp [he]
  simp only [this]
  assumption

/-- The formats `ParseNumberFormat` produces are well-formed in the sense used above. -/
theorem parseNumberFormat_wellFormed (s : Bytes) : WellFormed (parseNumberFormat s) := by
  have e46 : UInt8.ofNat 46 = 46 := rfl
  have e44 : UInt8.ofNat 44 = 44 := rfl
  unfold parseNumberFormat WellFormed
  simp only
  repeat' split
  all_goals (refine ⟨?_, ?_, ?_⟩ <;> simp [e46, e44])

/-! ### Why the guard is needed (each by evaluation of the model) -/

/-- 1.2345 under a two-decimal format is written `1.23`: a different quantity.  The guard
    refuses the format, so the original spelling is kept. -/
theorem formatNumber_rounds_counterexample :
    let q : Dec := ⟨12345, -4⟩
    let f : NumberFormat := ⟨46, [], 2, true⟩
    formatNumber q f = ([49, 46, 50, 51] : Bytes) ∧ readWith f (formatNumber q f) = (123, 2) ∧
      decEqual ⟨123, -2⟩ q = false ∧ formatIsFaithful q f = false := by decide +kernel

/-- `commodity 1,000 EUR` is read by ParseNumberFormat as "comma decimal, three places"; 1234
    would be written `1234,000`, which the parser's single-mark rule reads as 1 234 000
    (DESIGN 8 #19).  The guard refuses the format. -/
theorem format_misread_counterexample :
    let f := parseNumberFormat (([49, 44, 48, 48, 48, 32, 69, 85, 82] : Bytes))
    let q : Dec := ⟨1234, 0⟩
    f = ⟨44, [], 3, true⟩ ∧ formatNumber q f = ([49, 50, 51, 52, 44, 48, 48, 48] : Bytes) ∧
      singleMarkGrouped (formatNumber q f) = true ∧ formatIsFaithful q f = false := by decide +kernel

/-- 1.2340 under `1.000,000` (lossless: three decimals suffice) would be written `1,234`,
    which the parser reads as 1234.  The guard refuses the format. -/
theorem ambiguousThree_counterexample :
    let f := parseNumberFormat (([49, 46, 48, 48, 48, 44, 48, 48, 48, 32, 66, 84, 67] : Bytes))
    let q : Dec := ⟨12340, -4⟩
    f = ⟨44, [46], 3, true⟩ ∧ formatNumber q f = ([49, 44, 50, 51, 52] : Bytes) ∧ decEqual (round q 3) q = true ∧
      singleMarkGrouped (formatNumber q f) = true ∧ formatIsFaithful q f = false := by decide +kernel

/-- Non-vacuity of `formatNumber_value_faithful`: a grouped, comma-decimal format that is used. -/
example :
    let f := parseNumberFormat (([49, 46, 48, 48, 48, 44, 48, 48, 32, 69, 85, 82] : Bytes))
    let q : Dec := ⟨-12345675, -1⟩
    WellFormed f ∧ formatIsFaithful q f = true ∧ formatNumber q f = ([45, 49, 46, 50, 51, 52, 46, 53, 54, 55, 44, 53, 48] : Bytes) := by decide +kernel

/-- A quoted commodity keeps its quotes, a bare one stays bare (pinned code: quotes lost,
    `"AAPL 2" 3` became `AAPL 23`).  Source `  a:b  "AAPL 2" 3` against `  a:b  AAPL 3`. -/
example :
    let content : Bytes := [32, 32, 97, 58, 98, 32, 32, 34, 65, 65, 80, 76, 32, 50, 34, 32, 51]
    let a : Amount := ⟨⟨3, 0⟩, [51], ⟨[65, 65, 80, 76, 32, 50], .left, ⟨⟨1, 8, 7⟩, ⟨1, 16, 15⟩⟩⟩, false, Rng.zero⟩
    writeAmountWithSign a none content = ([34, 65, 65, 80, 76, 32, 50, 34, 51] : Bytes) ∧
      writeAmountWithSign a none ([32, 32, 97, 58, 98, 32, 32, 65, 65, 80, 76, 32, 51] : Bytes) = ([65, 65, 80, 76, 32, 50, 51] : Bytes) := by decide +kernel

/-- A commodity that stood in double quotes in the source is written back in double quotes —
    also when its symbol is empty (`1 ""`, or a lone `"` before the end of the line): nothing the
    user typed there is deleted.  For every commodity with a real range and every source text. -/
theorem commodityText_keeps_quotes (c : Commodity) (content : Bytes)
    (hq : content[c.range.start.off]? = some 34) (hr : c.range.stop.off > c.range.start.off) :
    commodityText c content = [34] ++ c.symbol ++ [34] := by
  unfold commodityText
  simp [hq, hr]

/-- …and a bare one stays bare. -/
theorem commodityText_bare (c : Commodity) (content : Bytes)
    (hq : content[c.range.start.off]? ≠ some 34) : commodityText c content = c.symbol := by
  unfold commodityText
  simp [hq]

/-- `commodityText` before the fix "formatting keeps the quotes of an empty quoted commodity":
    only a non-empty symbol was re-quoted. -/
def commodityTextPinned (c : Commodity) (content : Bytes) : Bytes :=
  if !c.symbol.isEmpty && content[c.range.start.off]? == some 34 then [34] ++ c.symbol ++ [34]
  else c.symbol

/-- Pinned code: the amount `1 ""` of `  a:b  1 ""` was written back as `1` — the two quote
    characters were deleted; the repaired code writes `1 ""`. -/
theorem pinned_empty_quoted_commodity_counterexample :
    let content : Bytes := [32, 32, 97, 58, 98, 32, 32, 49, 32, 34, 34]
    let c : Commodity := ⟨[], .right, ⟨⟨1, 10, 9⟩, ⟨1, 12, 11⟩⟩⟩
    let a : Amount := ⟨⟨1, 0⟩, [49], c, false, Rng.zero⟩
    commodityTextPinned c content = [] ∧
      writeAmountWithSign a none content = ([49, 32, 34, 34] : Bytes) := by decide +kernel

end HL.Props.C04
