/-
  C12 — Incrementally maintained workspace view equals a rebuild.
  Property theorems only; the model is HL/Model/Index.lean + HL/Model/Workspace.lean, the
  specification HL/Spec/Rebuild.lean, helper lemmas HL/Lemmas/{AList,Counter,Index,Reach,
  Load,Edges,WsInv,Refresh,Update,Init,View,Run}.lean.

  Setting of every theorem: a directory `fs` of any number of files (at most
  `MaxIncludeDepth`, `Cfg.limit`, of them: beyond that a rebuild itself truncates the tree),
  `Initialize` with a fresh loader, then ANY sequence `us` of edits; an edit is delivered as
  the server delivers it (`step`): UpdateFile on didChange while the disk has the old text,
  the write, UpdateFile on didSave, with the getters called after each.  Go's map iteration
  orders (`σ`, `Upd.σ1`, `Upd.σ2`) are arbitrary.
-/
import HL.Lemmas.Run
namespace HL.Props.C12
open HL.Index HL.Workspace HL.Spec.Rebuild
open HL.Lemmas.Index HL.Lemmas.WsInv HL.Lemmas.Update HL.Lemmas.Init HL.Lemmas.View HL.Lemmas.Run

/-- hypotheses shared by the theorems: a non-empty directory of well-formed contributions with
    distinct non-empty names, within the loader's depth limit; well-formed edits; and the
    include graphs are empty when indexing starts (`graphsClean`: the code repaired by
    fix-stale-include-graph.diff, or a root chosen by name). -/
structure Setting (cfg : Cfg) (fs : FS) (us : List Upd) : Prop where
  ok : fsOk fs = true
  nonempty : fs ≠ []
  limit : fs.length ≤ cfg.limit
  clean : graphsClean cfg fs
  upds : updsOk us = true

/-- `index_is_sum`: after any history every counter of the index equals the sum of the
    contributions of the indexed files (so `decrementBy` never truncates), every stored count
    is positive (so the derived name lists are the sorted supports), the transaction index
    holds per key exactly the indexed files' entries, every stored payee template is the
    template of an indexed file, and the derived lists are those of `refreshDerived`. -/
theorem index_is_sum (cfg : Cfg) (σ : List String) (fs : FS) (us : List Upd)
    (h : Setting cfg fs us) : IdxInv cfg.fixT (run cfg σ fs us).w.idx :=
  (run_ok cfg σ fs us h.ok h.nonempty h.clean h.limit h.upds).1.pinv.g.idx

/-- the counter part of `index_is_sum`, spelled out for the account counts. -/
theorem index_is_sum_accounts (cfg : Cfg) (σ : List String) (fs : FS) (us : List Upd)
    (h : Setting cfg fs us) (k : String) :
    let idx := (run cfg σ fs us).w.idx
    cnt idx.ac k = total (·.ac) (idx.files.map (·.2.c)) k ∧
    (k ∈ idx.accounts.all ↔ 0 < cnt idx.ac k) := by
  intro idx
  have hI := index_is_sum cfg σ fs us h
  refine ⟨hI.ac.sum k, ?_⟩
  rw [hI.derived.1, buildAccountIndex, accountIndexOf_all]
  unfold sortedKeys
  rw [HL.Lemmas.AList.mem_isort]
  exact HL.Lemmas.Counter.mem_keys_iff_pos _ hI.ac.pos k

/-- `members_eq_reach`: after any history the indexed files are exactly the existing files
    reachable from the root through the include directives of the CURRENT contents. -/
theorem members_eq_reach (cfg : Cfg) (σ : List String) (fs : FS) (us : List Upd)
    (h : Setting cfg fs us) (p : String) :
    ((run cfg σ fs us).w.idx.files.get p).isSome ↔
      (Reach (finalFs fs us) (rootSel fs) p ∧ ((finalFs fs us).get p).isSome) := by
  obtain ⟨h1, _, h3, _⟩ := run_ok cfg σ fs us h.ok h.nonempty h.clean h.limit h.upds
  rw [← h3]
  exact h1.closed p

/-- `C12_view_eq_rebuild`: the observed view after any history satisfies the specification of
    a rebuild on the final contents (with the root chosen at initialisation), in every
    component but commodity formats: member files, all counts, known accounts (with their
    prefix index), payees, commodities, tags, tag values, dates, the transaction index
    (per key as a multiset), declared accounts and commodities — for the pinned and the
    repaired code alike — and payee templates for the code repaired by
    fix-template-loss.diff (`cfg.fixT`): same payees as a rebuild, each template one of the
    member files' templates (hence THE template wherever the members agree). -/
theorem C12_view_eq_rebuild (cfg : Cfg) (σ : List String) (fs : FS) (us : List Upd)
    (h : Setting cfg fs us) :
    let r := rebuildAt cfg.limit (rootSel fs) (finalFs fs us)
    let v := (observe (run cfg σ fs us).w).1
    membersOk r v = true ∧ countsOk r v = true ∧ namesOk r v = true ∧ txOk r v = true ∧
    declOk r v = true ∧ (cfg.fixT = true → ptOk r v = true) := by
  obtain ⟨h1, _, h3, _⟩ := run_ok cfg σ fs us h.ok h.nonempty h.clean h.limit h.upds
  have := view_ok cfg (finalFs fs us) (run cfg σ fs us).w h1
  rw [h3] at this
  exact this

/-- A fresh workspace initialised on the final contents satisfies the same specification:
    together with `C12_view_eq_rebuild` (and `rootSel (finalFs fs us) = rootSel fs`, the
    root being stable) the incremental view and the rebuilt view agree component by
    component. -/
theorem rebuild_satisfies_spec (cfg : Cfg) (σ : List String) (fs : FS)
    (h : Setting cfg fs []) :
    let r := rebuildAt cfg.limit (rootSel fs) fs
    let v := (observe (init cfg σ fs)).1
    membersOk r v = true ∧ countsOk r v = true ∧ namesOk r v = true ∧ txOk r v = true ∧
    declOk r v = true ∧ (cfg.fixT = true → ptOk r v = true) := by
  obtain ⟨i1, i2, _⟩ := init_ok cfg σ fs h.ok h.nonempty h.clean h.limit
  have := view_ok cfg fs (init cfg σ fs) i1
  rw [i2] at this
  exact this

/-- `refresh_fuel_suffices`: the loop of `refreshIncludeTreeLocked` reaches its fixpoint within
    `len(directory) + 2` rounds (the fuel of `refreshIncludeTree`): in every reachable state an
    `UpdateFile` ends with the index closed under reachability, which is what the loop's exit
    condition establishes. -/
theorem update_closes (cfg : Cfg) (σ : List String) (fs : FS) (us : List Upd) (u : Upd)
    (h : Setting cfg fs (us ++ [u])) (p : String) :
    let s := run cfg σ fs us
    let w' := updateFile cfg u.σ1 s.fs s.w u.path u.c
    (w'.idx.files.get p).isSome ↔
      (Reach (s.fs.set u.path u.c) w'.root p ∧ ((s.fs.set u.path u.c).get p).isSome) := by
  intro s w'
  have hus : updsOk us = true ∧ u.path ≠ "" ∧ contribOk u.c = true := by
    have := h.upds
    simp only [updsOk, List.all_append, List.all_cons, List.all_nil, Bool.and_true,
      Bool.and_eq_true, decide_eq_true_eq] at this
    exact ⟨by simpa [updsOk] using this.1, this.2.1, this.2.2⟩
  obtain ⟨h1, h2, _, h4⟩ := run_ok cfg σ fs us h.ok h.nonempty h.clean h.limit hus.1
  have hs : s.fs = finalFs fs us := h4
  have hok' := fsOk_set s.fs (hs ▸ h2) u.path u.c hus.2.1 hus.2.2
  obtain ⟨hw, _⟩ := updateFile_ok cfg u.σ1 s.fs (s.fs.set u.path u.c) s.fs s.w u.path u.c
    (hs ▸ h1) hok' (HL.Lemmas.AList.get_set_self _ _ _)
    (fun y hy => HL.Lemmas.AList.get_set_ne _ _ _ _ (Ne.symm hy))
    (fun y hy => (HL.Lemmas.AList.get_set_ne _ _ _ _ (Ne.symm hy)).symm)
  exact hw.closed p

end HL.Props.C12
