/-
  C12 — Incrementally maintained workspace view equals a rebuild.
  Property theorems only; the model is HL/Model/Index.lean + HL/Model/Workspace.lean, the
  specification HL/Spec/Rebuild.lean, helper lemmas HL/Lemmas/{AList,Counter,Index,Reach,
  Load,Edges,WsInv,Refresh,Update,Init,View,Run}.lean.

  Setting of every theorem: a directory `fs` of any number of files (at most
  `MaxIncludeDepth`, `Cfg.limit`, of them: beyond that a rebuild itself truncates the tree),
  `Initialize` with a fresh loader, then ANY sequence `us` of edits; an edit is delivered as
  the server delivers it (`step`): UpdateFile on didChange while the disk has the old text,
  the write, UpdateFile on didSave, with the getters called after each.
-/
import HL.Lemmas.Run
import HL.Lemmas.Formats
import HL.Lemmas.Root
namespace HL.Props.C12
open HL.Index HL.Workspace HL.Spec.Rebuild
open HL.Lemmas.Index HL.Lemmas.WsInv HL.Lemmas.Update HL.Lemmas.Init HL.Lemmas.View HL.Lemmas.Run

/-- `index_is_sum`: after any history every counter of the index equals the sum of the
    contributions of the indexed files (so `decrementBy` never truncates), every stored count
    is positive (so the derived name lists are the sorted supports), the transaction index
    holds per key exactly the indexed files' entries, every stored payee template is the
    template of an indexed file, and the derived lists are those of `refreshDerived`. -/
theorem index_is_sum (cfg : Cfg) (fs : FS) (us : List Upd)
    (h : Setting cfg fs us) : IdxInv cfg.fixT (run cfg fs us).w.idx :=
  (run_ok cfg fs us h.ok h.nonempty h.clean h.limit h.upds).1.pinv.g.idx

/-- the counter part of `index_is_sum`, spelled out for the account counts. -/
theorem index_is_sum_accounts (cfg : Cfg) (fs : FS) (us : List Upd)
    (h : Setting cfg fs us) (k : String) :
    let idx := (run cfg fs us).w.idx
    cnt idx.ac k = total (·.ac) (idx.files.map (·.2.c)) k ∧
    (k ∈ idx.accounts.all ↔ 0 < cnt idx.ac k) := by
  intro idx
  have hI := index_is_sum cfg fs us h
  refine ⟨hI.ac.sum k, ?_⟩
  rw [hI.derived.1, buildAccountIndex, accountIndexOf_all]
  unfold sortedKeys
  rw [HL.Lemmas.AList.mem_isort]
  exact HL.Lemmas.Counter.mem_keys_iff_pos _ hI.ac.pos k

/-- `members_eq_reach`: after any history the indexed files are exactly the existing files
    reachable from the root through the include directives of the CURRENT contents. -/
theorem members_eq_reach (cfg : Cfg) (fs : FS) (us : List Upd)
    (h : Setting cfg fs us) (p : String) :
    ((run cfg fs us).w.idx.files.get p).isSome ↔
      (Reach (finalFs fs us) (rootSel fs) p ∧ ((finalFs fs us).get p).isSome) := by
  obtain ⟨h1, _, h3, _⟩ := run_ok cfg fs us h.ok h.nonempty h.clean h.limit h.upds
  rw [← h3]
  exact h1.closed p

/-- `C12_formats_eq_rebuild`: the commodity formats after any history are those of a rebuild
    on the final contents — no guard (code repaired by fix-formats-path-order.diff: the last
    directive with a format wins, reading the root journal and then the other member files in
    path order, whatever `resolved.FileOrder` has become). -/
theorem C12_formats_eq_rebuild (cfg : Cfg) (fs : FS) (us : List Upd)
    (h : Setting cfg fs us) :
    formatsOk (rebuildAt cfg.limit (rootSel fs) (finalFs fs us))
      (observe (run cfg fs us).w).1 = true := by
  obtain ⟨h1, _, h3, _⟩ := run_ok cfg fs us h.ok h.nonempty h.clean h.limit h.upds
  have := HL.Lemmas.Formats.formats_ok cfg (finalFs fs us) (run cfg fs us).w h1
  rw [h3] at this
  exact this

/-- `C12_view_eq_rebuild`: the observed view after any history satisfies the specification of
    a rebuild on the final contents (with the root chosen at initialisation), in EVERY
    component the statement lists: member files, all counts, known accounts (with their
    prefix index), payees, commodities, tags, tag values, dates, the transaction index
    (per key as a multiset), declared accounts and commodities, commodity formats — and
    payee templates for the code repaired by fix-template-loss.diff (`cfg.fixT`): same
    payees as a rebuild, each template one of the member files' templates (hence THE
    template wherever the members agree; `C12_templates_eq_rebuild` for equality). -/
theorem C12_view_eq_rebuild (cfg : Cfg) (fs : FS) (us : List Upd)
    (h : Setting cfg fs us) :
    let r := rebuildAt cfg.limit (rootSel fs) (finalFs fs us)
    let v := (observe (run cfg fs us).w).1
    membersOk r v = true ∧ countsOk r v = true ∧ namesOk r v = true ∧ txOk r v = true ∧
    declOk r v = true ∧ formatsOk r v = true ∧ (cfg.fixT = true → ptOk r v = true) := by
  obtain ⟨h1, _, h3, _⟩ := run_ok cfg fs us h.ok h.nonempty h.clean h.limit h.upds
  have := view_ok cfg (finalFs fs us) (run cfg fs us).w h1
  rw [h3] at this
  obtain ⟨a1, a2, a3, a4, a5, a6⟩ := this
  exact ⟨a1, a2, a3, a4, a5, C12_formats_eq_rebuild cfg fs us h, a6⟩

/-- with the payee-template repair the whole judgement `viewOk` — the one the correspondence
    driver applies to the implementation's view — accepts the view after any history. -/
theorem C12_viewOk (cfg : Cfg) (fs : FS) (us : List Upd) (h : Setting cfg fs us)
    (hfix : cfg.fixT = true) :
    viewOk (rebuildAt cfg.limit (rootSel fs) (finalFs fs us)) (observe (run cfg fs us).w).1 = true := by
  obtain ⟨a1, a2, a3, a4, a5, a6, a7⟩ := C12_view_eq_rebuild cfg fs us h
  simp [viewOk, failures, a1, a2, a3, a4, a5, a6, a7 hfix]

/-- the same against `rebuild` (root selected by the specification's own `rootOf`), when a
    rebuild selects the root the workspace has: the negated guard of the known finding
    `root-not-reselected`. -/
theorem C12_view_eq_rebuild_root (cfg : Cfg) (fs : FS) (us : List Upd) (h : Setting cfg fs us)
    (hroot : rootOf (finalFs fs us) = rootOf fs) :
    let r := rebuild cfg.limit (finalFs fs us)
    let v := (observe (run cfg fs us).w).1
    membersOk r v = true ∧ countsOk r v = true ∧ namesOk r v = true ∧ txOk r v = true ∧
    declOk r v = true ∧ formatsOk r v = true ∧ (cfg.fixT = true → ptOk r v = true) := by
  have h0 := C12_view_eq_rebuild cfg fs us h
  have e : rootOf (finalFs fs us) = rootSel fs := by
    rw [hroot, HL.Lemmas.Root.rootSel_eq_rootOf fs (fsOk_nodup fs h.ok)]
  unfold rebuild
  rw [e]
  exact h0

/-- A fresh workspace initialised on the final contents satisfies the same specification:
    together with `C12_view_eq_rebuild` (and `rootSel (finalFs fs us) = rootSel fs`, the
    root being stable) the incremental view and the rebuilt view agree component by
    component. -/
theorem rebuild_satisfies_spec (cfg : Cfg) (fs : FS)
    (h : Setting cfg fs []) :
    let r := rebuildAt cfg.limit (rootSel fs) fs
    let v := (observe (init cfg fs)).1
    membersOk r v = true ∧ countsOk r v = true ∧ namesOk r v = true ∧ txOk r v = true ∧
    declOk r v = true ∧ formatsOk r v = true ∧ (cfg.fixT = true → ptOk r v = true) := by
  obtain ⟨i1, i2, _⟩ := init_ok cfg fs h.ok h.nonempty h.clean h.limit
  have := view_ok cfg fs (init cfg fs) i1
  have hf := HL.Lemmas.Formats.formats_ok cfg fs (init cfg fs) i1
  rw [i2] at this hf
  obtain ⟨a1, a2, a3, a4, a5, a6⟩ := this
  exact ⟨a1, a2, a3, a4, a5, hf, a6⟩

/-- The loop of `refreshIncludeTreeLocked` reaches its fixpoint within `len(directory) + 2`
    rounds (the fuel of `refreshIncludeTree`; HL.Lemmas.Refresh.refresh_ok): in every
    reachable state a single `UpdateFile` call — here the didChange call, made while the disk
    still has the old text — ends with the index closed under reachability, which is what the
    loop's exit condition establishes. -/
theorem update_closes (cfg : Cfg) (fs : FS) (us : List Upd) (u : Upd)
    (h : Setting cfg fs (us ++ [u])) (p : String) :
    let s := run cfg fs us
    let w' := updateFile cfg s.fs s.w u.path u.c
    (w'.idx.files.get p).isSome ↔
      (Reach (s.fs.set u.path u.c) w'.root p ∧ ((s.fs.set u.path u.c).get p).isSome) := by
  intro s w'
  have hus : updsOk us = true ∧ u.path ≠ "" ∧ contribOk u.c = true := by
    have := h.upds
    simp only [updsOk, List.all_append, List.all_cons, List.all_nil, Bool.and_true,
      Bool.and_eq_true, decide_eq_true_eq] at this
    exact ⟨by simpa [updsOk] using this.1, this.2.1, this.2.2⟩
  obtain ⟨h1, h2, _, h4⟩ := run_ok cfg fs us h.ok h.nonempty h.clean h.limit hus.1
  have hs : s.fs = finalFs fs us := h4
  have hok' := fsOk_set s.fs (hs ▸ h2) u.path u.c hus.2.1 hus.2.2
  obtain ⟨hw, _⟩ := updateFile_ok cfg s.fs (s.fs.set u.path u.c) s.fs s.w u.path u.c
    (hs ▸ h1) hok' (HL.Lemmas.AList.get_set_self _ _ _)
    (fun y hy => HL.Lemmas.AList.get_set_ne _ _ _ _ (Ne.symm hy))
    (fun y hy => (HL.Lemmas.AList.get_set_ne _ _ _ _ (Ne.symm hy)).symm)
  exact hw.closed p

/-- `C12_templates_eq_rebuild`: for the code repaired by fix-template-loss.diff the payee
    templates after any history are, payee by payee, those of a fresh workspace initialised
    on the final contents (both hold the template of the member file with the smallest path
    that has one), provided the rebuild selects the same root. -/
theorem C12_templates_eq_rebuild (cfg : Cfg) (fs : FS) (us : List Upd) (hfix : cfg.fixT = true)
    (h : Setting cfg fs us) (hfin : Setting cfg (finalFs fs us) [])
    (hroot : rootSel (finalFs fs us) = rootSel fs) (p : String) :
    (run cfg fs us).w.idx.pts.get p = (init cfg (finalFs fs us)).idx.pts.get p := by
  obtain ⟨h1, _, h3, _⟩ := run_ok cfg fs us h.ok h.nonempty h.clean h.limit h.upds
  obtain ⟨i1, i2, _⟩ := init_ok cfg (finalFs fs us) hfin.ok hfin.nonempty hfin.clean hfin.limit
  exact pts_get_eq cfg (finalFs fs us) _ _ h1 i1 (by rw [h3, i2, hroot]) hfix p

/-- likewise the member files and every file's index entry (hence every count) coincide with
    those of the fresh workspace, for the pinned and the repaired code. -/
theorem C12_files_eq_rebuild (cfg : Cfg) (fs : FS) (us : List Upd)
    (h : Setting cfg fs us) (hfin : Setting cfg (finalFs fs us) [])
    (hroot : rootSel (finalFs fs us) = rootSel fs) (f : String) :
    (run cfg fs us).w.idx.files.get f = (init cfg (finalFs fs us)).idx.files.get f := by
  obtain ⟨h1, _, h3, _⟩ := run_ok cfg fs us h.ok h.nonempty h.clean h.limit h.upds
  obtain ⟨i1, i2, _⟩ := init_ok cfg (finalFs fs us) hfin.ok hfin.nonempty hfin.clean hfin.limit
  exact files_get_eq cfg (finalFs fs us) _ _ h1 i1 (by rw [h3, i2, hroot]) f

/-! ### commodity formats (finding `formats-order`, repaired by fix-formats-path-order.diff) -/

/-- the commodity formats after any history are, as a map, exactly those of a fresh workspace
    initialised on the final contents (when the rebuild selects the same root). -/
theorem C12_formats_eq_init (cfg : Cfg) (fs : FS) (us : List Upd)
    (h : Setting cfg fs us) (hfin : Setting cfg (finalFs fs us) [])
    (hroot : rootSel (finalFs fs us) = rootSel fs) :
    (observe (run cfg fs us).w).1.formats = (observe (init cfg (finalFs fs us))).1.formats := by
  obtain ⟨h1, _, h3, _⟩ := run_ok cfg fs us h.ok h.nonempty h.clean h.limit h.upds
  obtain ⟨i1, i2, _⟩ := init_ok cfg (finalFs fs us) hfin.ok hfin.nonempty hfin.clean hfin.limit
  rw [observe_fst, observe_fst]
  simp only [newF_eq cfg (finalFs fs us) _ h1, newF_eq cfg (finalFs fs us) _ i1,
    HL.Lemmas.Formats.computeFormats_eq',
    HL.Lemmas.Formats.pathCommDirs_eq cfg (finalFs fs us) _ h1,
    HL.Lemmas.Formats.pathCommDirs_eq cfg (finalFs fs us) _ i1, h3, i2, hroot]

/-- the formats of a fresh workspace are those of the specification. -/
theorem rebuild_formats (cfg : Cfg) (fs : FS) (h : Setting cfg fs []) :
    formatsOk (rebuildAt cfg.limit (rootSel fs) fs) (observe (init cfg fs)).1 = true :=
  (rebuild_satisfies_spec cfg fs h).2.2.2.2.2.1

def eur (f : String) : Contrib := { cds := [{ sym := "EUR", raw := f, fmt := f }] }

/-- main includes b and c, which declare different formats for EUR. -/
def fsF : FS :=
  [("main.journal", { incs := ["b.journal", "c.journal"] }),
   ("b.journal", eur "1.000,00 EUR"), ("c.journal", eur "1,000.00 EUR")]

/-- main drops the include of b, then adds it back. -/
def usF : List Upd :=
  [{ path := "main.journal", c := { incs := ["c.journal"] } },
   { path := "main.journal", c := { incs := ["b.journal", "c.journal"] } }]

/-- `pinned_formats_order_counterexample`: the pinned `GetCommodityFormats` read the files in
    the order of `resolved.FileOrder`.  After b became unreachable and reachable again it
    sits at the end of that list (`[c, b]`), so b's format won, while on a fresh workspace
    (depth-first include order `[b, c]`) c's wins — on identical final contents.  The
    repaired getter gives c's format in both. -/
theorem pinned_formats_order_counterexample :
    finalFs fsF usF = fsF ∧
    (run { fixT := true, fixG := true } fsF usF).w.order = ["c.journal", "b.journal"] ∧
    (init { fixT := true, fixG := true } (finalFs fsF usF)).order = ["b.journal", "c.journal"] ∧
    pinnedComputeFormats (run { fixT := true, fixG := true } fsF usF).w = [("EUR", "1.000,00 EUR")] ∧
    pinnedComputeFormats (init { fixT := true, fixG := true } (finalFs fsF usF)) = [("EUR", "1,000.00 EUR")] ∧
    formatConflict (finalFs fsF usF) "main.journal" = true ∧
    (observe (run { fixT := true, fixG := true } fsF usF).w).1.formats = some [("EUR", "1,000.00 EUR")] ∧
    (observe (init { fixT := true, fixG := true } (finalFs fsF usF))).1.formats = some [("EUR", "1,000.00 EUR")] := by
  decide

/-- `Setting` holds on the history of the counterexample: `C12_formats_eq_rebuild` applies
    to it (non-vacuity on the very shape that failed). -/
example : Setting { fixT := true, fixG := true } fsF usF :=
  ⟨by decide, by decide, by decide, by unfold graphsClean; decide, by decide⟩

/-! ### payee templates of the pinned code (known finding `template-loss`) -/

def shop : Contrib := { pc := [("Shop", 1)], pts := [("Shop", "T")] }

/-- main includes a and b, both have a transaction of payee Shop. -/
def fsT : FS :=
  [("main.journal", { incs := ["a.journal", "b.journal"] }), ("a.journal", shop), ("b.journal", shop)]

/-- b loses its transaction. -/
def usT : List Upd := [{ path := "b.journal", c := {} }]

/-- `template_loss_counterexample` (index.go as pinned): two files share a payee, one drops
    it, the payee's template vanishes from the workspace although a still has it; a rebuild
    keeps it.  Everything else still agrees (`C12_view_eq_rebuild`). -/
theorem template_loss_counterexample :
    (run {} fsT usT).w.idx.pts.get "Shop" = none ∧
    (init {} (finalFs fsT usT)).idx.pts.get "Shop" = some "T" ∧
    ptOk (rebuildAt 50 "main.journal" (finalFs fsT usT)) (observe (run {} fsT usT).w).1 = false := by
  decide

/-- a and b have different templates for Shop. -/
def fsH : FS :=
  [("main.journal", { incs := ["a.journal", "b.journal"] }),
   ("a.journal", { pc := [("Shop", 1)], pts := [("Shop", "Ta")] }),
   ("b.journal", { pc := [("Shop", 1)], pts := [("Shop", "Tb")] })]

/-- a is saved unchanged. -/
def usH : List Upd := [{ path := "a.journal", c := { pc := [("Shop", 1)], pts := [("Shop", "Ta")] } }]

/-- `template_history_counterexample` (index.go as pinned): the stored template is the one of
    the file indexed last; saving a makes a's template replace b's, a rebuild (files indexed
    in path order) stores b's.  The repaired code stores a's in both. -/
theorem template_history_counterexample :
    (run {} fsH usH).w.idx.pts.get "Shop" = some "Ta" ∧
    (init {} (finalFs fsH usH)).idx.pts.get "Shop" = some "Tb" ∧
    (run { fixT := true } fsH usH).w.idx.pts.get "Shop" = some "Ta" ∧
    (init { fixT := true } (finalFs fsH usH)).idx.pts.get "Shop" = some "Ta" := by decide

/-- the repaired code (fix-template-loss.diff) keeps the template on the same history. -/
example : (run { fixT := true } fsT usT).w.idx.pts.get "Shop" = some "T" := by decide

/-- `C12_templates_partial` (pinned AND repaired code): a stored template is never stale or
    invented — it is the template some member file currently has for that payee; what the
    pinned code can get wrong is only which member's (history dependent) or that the payee is
    missing (`template_loss_counterexample`, `template_history_counterexample`). -/
theorem C12_templates_partial (cfg : Cfg) (fs : FS) (us : List Upd) (h : Setting cfg fs us)
    (p t : String) (hp : (run cfg fs us).w.idx.pts.get p = some t) :
    ∃ f c, (Reach (finalFs fs us) (rootSel fs) f ∧ (finalFs fs us).get f = some c) ∧
      c.pts.get p = some t := by
  obtain ⟨h1, _, h3, _⟩ := run_ok cfg fs us h.ok h.nonempty h.clean h.limit h.upds
  obtain ⟨f, fi, hf, hfi⟩ := h1.pinv.g.idx.pts.sound p t hp
  obtain ⟨c, hc, hfic⟩ := h1.pinv.g.fresh f fi hf
  have hm := (h1.closed f).mp (by rw [hf]; rfl)
  rw [h3] at hm
  refine ⟨f, c, ⟨hm.1, hc⟩, ?_⟩
  rw [hfic] at hfi
  exact hfi

/-! ### stale include graph of the pinned code (known finding `stale-include-graph`) -/

/-- no main.journal: the root is chosen by include graph (a.journal); b includes c, and
    neither is a member. -/
def fsG : FS := [("a.journal", {}), ("b.journal", { incs := ["c.journal"] }), ("c.journal", shop)]

/-- c is saved unchanged. -/
def usG : List Upd := [{ path := "c.journal", c := shop }]

/-- `stale_include_graph_counterexample` (workspace.go as pinned): `findRootByIncludeGraph`
    leaves the edge b→c in the reverse graph, so `isWorkspaceFileLocked(c)` accepts the update
    of c, which is indexed although unreachable from the root; its include list did not
    change, so the tree is not refreshed.  A rebuild has only a. -/
theorem stale_include_graph_counterexample :
    rootSel fsG = "a.journal" ∧
    (observe (run {} fsG usG).w).1.members = ["a.journal", "c.journal"] ∧
    (observe (init {} (finalFs fsG usG))).1.members = ["a.journal"] ∧
    membersOk (rebuildAt 50 "a.journal" (finalFs fsG usG)) (observe (run {} fsG usG).w).1 = false := by
  decide

/-- the repaired code (fix-stale-include-graph.diff) ignores the update. -/
example : (observe (run { fixG := true } fsG usG).w).1.members = ["a.journal"] := by decide

/-- `Setting` holds for this directory under the repaired code, not under the pinned code:
    the hypothesis `graphsClean` is exactly what the finding violates. -/
example : Setting { fixG := true } fsG usG :=
  ⟨by decide, by decide, by decide, by unfold graphsClean; decide, by decide⟩

/-! ### the root is not re-selected (known finding `root-not-reselected`) -/

/-- a includes b; no main.journal: the root is a. -/
def fsR : FS := [("a.journal", { incs := ["b.journal"], pc := [("Shop", 1)] }), ("b.journal", {})]

/-- a drops the include, then b includes a. -/
def usR : List Upd :=
  [{ path := "a.journal", c := { pc := [("Shop", 1)] } },
   { path := "b.journal", c := { incs := ["a.journal"] } }]

/-- `root_not_reselected_counterexample`: a fresh workspace on the final contents selects b as
    its root and has both files; the running workspace keeps the root a and has only a.
    (Outside the hypothesis `rootSel (finalFs fs us) = rootSel fs` under which
    `C12_view_eq_rebuild` and `rebuild_satisfies_spec` speak of the same root.) -/
theorem root_not_reselected_counterexample :
    rootSel fsR = "a.journal" ∧ rootSel (finalFs fsR usR) = "b.journal" ∧
    (observe (run { fixT := true, fixG := true } fsR usR).w).1.members = ["a.journal"] ∧
    (observe (init { fixT := true, fixG := true } (finalFs fsR usR))).1.members =
      ["a.journal", "b.journal"] := by decide

/-! ### non-vacuity of the main theorems -/

/-- a history with content edits, a file becoming unreachable and reachable again, and an
    include target created later satisfies `Setting` (for the pinned code, root chosen by
    name). -/
example : Setting {} fsT
    [{ path := "main.journal", c := { incs := ["a.journal", "x.journal"] } },
     { path := "x.journal", c := shop },
     { path := "main.journal", c := { incs := ["b.journal", "a.journal", "x.journal"] } }] :=
  ⟨by decide, by decide, by decide, by unfold graphsClean; decide, by decide⟩

end HL.Props.C12
