/-
  C17 — Semantic tokens cover their lexemes and deltas reconstruct the full result.
  Property theorems only; helper lemmas live in HL/Lemmas/SemTok.lean.
-/
import HL.Lemmas.SemTok
import HL.Lemmas.SemTokGeom
import HL.Lemmas.SemTokWitness
import Std.Data.String.ToNat
namespace HL.Props.C17
open HL HL.SemTok HL.SemTokSpec HL.Lemmas.SemTok

/-! ## 1. Relative encoding and the client's decoding -/

/-- `decode ∘ encode = id`: a client decoding (in unbounded integers) the array the server
    encoded (in `uint32`) gets the server's tokens back, for every token list in document order
    (all fields are `uint32`, i.e. "fit in 32 bits", by typing). -/
theorem encode_decode (ts : List SemToken) (h : weaklyOrdered (ts.map absOf) = true) :
    decode (encodeTokens ts) = ts.map absOf := by
  have := decode_encode_from 0 0 ts (monoFrom_zero_of_weaklyOrdered ts h)
  simpa [decode, encodeTokens] using this

/-- Out of document order the `uint32` subtraction wraps and the client, which adds in
    unbounded integers, lands elsewhere: tokens at 0:5 and 0:3 decode to 0:5 and 0:4294967299. -/
theorem encode_decode_unordered_counterexample :
    decode (encodeTokens [⟨0, 5, 1, 0, 0⟩, ⟨0, 3, 1, 0, 0⟩])
      = [⟨0, 5, 1, 0, 0⟩, ⟨0, 4294967299, 1, 0, 0⟩] := by decide

/-- Non-vacuity: the real tokens of a two-line journal are in document order. -/
example : weaklyOrdered ((tokenize Classes.ascii W.cleanToks).map absOf) = true ∧
    decode (encodeTokens (tokenize Classes.ascii W.cleanToks))
      = (tokenize Classes.ascii W.cleanToks).map absOf := by decide +kernel

/-! ## 2. Range requests -/

/-- A range request returns the full result restricted to the requested lines
    (the response of `SemanticTokensRange` is `encodeTokens (filterByRange lo hi toks)`,
    see `HL.SemTok.step`). -/
theorem range_is_restriction (ts : List SemToken) (lo hi : UInt32)
    (h : weaklyOrdered (ts.map absOf) = true) :
    decode (encodeTokens (filterByRange lo hi ts))
      = restrict lo.toNat hi.toNat (decode (encodeTokens ts)) := by
  have hf : weaklyOrdered ((filterByRange lo hi ts).map absOf) = true := by
    have : (filterByRange lo hi ts).map absOf
        = (ts.map absOf).filter (fun a => lo.toNat ≤ a.line && a.line ≤ hi.toNat) := by
      simp only [filterByRange, List.filter_map]
      congr 1
    rw [this]
    exact weaklyOrdered_filter _ _ h
  rw [encode_decode _ hf, encode_decode _ h]
  simp only [filterByRange, restrict, List.filter_map]
  congr 1

/-- Non-vacuity: line 1 of the two-line journal — 6 of its 13 tokens. -/
example : (decode (encodeTokens (filterByRange 1 1 (tokenize Classes.ascii W.cleanToks)))).length = 6 := by
  decide +kernel

/-! ## 3. Edits -/

/-- Applying the computed edits to the old array yields the new array, for all arrays the
    protocol can address (`deleteCount` is a `uint32`). -/
theorem computeEdits_correct (old new : Data) (h : old.length < 2 ^ 32) :
    applyEdits old (computeEdits old new) = new :=
  computeEdits_apply old new h

/-- What the `uint32(len(oldData))` conversion does beyond that: at 2^32 elements the delete
    count wraps to 0 and the client keeps the whole old array behind the new one. -/
theorem computeEdits_wraps (old new : Data) (h : old.length = 2 ^ 32) (hne : old ≠ new) :
    applyEdits old (computeEdits old new) = new ++ old := by
  have : (old == new) = false := by simpa using hne
  simp [computeEdits, this, applyEdits_single, applyEdit, u32, h]

example : applyEdits [1, 2, 3, 4, 5] (computeEdits [1, 2, 3, 4, 5] [9, 9, 9, 9, 9, 0, 0, 0, 0, 0])
    = [9, 9, 9, 9, 9, 0, 0, 0, 0, 0] := computeEdits_correct _ _ (by decide)

/-! ## 4. Histories: the client's array always equals the full result

  Server state `Srv` = result-id counter, cache `uri ↦ (id, data)`, open documents.  The tokenizer
  is a parameter (`cfg.tok`), so everything below holds for every tokenizer.  The client
  (`HL.SemTokSpec.Client`) remembers every result by (document, result id) and applies a delta to
  the array it remembers for the `previousResultId` it sent. -/

variable {δ : Type}

/-- The states the theorems start from: nothing cached (any counter value: `tokenCache` is
    shared by all servers of a process), any open documents whose arrays are addressable. -/
theorem good_init (cfg : Cfg δ) (n : UInt64) (docs : List (Uri × δ)) (c : Client)
    (hd : ∀ u d, getDoc docs u = some d → fits cfg d) :
    Good cfg { next := n, cache := [], docs := docs } c :=
  ⟨fun _ _ h => by simp [Cache.get] at h, hd, fun _ _ h => by simp [Cache.get] at h⟩

/-- **delta_reconstructs.**  For every history `reqs` (any length; any number of documents;
    text changes, closes, full, range and delta requests carrying any `previousResultId` —
    current, stale, another document's, never issued) and every further full or delta request
    `rq` on a document `u`: after the response the array the client shows for `u` equals the
    full result for `u`'s current text. -/
theorem delta_reconstructs (cfg : Cfg δ) (s : Srv δ) (c : Client) (hg : Good cfg s c)
    (reqs : List (Req δ)) (rq : Req δ) (u : Uri)
    (hfit : ∀ r ∈ reqs ++ [rq], FitsReq cfg r)
    (hrq : rq = .full u ∨ ∃ p, rq = .delta u p) :
    let sc := run cfg (s, c) (reqs ++ [rq])
    sc.2.shown u = some (fullData cfg sc.1 u) := by
  have hg' := run_good cfg s c reqs hg (fun r hr => hfit r (List.mem_append_left _ hr))
  have := (step_good cfg _ _ rq hg' (hfit rq (by simp))).2 u hrq
  simpa [run_append, run] using this

/-- The invariant behind it, at every point of every history: "equal ids ⇒ equal data" —
    what the server has cached for a document under an id is what the client remembers under
    that document and id. -/
theorem equal_ids_equal_data (cfg : Cfg δ) (s : Srv δ) (c : Client) (hg : Good cfg s c)
    (reqs : List (Req δ)) (hfit : ∀ r ∈ reqs, FitsReq cfg r) (u : Uri) (e : Cached) :
    let sc := run cfg (s, c) reqs
    sc.1.cache.get u = some e → sc.2.lookup u e.id = some e.data :=
  (run_good cfg s c reqs hg hfit).inv u e

/-- The range request itself: it changes nothing on the server, carries no result id, and the
    client decodes from it the full result for the current text restricted to the lines
    `lo..hi` (any `lo`, `hi`, also `lo > hi` or past the end), whenever the document's tokens
    are in document order. -/
theorem range_response (cfg : Cfg δ) (s : Srv δ) (u : Uri) (lo hi : UInt32)
    (hord : ∀ d, liveDoc cfg s u = some d → weaklyOrdered ((cfg.tok d).map absOf) = true) :
    ∃ data, step cfg s (.range u lo hi) = (s, .tokens "" data) ∧
      decode data = restrict lo.toNat hi.toNat (decode (fullData cfg s u)) := by
  cases hl : liveDoc cfg s u with
  | none => exact ⟨[], by simp [step, hl], by simp [fullData, hl, decode, decodeGo, restrict]⟩
  | some d =>
    exact ⟨encodeTokens (filterByRange lo hi (cfg.tok d)), by simp [step, hl],
      by simpa [fullData, hl] using range_is_restriction _ lo hi (hord d hl)⟩

/-- Result ids are fresh: the ids issued during any history are pairwise different, as long as
    the 64-bit counter does not overflow (2^64 responses). -/
theorem ids_fresh (cfg : Cfg δ) (s : Srv δ) (reqs : List (Req δ))
    (h : s.next.toNat + reqs.length < 2 ^ 64) :
    (issued cfg s reqs).Pairwise (· ≠ ·) :=
  (issued_range cfg s reqs h).2

/-- The same for an editor-like client that keeps only its latest result per document, provided
    each delta request names the result the client holds (a *conforming* history). -/
theorem delta_reconstructs_latest_only (cfg : Cfg δ) (s : Srv δ) (c : Client1)
    (hg : Good1 cfg s c) (reqs : List (Req δ)) (rq : Req δ) (u : Uri)
    (hfit : ∀ r ∈ reqs ++ [rq], FitsReq cfg r)
    (hconf : conformingRun cfg (s, c) (reqs ++ [rq]))
    (hrq : rq = .full u ∨ ∃ p, rq = .delta u p) :
    let sc := run1 cfg (s, c) (reqs ++ [rq])
    (Client1.get sc.2 u).map (·.2) = some (fullData cfg sc.1 u) :=
  run1_good cfg s c reqs rq hg hfit hconf u hrq

theorem good1_init (cfg : Cfg δ) (n : UInt64) (docs : List (Uri × δ)) (c : Client1)
    (hd : ∀ u d, getDoc docs u = some d → fits cfg d) :
    Good1 cfg { next := n, cache := [], docs := docs } c :=
  ⟨fun _ _ _ h => by simp [Cache.get] at h, fun _ _ h => by simp [Cache.get] at h, hd,
   fun _ _ h => by simp [Cache.get] at h⟩

/-- Why the latest-only client must be conforming: a document is tokenized (result "1"), becomes
    empty (the answer carries no result id and the cache keeps result "1"), gets its text back,
    and the client — which now holds the empty array — asks for a delta against the stale id
    "1".  The server answers "no edits" and the client keeps showing nothing.  (The remembering
    client of `delta_reconstructs` applies the delta to the array it remembers for "1".) -/
def cfgB : Cfg Bool := { isEmpty := fun d => !d, tok := fun d => if d then [⟨0, 0, 1, 0, 0⟩] else [] }
def staleHistory : List (Req Bool) :=
  [.setDoc "u" true, .full "u", .setDoc "u" false, .full "u", .setDoc "u" true, .delta "u" "1"]

theorem latest_only_stale_id_counterexample :
    (Client1.get (run1 cfgB ({}, []) staleHistory).2 "u").map (·.2) = some [] ∧
    fullData cfgB (run1 cfgB ({}, []) staleHistory).1 "u" = [0, 0, 1, 0, 0] := by decide +kernel

/-- ... and the remembering client on the same history does show the full result. -/
example : (run cfgB ({}, {}) staleHistory).2.shown "u" = some [0, 0, 1, 0, 0] := by decide +kernel

/-! ## 5. The tokens themselves

  Input: the lexer's token list (the lexer is not part of this model).  `tokenize cls toks` is
  `tokenizeForSemantics`; `cls` = `unicode.IsLetter` / `IsDigit`, any. -/

/-- **legend_ok.**  Every token has a type from the advertised legend (13 types) and only
    advertised modifier bits (2 modifiers) — for every lexer output whatsoever. -/
theorem legend_ok (cls : Classes) (toks : List Token) :
    ∀ s ∈ tokenize cls toks, legendOk legendTypes.length legendMods.length (absOf s) = true := by
  intro s hs
  have := tokGo_legend cls {} toks s hs
  have h13 : legendTypes.length = 13 := rfl
  have h2 : legendMods.length = 2 := rfl
  simp only [legendOk, absOf, h13, h2, Bool.and_eq_true, decide_eq_true_eq]
  exact ⟨this.1, this.2⟩

/-- **ordered_disjoint_inline (partial).**  If the lexer's tokens are laid out left to right
    with room for the cells each one claims (`spacedB`: bounds, and every mapped token starts
    after `column + claimWidth` of the mapped token before it) and those cells lie inside the line (`inlineB`),
    then the semantic tokens are in document order, do not overlap, and stay inside their
    lines — including the tag tokens cut out of comments.  The hypotheses hold for the real
    lexer's output outside the known deviations (evaluated by the driver on every case). -/
theorem ordered_disjoint_inline_partial (cls : Classes) (toks : List Token) (lens : List Nat)
    (hs : spacedB cls toks = true) (hi : inlineB lens cls toks = true) :
    orderedDisjoint ((tokenize cls toks).map absOf) = true ∧
    ∀ a ∈ (tokenize cls toks).map absOf, inLine lens a = true :=
  have hs' : (mappedBody toks).all (tokBounds cls) = true ∧ chainB cls (mappedBody toks) = true := by
    simpa [spacedB] using hs
  ⟨(tokGo_ordered cls {} toks 0 0 hs'.1 hs'.2 (by
      cases mappedBody toks with
      | nil => trivial
      | cons t r => simp only [Bound]; omega)).1,
   tokGo_inline cls lens {} toks hs'.1 hi⟩

/-- **covers_lexeme (partial).**  A token that is not cut out of a comment covers exactly the
    lexeme of the lexer token it was made from (same line, same first and last UTF-16 unit,
    a type of that kind), provided the lexer's position and value are `faithful` to the text —
    which is false precisely for the deviations `devPipe`, `devCode`, `devQuoted`,
    `devTextTrim`, `devCrComment`, `devNonBmpBefore`. -/
theorem covers_lexeme_partial (cls : Classes) (text : Bytes) (toks : List Token)
    (s : SemToken) (t : Token) (h : (s, t) ∈ tokenizeSrc cls toks)
    (hplain : t.ty = .comment → (extractTags cls t).isEmpty = true)
    (hf : faithful text t = true)
    (hb : 1 ≤ t.pos.line ∧ t.pos.line < 2 ^ 32 ∧ 1 ≤ t.pos.col ∧ t.pos.col + u16lenB t.val + 1 < 2 ^ 32) :
    coversTok text t (absOf s) = true := by
  obtain ⟨c', hmem, _, _⟩ := tokGoSrc_mem cls {} toks s t h
  rcases stepTok_mem cls c' t s hmem with ⟨hc, _, hne⟩ | ⟨semType, mods, hty, _, rfl, _⟩
  · rw [hplain hc] at hne; cases hne
  · exact plain_covers text t semType mods hty hf hb

/-- The provenance list is the token list. -/
theorem tokenizeSrc_fst (cls : Classes) (toks : List Token) :
    (tokenizeSrc cls toks).map (·.1) = tokenize cls toks := tokGoSrc_fst cls {} toks

/-- Consequently the client decodes exactly the server's tokens (the guard of `encode_decode`
    holds for every lexer output that is `spacedB`). -/
theorem encode_decode_tokenize_partial (cls : Classes) (toks : List Token)
    (hs : spacedB cls toks = true) :
    decode (encodeTokens (tokenize cls toks)) = (tokenize cls toks).map absOf := by
  have hs' : (mappedBody toks).all (tokBounds cls) = true ∧ chainB cls (mappedBody toks) = true := by
    simpa [spacedB] using hs
  have ho := (tokGo_ordered cls {} toks 0 0 hs'.1 hs'.2 (by
      cases mappedBody toks with
      | nil => trivial
      | cons t r => simp only [Bound]; omega)).1
  exact encode_decode _ (orderedDisjoint_weakly _ ho)

/-- **Tags.**  Whatever the comment: every tag token is cut out exactly around `name:` for a
    name accepted by `isValidTagName`, every tag value token around a non-empty string (byte
    spans of the comment's value; where they land in the document is the business of the
    deviations `devTagBytes`, `devTagSkippedPart`, `devNonBmpBefore`), and the spans are in
    increasing order, disjoint and inside the comment. -/
theorem tag_spans_wellformed (cls : Classes) (comment : Bytes) :
    (∀ sp ∈ extractSpans cls comment, SpanContent cls comment sp) ∧
    ∃ hi, hi ≤ comment.length ∧ SpansFrom 0 (extractSpans cls comment) hi :=
  ⟨extractSpans_content cls comment,
   let ⟨hi, h1, h2, _⟩ := extractSpans_spec cls comment; ⟨hi, h1, h2⟩⟩

/-! ### Non-vacuity: a real lexer output that satisfies all hypotheses
    (`2024-01-15 * payee ; k:v, n: w` / `    a:b  $1 @ 2 EUR`, 13 tokens, 4 of them tags). -/

example : spacedB Classes.ascii W.cleanToks = true ∧
    inlineB (lineLens16 W.cleanText) Classes.ascii W.cleanToks = true ∧
    (tokenizeSrc Classes.ascii W.cleanToks).all (fun st =>
      (st.2.ty == .comment && !(extractTags Classes.ascii st.2).isEmpty) || faithful W.cleanText st.2) = true ∧
    (tokenize Classes.ascii W.cleanToks).length = 13 := by decide +kernel

/-! ### The known deviations, each on the real lexer's output for its witness text -/

/-- `payee|note`: the operator token is placed on the cell after the bar — it does not cover
    the bar and it overlaps the note. -/
theorem pipe_position_counterexample :
    (tokenizeSrc Classes.ascii W.pipeToks).any (fun st =>
      devPipe st.2 && !coversTok W.pipeText st.2 (absOf st.1)) = true ∧
    orderedDisjoint ((tokenize Classes.ascii W.pipeToks).map absOf) = false := by decide +kernel

/-- `(123)`: the code token covers `(12`. -/
theorem code_length_counterexample :
    (tokenizeSrc Classes.ascii W.codeToks).any (fun st =>
      devCode st.2 && !coversTok W.codeText st.2 (absOf st.1)) = true := by decide +kernel

/-- `"AAPL 2"`: the commodity token covers `"AAPL `. -/
theorem quoted_commodity_length_counterexample :
    (tokenizeSrc Classes.ascii W.quotedToks).any (fun st =>
      devQuoted st.2 && !coversTok W.quotedText st.2 (absOf st.1)) = true := by decide +kernel

/-- A payee after a tab starts on the tab; on a CRLF line a zero-length token sits on the CR. -/
theorem text_trimmed_position_counterexample :
    (tokenizeSrc Classes.ascii W.trimToks).any (fun st =>
      devTextTrim W.trimText st.2 && !coversTok W.trimText st.2 (absOf st.1)) = true ∧
    (tokenizeSrc Classes.ascii W.trim2Toks).any (fun st =>
      devTextTrim W.trim2Text st.2 && (absOf st.1).len == 0) = true := by decide +kernel

/-- `; note` + CRLF: the comment token is one unit longer than its line. -/
theorem crlf_comment_length_counterexample :
    (tokenizeSrc Classes.ascii W.crlfToks).any (fun st =>
      devCrComment st.2 && !inLine (lineLens16 W.crlfText) (absOf st.1)) = true := by decide +kernel

/-- After `😀` the lexer's column is one less than the UTF-16 column. -/
theorem nonbmp_column_counterexample :
    (tokenizeSrc Classes.ascii W.nonbmpToks).any (fun st =>
      devNonBmpBefore W.nonbmpText (lexemeRange W.nonbmpText st.2).1 &&
      !coversTok W.nonbmpText st.2 (absOf st.1)) = true := by decide +kernel

/-- `; é, tag:value`: tag tokens are placed by byte offsets; both miss their text and the value
    token leaves the line. -/
theorem tag_byte_offsets_counterexample :
    (tokenizeSrc Classes.ascii W.tagbToks).all (fun st =>
      devTagBytes st.2 (st.1.col.toNat + st.1.len.toNat - st.2.pos.col) &&
      !coversTag Classes.ascii W.tagbText st.2 (absOf st.1)) = true ∧
    (tokenize Classes.ascii W.tagbToks).any (fun s => !inLine (lineLens16 W.tagbText) (absOf s)) = true := by
  decide +kernel

/-- `; p q ya:1, a:2`: the part `p q ya:1` is skipped, the tag `a:` is then found inside `ya:`. -/
theorem tag_search_position_counterexample :
    (tokenizeSrc Classes.ascii W.tagsToks).any (fun st =>
      devTagSkippedPart Classes.ascii st.2 &&
      !coversTag Classes.ascii W.tagsText st.2 (absOf st.1)) = true := by decide +kernel

end HL.Props.C17
