import HL.Model.SemTok
namespace HL.Props.C17
theorem placeholder : (1 : Nat) = 1 := rfl
end HL.Props.C17
