/-
  C17 — Semantic tokens cover their lexemes and deltas reconstruct the full result.
  Property theorems only; helper lemmas live in HL/Lemmas/SemTok.lean.
-/
import HL.Lemmas.SemTok
import Std.Data.String.ToNat
namespace HL.Props.C17
open HL HL.SemTok HL.SemTokSpec HL.Lemmas.SemTok

/-! ## 1. Relative encoding and the client's decoding -/

/-- `decode ∘ encode = id`: a client decoding (in unbounded integers) the array the server
    encoded (in `uint32`) gets the server's tokens back, for every token list in document order
    (all fields are `uint32`, i.e. "fit in 32 bits", by typing). -/
theorem encode_decode (ts : List SemToken) (h : weaklyOrdered (ts.map absOf) = true) :
    decode (encodeTokens ts) = ts.map absOf := by
  have := decode_encode_from 0 0 ts (monoFrom_zero_of_weaklyOrdered ts h)
  simpa [decode, encodeTokens] using this

/-- Out of document order the `uint32` subtraction wraps and the client, which adds in
    unbounded integers, lands elsewhere: tokens at 0:5 and 0:3 decode to 0:5 and 0:4294967299. -/
theorem encode_decode_unordered_counterexample :
    decode (encodeTokens [⟨0, 5, 1, 0, 0⟩, ⟨0, 3, 1, 0, 0⟩])
      = [⟨0, 5, 1, 0, 0⟩, ⟨0, 4294967299, 1, 0, 0⟩] := by decide

/-! ## 2. Range requests -/

/-- A range request returns the full result restricted to the requested lines
    (the response of `SemanticTokensRange` is `encodeTokens (filterByRange lo hi toks)`,
    see `HL.SemTok.step`). -/
theorem range_is_restriction (ts : List SemToken) (lo hi : UInt32)
    (h : weaklyOrdered (ts.map absOf) = true) :
    decode (encodeTokens (filterByRange lo hi ts))
      = restrict lo.toNat hi.toNat (decode (encodeTokens ts)) := by
  have hf : weaklyOrdered ((filterByRange lo hi ts).map absOf) = true := by
    have : (filterByRange lo hi ts).map absOf
        = (ts.map absOf).filter (fun a => lo.toNat ≤ a.line && a.line ≤ hi.toNat) := by
      simp only [filterByRange, List.filter_map]
      congr 1
    rw [this]
    exact weaklyOrdered_filter _ _ h
  rw [encode_decode _ hf, encode_decode _ h]
  simp only [filterByRange, restrict, List.filter_map]
  congr 1

/-! ## 3. Edits -/

/-- Applying the computed edits to the old array yields the new array, for all arrays the
    protocol can address (`deleteCount` is a `uint32`). -/
theorem computeEdits_correct (old new : Data) (h : old.length < 2 ^ 32) :
    applyEdits old (computeEdits old new) = new :=
  computeEdits_apply old new h

/-- What the `uint32(len(oldData))` conversion does beyond that: at 2^32 elements the delete
    count wraps to 0 and the client keeps the whole old array behind the new one. -/
theorem computeEdits_wraps (old new : Data) (h : old.length = 2 ^ 32) (hne : old ≠ new) :
    applyEdits old (computeEdits old new) = new ++ old := by
  have : (old == new) = false := by simpa using hne
  simp [computeEdits, this, applyEdits_single, applyEdit, u32, h]

/-! ## 4. Histories: the client's array always equals the full result

  Server state `Srv` = result-id counter, cache `uri ↦ (id, data)`, open documents.  The tokenizer
  is a parameter (`cfg.tok`), so everything below holds for every tokenizer.  The client
  (`HL.SemTokSpec.Client`) remembers every result by (document, result id) and applies a delta to
  the array it remembers for the `previousResultId` it sent. -/

variable {δ : Type}

/-- The states the theorems start from: nothing cached (any counter value: `tokenCache` is
    shared by all servers of a process), any open documents whose arrays are addressable. -/
theorem good_init (cfg : Cfg δ) (n : UInt64) (docs : List (Uri × δ)) (c : Client)
    (hd : ∀ u d, getDoc docs u = some d → fits cfg d) :
    Good cfg { next := n, cache := [], docs := docs } c :=
  ⟨fun _ _ h => by simp [Cache.get] at h, hd, fun _ _ h => by simp [Cache.get] at h⟩

/-- **delta_reconstructs.**  For every history `reqs` (any length; any number of documents;
    text changes, closes, full, range and delta requests carrying any `previousResultId` —
    current, stale, another document's, never issued) and every further full or delta request
    `rq` on a document `u`: after the response the array the client shows for `u` equals the
    full result for `u`'s current text. -/
theorem delta_reconstructs (cfg : Cfg δ) (s : Srv δ) (c : Client) (hg : Good cfg s c)
    (reqs : List (Req δ)) (rq : Req δ) (u : Uri)
    (hfit : ∀ r ∈ reqs ++ [rq], FitsReq cfg r)
    (hrq : rq = .full u ∨ ∃ p, rq = .delta u p) :
    let sc := run cfg (s, c) (reqs ++ [rq])
    sc.2.shown u = some (fullData cfg sc.1 u) := by
  have hg' := run_good cfg s c reqs hg (fun r hr => hfit r (List.mem_append_left _ hr))
  have := (step_good cfg _ _ rq hg' (hfit rq (by simp))).2 u hrq
  simpa [run_append, run] using this

/-- The invariant behind it, at every point of every history: "equal ids ⇒ equal data" —
    what the server has cached for a document under an id is what the client remembers under
    that document and id. -/
theorem equal_ids_equal_data (cfg : Cfg δ) (s : Srv δ) (c : Client) (hg : Good cfg s c)
    (reqs : List (Req δ)) (hfit : ∀ r ∈ reqs, FitsReq cfg r) (u : Uri) (e : Cached) :
    let sc := run cfg (s, c) reqs
    sc.1.cache.get u = some e → sc.2.lookup u e.id = some e.data :=
  (run_good cfg s c reqs hg hfit).inv u e

/-- Result ids are fresh: the ids issued during any history are pairwise different, as long as
    the 64-bit counter does not overflow (2^64 responses). -/
theorem ids_fresh (cfg : Cfg δ) (s : Srv δ) (reqs : List (Req δ))
    (h : s.next.toNat + reqs.length < 2 ^ 64) :
    (issued cfg s reqs).Pairwise (· ≠ ·) :=
  (issued_range cfg s reqs h).2

/-- The same for an editor-like client that keeps only its latest result per document, provided
    each delta request names the result the client holds (a *conforming* history). -/
theorem delta_reconstructs_latest_only (cfg : Cfg δ) (s : Srv δ) (c : Client1)
    (hg : Good1 cfg s c) (reqs : List (Req δ)) (rq : Req δ) (u : Uri)
    (hfit : ∀ r ∈ reqs ++ [rq], FitsReq cfg r)
    (hconf : conformingRun cfg (s, c) (reqs ++ [rq]))
    (hrq : rq = .full u ∨ ∃ p, rq = .delta u p) :
    let sc := run1 cfg (s, c) (reqs ++ [rq])
    (Client1.get sc.2 u).map (·.2) = some (fullData cfg sc.1 u) :=
  run1_good cfg s c reqs rq hg hfit hconf u hrq

theorem good1_init (cfg : Cfg δ) (n : UInt64) (docs : List (Uri × δ)) (c : Client1)
    (hd : ∀ u d, getDoc docs u = some d → fits cfg d) :
    Good1 cfg { next := n, cache := [], docs := docs } c :=
  ⟨fun _ _ _ h => by simp [Cache.get] at h, fun _ _ h => by simp [Cache.get] at h, hd,
   fun _ _ h => by simp [Cache.get] at h⟩

/-- Why the latest-only client must be conforming: a document is tokenized (result "1"), becomes
    empty (the answer carries no result id and the cache keeps result "1"), gets its text back,
    and the client — which now holds the empty array — asks for a delta against the stale id
    "1".  The server answers "no edits" and the client keeps showing nothing.  (The remembering
    client of `delta_reconstructs` applies the delta to the array it remembers for "1".) -/
def cfgB : Cfg Bool := { isEmpty := fun d => !d, tok := fun d => if d then [⟨0, 0, 1, 0, 0⟩] else [] }
def staleHistory : List (Req Bool) :=
  [.setDoc "u" true, .full "u", .setDoc "u" false, .full "u", .setDoc "u" true, .delta "u" "1"]

theorem latest_only_stale_id_counterexample :
    (Client1.get (run1 cfgB ({}, []) staleHistory).2 "u").map (·.2) = some [] ∧
    fullData cfgB (run1 cfgB ({}, []) staleHistory).1 "u" = [0, 0, 1, 0, 0] := by decide +kernel

/-- ... and the remembering client on the same history does show the full result. -/
example : (run cfgB ({}, {}) staleHistory).2.shown "u" = some [0, 0, 1, 0, 0] := by decide +kernel

end HL.Props.C17
