/-
  C17 — Semantic tokens cover their lexemes and deltas reconstruct the full result.
  Property theorems only; helper lemmas live in HL/Lemmas/SemTok.lean.
-/
import HL.Lemmas.SemTok
import HL.Lemmas.SemTokGeom
import HL.Lemmas.SemTokPlace
import HL.Lemmas.SemTokLines
import HL.Lemmas.SemTokWitness
import HL.Model.SemTokPinned
import Std.Data.String.ToNat
namespace HL.Props.C17
open HL HL.SemTok HL.SemTokSpec HL.Lemmas.SemTok

/-! ## 1. Relative encoding and the client's decoding -/

/-- `decode ∘ encode = id`: a client decoding (in unbounded integers) the array the server
    encoded (in `uint32`) gets the server's tokens back, for every token list in document order
    (all fields are `uint32`, i.e. "fit in 32 bits", by typing). -/
theorem encode_decode (ts : List SemToken) (h : weaklyOrdered (ts.map absOf) = true) :
    decode (encodeTokens ts) = ts.map absOf := by
  have := decode_encode_from 0 0 ts (monoFrom_zero_of_weaklyOrdered ts h)
  simpa [decode, encodeTokens] using this

/-- Out of document order the `uint32` subtraction wraps and the client, which adds in
    unbounded integers, lands elsewhere: tokens at 0:5 and 0:3 decode to 0:5 and 0:4294967299. -/
theorem encode_decode_unordered_counterexample :
    decode (encodeTokens [⟨0, 5, 1, 0, 0⟩, ⟨0, 3, 1, 0, 0⟩])
      = [⟨0, 5, 1, 0, 0⟩, ⟨0, 4294967299, 1, 0, 0⟩] := by decide

/-- Non-vacuity: the real tokens of a two-line journal are in document order. -/
example : weaklyOrdered ((tokenize Classes.ascii W.cleanText W.cleanToks).map absOf) = true ∧
    decode (encodeTokens (tokenize Classes.ascii W.cleanText W.cleanToks))
      = (tokenize Classes.ascii W.cleanText W.cleanToks).map absOf := by decide +kernel

/-! ## 2. Range requests -/

/-- A range request returns the full result restricted to the requested lines
    (the response of `SemanticTokensRange` is `encodeTokens (filterByRange lo hi toks)`,
    see `HL.SemTok.step`). -/
theorem range_is_restriction (ts : List SemToken) (lo hi : UInt32)
    (h : weaklyOrdered (ts.map absOf) = true) :
    decode (encodeTokens (filterByRange lo hi ts))
      = restrict lo.toNat hi.toNat (decode (encodeTokens ts)) := by
  have hf : weaklyOrdered ((filterByRange lo hi ts).map absOf) = true := by
    have : (filterByRange lo hi ts).map absOf
        = (ts.map absOf).filter (fun a => lo.toNat ≤ a.line && a.line ≤ hi.toNat) := by
      simp only [filterByRange, List.filter_map]
      congr 1
    rw [this]
    exact weaklyOrdered_filter _ _ h
  rw [encode_decode _ hf, encode_decode _ h]
  simp only [filterByRange, restrict, List.filter_map]
  congr 1

/-- Non-vacuity: line 1 of the two-line journal — 6 of its 13 tokens. -/
example : (decode (encodeTokens (filterByRange 1 1 (tokenize Classes.ascii W.cleanText W.cleanToks)))).length = 6 := by
  decide +kernel

/-! ## 3. Edits -/

/-- Applying the computed edits to the old array yields the new array, for all arrays the
    protocol can address (`deleteCount` is a `uint32`). -/
theorem computeEdits_correct (old new : Data) (h : old.length < 2 ^ 32) :
    applyEdits old (computeEdits old new) = new :=
  computeEdits_apply old new h

/-- What the `uint32(len(oldData))` conversion does beyond that: at 2^32 elements the delete
    count wraps to 0 and the client keeps the whole old array behind the new one. -/
theorem computeEdits_wraps (old new : Data) (h : old.length = 2 ^ 32) (hne : old ≠ new) :
    applyEdits old (computeEdits old new) = new ++ old := by
  have : (old == new) = false := by simpa using hne
  simp [computeEdits, this, applyEdits_single, applyEdit, u32, h]

example : applyEdits [1, 2, 3, 4, 5] (computeEdits [1, 2, 3, 4, 5] [9, 9, 9, 9, 9, 0, 0, 0, 0, 0])
    = [9, 9, 9, 9, 9, 0, 0, 0, 0, 0] := computeEdits_correct _ _ (by decide)

/-! ## 4. Histories: the client's array always equals the full result

  Server state `Srv` = result-id counter, cache `uri ↦ (id, data)`, open documents.  The tokenizer
  is a parameter (`cfg.tok`), so everything below holds for every tokenizer.  The client
  (`HL.SemTokSpec.Client`) remembers every result by (document, result id) and applies a delta to
  the array it remembers for the `previousResultId` it sent. -/

variable {δ : Type}

/-- The states the theorems start from: nothing cached (any counter value: `tokenCache` is
    shared by all servers of a process), any open documents whose arrays are addressable. -/
theorem good_init (cfg : Cfg δ) (n : UInt64) (docs : List (Uri × δ)) (c : Client)
    (hd : ∀ u d, getDoc docs u = some d → fits cfg d) :
    Good cfg { next := n, cache := [], docs := docs } c :=
  ⟨fun _ _ h => by simp [Cache.get] at h, hd, fun _ _ h => by simp [Cache.get] at h⟩

/-- **delta_reconstructs.**  For every history `reqs` (any length; any number of documents;
    text changes, closes, full, range and delta requests carrying any `previousResultId` —
    current, stale, another document's, never issued) and every further full or delta request
    `rq` on a document `u`: after the response the array the client shows for `u` equals the
    full result for `u`'s current text. -/
theorem delta_reconstructs (cfg : Cfg δ) (s : Srv δ) (c : Client) (hg : Good cfg s c)
    (reqs : List (Req δ)) (rq : Req δ) (u : Uri)
    (hfit : ∀ r ∈ reqs ++ [rq], FitsReq cfg r)
    (hrq : rq = .full u ∨ ∃ p, rq = .delta u p) :
    let sc := run cfg (s, c) (reqs ++ [rq])
    sc.2.shown u = some (fullData cfg sc.1 u) := by
  have hg' := run_good cfg s c reqs hg (fun r hr => hfit r (List.mem_append_left _ hr))
  have := (step_good cfg _ _ rq hg' (hfit rq (by simp))).2 u hrq
  simpa [run_append, run] using this

/-- The invariant behind it, at every point of every history: "equal ids ⇒ equal data" —
    what the server has cached for a document under an id is what the client remembers under
    that document and id. -/
theorem equal_ids_equal_data (cfg : Cfg δ) (s : Srv δ) (c : Client) (hg : Good cfg s c)
    (reqs : List (Req δ)) (hfit : ∀ r ∈ reqs, FitsReq cfg r) (u : Uri) (e : Cached) :
    let sc := run cfg (s, c) reqs
    sc.1.cache.get u = some e → sc.2.lookup u e.id = some e.data :=
  (run_good cfg s c reqs hg hfit).inv u e

/-- The range request itself: it changes nothing on the server, carries no result id, and the
    client decodes from it the full result for the current text restricted to the lines
    `lo..hi` (any `lo`, `hi`, also `lo > hi` or past the end), whenever the document's tokens
    are in document order. -/
theorem range_response (cfg : Cfg δ) (s : Srv δ) (u : Uri) (lo hi : UInt32)
    (hord : ∀ d, liveDoc cfg s u = some d → weaklyOrdered ((cfg.tok d).map absOf) = true) :
    ∃ data, step cfg s (.range u lo hi) = (s, .tokens "" data) ∧
      decode data = restrict lo.toNat hi.toNat (decode (fullData cfg s u)) := by
  cases hl : liveDoc cfg s u with
  | none => exact ⟨[], by simp [step, hl], by simp [fullData, hl, decode, decodeGo, restrict]⟩
  | some d =>
    exact ⟨encodeTokens (filterByRange lo hi (cfg.tok d)), by simp [step, hl],
      by simpa [fullData, hl] using range_is_restriction _ lo hi (hord d hl)⟩

/-- Result ids are fresh: the ids issued during any history are pairwise different, as long as
    the 64-bit counter does not overflow (2^64 responses). -/
theorem ids_fresh (cfg : Cfg δ) (s : Srv δ) (reqs : List (Req δ))
    (h : s.next.toNat + reqs.length < 2 ^ 64) :
    (issued cfg s reqs).Pairwise (· ≠ ·) :=
  (issued_range cfg s reqs h).2

/-- The same for an editor-like client that keeps only its latest result per document, provided
    each delta request names the result the client holds (a *conforming* history). -/
theorem delta_reconstructs_latest_only (cfg : Cfg δ) (s : Srv δ) (c : Client1)
    (hg : Good1 cfg s c) (reqs : List (Req δ)) (rq : Req δ) (u : Uri)
    (hfit : ∀ r ∈ reqs ++ [rq], FitsReq cfg r)
    (hconf : conformingRun cfg (s, c) (reqs ++ [rq]))
    (hrq : rq = .full u ∨ ∃ p, rq = .delta u p) :
    let sc := run1 cfg (s, c) (reqs ++ [rq])
    (Client1.get sc.2 u).map (·.2) = some (fullData cfg sc.1 u) :=
  run1_good cfg s c reqs rq hg hfit hconf u hrq

theorem good1_init (cfg : Cfg δ) (n : UInt64) (docs : List (Uri × δ)) (c : Client1)
    (hd : ∀ u d, getDoc docs u = some d → fits cfg d) :
    Good1 cfg { next := n, cache := [], docs := docs } c :=
  ⟨fun _ _ _ h => by simp [Cache.get] at h, fun _ _ h => by simp [Cache.get] at h, hd,
   fun _ _ h => by simp [Cache.get] at h⟩

/-- Why the latest-only client must be conforming: a document is tokenized (result "1"), becomes
    empty (the answer carries no result id and the cache keeps result "1"), gets its text back,
    and the client — which now holds the empty array — asks for a delta against the stale id
    "1".  The server answers "no edits" and the client keeps showing nothing.  (The remembering
    client of `delta_reconstructs` applies the delta to the array it remembers for "1".) -/
def cfgB : Cfg Bool := { isEmpty := fun d => !d, tok := fun d => if d then [⟨0, 0, 1, 0, 0⟩] else [] }
def staleHistory : List (Req Bool) :=
  [.setDoc "u" true, .full "u", .setDoc "u" false, .full "u", .setDoc "u" true, .delta "u" "1"]

theorem latest_only_stale_id_counterexample :
    (Client1.get (run1 cfgB ({}, []) staleHistory).2 "u").map (·.2) = some [] ∧
    fullData cfgB (run1 cfgB ({}, []) staleHistory).1 "u" = [0, 0, 1, 0, 0] := by decide +kernel

/-- ... and the remembering client on the same history does show the full result. -/
example : (run cfgB ({}, {}) staleHistory).2.shown "u" = some [0, 0, 1, 0, 0] := by decide +kernel

/-! ## 5. The tokens themselves

  Input: the document text and the lexer's token list for it (the lexer is not part of this
  model).  `tokenize cls text toks` is `tokenizeForSemantics`; `cls` = `unicode.IsLetter` /
  `IsDigit`, any.  Positions and lengths are taken from the SOURCE EXTENT of each lexer token
  (`Pos.Offset`, `End.Offset` and the text between them), columns from the UTF-16 cursor over the
  text; the lexer's rune columns and (except for comments) token values play no role. -/

/-- **legend_ok.**  Every token has a type from the advertised legend (13 types) and only
    advertised modifier bits (2 modifiers) — for every text and every lexer output whatsoever. -/
theorem legend_ok (cls : Classes) (text : Bytes) (toks : List Token) :
    ∀ s ∈ tokenize cls text toks, legendOk legendTypes.length legendMods.length (absOf s) = true := by
  intro s hs
  have := tokGo_legend cls text {} toks s hs
  have h13 : legendTypes.length = 13 := rfl
  have h2 : legendMods.length = 2 := rfl
  simp only [legendOk, absOf, h13, h2, Bool.and_eq_true, decide_eq_true_eq]
  exact ⟨this.1, this.2⟩

/-! The hypotheses below are the LEXER'S CONTRACT about the token list it returns for the text
    (the lexer is not modelled here; the driver evaluates them on every generated case, and they
    hold on every one, including arbitrary byte strings):
    `extentsB` — extents `[Pos.Offset, End.Offset)` lie inside the text and inside one line, a
                 comment's value is its extent without the `;`, consecutive mapped tokens do not
                 overlap and are on the same line iff the lexer says so (all in BYTES);
    `cutsB`    — every extent starts and ends on a rune boundary of the text;
    `lineOk`   — `Pos.Line` is one more than the number of line feeds before `Pos.Offset`.
    None of them mentions token values (except a comment's), the lexer's rune columns, codes,
    quoted commodities, white space, characters outside the BMP or non-ASCII text: the defects
    those shapes triggered are repaired.  The last guard — no comment's value ends with the CR of
    a CRLF line end (`devCrComment`, finding crlf-comment-length) — is repaired too: it is now a
    THEOREM about the lexer model (`lexer_comment_no_cr`, HL/Props/C17Lexer.lean), for every text of the property's
    domain (`crOnlyBeforeLf`: CR only as part of CRLF), so `ordered_disjoint_inline` and
    `covers_lexeme` carry no guard any more. -/

/-- **ordered_disjoint.**  For every text and every lexer output that honours the contract, the
    semantic tokens — including the tag tokens cut out of comments — are in document order and
    do not overlap.  (No guard: CRLF line ends included.) -/
theorem ordered_disjoint (cls : Classes) (text : Bytes) (toks : List Token)
    (hx : extentsB text toks = true) (hc : cutsB text toks = true) :
    orderedDisjoint ((tokenize cls text toks).map absOf) = true :=
  have hx' : (mappedBody toks).all (extentOk text) = true ∧ chainB text (mappedBody toks) = true := by
    simpa [extentsB] using hx
  (tokGo_ordered cls text {} toks 0 0 hx'.1 hx'.2 (measAll_of_cuts cls text toks hx'.1 hc) (by
      cases mappedBody toks with
      | nil => trivial
      | cons t r => simp only [Bound]; omega)).1

/-- **ordered_disjoint_inline, from the contract.**  … and every token stays inside its line as
    the client counts it (UTF-16 units, CRLF or LF line ends not counted), for every token list
    that honours the contract, has right line numbers (`lineOk`) and in which no comment's value
    ends with a CR.  (For the lexer's own output the last hypothesis is a theorem:
    `ordered_disjoint_inline` below.) -/
theorem ordered_disjoint_inline_of_contract (cls : Classes) (text : Bytes) (toks : List Token)
    (hx : extentsB text toks = true) (hc : cutsB text toks = true)
    (hl : (mappedBody toks).all (fun t => lineOk text t && !devCrComment t) = true) :
    orderedDisjoint ((tokenize cls text toks).map absOf) = true ∧
    ∀ a ∈ (tokenize cls text toks).map absOf, inLine (lineLens16 text) a = true :=
  have hx' : (mappedBody toks).all (extentOk text) = true ∧ chainB text (mappedBody toks) = true := by
    simpa [extentsB] using hx
  ⟨ordered_disjoint cls text toks hx hc,
   tokGo_inline cls text (lineLens16 text) {} toks hx'.1 (measAll_of_cuts cls text toks hx'.1 hc)
     (inlineB_of_contract cls text toks hx'.1 hc hl)⟩

/-- **covers_lexeme, from the contract.**  A token that is not cut out of a comment covers
    exactly the lexeme of the lexer token it was made from (same line, same first and last UTF-16
    unit, a type of that kind, not empty), whenever that lexer token honours the contract
    (`extentOk`, `cutOk`, `lineOk`) and is not a comment whose value ends with a CR.  (`hplain`
    is a case distinction, not a guard: the tokens cut out of a comment are the subject of
    `tag_tokens_placed`.) -/
theorem covers_lexeme_of_contract (cls : Classes) (text : Bytes) (toks : List Token)
    (s : SemToken) (t : Token) (h : (s, t) ∈ tokenizeSrc cls text toks)
    (hplain : t.ty = .comment → (extractTags cls text t).isEmpty = true)
    (hx : extentOk text t = true) (hc : cutOk text t = true) (hl : lineOk text t = true)
    (hcr : devCrComment t = false) :
    coversTok text t (absOf s) = true := by
  obtain ⟨c', hmem, _, _⟩ := tokGoSrc_mem cls text {} toks s t h
  simp only [cutOk, Bool.and_eq_true] at hc
  rcases stepTok_mem cls text c' t s hmem with ⟨hcm, _, hne⟩ | ⟨semType, mods, hty, _, rfl, hnz, _⟩
  · rw [hplain hcm] at hne; cases hne
  · exact plain_covers_cuts text t semType mods hty (extentP_of text t hx)
      (cut_of_isCut hc.1) (cut_of_isCut hc.2) hl hcr hnz

/-- **Tags.**  A token cut out of a comment sits on the comment's line at the LSP character
    of the first byte of a span of the comment text and has the UTF-16 length of that span,
    where the span is exactly `name:` for a name accepted by `isValidTagName` (type `tag`) or a
    non-empty tag value (type `tagValue`) — for every comment token that honours the contract,
    CRLF line ends and non-ASCII text before the tag included. -/
theorem tag_tokens_placed (cls : Classes) (text : Bytes) (toks : List Token)
    (s : SemToken) (t : Token) (h : (s, t) ∈ tokenizeSrc cls text toks)
    (htag : t.ty = .comment ∧ (extractTags cls text t).isEmpty = false)
    (hx : extentOk text t = true) (hc : cutOk text t = true) (hl : lineOk text t = true) :
    ∃ sp ∈ extractSpans cls t.val, SpanContent cls t.val sp ∧
      (absOf s).ty = sp.ty.toNat ∧ (absOf s).mods = 0 ∧
      ((absOf s).line, (absOf s).start) = posOfOffset text (t.pos.off + 1 + sp.off) ∧
      (absOf s).len = u16lenB (sliceB text (t.pos.off + 1 + sp.off) (t.pos.off + 1 + sp.off + sp.len)) := by
  obtain ⟨c', hmem, _, _⟩ := tokGoSrc_mem cls text {} toks s t h
  have he := extentP_of text t hx
  simp only [cutOk, Bool.and_eq_true] at hc
  rcases stepTok_mem cls text c' t s hmem with ⟨_, hs, _⟩ | ⟨_, _, _, _, _, _, hpl⟩
  · simp only [extractTags, List.mem_map] at hs
    obtain ⟨sp, hsp, rfl⟩ := hs
    have hcont := extractSpans_content cls t.val sp hsp
    have hm := tags_measured cls text t he htag.1 (cut_of_isCut hc.1) (cut_of_isCut hc.2) sp hsp
    obtain ⟨hi, hhi, hsf, _⟩ := extractSpans_spec cls t.val
    have hb := spansFrom_mem_le hsf sp hsp
    have hlen := he.cmtLen htag.1
    simp only [measured, Bool.and_eq_true, decide_eq_true_eq] at hm
    have h16 : sp.len16 < 2 ^ 32 := by omega
    refine ⟨sp, hsp, hcont, ?_⟩
    rw [absOf_tagToken text t sp he h16]
    refine ⟨rfl, rfl, ?_, ?_⟩
    · -- position
      have hraw := he.cmt htag.1
      have hsemi : text[t.pos.off]? = some 0x3B := getElem?_slice_zero _ _ _ _ _ hraw
      obtain ⟨_, hp1⟩ := cut_ascii text t.pos.off 0x3B hsemi (by decide)
      have hval : sliceB text (t.pos.off + 1) t.stop.off = t.val := by
        have := sliceB_sub text t.pos.off t.stop.off 1 t.val.length (by omega)
        rw [show t.pos.off + 1 + t.val.length = t.stop.off by omega, hraw] at this
        simpa using this
      obtain ⟨c1, _⟩ := extractSpans_cutP cls t.val sp hsp
      have hcut : Cut text (t.pos.off + 1 + sp.off) :=
        cut_slice hp1 (cut_of_isCut hc.2) (by omega) (by rw [hval]; exact c1)
      have h1 := posLine_same text t.pos.off (t.pos.off + 1 + sp.off) (by omega)
        (noLfP_sub he.oneLine (Nat.le_refl _) (by omega))
      have h2 := posCol_cut text _ hcut
      simp only [lineOk, beq_iff_eq] at hl
      rw [← hl, ← h1, ← h2]
    · -- length
      have hraw := he.cmt htag.1
      have hval : sliceB text (t.pos.off + 1) t.stop.off = t.val := by
        have := sliceB_sub text t.pos.off t.stop.off 1 t.val.length (by omega)
        rw [show t.pos.off + 1 + t.val.length = t.stop.off by omega, hraw] at this
        simpa using this
      have := sliceB_sub text (t.pos.off + 1) t.stop.off sp.off sp.len (by omega)
      rw [this, hval]
      exact span_len16 cls t.val sp hcont
  · rw [hpl htag.1] at htag; cases htag.2

/-- The provenance list is the token list. -/
theorem tokenizeSrc_fst (cls : Classes) (text : Bytes) (toks : List Token) :
    (tokenizeSrc cls text toks).map (·.1) = tokenize cls text toks := tokGoSrc_fst cls text {} toks

/-- **encode_decode_tokenize.**  Consequently the client decodes exactly the server's tokens,
    for every text and every lexer output that honours the contract (no guard). -/
theorem encode_decode_tokenize (cls : Classes) (text : Bytes) (toks : List Token)
    (hx : extentsB text toks = true) (hc : cutsB text toks = true) :
    decode (encodeTokens (tokenize cls text toks)) = (tokenize cls text toks).map absOf :=
  encode_decode _ (orderedDisjoint_weakly _ (ordered_disjoint cls text toks hx hc))

/-- **Tag spans.**  Whatever the comment: every tag span is cut out exactly around `name:` for
    a name accepted by `isValidTagName`, every tag value span around a non-empty string, and the
    spans are in increasing order, disjoint and inside the comment. -/
theorem tag_spans_wellformed (cls : Classes) (comment : Bytes) :
    (∀ sp ∈ extractSpans cls comment, SpanContent cls comment sp) ∧
    ∃ hi, hi ≤ comment.length ∧ SpansFrom 0 (extractSpans cls comment) hi :=
  ⟨extractSpans_content cls comment,
   let ⟨hi, h1, h2, _⟩ := extractSpans_spec cls comment; ⟨hi, h1, h2⟩⟩

/-! ### Non-vacuity: real lexer outputs that satisfy all hypotheses — the clean two-line journal
    (`2024-01-15 * payee ; k:v, n: w` / `    a:b  $1 @ 2 EUR`, 13 tokens, 4 of them tags) and
    the witnesses of the repaired findings (a code, a quoted commodity, a payee after a
    no-break space, a character outside the BMP before an amount, tags after non-ASCII comment
    text, a tag after a skipped part). -/

def hypsHold (text : Bytes) (toks : List Token) : Bool :=
  extentsB text toks && cutsB text toks &&
  (mappedBody toks).all (fun t => lineOk text t && !devCrComment t)

example : hypsHold W.cleanText W.cleanToks = true ∧
    (tokenize Classes.ascii W.cleanText W.cleanToks).length = 13 := by decide +kernel

example : hypsHold W.codeText W.codeToks = true ∧ hypsHold W.quotedText W.quotedToks = true ∧
    hypsHold W.trimText W.trimToks = true ∧ hypsHold W.nonbmpText W.nonbmpToks = true ∧
    hypsHold W.tagbText W.tagbToks = true ∧ hypsHold W.tagsText W.tagsToks = true := by decide +kernel

/-! ### The repaired deviations: what the PINNED tokenizer (HL/Model/SemTokPinned.lean) did on
    the real lexer's output for each witness text, and what the repaired one does -/

def allCover (text : Bytes) (toks : List Token) : Bool :=
  (tokenizeSrc Classes.ascii text toks).all (fun st =>
    inLine (lineLens16 text) (absOf st.1) &&
    (if st.2.ty == .comment && (st.1.ty == tyTag || st.1.ty == tyTagValue)
     then coversTag Classes.ascii text st.2 (absOf st.1) else coversTok text st.2 (absOf st.1))) &&
  orderedDisjoint ((tokenize Classes.ascii text toks).map absOf)

/-- `payee|note` as the pinned lexer reported it: the operator token was placed on the cell
    after the bar — it did not cover the bar and it overlapped the note. -/
theorem pinned_pipe_position_counterexample :
    (Pinned.tokenizeSrc Classes.ascii W.pipePinnedToks).any (fun st =>
      devPipe st.2 && !coversTok W.pipeText st.2 (absOf st.1)) = true ∧
    orderedDisjoint ((Pinned.tokenize Classes.ascii W.pipePinnedToks).map absOf) = false ∧
    allCover W.pipeText W.pipeToks = true := by decide +kernel

/-- `(123)`: the pinned code token covered `(12`; the repaired one covers `(123)`. -/
theorem pinned_code_length_counterexample :
    (Pinned.tokenizeSrc Classes.ascii W.codeToks).any (fun st =>
      devCode st.2 && !coversTok W.codeText st.2 (absOf st.1)) = true ∧
    allCover W.codeText W.codeToks = true := by decide +kernel

/-- `"AAPL 2"`: the pinned commodity token covered `"AAPL `; the repaired one covers the quotes. -/
theorem pinned_quoted_commodity_length_counterexample :
    (Pinned.tokenizeSrc Classes.ascii W.quotedToks).any (fun st =>
      devQuoted st.2 && !coversTok W.quotedText st.2 (absOf st.1)) = true ∧
    allCover W.quotedText W.quotedToks = true := by decide +kernel

/-- A payee after a no-break space started on that space; on a CRLF line (whose CR the pinned
    lexer reported as an empty Text token: `trim2PinnedToks` is the pinned lexer model's output,
    `pinned_witness_tokens` in HL/Props/C17Lexer.lean)
    a zero-length token sat on the CR.  Repaired: the payee token starts at its first letter, no
    empty token — on the pinned lexer's stream and on the current one. -/
theorem pinned_text_trimmed_position_counterexample :
    (Pinned.tokenizeSrc Classes.ascii W.trimToks).any (fun st =>
      devTextTrim W.trimText st.2 && !coversTok W.trimText st.2 (absOf st.1)) = true ∧
    (Pinned.tokenizeSrc Classes.ascii W.trim2PinnedToks).any (fun st =>
      devTextTrim W.trim2Text st.2 && (absOf st.1).len == 0) = true ∧
    allCover W.trimText W.trimToks = true ∧ allCover W.trim2Text W.trim2PinnedToks = true ∧
    allCover W.trim2Text W.trim2Toks = true := by decide +kernel

/-- After `😀` the lexer's column is one less than the UTF-16 column; the repaired tokenizer
    counts UTF-16 units itself. -/
theorem pinned_nonbmp_column_counterexample :
    (Pinned.tokenizeSrc Classes.ascii W.nonbmpToks).any (fun st =>
      devNonBmpBefore W.nonbmpText (lexemeRange W.nonbmpText st.2).1 &&
      !coversTok W.nonbmpText st.2 (absOf st.1)) = true ∧
    allCover W.nonbmpText W.nonbmpToks = true := by decide +kernel

/-- `; é, tag:value`: the pinned tag tokens were placed by byte offsets; both missed their text
    and the value token left the line. -/
theorem pinned_tag_byte_offsets_counterexample :
    (Pinned.tokenizeSrc Classes.ascii W.tagbToks).all (fun st =>
      devTagBytes st.2 (st.1.col.toNat + st.1.len.toNat - st.2.pos.col) &&
      !coversTag Classes.ascii W.tagbText st.2 (absOf st.1)) = true ∧
    (Pinned.tokenize Classes.ascii W.tagbToks).any (fun s => !inLine (lineLens16 W.tagbText) (absOf s)) = true ∧
    allCover W.tagbText W.tagbToks = true := by decide +kernel

/-- `; p q ya:1, a:2`: the part `p q ya:1` was skipped, the tag `a:` was then found inside `ya:`. -/
theorem pinned_tag_search_position_counterexample :
    (Pinned.tokenizeSrc Classes.ascii W.tagsToks).any (fun st =>
      devTagSkippedPart Classes.ascii st.2 &&
      !coversTag Classes.ascii W.tagsText st.2 (absOf st.1)) = true ∧
    allCover W.tagsText W.tagsToks = true := by decide +kernel

end HL.Props.C17
