/-
  C15 "Responses are a function of workspace state (determinism)".

  Model: HL.Model.MapOrder — every Go loop over a map is a fold over an explicit iteration
  order `σ`.  "The runtime may choose any order" = "σ may be any permutation of the entries";
  a map's keys are distinct (`(keys σ).Nodup`).

  * `…_order_independent`  — ∀ maps of any size, ∀ two iteration orders: same result.
       For the sites the pinned tree already gets right (sorted paths, count merges, declared
       sets, template merge by FileOrder, …) and, in full, for the REPAIRED code of every site
       that was order-dependent (repo_patches/fix-determinism-*.diff; for the index's payee
       templates the later upstream rule `restorePayeeTemplate` = smallest path that has one).
  * `…_counterexample`     — the pinned code (`…In`): two orders of one map, two different results.
  * `…_partial`            — the pinned code is order-independent under an explicit guard.
  * `C15_deterministic`         — all modelled responses of the repaired server, jointly.
  * `C15_deterministic_partial` — the same for the pinned server, guard = none of the
                                  order-dependent shapes occurs.

  Partial by nature: Go's actual distribution over iteration orders is not modelled; the
  theorems quantify over ALL orders, which is stronger than any distribution.
-/
import HL.Model.MapOrder
import HL.Lemmas.MapOrder

namespace HL.Props.C15
open HL.MapOrder List

/-! ## 0. "the same maps, iterated in another order" for nested maps -/

/-- the same outer sequence, every inner map iterated in a possibly different order -/
inductive InnerPerm {κ ν : Type} : Entries κ (List ν) → Entries κ (List ν) → Prop
  | nil : InnerPerm [] []
  | cons {k : κ} {l l' : List ν} {σ σ' : Entries κ (List ν)} :
      l.Perm l' → InnerPerm σ σ' → InnerPerm ((k, l) :: σ) ((k, l') :: σ')

/-! ## 1. Sites that are order-independent on the pinned tree -/

/-- `sortedKeys`, `sortedJournalPaths`, hover's commodity list, `CollectPayeeTemplates`' payee and
    pattern lists: keys collected in map order, then `sort.Strings`. -/
theorem sortedKeys_order_independent {l l' : List String} (h : l.Perm l') :
    sortStrings l = sortStrings l' := sortStrings_perm h

/-- references / definition: the journals map is visited through `sortedJournalPaths`. -/
theorem sortedPaths_visit_order_independent {ν β : Type} {σ σ' : Entries String ν}
    (h : σ.Perm σ') (nd : (keys σ).Nodup) (f : String × ν → List β) :
    visitSorted σ f = visitSorted σ' f := by
  unfold visitSorted; rw [sortedEntries_perm h nd]

/-- counts merges (`counts[k] += v`): independent of the order of `resolved.Files` and of the
    order of the primary file's count map … -/
theorem mergeCounts_order_independent {p p' : Entries String Nat} {σ σ' : Entries String (Entries String Nat)}
    (hp : p.Perm p') (h : σ.Perm σ') : mergeCounts p σ = mergeCounts p' σ' := by
  unfold mergeCounts
  rw [foldl_bump_perm hp]
  exact h.foldl_eq' (fun x _ y _ z => foldl_bump_comm x.2 y.2 z) _

/-- … and of the order in which every per-file count map is iterated. -/
theorem mergeCounts_inner_order_independent {p : Entries String Nat} {σ σ' : Entries String (Entries String Nat)}
    (h : InnerPerm σ σ') : mergeCounts p σ = mergeCounts p σ' := by
  unfold mergeCounts
  generalize p.foldl bump (fun _ => 0) = m
  induction h generalizing m with
  | nil => rfl
  | cons hl _ ih => simp only [foldl_cons]; rw [foldl_bump_perm hl]; exact ih _

/-- declared-account / declared-commodity sets (`declared[k] = true`). -/
theorem declaredSet_order_independent {p p' : List String} {σ σ' : Entries String (List String)}
    (hp : p.Perm p') (h : σ.Perm σ') : markAll p σ = markAll p' σ' := by
  unfold markAll
  rw [foldl_mark_perm hp]
  exact h.foldl_eq' (fun x _ y _ z => foldl_mark_comm x.2 y.2 z) _

theorem declaredSet_inner_order_independent {p : List String} {σ σ' : Entries String (List String)}
    (h : InnerPerm σ σ') : markAll p σ = markAll p σ' := by
  unfold markAll
  generalize p.foldl mark (fun _ => false) = m
  induction h generalizing m with
  | nil => rfl
  | cons hl _ ih => simp only [foldl_cons]; rw [foldl_mark_perm hl]; exact ih _

/-- `isAccountDeclared` ranges over the declared set and returns at the first hit: an
    existential, so the order is irrelevant. -/
theorem isAccountDeclared_order_independent {σ σ' : List String} (h : σ.Perm σ') (name : String) :
    declaredByPrefix σ name = declaredByPrefix σ' name := h.any_eq

/-- `mergeTemplates`' inner loop over one file's template map (distinct payees). -/
theorem mergeTemplates_order_independent {τ : Type} {σ σ' : Entries String τ} (h : σ.Perm σ')
    (nd : (keys σ).Nodup) (m : String → Option τ) : mergeTemplates m σ = mergeTemplates m σ' :=
  mergeTemplates_perm h nd m

/-- `collectPayeeTemplatesFromResolved` (inline-completion templates): the files come in
    `FileOrder`, a slice; only the per-file maps are iterated in map order. -/
theorem templatesFromResolved_order_independent {τ : Type}
    {order order' : Entries Unit (Entries String τ)} {primary primary' : Entries String τ}
    (h : InnerPerm order order') (nd : ∀ f ∈ order, (keys f.2).Nodup)
    (hp : primary.Perm primary') (ndp : (keys primary).Nodup) :
    templatesFromResolved (order.map (·.2)) primary = templatesFromResolved (order'.map (·.2)) primary' := by
  unfold templatesFromResolved
  rw [mergeTemplates_perm hp ndp]
  congr 1
  generalize (fun _ => none : String → Option τ) = m
  induction h generalizing m with
  | nil => rfl
  | cons hl _ ih =>
    simp only [map_cons, foldl_cons]
    rw [mergeTemplates_perm hl (nd _ mem_cons_self)]
    exact ih (fun f hf => nd f (mem_cons_of_mem _ hf)) _

/-! ## 2. The repaired code: order-independent in full -/

/-- fix-determinism-balance-message: the unbalanced-transaction message. -/
theorem balanceMessage_order_independent {σ σ' : Entries String String} (h : σ.Perm σ')
    (nd : (keys σ).Nodup) : balanceMessage σ = balanceMessage σ' := by
  unfold balanceMessage; rw [sortedEntries_perm h nd]

/-- fix-determinism-collectors: accounts, payees, commodities, tags, tag values, dates. -/
theorem collectFromResolved_order_independent {σ σ' : Entries String (List String)} (h : σ.Perm σ')
    (nd : (keys σ).Nodup) (primary : List String) :
    collectFromResolved primary σ = collectFromResolved primary σ' := by
  unfold collectFromResolved; rw [sortedEntries_perm h nd]

/-- Payee templates of the workspace index (upstream `restorePayeeTemplate`, which superseded
    fix-determinism-workspace-index for this map): the smallest-path choice is the same for every
    order in which `idx.fileIndexes` — root file included — is ranged over.  Paths are non-empty
    (`SetFileIndex` refuses ""). -/
theorem indexTemplates_order_independent {τ : Type} {σ σ' : Entries String (Entries String τ)}
    (h : σ.Perm σ') (nd : (keys σ).Nodup) (ne : ∀ f ∈ σ, f.1 ≠ "") :
    indexTemplates σ = indexTemplates σ' := by
  funext payee
  unfold indexTemplates
  simp only [bestPath_perm h ne payee, lookup_perm h nd]

/-- … and the per-key transaction lists of the index. -/
theorem indexTxFiles_order_independent {σ σ' : Entries String (List String)} (h : σ.Perm σ')
    (nd : (keys σ).Nodup) (root : String × List String) (key : String) :
    indexTxFiles root σ key = indexTxFiles root σ' key := by
  unfold indexTxFiles; rw [sortedEntries_perm h nd]

/-- fix-determinism-workspace-symbol. -/
theorem wsSymbols_order_independent {τ : Type} {σ σ' : Entries String (List τ)} (h : σ.Perm σ')
    (nd : (keys σ).Nodup) : wsSymbols σ = wsSymbols σ' := by
  unfold wsSymbols; rw [sortedEntries_perm h nd]

/-- fix-determinism-workspace-fileorder: `FileOrder` after `addMissingReachableLocked` … -/
theorem addMissing_order_independent {m m' : List String} (h : m.Perm m') (fileOrder : List String) :
    addMissing fileOrder m = addMissing fileOrder m' := by
  unfold addMissing; rw [sortStrings_perm h]

/-- … and the payee templates served afterwards. -/
theorem templatesAfterAdd_order_independent {τ : Type} {σ σ' : Entries String (Entries String τ)}
    (h : σ.Perm σ') (nd : (keys σ).Nodup) (kept : Entries String (Entries String τ)) (primary : Entries String τ) :
    templatesAfterAdd kept σ primary = templatesAfterAdd kept σ' primary := by
  unfold templatesAfterAdd; rw [sortedEntries_perm h nd]

/-- fix-determinism-completion-rank + fix-determinism-collectors: the completion list, order
    included, for every score and count function and every `MaxResults`. -/
theorem completion_order_independent {σ σ' : Entries String (List String)} (h : σ.Perm σ')
    (nd : (keys σ).Nodup) (primary : List String) (score count : String → Nat) (max : Nat) :
    completionLabels (collectFromResolved primary σ) score count max
      = completionLabels (collectFromResolved primary σ') score count max := by
  rw [collectFromResolved_order_independent h nd]

private theorem minStep_comm (z x y : String) :
    (fun best p => if p != "" && (best == "" || decide (p < best)) then p else best)
        ((fun best p => if p != "" && (best == "" || decide (p < best)) then p else best) z x) y
      = (fun best p => if p != "" && (best == "" || decide (p < best)) then p else best)
        ((fun best p => if p != "" && (best == "" || decide (p < best)) then p else best) z y) x := by
  simp only [bne_iff_ne, ne_eq, beq_iff_eq, Bool.and_eq_true, Bool.or_eq_true, decide_eq_true_eq]
  have := @String.lt_irrefl
  grind [String.lt_trans, String.le_antisymm, String.not_lt, String.le_total, String.lt_asymm]

/-- fix-determinism-execute-command: the document `hledger.run` is applied to. -/
theorem minPath_order_independent {σ σ' : List String} (h : σ.Perm σ') : minPath σ = minPath σ' := by
  unfold minPath
  exact h.foldl_eq' (fun x _ y _ z => minStep_comm z x y) _

/-! ## 3. The pinned code: counterexamples (two orders of one map, two results) -/

theorem balanceMessageIn_counterexample :
    ∃ σ σ' : Entries String String, σ.Perm σ' ∧ (keys σ).Nodup ∧ balanceMessageIn σ ≠ balanceMessageIn σ' :=
  ⟨[("EUR", "5"), ("USD", "10")], [("USD", "10"), ("EUR", "5")], Perm.swap _ _ _, by decide, by decide⟩

/-- what the two spellings are -/
example : balanceMessageIn [("EUR", "5"), ("USD", "10")] = "transaction does not balance: EUR off by 5; USD off by 10" := by decide
example : balanceMessageIn [("USD", "10"), ("EUR", "5")] = "transaction does not balance: USD off by 10; EUR off by 5" := by decide

theorem collectFromResolvedIn_counterexample :
    ∃ σ σ' : Entries String (List String), σ.Perm σ' ∧ (keys σ).Nodup ∧
      collectFromResolvedIn ["Rent"] σ ≠ collectFromResolvedIn ["Rent"] σ' :=
  ⟨[("a.journal", ["Cafe", "Rent"]), ("b.journal", ["Grocer", "Cafe"])],
   [("b.journal", ["Grocer", "Cafe"]), ("a.journal", ["Cafe", "Rent"])], Perm.swap _ _ _, by decide, by decide⟩

example : collectFromResolvedIn ["Rent"] [("a.journal", ["Cafe", "Rent"]), ("b.journal", ["Grocer", "Cafe"])]
    = ["Rent", "Cafe", "Grocer"] := by decide
example : collectFromResolvedIn ["Rent"] [("b.journal", ["Grocer", "Cafe"]), ("a.journal", ["Cafe", "Rent"])]
    = ["Rent", "Grocer", "Cafe"] := by decide

theorem wsSymbolsIn_counterexample :
    ∃ σ σ' : Entries String (List String), σ.Perm σ' ∧ (keys σ).Nodup ∧ wsSymbolsIn σ ≠ wsSymbolsIn σ' :=
  ⟨[("file:///w/a.journal", ["assets:bank"]), ("file:///w/b.journal", ["Grocer"])],
   [("file:///w/b.journal", ["Grocer"]), ("file:///w/a.journal", ["assets:bank"])], Perm.swap _ _ _, by decide, by decide⟩

/-- "last file added wins": two included files with a template for the same payee. -/
theorem indexTemplatesIn_counterexample :
    ∃ σ σ' : Entries String (Entries String String), σ.Perm σ' ∧ (keys σ).Nodup ∧
      indexTemplatesIn [] σ "Grocer" ≠ indexTemplatesIn [] σ' "Grocer" :=
  ⟨[("a.journal", [("Grocer", "expenses:food 10 USD")]), ("b.journal", [("Grocer", "expenses:fun 3 EUR")])],
   [("b.journal", [("Grocer", "expenses:fun 3 EUR")]), ("a.journal", [("Grocer", "expenses:food 10 USD")])],
   Perm.swap _ _ _, by decide, by decide⟩

theorem indexTxFilesIn_counterexample :
    ∃ σ σ' : Entries String (List String), σ.Perm σ' ∧ (keys σ).Nodup ∧
      indexTxFilesIn ("main.journal", []) σ "k" ≠ indexTxFilesIn ("main.journal", []) σ' "k" :=
  ⟨[("a.journal", ["k"]), ("b.journal", ["k"])], [("b.journal", ["k"]), ("a.journal", ["k"])],
   Perm.swap _ _ _, by decide, by decide⟩

theorem addMissingIn_counterexample :
    ∃ m m' : List String, m.Perm m' ∧ m.Nodup ∧ addMissingIn ["a.journal"] m ≠ addMissingIn ["a.journal"] m' :=
  ⟨["b.journal", "c.journal"], ["c.journal", "b.journal"], Perm.swap _ _ _, by decide, by decide⟩

/-- the server-visible consequence: the inline-completion template of a payee both added files know -/
theorem templatesAfterAddIn_counterexample :
    ∃ σ σ' : Entries String (Entries String String), σ.Perm σ' ∧ (keys σ).Nodup ∧
      templatesAfterAddIn [] σ [] "Grocer" ≠ templatesAfterAddIn [] σ' [] "Grocer" :=
  ⟨[("a.journal", [("Grocer", "expenses:food 10 USD")]), ("b.journal", [("Grocer", "expenses:fun 3 EUR")])],
   [("b.journal", [("Grocer", "expenses:fun 3 EUR")]), ("a.journal", [("Grocer", "expenses:food 10 USD")])],
   Perm.swap _ _ _, by decide, by decide⟩

theorem firstWithPath_counterexample :
    ∃ σ σ' : List String, σ.Perm σ' ∧ σ.Nodup ∧ firstWithPath σ ≠ firstWithPath σ' :=
  ⟨["/w/a.journal", "/w/b.journal"], ["/w/b.journal", "/w/a.journal"], Perm.swap _ _ _, by decide, by decide⟩

/-- `sort.Slice` promises a sorted permutation and nothing more: with a tie in (score, count)
    there are two different rankings of the same items. -/
theorem ranking_counterexample :
    ∃ items o o' : List Scored, IsRanking items o ∧ IsRanking items o' ∧ o ≠ o' :=
  ⟨[⟨"Cafe", 1000, 1⟩, ⟨"Grocer", 1000, 1⟩], [⟨"Cafe", 1000, 1⟩, ⟨"Grocer", 1000, 1⟩],
   [⟨"Grocer", 1000, 1⟩, ⟨"Cafe", 1000, 1⟩],
   ⟨Perm.refl _, by decide⟩, ⟨Perm.swap _ _ _, by decide⟩, by decide⟩

/-! ## 4. The pinned code under guards -/

/-- no ties in (score, count) among the candidates -/
def NoTies (items : List Scored) : Prop :=
  ∀ a ∈ items, ∀ b ∈ items, a.score = b.score → a.count = b.count → a = b

instance (items : List Scored) : Decidable (NoTies items) := by unfold NoTies; infer_instance

private theorem rankLe_trans (a b c : Scored) : rankLe a b = true → rankLe b c = true → rankLe a c = true := by
  simp only [rankLe, Bool.or_eq_true, decide_eq_true_eq, Bool.and_eq_true, beq_iff_eq]; omega

private theorem rankLe_total (a b : Scored) : (rankLe a b || rankLe b a) = true := by
  simp only [rankLe, Bool.or_eq_true, decide_eq_true_eq, Bool.and_eq_true, beq_iff_eq]; omega

private theorem rankLe_antisymm {a b : Scored} : rankLe a b = true → rankLe b a = true →
    a.score = b.score ∧ a.count = b.count := by
  simp only [rankLe, Bool.or_eq_true, decide_eq_true_eq, Bool.and_eq_true, beq_iff_eq]; omega

/-- Without ties every correct sort — stable or not — returns the same ranking, whatever order
    the candidates arrive in. -/
theorem ranking_unique_partial {items items' o o' : List Scored} (nt : NoTies items)
    (hp : items.Perm items') (h : IsRanking items o) (h' : IsRanking items' o') : o = o' := by
  apply Perm.eq_of_pairwise (le := fun a b => rankLe a b = true)
  · intro a b ha hb hab hba
    have ha' : a ∈ items := h.1.mem_iff.mp ha
    have hb' : b ∈ items := hp.mem_iff.mpr (h'.1.mem_iff.mp hb)
    have := rankLe_antisymm hab hba
    exact nt a ha' b hb' this.1 this.2
  · exact h.2
  · exact h'.2
  · exact h.1.trans (hp.trans h'.1.symm)

/-- The stable sort is one of the rankings `sort.Slice` may return. -/
theorem rankStable_isRanking (items : List Scored) : IsRanking items (rankStable items) :=
  ⟨mergeSort_perm _ _, pairwise_mergeSort rankLe_trans rankLe_total items⟩

example : NoTies [⟨"Cafe", 1000, 3⟩, ⟨"Grocer", 1000, 1⟩, ⟨"Rent", 35, 1⟩] := by decide

/-- A map with at most one entry has one iteration order: every `…In` function is then trivially
    order-independent (≤ 1 residual commodity, ≤ 1 included file, ≤ 1 open document, ≤ 1 file
    to add). -/
theorem single_entry_partial {α β : Type} (f : List α → β) {σ σ' : List α} (hl : σ.length ≤ 1)
    (h : σ.Perm σ') : f σ = f σ' := by rw [perm_eq_of_length_le_one h hl]

theorem balanceMessageIn_partial {σ σ' : Entries String String} (hl : σ.length ≤ 1) (h : σ.Perm σ') :
    balanceMessageIn σ = balanceMessageIn σ' := single_entry_partial _ hl h

example : ([("USD", "10")] : Entries String String).length ≤ 1 := by decide

/-- no two included files provide a template for the same payee -/
def NoSharedPayee {τ : Type} (σ : Entries String (Entries String τ)) : Prop :=
  ∀ f ∈ σ, ∀ g ∈ σ, f = g ∨ ∀ k ∈ keys f.2, k ∉ keys g.2

theorem indexTemplatesIn_partial {τ : Type} {σ σ' : Entries String (Entries String τ)}
    (wf : ∀ f ∈ σ, (keys f.2).Nodup) (ns : NoSharedPayee σ) (h : σ.Perm σ') (root : Entries String τ) :
    indexTemplatesIn root σ = indexTemplatesIn root σ' := by
  unfold indexTemplatesIn
  refine h.foldl_eq' (fun x hx y hy z => ?_) _
  rcases ns x hx y hy with rfl | hd
  · rfl
  · rw [mergeTemplates_append, mergeTemplates_append]
    unfold mergeTemplates
    refine (perm_append_comm (l₁ := x.2) (l₂ := y.2)).foldl_eq' (fun a ha b hb m => putTemplate_comm m ?_) z
    by_cases hab : a.1 = b.1
    · left
      rcases mem_append.mp ha with ha | ha <;> rcases mem_append.mp hb with hb | hb
      · exact eq_of_fst_eq (wf x hx) ha hb hab
      · exact absurd (mem_map_of_mem (f := (·.1)) hb) (hab ▸ hd a.1 (mem_map_of_mem (f := (·.1)) ha))
      · exact absurd (mem_map_of_mem (f := (·.1)) ha) (hab ▸ hd b.1 (mem_map_of_mem (f := (·.1)) hb))
      · exact eq_of_fst_eq (wf y hy) ha hb hab
    · exact Or.inr hab

example : NoSharedPayee [("a.journal", [("Grocer", "t1")]), ("b.journal", [("Cafe", "t2"), ("Rent", "t3")])] := by
  intro f hf g hg
  simp only [mem_cons, not_mem_nil, or_false] at hf hg
  rcases hf with rfl | rfl <;> rcases hg with rfl | rfl <;> simp [keys]

/-- at most one open document has a file path -/
theorem firstWithPath_partial {σ σ' : List String} (hl : (σ.filter (· != "")).length ≤ 1) (h : σ.Perm σ') :
    firstWithPath σ = firstWithPath σ' := by
  unfold firstWithPath
  rw [← head?_filter, ← head?_filter, perm_eq_of_length_le_one (h.filter _) hl]

example : ((["", "/w/a.journal", ""] : List String).filter (· != "")).length ≤ 1 := by decide

/-! ## 4b. The correspondence enumerates ALL orders -/

/-- `perms σ` (what the driver runs the pinned model on) contains every iteration order of `σ`:
    the driver's model-set is the set of outputs over all orders the theorems quantify over. -/
theorem perms_complete {α : Type} {σ σ' : List α} (h : σ'.Perm σ) : σ' ∈ perms σ := mem_perms_of_perm h

/-- hence every output of a pinned `…In` function for some order is in the enumerated set -/
theorem model_set_complete {α β : Type} (f : List α → β) {σ σ' : List α} (h : σ'.Perm σ) :
    f σ' ∈ (perms σ).map f := mem_map_of_mem (perms_complete h)

/-! ## 5. All modelled responses together -/

/-- What the modelled responses read, every Go map as its entries in SOME iteration order.
    `τ` = posting templates, `ς` = symbol records (both opaque to the property). -/
structure World (τ ς : Type) where
  /-- one `Differences` map per unbalanced transaction of the document, in document order -/
  residuals : List (Entries String String)
  /-- collector result (accounts / payees / … ) of the primary file -/
  primaryNames : List String
  /-- `resolved.Files`, each journal with its collector result -/
  fileNames : Entries String (List String)
  primaryCounts : Entries String Nat
  fileCounts : Entries String (Entries String Nat)
  rootTemplates : Entries String τ
  /-- `resolved.Files`, each journal with its `CollectPayeeTemplates` map -/
  fileTemplates : Entries String (Entries String τ)
  /-- the open documents with their symbols -/
  docs : Entries String (List ς)
  /-- the paths of the open documents ("" = the URI has no file path) -/
  docPaths : List String
  /-- `FileOrder` before files are added, the files to add with their template maps -/
  keptFiles : Entries String (Entries String τ)
  missingFiles : Entries String (Entries String τ)
  /-- the path of the root journal (its key in the workspace index) -/
  rootName : String

/-- every map has distinct keys -/
structure World.WF {τ ς : Type} (w : World τ ς) : Prop where
  residuals : ∀ r ∈ w.residuals, (keys r).Nodup
  fileNames : (keys w.fileNames).Nodup
  fileTemplates : (keys w.fileTemplates).Nodup
  /-- the workspace index is a map keyed by non-empty paths, the root's among them -/
  rootName : w.rootName ∉ keys w.fileTemplates ∧ w.rootName ≠ "" ∧ ∀ f ∈ w.fileTemplates, f.1 ≠ ""
  docs : (keys w.docs).Nodup
  missingFiles : (keys w.missingFiles).Nodup

/-- the same workspace state, the maps delivered in other orders -/
structure World.Reordered {τ ς : Type} (w w' : World τ ς) : Prop where
  residuals : w.residuals.length = w'.residuals.length ∧
    ∀ i (h : i < w.residuals.length) (h' : i < w'.residuals.length), (w.residuals[i]).Perm (w'.residuals[i])
  primaryNames : w.primaryNames = w'.primaryNames
  fileNames : w.fileNames.Perm w'.fileNames
  primaryCounts : w.primaryCounts.Perm w'.primaryCounts
  fileCounts : w.fileCounts.Perm w'.fileCounts
  rootTemplates : w.rootTemplates = w'.rootTemplates
  fileTemplates : w.fileTemplates.Perm w'.fileTemplates
  docs : w.docs.Perm w'.docs
  docPaths : w.docPaths.Perm w'.docPaths
  keptFiles : w.keptFiles = w'.keptFiles
  missingFiles : w.missingFiles.Perm w'.missingFiles
  rootName : w.rootName = w'.rootName

/-- The modelled responses: unbalanced-transaction messages, collector lists, completion labels
    (for given scores and `MaxResults`), counts, workspace symbols, index templates, `FileOrder`
    and templates after adding files, the document of `hledger.run`. -/
structure Responses (τ ς : Type) where
  messages : List String
  names : List String
  completion : List String
  counts : String → Nat
  symbols : List ς
  indexTemplates : String → Option τ
  fileOrder : List String
  templates : String → Option τ
  runDocument : String

/-- the repaired server -/
def respond {τ ς : Type} (w : World τ ς) (score : String → Nat) (max : Nat) : Responses τ ς where
  messages := w.residuals.map balanceMessage
  names := collectFromResolved w.primaryNames w.fileNames
  completion := completionLabels (collectFromResolved w.primaryNames w.fileNames) score
    (mergeCounts w.primaryCounts w.fileCounts) max
  counts := mergeCounts w.primaryCounts w.fileCounts
  symbols := wsSymbols w.docs
  indexTemplates := HL.MapOrder.indexTemplates ((w.rootName, w.rootTemplates) :: w.fileTemplates)
  fileOrder := addMissing (keys w.keptFiles) (keys w.missingFiles)
  templates := templatesAfterAdd w.keptFiles w.missingFiles w.rootTemplates
  runDocument := minPath w.docPaths

/-- the pinned server, except for the completion ranking, which is a relation (see
    `C15_completion_partial`) -/
def respondIn {τ ς : Type} (w : World τ ς) : Responses τ ς where
  messages := w.residuals.map balanceMessageIn
  names := collectFromResolvedIn w.primaryNames w.fileNames
  completion := []
  counts := mergeCounts w.primaryCounts w.fileCounts
  symbols := wsSymbolsIn w.docs
  indexTemplates := indexTemplatesIn w.rootTemplates w.fileTemplates
  fileOrder := addMissingIn (keys w.keptFiles) (keys w.missingFiles)
  templates := templatesAfterAddIn w.keptFiles w.missingFiles w.rootTemplates
  runDocument := firstWithPath w.docPaths

private theorem map_congr_perm {α β : Type} (f g : α → β) {l l' : List α} (hlen : l.length = l'.length)
    (h : ∀ i (h : i < l.length) (h' : i < l'.length), f l[i] = g l'[i]) : l.map f = l'.map g := by
  apply ext_getElem (by simp [hlen])
  intro i h₁ h₂
  simp only [length_map] at h₁ h₂
  simp [h i h₁ h₂]

/-- **C15 for the repaired server**: all modelled responses are a function of the workspace
    state — the same for every order in which the runtime iterates the maps. -/
theorem C15_deterministic {τ ς : Type} {w w' : World τ ς} (wf : w.WF) (r : w.Reordered w')
    (score : String → Nat) (max : Nat) : respond w score max = respond w' score max := by
  have hnames := collectFromResolved_order_independent r.fileNames wf.fileNames w.primaryNames
  have hcounts := mergeCounts_order_independent r.primaryCounts r.fileCounts
  unfold respond
  congr 1
  · exact map_congr_perm _ _ r.residuals.1 (fun i h h' =>
      balanceMessage_order_independent (r.residuals.2 i h h') (wf.residuals _ (getElem_mem h)))
  · rw [hnames, r.primaryNames]
  · rw [hnames, r.primaryNames, hcounts]
  · exact wsSymbols_order_independent r.docs wf.docs
  · rw [← r.rootName, ← r.rootTemplates]
    refine indexTemplates_order_independent (r.fileTemplates.cons _) ?_ ?_
    · simp only [keys, map_cons, nodup_cons]; exact ⟨wf.rootName.1, wf.fileTemplates⟩
    · intro f hf
      rcases mem_cons.mp hf with rfl | hf
      · exact wf.rootName.2.1
      · exact wf.rootName.2.2 f hf
  · rw [r.keptFiles]; exact addMissing_order_independent (keys_perm r.missingFiles) _
  · rw [templatesAfterAdd_order_independent r.missingFiles wf.missingFiles, r.keptFiles, r.rootTemplates]
  · exact minPath_order_independent r.docPaths

/-- none of the order-dependent shapes occurs -/
structure World.Guard {τ ς : Type} (w : World τ ς) : Prop where
  /-- ≤ 1 residual commodity per unbalanced transaction -/
  residuals : ∀ r ∈ w.residuals, r.length ≤ 1
  /-- ≤ 1 included file (collector lists, `transactionsByKey`) -/
  fileNames : w.fileNames.length ≤ 1
  /-- no two included files provide a template for the same payee -/
  fileTemplates : NoSharedPayee w.fileTemplates ∧ ∀ f ∈ w.fileTemplates, (keys f.2).Nodup
  /-- ≤ 1 open document (workspace symbols, `hledger.run`) -/
  docs : w.docs.length ≤ 1
  docPaths : (w.docPaths.filter (· != "")).length ≤ 1
  /-- ≤ 1 file added to the include tree at a time -/
  missingFiles : w.missingFiles.length ≤ 1

/-- **C15 for the pinned server, partial**: under the guard all modelled responses are the same
    for every iteration order. -/
theorem C15_deterministic_partial {τ ς : Type} {w w' : World τ ς} (g : w.Guard) (r : w.Reordered w') :
    respondIn w = respondIn w' := by
  unfold respondIn
  congr 1
  · exact map_congr_perm _ _ r.residuals.1 (fun i h h' =>
      balanceMessageIn_partial (g.residuals _ (getElem_mem h)) (r.residuals.2 i h h'))
  · rw [perm_eq_of_length_le_one r.fileNames g.fileNames, r.primaryNames]
  · exact mergeCounts_order_independent r.primaryCounts r.fileCounts
  · rw [perm_eq_of_length_le_one r.docs g.docs]
  · rw [indexTemplatesIn_partial g.fileTemplates.2 g.fileTemplates.1 r.fileTemplates, r.rootTemplates]
  · rw [perm_eq_of_length_le_one r.missingFiles g.missingFiles, r.keptFiles]
  · rw [perm_eq_of_length_le_one r.missingFiles g.missingFiles, r.keptFiles, r.rootTemplates]
  · exact firstWithPath_partial g.docPaths r.docPaths

/-- … and the completion list of the pinned server (`sort.Slice`, collectors in map order): if
    no two candidates tie in (score, count), any two runs return the same labels in the same
    order, whatever the iteration orders and whatever the sort does among equal keys. -/
theorem C15_completion_partial {σ σ' : Entries String (List String)} (primary : List String)
    (score count : String → Nat) (h : σ.Perm σ')
    (nt : NoTies (scoredOf (collectFromResolvedIn primary σ) score count))
    {o o' : List Scored}
    (ho : IsRanking (scoredOf (collectFromResolvedIn primary σ) score count) o)
    (ho' : IsRanking (scoredOf (collectFromResolvedIn primary σ') score count) o') : o = o' := by
  exact ranking_unique_partial nt (((collectFromResolvedIn_perm h primary).filter _).map _) ho ho'

/-- non-vacuity of the guard: a workspace with one included file, one residual commodity, two
    included template maps without a common payee, one open document -/
example : (⟨[[("USD", "10")]], ["Rent"], [("a.journal", ["Cafe"])], [("Rent", 1)], [("a.journal", [("Cafe", 2)])],
    [("Rent", 0)], [("a.journal", [("Cafe", 1)]), ("b.journal", [("Grocer", 2)])],
    [("file:///w/main.journal", [7])], ["/w/main.journal"], [], [("a.journal", [("Cafe", 1)])], "main.journal"⟩ : World Nat Nat).Guard where
  residuals := by decide
  fileNames := by decide
  fileTemplates := by
    refine ⟨?_, by decide⟩
    intro f hf g hg
    simp only [mem_cons, not_mem_nil, or_false] at hf hg
    rcases hf with rfl | rfl <;> rcases hg with rfl | rfl <;> simp [keys]
  docs := by decide
  docPaths := by decide
  missingFiles := by decide

end HL.Props.C15
