import HL.Lemmas.FormatGCore
import HL.Lemmas.ParseGCoreL
import HL.Props.C03Faithful
import HL.Spec.EraseRanges
import HL.Lemmas.MeaningGCore
/-!
  C04 "formatting never changes what the journal says" and C05 "formatting is idempotent,
  aligned" — the composed statements from TEXT to TEXT for the core grammar `GCore`
  (HL/Spec/GCore.lean), for journals of every size, every formatting option the model accepts
  (any indent, alignment on or off, any minimum column) and no commodity formats in scope
  (`formats = none`; a core journal declares none either).

  The pieces:
    * `format_core`           the edits the formatter returns for the text `GCore.print j` and the
                              tree the parser gives for it (`C03_faithful_core`), applied by the
                              reference applier of HL/Spec/EditSpec.lean, produce exactly
                              `GCore.canon o j` (HL/Spec/GCoreLayout.lean): every posting line
                              rebuilt as indent, account, padding, amount as written; every other
                              byte unchanged;
    * `formatRun_core`        the same through `formatRun` = parse, `formatText`, apply;
    * `C04_preserved_core`    the formatted text parses without error to the tree of the original
                              text up to positions (`Erase.journal`: same transactions, dates,
                              descriptions, accounts, quantities digit for digit, commodities);
    * `C04_other_lines_core`  line by line the two texts are equal except for the posting lines;
    * `C05_idempotent_core`   formatting the formatted text again (with the tree of ITS parse)
                              changes nothing;
    * `C05_aligned_core`      with alignment on, every amount of the formatted text starts at the
                              same column, at least two blanks behind the longest account.

  Generality in the layout: the lexer and parser lemmas are proved for `GCore.printL L`, every
  indent ≥ 1 and every gap ≥ 2 (HL/Lemmas/LexGCoreL.lean, ParseGCoreL.lean), so nothing is
  restricted to the options that keep the four-blank/two-blank layout of `GCore.print`.

  The one hypothesis besides well-formedness: the text is shorter than 4 GiB.  LSP positions are
  `uint32` (`protocol.Position`), the model wraps like the code does, and beyond that size an
  edit lands on the wrong line — the same bound `TreeFits` carries in HL/Props/C05.lean.
-/
namespace HL.Props.C04
open HL HL.GCore HL.Fmt HL.EditSpec

/-- What `Server.Format` computes for a document (model): parse the text, format it with the
    lines of the parse errors skipped and no workspace formats, apply the edits. -/
def formatRun (o : Options) (doc : Bytes) : Option Bytes :=
  let r := HL.Pipeline.parseText Classes.go doc
  applyEdits doc (formatText r.1 r.2 doc none o)

/-! ### `GCore.print` is `printL` under the standard layout -/

theorem printPostingsL_std (ps : List GCore.Posting) : printPostingsL Layout.std ps = printPostings ps := by
  induction ps with
  | nil => rfl
  | cons p ps ih =>
    simp only [printPostingsL, printPostings, ih]
    rfl

theorem Tx.printL_std (t : GCore.Tx) : t.printL Layout.std = t.print := by
  simp only [Tx.printL, Tx.print, printPostingsL_std]

theorem printL_std (j : GCore.Journal) : printL Layout.std j = GCore.print j := by
  induction j with
  | nil => rfl
  | cons t ts ih =>
    cases ts with
    | nil => simp only [printL, GCore.print, Tx.printL_std]
    | cons t2 ts => simp only [printL, GCore.print, Tx.printL_std, ih]

theorem Posting.printL_std (p : GCore.Posting) : p.printL Layout.std = p.print := rfl

theorem Posting.expectedL_std (p : GCore.Posting) (ln o : Nat) : p.expectedL Layout.std ln o = p.expected ln o := by
  simp only [Posting.expectedL, Posting.expected, Layout.std]
  congr 1
  rw [show 1 + (4 + p.acct.length + 2) = 5 + p.acct.length + 2 by omega,
    show o + (4 + p.acct.length + 2) = o + 4 + p.acct.length + 2 by omega]

theorem expectedPostingsL_std (ps : List GCore.Posting) :
    ∀ ln o, expectedPostingsL Layout.std ps ln o = expectedPostings ps ln o := by
  induction ps with
  | nil => intro _ _; rfl
  | cons p ps ih => intro ln o; simp only [expectedPostingsL, expectedPostings, Posting.expectedL_std, Posting.printL_std, ih]

theorem expectedTxsL_std (j : GCore.Journal) : ∀ ln o, expectedTxsL Layout.std j ln o = expectedTxs j ln o := by
  induction j with
  | nil => intro _ _; rfl
  | cons t ts ih =>
    intro ln o
    simp only [expectedTxsL, expectedTxs, Tx.expectedL, Tx.expected, expectedPostingsL_std, Tx.printL_std, ih]

theorem expectedL_std (j : GCore.Journal) : expectedL Layout.std j = GCore.expected j := by
  simp only [expectedL, GCore.expected, expectedTxsL_std]

/-! ### the parser on every layout -/

/-- **C03 for the core grammar under every layout**: any indent ≥ 1, any gap ≥ 2 in front of
    each amount. -/
theorem parse_printL (L : Layout) (hL : L.ok) (j : GCore.Journal) (h : GCore.WF j = true) :
    HL.Pipeline.parseText Classes.go (printL L j) = (expectedL L j, []) := by
  unfold HL.Pipeline.parseText
  rw [lexAll_printL Classes.go HL.Props.C03.classesOk_go L hL j h]
  exact parseTokens_toksL _ L j h

theorem canonLayout_ok (o : Options) (j : GCore.Journal) : (canonLayout o j).ok := by
  constructor
  · show 1 ≤ canonIndent o
    unfold canonIndent
    split <;> omega
  · intro p
    show 2 ≤ (if o.alignAmounts then max (canonCol o j - (canonIndent o + p.acct.length)) 2 else 2)
    split <;> omega

/-! ### the formatter's output, characterised -/

/-- **The formatter on a core journal.**  For every well-formed core journal `j` and every
    options value: the edits `formatDocument` returns for the text `GCore.print j` and its tree
    (`GCore.expected j` — by `C03_faithful_core` the tree the parser returns for that text; no
    parse errors, so nothing is skipped), applied to that text, give `GCore.canon o j`. -/
theorem format_core (o : Options) (j : GCore.Journal) (h : GCore.WF j = true)
    (hsize : (GCore.print j).length < 4294967296) :
    applyEdits (GCore.print j) (formatDocument (GCore.expected j) (GCore.print j) none o []) =
      some (GCore.canon o j) := by
  have := format_printL Layout.std o j h (by rw [printL_std]; exact hsize)
  rw [printL_std, expectedL_std] at this
  exact this

/-- `format_core` for a text in any layout of the family (the formatter's own output included). -/
theorem format_coreL (L : Layout) (o : Options) (j : GCore.Journal) (h : GCore.WF j = true)
    (hsize : (printL L j).length < 4294967296) :
    applyEdits (printL L j) (formatDocument (expectedL L j) (printL L j) none o []) = some (GCore.canon o j) :=
  format_printL L o j h hsize

/-- Parse, format, apply — on a text of the layout family. -/
theorem formatRun_printL (L : Layout) (hL : L.ok) (o : Options) (j : GCore.Journal) (h : GCore.WF j = true)
    (hsize : (printL L j).length < 4294967296) :
    formatRun o (printL L j) = some (GCore.canon o j) := by
  unfold formatRun formatText
  rw [parse_printL L hL j h]
  exact format_printL L o j h hsize

/-- **From the text the user has to the text the user gets**: parse `GCore.print j` (model of
    `parser.Parse`), format (model of `server.formatText`), apply the edits (reference applier) —
    the result is `GCore.canon o j`. -/
theorem formatRun_core (o : Options) (j : GCore.Journal) (h : GCore.WF j = true)
    (hsize : (GCore.print j).length < 4294967296) :
    formatRun o (GCore.print j) = some (GCore.canon o j) := by
  have := formatRun_printL Layout.std ⟨by decide, fun _ => Nat.le_refl 2⟩ o j h (by rw [printL_std]; exact hsize)
  rwa [printL_std] at this

/-! ### C04: the formatted text says what the original said -/

/-- the tree of a posting without positions -/
def plainPosting (p : GCore.Posting) : Ast.Posting :=
  { status := .none
    account := ⟨p.acct, Rng.zero⟩
    amount := p.amount.map fun a =>
      { quantity := a.quantity
        raw := a.signText ++ a.numText
        commodity := match a.com with
          | none => ⟨[], .left, Rng.zero⟩
          | some w => ⟨w, .right, Rng.zero⟩
        signBeforeCommodity := false
        range := Rng.zero }
    assertion := none, cost := none, comment := [], tags := [], virt := .none, range := Rng.zero }

theorem erase_amount (a : GCore.Amount) (ln c o : Nat) :
    Erase.amount (a.expected ln c o) =
      { quantity := a.quantity
        raw := a.signText ++ a.numText
        commodity := match a.com with
          | none => ⟨[], .left, Rng.zero⟩
          | some w => ⟨w, .right, Rng.zero⟩
        signBeforeCommodity := false
        range := Rng.zero } := by
  cases hc : a.com <;> simp [Erase.amount, Erase.commodity, Amount.expected, hc]

theorem erase_postingL (L : Layout) (p : GCore.Posting) (ln o : Nat) :
    Erase.posting (p.expectedL L ln o) = plainPosting p := by
  cases ha : p.amount <;>
    simp [Erase.posting, Erase.account, Posting.expectedL, plainPosting, ha, erase_amount]

theorem erase_postingsL (L : Layout) (ps : List GCore.Posting) :
    ∀ ln o, (expectedPostingsL L ps ln o).map Erase.posting = ps.map plainPosting := by
  induction ps with
  | nil => intro _ _; rfl
  | cons p ps ih => intro ln o; simp only [expectedPostingsL, List.map_cons, erase_postingL, ih]

theorem erase_txsL (L L' : Layout) (j : GCore.Journal) :
    ∀ ln o ln' o', (expectedTxsL L j ln o).map Erase.transaction = (expectedTxsL L' j ln' o').map Erase.transaction := by
  induction j with
  | nil => intro _ _ _ _; rfl
  | cons t ts ih =>
    intro ln o ln' o'
    simp only [expectedTxsL, List.map_cons]
    rw [ih _ _ (ln' + t.postings.length + 2) (o' + (t.printL L').length + 1)]
    congr 1
    simp only [Erase.transaction, Tx.expectedL, erase_postingsL, Erase.date, Option.map_none, List.map_nil]

/-- The trees of one journal under two layouts differ in positions only. -/
theorem erase_expectedL (L L' : Layout) (j : GCore.Journal) :
    Erase.journal (expectedL L j) = Erase.journal (expectedL L' j) := by
  simp only [Erase.journal, expectedL, List.map_nil, erase_txsL L L' j 1 0 1 0]

/-- **C04 for the core grammar.**  For every well-formed core journal and every options value
    the formatted text `GCore.canon o j`
      * parses (model of `parser.Parse`) without a single error,
      * to exactly the tree of that journal under the formatter's layout (every position
        included), and
      * that tree equals the tree of the original text up to positions: same transactions in the
        same order, same dates and descriptions, same postings with the same accounts, the same
        quantities (coefficient and exponent) and raw spellings, the same commodities.
    No guard on the options: every indent and every alignment column is covered. -/
theorem C04_preserved_core (o : Options) (j : GCore.Journal) (h : GCore.WF j = true) :
    HL.Pipeline.parseText Classes.go (GCore.canon o j) = (expectedL (canonLayout o j) j, []) ∧
    Erase.journal (HL.Pipeline.parseText Classes.go (GCore.canon o j)).1 =
      Erase.journal (HL.Pipeline.parseText Classes.go (GCore.print j)).1 ∧
    (HL.Pipeline.parseText Classes.go (GCore.canon o j)).2 = [] := by
  have h1 := parse_printL (canonLayout o j) (canonLayout_ok o j) j h
  refine ⟨h1, ?_, ?_⟩
  · show Erase.journal (HL.Pipeline.parseText Classes.go (printL (canonLayout o j) j)).1 = _
    rw [h1, HL.Props.C03.C03_faithful_core j h, ← expectedL_std]
    exact erase_expectedL _ _ j
  · show (HL.Pipeline.parseText Classes.go (printL (canonLayout o j) j)).2 = []
    rw [h1]

/-- … and in the terms of the C04 oracle (`HL.Meaning.journalEqv`, the comparison applied to the
    trees the real parser returns before and after formatting; `errsEqv` on the error lists). -/
theorem C04_meaning_core (o : Options) (j : GCore.Journal) (h : GCore.WF j = true) :
    Meaning.journalEqv (HL.Pipeline.parseText Classes.go (GCore.print j)).1
      (HL.Pipeline.parseText Classes.go (GCore.canon o j)).1 = true ∧
    Meaning.errsEqv (HL.Pipeline.parseText Classes.go (GCore.print j)).2
      (HL.Pipeline.parseText Classes.go (GCore.canon o j)).2 = true := by
  rw [(C04_preserved_core o j h).1, HL.Props.C03.C03_faithful_core j h, ← expectedL_std]
  exact ⟨journalEqv_expectedL _ _ j, rfl⟩

/-- C04 end to end: what `formatRun` returns for the text of a core journal says what the
    original text said. -/
theorem C04_formatRun_preserved_core (o : Options) (j : GCore.Journal) (h : GCore.WF j = true)
    (hsize : (GCore.print j).length < 4294967296) :
    ∃ d', formatRun o (GCore.print j) = some d' ∧
      (HL.Pipeline.parseText Classes.go d').2 = [] ∧
      Erase.journal (HL.Pipeline.parseText Classes.go d').1 =
        Erase.journal (HL.Pipeline.parseText Classes.go (GCore.print j)).1 :=
  ⟨GCore.canon o j, formatRun_core o j h hsize, (C04_preserved_core o j h).2.2, (C04_preserved_core o j h).2.1⟩

/-- **C04, the lines that are not posting lines.**  The original and the formatted text have the
    same number of lines, and line by line they are equal, except that a posting line corresponds
    to the line of the same posting under the formatter's layout.  (Header lines and empty lines
    of a core journal have no trailing blanks, so "changed at most by loss of trailing blanks"
    is "unchanged" here.) -/
theorem C04_other_lines_core (o : Options) (j : GCore.Journal) (h : GCore.WF j = true) :
    LinesRel Layout.std (canonLayout o j) (FmtText.splitLines (GCore.print j))
      (FmtText.splitLines (GCore.canon o j)) := by
  rw [← printL_std, splitLines_printL _ j h]
  show LinesRel _ _ _ (FmtText.splitLines (printL (canonLayout o j) j))
  rw [splitLines_printL _ j h]
  exact lines_rel _ _ j

/-! ### C05: idempotence -/

/-- **C05 (idempotence) for the core grammar.**  Formatting the formatted text again — parse
    `GCore.canon o j`, format with the tree of THAT parse, apply — returns the same text. -/
theorem C05_idempotent_core (o : Options) (j : GCore.Journal) (h : GCore.WF j = true)
    (hsize : (GCore.canon o j).length < 4294967296) :
    formatRun o (GCore.canon o j) = some (GCore.canon o j) :=
  formatRun_printL (canonLayout o j) (canonLayout_ok o j) o j h hsize

/-- … in terms of the edit list: the edits `formatDocument` returns for `canon o j` and the tree
    of its parse, applied to it, change nothing. -/
theorem C05_idempotent_core_edits (o : Options) (j : GCore.Journal) (h : GCore.WF j = true)
    (hsize : (GCore.canon o j).length < 4294967296) :
    applyEdits (GCore.canon o j)
      (formatDocument (HL.Pipeline.parseText Classes.go (GCore.canon o j)).1 (GCore.canon o j) none o []) =
        some (GCore.canon o j) := by
  rw [(C04_preserved_core o j h).1]
  exact format_printL (canonLayout o j) o j h hsize

/-- Two runs from the user's text: the second run returns what the first returned. -/
theorem C05_idempotent_twice_core (o : Options) (j : GCore.Journal) (h : GCore.WF j = true)
    (hsize : (GCore.print j).length < 4294967296) (hsize' : (GCore.canon o j).length < 4294967296) :
    (formatRun o (GCore.print j)).bind (formatRun o) = formatRun o (GCore.print j) := by
  rw [formatRun_core o j h hsize]
  exact C05_idempotent_core o j h hsize'

/-! ### C05: alignment -/

theorem foldl_max_ge_acc (ps : List GCore.Posting) (acc : Nat) :
    acc ≤ ps.foldl (fun m p => max m p.acct.length) acc := by
  induction ps generalizing acc with
  | nil => exact Nat.le_refl _
  | cons p ps ih => exact Nat.le_trans (Nat.le_max_left _ _) (ih _)

theorem foldl_max_ge (ps : List GCore.Posting) (acc : Nat) (p : GCore.Posting) (hp : p ∈ ps) :
    p.acct.length ≤ ps.foldl (fun m p => max m p.acct.length) acc := by
  induction ps generalizing acc with
  | nil => cases hp
  | cons q ps ih =>
    rcases List.mem_cons.mp hp with rfl | hp
    · exact Nat.le_trans (Nat.le_max_right _ _) (foldl_max_ge_acc ps _)
    · exact ih _ hp

theorem widest_ge (j : GCore.Journal) (t : GCore.Tx) (ht : t ∈ j) (p : GCore.Posting) (hp : p ∈ t.postings) :
    p.acct.length ≤ widest j :=
  foldl_max_ge _ 0 p (List.mem_flatMap.mpr ⟨t, ht, hp⟩)

/-- the lines of the formatted text: the header lines as they were, the posting lines under the
    canonical layout -/
theorem canon_lines (o : Options) (j : GCore.Journal) (h : GCore.WF j = true) :
    FmtText.splitLines (GCore.canon o j) = linesL (canonLayout o j) j :=
  splitLines_printL _ j h

/-- **C05 (alignment) for the core grammar.**  With alignment on, in the formatted text every
    posting line that has an amount is `pre ++ amount` where `pre` — indent, account, padding —
    is exactly `canonCol o j` bytes (= characters: the line is ASCII) long and ends in at least
    two blanks: every amount of the document starts at the same column, and that column is at
    least indent + longest account + 2, hence ≥ indent + this posting's account + 2. -/
theorem C05_aligned_core (o : Options) (j : GCore.Journal) (halign : o.alignAmounts = true)
    (t : GCore.Tx) (ht : t ∈ j) (p : GCore.Posting) (hp : p ∈ t.postings) (a : GCore.Amount)
    (ha : p.amount = some a) :
    ∃ pre, p.printL (canonLayout o j) = pre ++ [0x20, 0x20] ++ a.print ∧
      (pre ++ [0x20, 0x20]).length = canonCol o j ∧
      canonIndent o + widest j + 2 ≤ canonCol o j ∧
      canonIndent o + p.acct.length + 2 ≤ canonCol o j := by
  have hw := widest_ge j t ht p hp
  have hcol : canonIndent o + widest j + 2 ≤ canonCol o j := by unfold canonCol; omega
  have hgap : (canonLayout o j).gap p = canonCol o j - (canonIndent o + p.acct.length) := by
    show (if o.alignAmounts then max (canonCol o j - (canonIndent o + p.acct.length)) 2 else 2) = _
    rw [halign]; simp only [if_true]; omega
  obtain ⟨g, hg⟩ : ∃ g, canonCol o j - (canonIndent o + p.acct.length) = g + 2 :=
    ⟨canonCol o j - (canonIndent o + p.acct.length) - 2, by omega⟩
  refine ⟨blanks (canonIndent o) ++ p.acct ++ blanks g, ?_, ?_, hcol, by omega⟩
  · simp only [Posting.printL, Posting.amtTextL, ha, hgap, hg]
    show _ ++ _ ++ (blanks (g + 2) ++ _) = _
    have : blanks (g + 2) = blanks g ++ [0x20, 0x20] := by
      simp only [blanks]; rw [← List.replicate_append_replicate]; rfl
    rw [this]; simp only [List.append_assoc]; rfl
  · simp only [List.length_append, blanks_length, List.length_cons, List.length_nil]
    omega

/-! ### C05: the edits are well-formed -/

/-- **C05 (well-formed edits) for the core grammar, composed with the parser**: the edits
    returned for the text of a core journal — tree and errors taken from the parse of that text —
    lie inside the document, on character boundaries, start ≤ end, pairwise disjoint. -/
theorem C05_edits_wellformed_core (o : Options) (j : GCore.Journal) (h : GCore.WF j = true)
    (hsize : (GCore.print j).length < 4294967296) :
    editsWellFormed (GCore.print j)
      (formatText (HL.Pipeline.parseText Classes.go (GCore.print j)).1
        (HL.Pipeline.parseText Classes.go (GCore.print j)).2 (GCore.print j) none o) = true := by
  rw [HL.Props.C03.C03_faithful_core j h]
  apply HL.Props.C05.edits_wellformed
  have := treeFits_printL Layout.std j h (by rw [printL_std]; exact hsize)
  rwa [printL_std, expectedL_std] at this

/-- … and for the second run (the formatted text and the tree of its parse). -/
theorem C05_edits_wellformed_core_again (o : Options) (j : GCore.Journal) (h : GCore.WF j = true)
    (hsize : (GCore.canon o j).length < 4294967296) :
    editsWellFormed (GCore.canon o j)
      (formatText (HL.Pipeline.parseText Classes.go (GCore.canon o j)).1
        (HL.Pipeline.parseText Classes.go (GCore.canon o j)).2 (GCore.canon o j) none o) = true := by
  rw [(C04_preserved_core o j h).1]
  exact HL.Props.C05.edits_wellformed _ _ _ _ _ (treeFits_printL (canonLayout o j) j h hsize)

/-! ### non-vacuity: a concrete journal, accounts of different lengths -/

/-- the sample of `C03Faithful.lean`: two transactions, accounts `assets:cash`,
    `expenses:food:x`, `a:b`, `c:d`, amounts with and without sign, decimals, commodity -/
abbrev sample : GCore.Journal := HL.Props.C03.sample

def sampleOpts : Options := ⟨2, true, 0⟩

example : GCore.WF sample = true := by decide
example : (GCore.print sample).length < 4294967296 := by decide +kernel
example : (GCore.canon sampleOpts sample).length < 4294967296 := by decide +kernel

/-- the formatted sample, spelled out: indent 2, amounts at column 19 (0-based):
    ```
    2024-01-15 grocery store
      assets:cash      -12.50 USD
      expenses:food:x

    2024-02-01 rent
      a:b              1200
      c:d              0.125 E
    ``` -/
example : GCore.canon sampleOpts sample =
    [50, 48, 50, 52, 45, 48, 49, 45, 49, 53, 32, 103, 114, 111, 99, 101, 114, 121, 32, 115, 116, 111, 114, 101, 10,
     32, 32, 97, 115, 115, 101, 116, 115, 58, 99, 97, 115, 104, 32, 32, 32, 32, 32, 32, 45, 49, 50, 46, 53, 48, 32, 85, 83, 68, 10,
     32, 32, 101, 120, 112, 101, 110, 115, 101, 115, 58, 102, 111, 111, 100, 58, 120, 10,
     10,
     50, 48, 50, 52, 45, 48, 50, 45, 48, 49, 32, 114, 101, 110, 116, 10,
     32, 32, 97, 58, 98, 32, 32, 32, 32, 32, 32, 32, 32, 32, 32, 32, 32, 32, 32, 49, 50, 48, 48, 10,
     32, 32, 99, 58, 100, 32, 32, 32, 32, 32, 32, 32, 32, 32, 32, 32, 32, 32, 32, 48, 46, 49, 50, 53, 32, 69, 10] := by
  decide +kernel

/-- the statement of `formatRun_core` on the sample, by evaluation of the models alone -/
example : formatRun sampleOpts (GCore.print sample) = some (GCore.canon sampleOpts sample) := by
  decide +kernel

/-- … and of `C05_idempotent_core` -/
example : formatRun sampleOpts (GCore.canon sampleOpts sample) = some (GCore.canon sampleOpts sample) := by
  decide +kernel

/-- the formatter does change this text (the theorems are not about a fixed point only) -/
example : GCore.canon sampleOpts sample ≠ GCore.print sample := by decide +kernel

/-- alignment off, indent 7, on the sample -/
example : formatRun ⟨7, false, 0⟩ (GCore.print sample) = some (GCore.canon ⟨7, false, 0⟩ sample) := by
  decide +kernel

example : canonCol sampleOpts sample = 19 := by decide

end HL.Props.C04

#print axioms HL.Props.C04.format_core
#print axioms HL.Props.C04.formatRun_core
#print axioms HL.Props.C04.C04_preserved_core
#print axioms HL.Props.C04.C05_idempotent_core
#print axioms HL.Props.C04.C05_aligned_core
#print axioms HL.Props.C04.C04_other_lines_core
#print axioms HL.Props.C04.C05_edits_wellformed_core
