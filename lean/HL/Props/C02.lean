import HL.Model.Dec
namespace HL.Props.C02
theorem placeholder_neg (a : Dec) : (Dec.neg a).exp = a.exp := rfl
end HL.Props.C02
