import HL.Model.Balance
import HL.Spec.BalanceSpec
import HL.Lemmas.Dec
import HL.Lemmas.Balance
import HL.Model.Num
import HL.Spec.Number
import HL.Lemmas.Num
import HL.Lemmas.DecString

/-!
  C02 "Unbalanced-transaction verdicts are exact" — the arithmetic core.

  * `check_exact`: for EVERY transaction `Balance.check` (the model of `CheckBalance`) either
    panics exactly when `decimal.Mul` overflows, or returns a result that corresponds to the
    statement's verdict on the exact rational image of the transaction, including equality of
    the difference map as a finite map to `Rat` (order-free).
  * `diag_exact`: the diagnostic code analyzeInternal emits is the one the verdict demands.
  * `message_numbers_exact`: every difference named in the UNBALANCED message is the absolute
    residual of its commodity, which is non-zero.
  * `verdict_notation_invariant`: transactions with the same rational image get the same verdict.
-/
namespace HL.Props.C02
open HL HL.Ast HL.Balance HL.Spec.Bal

/-- Equality of a decimal difference map and a rational one as finite maps. -/
def SameMap (a : Sums) (b : List (Bytes × Rat)) : Prop :=
  ∀ c, (KV.find? a c).map Dec.toRat = KV.find? b c

/-- What it means for a `CheckBalance` result to state a verdict. -/
def Corresponds (r : Result) : Verdict → Prop
  | .ok => r.balanced = true ∧ r.differences = []
  | .multiple => r.balanced = false ∧ r.differences = [] ∧ r.inferredIdx = -1
  | .unbalanced d => r.balanced = false ∧ r.differences ≠ [] ∧ (KV.keys r.differences).Nodup ∧
      SameMap r.differences d

/-- The only way `CheckBalance` can fail: at most one posting lacks an amount (so the sums are
    computed) and some real posting with a unit cost makes `decimal.Mul` overflow int32. -/
def Overflows (tx : Transaction) : Prop :=
  missing (image tx) ≤ 1 ∧ ∃ p ∈ filterReal tx.postings, mulOverflow p

theorem sameMap_nil_iff {a : Sums} {b : List (Bytes × Rat)} (h : SameMap a b) : a = [] ↔ b = [] := by
  constructor
  · intro ha
    subst ha
    cases b with
    | nil => rfl
    | cons x r =>
      obtain ⟨k, v⟩ := x
      have := h k
      simp [KV.find?] at this
  · intro hb
    subst hb
    cases a with
    | nil => rfl
    | cons x r =>
      obtain ⟨k, v⟩ := x
      have := h k
      simp [KV.find?] at this

theorem keys_differencesOf_sublist (sums : Sums) :
    List.Sublist (KV.keys (differencesOf sums)) (KV.keys sums) := by
  induction sums with
  | nil => simp [differencesOf, KV.keys]
  | cons a r ih =>
    obtain ⟨k, v⟩ := a
    rw [differencesOf_cons]
    cases hz : Dec.isZero v with
    | true =>
      simp only [if_true]
      exact List.Sublist.cons _ ih
    | false =>
      simp only [Bool.false_eq_true, if_false]
      exact List.Sublist.cons_cons _ ih

theorem rabs_eq (q : Rat) : Dec.rabs q = rabs q := rfl

/-- the decimal sums are the exact residuals and the differences the exact absolute residuals. -/
theorem differences_sameMap (tx : Transaction) (sums : Sums)
    (hs : sumByCommodity (filterReal tx.postings) [] = some sums) :
    (KV.keys (differencesOf sums)).Nodup ∧
    SameMap (differencesOf sums) (diffs totalBySignum (image tx)) := by
  obtain ⟨hn, hv⟩ := sum_spec _ _ _ hs (by simp [KV.keys])
  refine ⟨List.Sublist.nodup (keys_differencesOf_sublist sums) hn, ?_⟩
  intro c
  have hres : Dec.toRat (KV.get sums c Dec.zero) = residual totalBySignum (image tx) c := by
    rw [hv c]
    unfold residual
    rw [contributions_image]
    simp [KV.get, Dec.toRat_zero, Rat.zero_add]
  rw [find?_differencesOf sums hn c, find?_diffs, ← hres, KV.get_eq_find?]
  cases hf : KV.find? sums c with
  | none => simp [Dec.toRat_zero]
  | some v =>
    simp only [Option.getD_some]
    cases hz : Dec.isZero v with
    | true =>
      have := (Dec.isZero_iff v).1 hz
      simp [this]
    | false =>
      have : ¬ Dec.toRat v = 0 := fun e => by
        have := (Dec.isZero_iff v).2 e
        rw [hz] at this; cases this
      simp [this, Dec.abs_exact, rabs_eq]

/-- **check_exact.**  For every transaction — any number of postings, any commodities, any
    decimals — the model of `CheckBalance` panics exactly in the overflow case and otherwise
    states the verdict of the exact-sum rule on the rational image of the transaction. -/
theorem check_exact (tx : Transaction) :
    match check tx with
    | none => Overflows tx
    | some r => Corresponds r (verdict (image tx)) := by
  unfold check
  have hm := missing_image tx
  simp only
  generalize hci : countInferred (filterReal tx.postings) 0 (0, -1) = ci at hm ⊢
  obtain ⟨cnt, idx⟩ := ci
  simp only at hm ⊢
  by_cases h1 : cnt > 1
  · simp only [h1, if_true]
    unfold verdict verdictWith
    rw [hm]
    simp [h1, Corresponds]
  · simp only [h1, if_false]
    cases hs : sumByCommodity (filterReal tx.postings) [] with
    | none =>
      simp only
      exact ⟨by omega, (sum_none_iff _ _).1 hs⟩
    | some sums =>
      simp only
      by_cases h2 : cnt = 1
      · subst h2
        simp only [beq_self_eq_true, if_true]
        unfold verdict verdictWith
        rw [hm]
        simp [Corresponds]
      · have h0 : cnt = 0 := by omega
        subst h0
        simp only [show ((0 : Nat) == 1) = false from rfl, Bool.false_eq_true, if_false]
        obtain ⟨hnd, hsame⟩ := differences_sameMap tx sums hs
        unfold verdict verdictWith
        rw [hm]
        simp only [show ¬ (0 : Nat) > 1 from by omega, if_false, show ¬ (0 : Nat) = 1 from by omega]
        by_cases hd : differencesOf sums = []
        · have hb := (sameMap_nil_iff hsame).1 hd
          simp [hd, hb, Corresponds]
        · have hb : diffs totalBySignum (image tx) ≠ [] := fun e => hd ((sameMap_nil_iff hsame).2 e)
          have e1 : (differencesOf sums).isEmpty = false := by
            cases hh : differencesOf sums with
            | nil => exact absurd hh hd
            | cons _ _ => rfl
          have e2 : (diffs totalBySignum (image tx)).isEmpty = false := by
            cases hh : diffs totalBySignum (image tx) with
            | nil => exact absurd hh hb
            | cons _ _ => rfl
          simp only [e1, e2, Bool.false_eq_true, if_false, Corresponds]
          exact ⟨trivial, hd, hnd, hsame⟩

/-- `CheckBalance` fails exactly in the overflow case. -/
theorem check_none_iff (tx : Transaction) : check tx = none ↔ Overflows tx := by
  constructor
  · intro h
    have := check_exact tx
    rw [h] at this
    exact this
  · rintro ⟨hle, hov⟩
    unfold check
    have hm := missing_image tx
    simp only
    generalize hci : countInferred (filterReal tx.postings) 0 (0, -1) = ci at hm ⊢
    obtain ⟨cnt, idx⟩ := ci
    simp only at hm ⊢
    have : ¬ cnt > 1 := by omega
    simp only [this, if_false]
    rw [(sum_none_iff _ _).2 hov]

/-- Decimal exponents within the parser's bound (|exponent| ≤ 1000, fix e860024). -/
def BoundedExps (tx : Transaction) : Prop :=
  ∀ p ∈ tx.postings, ∀ a c, p.amount = some a → p.cost = some c →
    (-1000 ≤ a.quantity.exp ∧ a.quantity.exp ≤ 1000 ∧ -1000 ≤ c.amount.quantity.exp ∧ c.amount.quantity.exp ≤ 1000)

/-- On every transaction the parser can produce, `CheckBalance` returns and is exact. -/
theorem check_exact_bounded (tx : Transaction) (hb : BoundedExps tx) :
    ∃ r, check tx = some r ∧ Corresponds r (verdict (image tx)) := by
  have h := check_exact tx
  cases hc : check tx with
  | some r => rw [hc] at h; exact ⟨r, rfl, h⟩
  | none =>
    rw [hc] at h
    obtain ⟨_, p, hp, a, c, ha, hcst, _, hov⟩ := h
    have hp' : p ∈ tx.postings := (List.mem_filter.1 hp).1
    have := hb p hp' a c ha hcst
    unfold Dec.int32Max Dec.int32Min at hov
    omega

example : BoundedExps ⟨default, none, .none, [], [], [], [],
    [⟨.none, ⟨bs "a:b", default⟩, some ⟨⟨150, -2⟩, [], ⟨bs "USD", .right, default⟩, false, default⟩, none,
      some ⟨⟨⟨3, 0⟩, [], ⟨bs "EUR", .right, default⟩, false, default⟩, false, default⟩, [], [], .none, default⟩],
    [], [], default⟩ := by
  intro p hp a c ha hc
  simp only [List.mem_singleton] at hp
  subst hp
  cases ha; cases hc
  decide

/-! ### the diagnostic analyzeInternal emits -/

def codeOf : Verdict → Option Code
  | .ok => none
  | .multiple => some .multipleInferred
  | .unbalanced _ => some .unbalanced

/-- **diag_exact.**  UNBALANCED is emitted exactly for `unbalanced`, MULTIPLE_INFERRED exactly
    for `multiple`, nothing for `ok` (whenever `CheckBalance` returns). -/
theorem diag_exact (tx : Transaction) (h : ¬ Overflows tx) :
    diagCode tx = some (codeOf (verdict (image tx))) := by
  have hc := check_exact tx
  unfold diagCode
  cases hr : check tx with
  | none => rw [hr] at hc; exact absurd hc h
  | some r =>
    rw [hr] at hc
    simp only
    cases hv : verdict (image tx) with
    | ok =>
      rw [hv] at hc
      simp [hc.1, codeOf]
    | multiple =>
      rw [hv] at hc
      obtain ⟨h1, h2, h3⟩ := hc
      simp [h1, codeOf, balanceDiagnostic, h2, h3]
    | unbalanced d =>
      rw [hv] at hc
      obtain ⟨h1, h2, _, _⟩ := hc
      have : r.differences.isEmpty = false := by
        cases hh : r.differences with
        | nil => exact absurd hh h2
        | cons _ _ => rfl
      simp [h1, codeOf, balanceDiagnostic, this]

/-- **message_numbers_exact.**  Whatever order Go's map iteration takes, each pair
    `(commodity, difference)` written into the UNBALANCED message is a commodity whose exact
    residual is non-zero together with the exact absolute value of that residual, and every
    commodity with a non-zero residual is named. -/
theorem message_numbers_exact (tx : Transaction) (r : Result) (h : check tx = some r)
    (hu : r.balanced = false) (hd : r.differences ≠ []) (c : Bytes) :
    (KV.find? r.differences c).map Dec.toRat =
      (if residual totalBySignum (image tx) c = 0 then none
       else some (rabs (residual totalBySignum (image tx) c))) := by
  have hc := check_exact tx
  rw [h] at hc
  cases hv : verdict (image tx) with
  | ok => rw [hv] at hc; rw [hc.1] at hu; cases hu
  | multiple => rw [hv] at hc; exact absurd hc.2.1 hd
  | unbalanced d =>
    rw [hv] at hc
    obtain ⟨_, _, _, hs⟩ := hc
    rw [hs c]
    have : d = diffs totalBySignum (image tx) := by
      unfold verdict verdictWith at hv
      split at hv
      · cases hv
      · split at hv
        · cases hv
        · simp only at hv
          split at hv
          · cases hv
          · cases hv; rfl
    rw [this, find?_diffs]

/-- **message_numbers_parse_back.**  The number printed after "off by" for commodity `c`
    (`Decimal.String()` of the difference) reads back as the exact absolute residual of `c`. -/
theorem message_numbers_parse_back (tx : Transaction) (r : Result) (h : check tx = some r)
    (hu : r.balanced = false) (hd : r.differences ≠ []) (c : Bytes) (v : Dec)
    (hv : KV.find? r.differences c = some v) (hexp : Dec.int32Min ≤ v.exp) :
    (Dec.ofString (Dec.toString v)).map Dec.toRat = some (rabs (residual totalBySignum (image tx) c)) ∧
    residual totalBySignum (image tx) c ≠ 0 := by
  have := message_numbers_exact tx r h hu hd c
  rw [hv] at this
  rw [Num.toString_roundtrip v hexp]
  by_cases hz : residual totalBySignum (image tx) c = 0
  · simp [hz] at this
  · simp only [hz, if_false, Option.map_some, Option.some.injEq] at this
    exact ⟨by rw [this], hz⟩

theorem insertSorted_perm (k : Bytes) (l : List Bytes) : (KV.insertSorted k l).Perm (k :: l) := by
  induction l with
  | nil => exact List.Perm.refl _
  | cons x r ih =>
    unfold KV.insertSorted
    split
    · exact List.Perm.refl _
    · exact (List.Perm.cons x ih).trans (List.Perm.swap k x r)

theorem sortStrings_perm (l : List Bytes) : (KV.sortStrings l).Perm l := by
  induction l with
  | nil => exact List.Perm.refl _
  | cons x r ih =>
    unfold KV.sortStrings
    rw [List.foldr_cons]
    exact (insertSorted_perm x _).trans (List.Perm.cons x ih)

/-- **message_names_the_differences.**  The UNBALANCED message is assembled from exactly the
    entries of the difference map, each commodity once, with the value the map holds for it
    (so, by `message_numbers_exact`, the exact absolute residual), in sorted order. -/
theorem message_names_the_differences (d : Sums) :
    ((sortedDifferences d).map (·.1)).Perm (KV.keys d) ∧
    ∀ kv ∈ sortedDifferences d, KV.find? d kv.1 = some kv.2 := by
  constructor
  · unfold sortedDifferences
    rw [List.map_map]
    have : ((fun x : Bytes × Dec => x.1) ∘ fun k => (k, KV.get d k Dec.zero)) = id := by funext k; rfl
    rw [this, List.map_id]
    exact sortStrings_perm _
  · intro kv hkv
    unfold sortedDifferences at hkv
    obtain ⟨k, hk, rfl⟩ := List.mem_map.1 hkv
    have hk' : k ∈ KV.keys d := (sortStrings_perm _).mem_iff.1 hk
    simp only
    rw [KV.get_eq_find?]
    cases hf : KV.find? d k with
    | some v => rfl
    | none =>
      exfalso
      clear hkv hk
      induction d with
      | nil => simp [KV.keys] at hk'
      | cons a r ih =>
        obtain ⟨k0, v0⟩ := a
        by_cases h0 : k0 = k
        · simp [KV.find?, h0] at hf
        · simp only [KV.find?, h0, if_false] at hf
          simp only [KV.keys, List.map_cons, List.mem_cons] at hk'
          rcases hk' with e | e
          · exact h0 e.symm
          · exact ih e hf

/-- **verdict_notation_invariant.**  Two transactions whose postings have the same exact
    rational image (same kinds, commodities and values — however the numbers were written,
    wherever the signs and commodities stood) receive the same diagnostic. -/
theorem verdict_notation_invariant (tx₁ tx₂ : Transaction) (himg : image tx₁ = image tx₂)
    (h₁ : ¬ Overflows tx₁) (h₂ : ¬ Overflows tx₂) :
    diagCode tx₁ = diagCode tx₂ ∧
    ∀ r₁ r₂, check tx₁ = some r₁ → check tx₂ = some r₂ →
      r₁.balanced = r₂.balanced ∧
      ∀ c, (KV.find? r₁.differences c).map Dec.toRat = (KV.find? r₂.differences c).map Dec.toRat := by
  refine ⟨by rw [diag_exact tx₁ h₁, diag_exact tx₂ h₂, himg], ?_⟩
  intro r₁ r₂ e₁ e₂
  have c₁ := check_exact tx₁
  have c₂ := check_exact tx₂
  rw [e₁] at c₁
  rw [e₂] at c₂
  rw [himg] at c₁
  cases hv : verdict (image tx₂) with
  | ok =>
    rw [hv] at c₁ c₂
    refine ⟨by rw [c₁.1, c₂.1], fun c => by rw [c₁.2, c₂.2]⟩
  | multiple =>
    rw [hv] at c₁ c₂
    refine ⟨by rw [c₁.1, c₂.1], fun c => by rw [c₁.2.1, c₂.2.1]⟩
  | unbalanced d =>
    rw [hv] at c₁ c₂
    refine ⟨by rw [c₁.1, c₂.1], fun c => by rw [c₁.2.2.2 c, c₂.2.2.2 c]⟩

/-! ### the pinned code (before repo_patches/fix-zero-quantity-total-cost.diff) -/

def mkAmt (c : Int) (e : Int) (sym : String) : Amount := ⟨⟨c, e⟩, [], ⟨bs sym, .right, default⟩, false, default⟩
def mkPost (acct : String) (a : Option Amount) (c : Option Cost) : Posting :=
  ⟨.none, ⟨bs acct, default⟩, a, none, c, [], [], .none, default⟩
def mkTx (ps : List Posting) : Transaction := ⟨default, none, .none, [], [], [], [], ps, [], [], default⟩

/-- `a:b  0 AAPL @@ 5 USD` / `c:d  0 USD`. -/
def zeroTotalTx : Transaction := mkTx [
  mkPost "a:b" (some (mkAmt 0 0 "AAPL")) (some ⟨mkAmt 5 0 "USD", true, default⟩),
  mkPost "c:d" (some (mkAmt 0 0 "USD")) none]

/-- Before the fix a zero quantity with a total cost contributed the whole total: the
    transaction above, whose every converted amount is 0, was reported "USD off by 5". -/
theorem pinned_zero_quantity_total_cost_counterexample :
    checkPinned zeroTotalTx = some ⟨false, [(bs "USD", ⟨5, 0⟩)], -1⟩ ∧
    check zeroTotalTx = some ⟨true, [], -1⟩ := by
  constructor <;> decide +kernel

/-! ### number notations -/

/-- **normalize_value.**  For every notation of DESIGN 4.3 — any number of digits, digit groups
    written with ',' '.' or blanks, decimal mark '.' or ',', trailing mark, exponent with or
    without sign, either sign of the number — that is well formed and not of the shape side
    condition A excludes, the chain parseAmount runs on the Number token (sign prefix, blank
    removal, `normalizeNumber`, `decimal.NewFromString`, exponent bound) yields a decimal whose
    exact value is the value written. -/
theorem normalize_value (n : G.Number) (hwf : G.wf n = true) (hA : G.shapeA n = false) :
    (Num.quantity n.neg (G.render n)).map Dec.toRat = some (G.value n) := by
  have hprep := Num.prepare_render n hwf hA
  simp only [G.wf, Bool.and_eq_true, decide_eq_true_eq] at hwf
  obtain ⟨⟨⟨⟨⟨⟨⟨w1, _⟩, w3⟩, _⟩, _⟩, w6⟩, w7⟩, w8⟩ := hwf
  have hm : n.mark.isSome = false → n.frac = [] := by
    intro h
    cases hmk : n.mark with
    | none => rw [hmk] at w3; simpa using w3
    | some m => rw [hmk] at h; cases h
  have hexp : ∀ e, n.exp = some e → e.digits ≠ [] ∧ G.natOf e.digits ≤ 2147483647 := by
    intro e he
    rw [he] at w6
    simpa using w6
  have hof := Num.ofString_canon n.neg n.intDigits n.frac n.mark.isSome n.exp w1 hm hexp
    (by unfold Dec.int32Min; omega) (by unfold Dec.int32Max; omega)
  unfold Num.quantity
  rw [hprep]
  unfold Num.canon
  rw [hof]
  have hb : ¬ (G.expValue n.exp - (n.frac.length : Int) > Num.maxAmountExponent ∨
      G.expValue n.exp - (n.frac.length : Int) < -Num.maxAmountExponent) := by
    unfold Num.maxAmountExponent; omega
  simp only [hb, if_false, Option.map_some, Option.some.injEq]
  rw [Num.toRat_canon]
  unfold G.value G.magnitude
  cases n.neg <;> simp

/-- what reaches `NewFromString` is the canonical spelling `[-]digits[.digits][E±digits]`. -/
theorem normalize_canonical (n : G.Number) (hwf : G.wf n = true) (hA : G.shapeA n = false) :
    Num.prepare n.neg (G.render n) = Num.canon n := Num.prepare_render n hwf hA

/-! ### from written notations to the verdict (the arithmetic half of the pipeline) -/

/-- an amount as written: a notation and a commodity symbol. -/
structure WAmount where
  n : G.Number
  c : Bytes

/-- a posting as written (what the generator's ground truth records). -/
structure WPosting where
  kind : Virtual
  account : Bytes
  amount : Option WAmount
  cost : Option (Bool × WAmount)

def WAmount.ok (a : WAmount) : Prop := G.wf a.n = true ∧ G.shapeA a.n = false

/-- the exact rational transaction a list of written postings denotes. -/
def written (w : List WPosting) : RTx :=
  w.map fun p => ⟨p.kind, p.account, p.amount.map fun a => ⟨G.value a.n, a.c⟩,
    p.cost.map fun tc => ⟨tc.1, G.value tc.2.n, tc.2.c⟩⟩

/-- `parseAmount` read this amount from that notation: the commodity is the one written and the
    quantity is what the modelled chain computes from the Number token and the sign. -/
def ReadAs (a : Amount) (w : WAmount) : Prop :=
  a.commodity.symbol = w.c ∧ Num.quantity w.n.neg (G.render w.n) = some a.quantity

/-- the posting structure was recovered (kinds, accounts, presence of amount and cost). -/
def PostingReadAs (p : Posting) (w : WPosting) : Prop :=
  p.virt = w.kind ∧ p.account.name = w.account ∧
  (match p.amount, w.amount with
    | none, none => True
    | some a, some wa => ReadAs a wa ∧ wa.ok
    | _, _ => False) ∧
  (match p.cost, w.cost with
    | none, none => True
    | some c, some wc => c.isTotal = wc.1 ∧ ReadAs c.amount wc.2 ∧ wc.2.ok
    | _, _ => False)

/-- posting by posting. -/
inductive AllReadAs : List Posting → List WPosting → Prop
  | nil : AllReadAs [] []
  | cons {p w ps ws} : PostingReadAs p w → AllReadAs ps ws → AllReadAs (p :: ps) (w :: ws)

theorem readAs_value {a : Amount} {w : WAmount} (h : ReadAs a w) (hok : w.ok) :
    Dec.toRat a.quantity = G.value w.n := by
  have := normalize_value w.n hok.1 hok.2
  rw [h.2] at this
  simpa using this

theorem image_of_readAs (ps : List Posting) (w : List WPosting)
    (h : AllReadAs ps w) : ps.map imagePosting = written w := by
  induction h with
  | nil => rfl
  | @cons p wp ps ws hp _ ih =>
    unfold written at ih ⊢
    rw [List.map_cons, List.map_cons, ih]
    congr 1
    obtain ⟨h1, h2, h3, h4⟩ := hp
    unfold imagePosting
    congr 1
    · cases hpa : p.amount with
      | none =>
        cases hwa : wp.amount with
        | none => rfl
        | some wa => rw [hpa, hwa] at h3; exact h3.elim
      | some a =>
        cases hwa : wp.amount with
        | none => rw [hpa, hwa] at h3; exact h3.elim
        | some wa =>
          rw [hpa, hwa] at h3
          simp only [Option.map_some, imageAmount, readAs_value h3.1 h3.2, h3.1.1]
    · cases hpc : p.cost with
      | none =>
        cases hwc : wp.cost with
        | none => rfl
        | some wc => rw [hpc, hwc] at h4; exact h4.elim
      | some c =>
        cases hwc : wp.cost with
        | none => rw [hpc, hwc] at h4; exact h4.elim
        | some wc =>
          rw [hpc, hwc] at h4
          simp only [Option.map_some, imageCost, readAs_value h4.2.1 h4.2.2, h4.2.1.1, h4.1]

/-- **check_exact_written.**  If the parser recovered the posting structure of a transaction
    and read every amount from the notation it was written in (any notation of 4.3 outside the
    shape side condition A excludes), then `CheckBalance` states exactly the verdict of the
    exact-sum rule on the values WRITTEN — notation, sign placement and commodity side do not
    enter.  (The structural hypothesis is the lexer/parser part of the pipeline, C03; the
    correspondence checks it on every generated transaction.) -/
theorem check_exact_written (tx : Transaction) (w : List WPosting)
    (h : AllReadAs tx.postings w) :
    match check tx with
    | none => Overflows tx
    | some r => Corresponds r (verdict (written w)) := by
  have himg : image tx = written w := image_of_readAs tx.postings w h
  have := check_exact tx
  rw [himg] at this
  exact this

def dg (s : String) : List G.Digit := s.toList.map fun c => Fin.ofNat 10 (c.toNat - 48)

/-! Non-vacuity: one notation of every class of 4.3 satisfies the hypotheses (and the model
    computes the value written). -/
def nPlain : G.Number := ⟨false, dg "123", none, none, [], none⟩                       -- 123
def nDot : G.Number := ⟨true, dg "1", none, some 46, dg "5", none⟩                     -- -1.5
def nComma : G.Number := ⟨false, dg "1", none, some 44, dg "5", none⟩                  -- 1,5
def nGroupCommaDot : G.Number := ⟨false, dg "1234", some 44, some 46, dg "56", none⟩   -- 1,234.56
def nGroupDotComma : G.Number := ⟨false, dg "1234", some 46, some 44, dg "56", none⟩   -- 1.234,56
def nGroupSpace : G.Number := ⟨false, dg "1234", some 32, some 44, dg "56", none⟩      -- 1 234,56
def nGroupInt3 : G.Number := ⟨false, dg "1234567", some 44, none, [], none⟩            -- 1,234,567
def nGroupInt1 : G.Number := ⟨false, dg "1234", some 46, none, [], none⟩               -- 1.234 (grouped)
def nTrailing : G.Number := ⟨false, dg "12", none, some 46, [], none⟩                  -- 12.
def nExp : G.Number := ⟨false, dg "1", none, some 46, dg "5", some ⟨false, .minus, dg "2"⟩⟩  -- 1.5e-2
def nExpPlus : G.Number := ⟨false, dg "1", none, none, [], some ⟨true, .plus, dg "2"⟩⟩       -- 1E+2
def nGroupExp : G.Number := ⟨false, dg "1234", some 44, none, [], some ⟨true, .none, dg "2"⟩⟩ -- 1,234E2

example : [nPlain, nDot, nComma, nGroupCommaDot, nGroupDotComma, nGroupSpace, nGroupInt3, nGroupInt1,
    nTrailing, nExp, nExpPlus, nGroupExp].all (fun n => G.wf n && !G.shapeA n) = true := by decide +kernel

example : G.render nGroupCommaDot = bs "1,234.56" ∧ G.render nGroupSpace = bs "1 234,56" ∧
    G.render nExp = bs "1.5e-2" ∧ G.render nGroupInt3 = bs "1,234,567" := by decide +kernel

example : Num.quantity false (bs "1 234,56") = some ⟨123456, -2⟩ ∧
    Num.quantity false (bs "1.5E3") = some ⟨15, 2⟩ ∧
    Num.quantity true (bs "1,234,567") = some ⟨-1234567, 0⟩ := by decide +kernel

/-- non-vacuity of `check_exact_written`: `a:b  1,234.56 USD` / `c:d  -1234,56 USD`. -/
example : AllReadAs
    [mkPost "a:b" (some (mkAmt 123456 (-2) "USD")) none, mkPost "c:d" (some (mkAmt (-123456) (-2) "USD")) none]
    [⟨.none, bs "a:b", some ⟨nGroupCommaDot, bs "USD"⟩, none⟩,
     ⟨.none, bs "c:d", some ⟨⟨true, dg "1234", none, some 44, dg "56", none⟩, bs "USD"⟩, none⟩] := by
  refine .cons ⟨rfl, rfl, ⟨⟨rfl, ?_⟩, ?_, ?_⟩, trivial⟩ (.cons ⟨rfl, rfl, ⟨⟨rfl, ?_⟩, ?_, ?_⟩, trivial⟩ .nil)
  all_goals decide +kernel

/-- The shape side condition A excludes really is read differently: `1,234` written to mean
    1.234 (decimal comma, three decimals) is read as the grouped integer 1234 — the project's
    documented disambiguation rule. -/
theorem sideA_counterexample :
    let n : G.Number := ⟨false, dg "1", none, some 44, dg "234", none⟩
    G.wf n = true ∧ G.shapeA n = true ∧ G.render n = bs "1,234" ∧
    Num.quantity n.neg (G.render n) = some ⟨1234, 0⟩ ∧
    (Num.quantity n.neg (G.render n)).map Dec.toRat ≠ some (G.value n) := by
  decide +kernel

/-- Same for the point: `1.234` meant as a decimal is read as 1234. -/
theorem sideA_point_counterexample :
    let n : G.Number := ⟨false, dg "1", none, some 46, dg "234", none⟩
    G.shapeA n = true ∧ G.render n = bs "1.234" ∧
    Num.quantity n.neg (G.render n) = some ⟨1234, 0⟩ := by
  decide +kernel

/-- The pinned `normalizeNumber` (before fix b74e439) applied its rule to the whole token:
    `1.5E3` — three characters after the point — lost the point and became 15E3 = 15000. -/
theorem pinned_exponent_counterexample :
    Dec.ofString (Num.normalizeMantissa (bs "1.5E3")) = some ⟨15, 3⟩ ∧
    Dec.ofString (Num.normalizeNumber (bs "1.5E3")) = some ⟨15, 2⟩ := by
  decide +kernel

end HL.Props.C02
