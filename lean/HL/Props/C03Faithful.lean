import HL.Lemmas.LexGCoreP
import HL.Lemmas.ParseGCore
import HL.Model.Pipeline
/-!
  C03 "Supported journals parse silently and faithfully" — the composed, unbounded theorem for
  the core sub-grammar `GCore` (HL/Spec/GCore.lean): full dates, lower-case descriptions,
  postings with `a:b` accounts and optional `[-]digits[.digits] [COMMODITY]` amounts, entries
  separated by one empty line, LF line ends.

  `C03_faithful_core`: for EVERY well-formed `GCore` journal `j` — any number of transactions,
  any number of postings, words, segments and digits of any length — the model of
  `parser.Parse` (lexer model composed with parser model, Unicode tables of the Go toolchain)
  applied to the printed text returns exactly the syntax tree the text was written from, every
  position and range included, and an empty error list.

  How it is put together (all by induction, nothing by evaluation except the closed examples):
    L3  extent lemmas, one per token class     HL/Lemmas/LexExtent.lean, LexExtentTok.lean,
                                               LexExtentLook.lean (LexExtentMore.lean: the
                                               classes outside the core grammar, not used here)
        lines → transactions → journals        HL/Lemmas/LexGCore.lean, LexGCoreP.lean
        (`lex_header_line`, `lex_posting_line`, `lex_blank_line`, `lex_tx`, `lexAll_print`)
    L4  number layer, dates                    HL/Lemmas/ParseGCoreNum.lean
        amount → posting → postings loop → transaction → journal loop
                                               HL/Lemmas/ParseGCore.lean
  The tie to the real code: op `c03.gcore` (HL/Driver/C03.lean, harness/c03.go) prints random
  `GCore` journals with `GCore.print`, parses the text with the real Go parser and compares the
  tree with `GCore.expected`.
-/
namespace HL.Props.C03
open HL HL.GCore

/-- The Unicode tables of the Go toolchain classify the ASCII letters as the theorem needs. -/
theorem classesOk_go : ClassesOk Classes.go = true := by decide +kernel

/-- Layer L3 composed: the exact token stream (types, values, positions) of every well-formed
    printed journal, for every classifier that gets the ASCII letters right. -/
theorem C03_core_tokens (C : Classes) (hC : ClassesOk C = true) (j : GCore.Journal) (h : GCore.WF j = true) :
    HL.Lex.lexAll C (GCore.print j) = GCore.toksFrom j 1 0 :=
  lexAll_print C hC j h

/-- Layer L4 composed: the parser on that token stream, for every `cls`. -/
theorem C03_core_parse_tokens (cls : HL.Parser.Classes) (j : GCore.Journal) (h : GCore.WF j = true) :
    HL.Parser.parseTokens HL.Parser.defaultNumDeps cls (GCore.toksFrom j 1 0) = (GCore.expected j, []) :=
  parseTokens_toks cls j h

/-- `C03_faithful_core` for every classifier `C` with `ClassesOk C`. -/
theorem C03_faithful_core_classes (C : Classes) (hC : ClassesOk C = true) (j : GCore.Journal)
    (h : GCore.WF j = true) :
    HL.Pipeline.parseText C (GCore.print j) = (GCore.expected j, []) := by
  unfold HL.Pipeline.parseText
  rw [lexAll_print C hC j h]
  exact parseTokens_toks _ j h

/-- **C03 for the core grammar.**  Every well-formed `GCore` journal parses without a single
    error to exactly the tree it was written from (ranges included). -/
theorem C03_faithful_core (j : GCore.Journal) (h : GCore.WF j = true) :
    HL.Pipeline.parseText Classes.go (GCore.print j) = (GCore.expected j, []) :=
  C03_faithful_core_classes Classes.go classesOk_go j h

/-- silently … -/
theorem C03_core_no_errors (j : GCore.Journal) (h : GCore.WF j = true) :
    (HL.Pipeline.parseText Classes.go (GCore.print j)).2 = [] := by
  rw [C03_faithful_core j h]

/-- … and faithfully: as many transactions as were written, each with as many postings. -/
theorem C03_core_counts (j : GCore.Journal) (h : GCore.WF j = true) :
    (HL.Pipeline.parseText Classes.go (GCore.print j)).1.transactions.map (·.postings.length) =
      j.map (·.postings.length) := by
  rw [C03_faithful_core j h]
  have hp : ∀ (ps : List GCore.Posting) (ln o : Nat), (GCore.expectedPostings ps ln o).length = ps.length := by
    intro ps; induction ps with
    | nil => intro _ _; rfl
    | cons p ps ih => intro ln o; simp [GCore.expectedPostings, ih]
  have ht : ∀ (ts : List GCore.Tx) (ln o : Nat),
      (GCore.expectedTxs ts ln o).map (·.postings.length) = ts.map (·.postings.length) := by
    intro ts; induction ts with
    | nil => intro _ _; rfl
    | cons t ts ih => intro ln o; simp [GCore.expectedTxs, GCore.Tx.expected, hp, ih]
  exact ht j 1 0

/-! ### non-vacuity: a concrete journal with every optional part -/

/-- ```
    2024-01-15 grocery store
        assets:cash  -12.50 USD
        expenses:food:x

    2024-02-01 rent
        a:b  1200
        c:d  0.125 E
    ``` -/
def sample : GCore.Journal := [
  { date := ⟨[50, 48, 50, 52], [48, 49], [49, 53]⟩
    words := [[103, 114, 111, 99, 101, 114, 121], [115, 116, 111, 114, 101]]
    postings := [
      ⟨[[97, 115, 115, 101, 116, 115], [99, 97, 115, 104]], some ⟨true, [49, 50], some [53, 48], some [85, 83, 68]⟩⟩,
      ⟨[[101, 120, 112, 101, 110, 115, 101, 115], [102, 111, 111, 100], [120]], none⟩] },
  { date := ⟨[50, 48, 50, 52], [48, 50], [48, 49]⟩
    words := [[114, 101, 110, 116]]
    postings := [
      ⟨[[97], [98]], some ⟨false, [49, 50, 48, 48], none, none⟩⟩,
      ⟨[[99], [100]], some ⟨false, [48], some [49, 50, 53], some [69]⟩⟩] }]

example : GCore.WF sample = true := by decide

/-- the statement of the theorem on the sample, by evaluation of the model alone -/
example : HL.Pipeline.parseText Classes.go (GCore.print sample) = (GCore.expected sample, []) := by
  decide +kernel

example : (GCore.expected sample).transactions.length = 2 := by decide

/-- The side condition of `Amount.wf` is forced by the code (side condition A of DESIGN 4.3):
    `1.234` behind a non-zero integer part is read as the integer 1234, not as written. -/
theorem C03_core_sideA_counterexample :
    let j : GCore.Journal := [⟨⟨[50, 48, 50, 52], [48, 49], [49, 53]⟩, [[120]],
      [⟨[[97], [98]], some ⟨false, [49], some [50, 51, 52], none⟩⟩]⟩]
    HL.Pipeline.parseText Classes.go (GCore.print j) ≠ (GCore.expected j, []) := by
  decide +kernel

end HL.Props.C03

#print axioms HL.Props.C03.C03_faithful_core
#print axioms HL.Props.C03.C03_faithful_core_classes
