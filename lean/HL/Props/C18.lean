/-
  C18 — Undeclared-account and undeclared-commodity warnings are exact.
  Property theorems only; helper lemmas live in HL/Lemmas/Undeclared.lean.

  Model: HL/Model/Undeclared.lean (transcription of analyzer.go / server.go / workspace.go, with
  repo_patches/fix-c18-include-declarations.diff applied).  Spec: HL/Spec/UndeclaredSpec.lean.
  All theorems are for journals, transactions and declared sets of any size and for EVERY
  lower-casing function `lower`; lists of warnings are equal as lists (same order), which
  implies the multiset equality the run-time oracle checks.
-/
import HL.Lemmas.Undeclared
import HL.Generated.Expect.PureDiag
namespace HL.Props.C18
open HL HL.Ast HL.Undeclared HL.Spec.Undeclared HL.Lemmas.Undeclared

/-! ### The per-journal rule -/

/-- `isAccountDeclared` is the stated predicate: declared, below a declared account, or under one
    of the six standard categories. -/
theorem account_rule (lower : Bytes → Bytes) (name : Bytes) (D : List Bytes) :
    isAccountDeclared lower name D = true ↔
      (name ∈ D ∨ (∃ d ∈ D, ∃ rest, name = d ++ [58] ++ rest) ∨ firstSegment (lower name) ∈ categories) := by
  rw [isAccountDeclared_eq]
  unfold accountCovered below
  simp only [Bool.or_eq_true, decide_eq_true_eq, List.any_eq_true, List.isPrefixOf_iff_prefix]
  constructor
  · rintro ((h | ⟨d, hd, r, hr⟩) | h)
    · exact Or.inl h
    · exact Or.inr (Or.inl ⟨d, hd, r, hr.symm⟩)
    · exact Or.inr (Or.inr h)
  · rintro (h | ⟨d, hd, r, hr⟩ | h)
    · exact Or.inl (Or.inl h)
    · exact Or.inl (Or.inr ⟨d, hd, r, hr.symm⟩)
    · exact Or.inr h

/-- Per transaction: the analyzer's UNDECLARED_* diagnostics are the spec's warnings, in order. -/
theorem tx_rule_exact (lower : Bytes → Bytes) (dAcc dCom : List Bytes) (tx : Transaction) :
    analyzeTx lower dAcc dCom tx =
      (accountWarnings lower dAcc tx ++ commodityWarnings dCom tx).map render := by
  unfold analyzeTx
  rw [List.map_append]
  congr 1
  · by_cases h : dAcc = []
    · subst h; simp [accountWarnings]
    · have : dAcc.isEmpty = false := by simpa using h
      simp only [this, Bool.not_false, if_true]
      exact checkAccounts_eq lower tx dAcc h
  · by_cases h : dCom = []
    · subst h; simp [commodityWarnings]
    · have : dCom.isEmpty = false := by simpa using h
      simp only [this, Bool.not_false, if_true]
      exact checkCommodities_eq tx dCom h

/-- **rule_exact.**  For every journal (any number of directives, transactions, postings) and
    every pair of external declared sets, `Analyze` / `AnalyzeWithExternalDeclarations` emit
    exactly the warnings of the statement for D = the journal's own declarations ∪ the external
    ones: gating on D ≠ ∅, the account rule, each undeclared commodity once per transaction over
    amounts, costs and assertions in posting order — same warnings, same ranges, same order. -/
theorem rule_exact (lower : Bytes → Bytes) (j : Journal) (extAcc extCom : List Bytes) :
    analyzeInternal lower j extAcc extCom =
      (journalWarnings lower (declaredAccountsOf j ++ extAcc) (declaredCommoditiesOf j ++ extCom) j).map render := by
  unfold analyzeInternal journalWarnings
  simp only [collectAccounts_eq, collectCommodities_eq, List.map_flatMap]
  congr 1
  funext tx
  exact tx_rule_exact lower _ _ tx

/-! ### Only membership in the declared sets matters (Go's map iteration order, duplicates) -/

/-- **declared_order_irrelevant.**  The warnings depend on the declared sets only through their
    membership relations: neither the order in which Go ranges over `declared`, nor how often a
    key was inserted, nor which source contributed it can be observed. -/
theorem declared_order_irrelevant (lower : Bytes → Bytes) {A A' C C' : List Bytes}
    (hA : ∀ x, x ∈ A ↔ x ∈ A') (hC : ∀ x, x ∈ C ↔ x ∈ C') (j : Journal) :
    journalWarnings lower A C j = journalWarnings lower A' C' j := by
  unfold journalWarnings
  congr 1
  funext tx
  congr 1
  · unfold accountWarnings
    by_cases h : A = []
    · have h' := (nil_congr hA).mp h
      simp [h, h']
    · have h' : A' ≠ [] := fun e => h ((nil_congr hA).mpr e)
      simp only [h, h', if_false]
      congr 1
      apply List.filter_congr
      intro p _
      rw [accountCovered_congr lower hA]
  · unfold commodityWarnings
    by_cases h : C = []
    · have h' := (nil_congr hC).mp h
      simp [h, h']
    · have h' : C' ≠ [] := fun e => h ((nil_congr hC).mpr e)
      simp only [h, h', if_false]
      congr 2
      apply List.filter_congr
      intro u _
      simp [hC u.symbol]

/-- The same for the analyzer itself: the external sets matter only through the membership
    relation of their union with the journal's own declarations. -/
theorem analyze_order_irrelevant (lower : Bytes → Bytes) (j : Journal) {A A' C C' : List Bytes}
    (hA : ∀ x, x ∈ collectDeclaredAccounts j ++ A ↔ x ∈ collectDeclaredAccounts j ++ A')
    (hC : ∀ x, x ∈ collectDeclaredCommodities j ++ C ↔ x ∈ collectDeclaredCommodities j ++ C') :
    analyzeInternal lower j A C = analyzeInternal lower j A' C' := by
  rw [rule_exact, rule_exact]
  congr 1
  apply declared_order_irrelevant
  · simpa only [collectAccounts_eq] using hA
  · simpa only [collectCommodities_eq] using hC

/-! ### "Once per transaction", spelled out -/

/-- No commodity is warned about twice in one transaction. -/
theorem commodity_once (D : List Bytes) (tx : Transaction) :
    ((commodityWarnings D tx).map (·.subject)).Nodup := by
  unfold commodityWarnings
  by_cases h : D = []
  · simp [h]
  · simp only [h, if_false, List.map_map]
    exact onceEach_nodup _

/-- Every undeclared commodity used in an amount, cost or assertion is warned about. -/
theorem commodity_complete (D : List Bytes) (tx : Transaction) (hD : D ≠ []) (u : Use)
    (hu : u ∈ uses tx) (hund : u.symbol ∉ D) :
    ∃ w ∈ commodityWarnings D tx, w.kind = .commodity ∧ w.subject = u.symbol := by
  unfold commodityWarnings
  simp only [hD, if_false]
  have : ∃ v ∈ (uses tx).filter (fun u => !decide (u.symbol ∈ D)), v.symbol = u.symbol :=
    ⟨u, List.mem_filter.mpr ⟨hu, by simp [hund]⟩, rfl⟩
  obtain ⟨v, hv, hvs⟩ := (onceEach_symbols _ _).mpr this
  exact ⟨⟨.commodity, v.symbol, v.range⟩, List.mem_map.mpr ⟨v, hv, rfl⟩, rfl, hvs⟩

/-- Non-vacuity of `commodity_complete`: a transaction using an undeclared symbol while another
    one is declared. -/
example : ∃ (D : List Bytes) (tx : Transaction) (u : Use), D ≠ [] ∧ u ∈ uses tx ∧ u.symbol ∉ D :=
  ⟨[[85]], { (default : Transaction) with postings := [{ (default : Posting) with
      amount := some { (default : Amount) with commodity := ⟨[69], .right, default⟩ } }] },
    ⟨[69], default⟩, by decide, by simp [uses, postingUses, amountUse], by decide⟩

/-- Every commodity warning points at a real use of an undeclared, non-empty symbol. -/
theorem commodity_sound (D : List Bytes) (tx : Transaction) (w : Warning)
    (hw : w ∈ commodityWarnings D tx) :
    w.kind = .commodity ∧ w.subject ∉ D ∧ w.subject ≠ [] ∧ D ≠ [] ∧
      ∃ u ∈ uses tx, u.symbol = w.subject ∧ u.range = w.range := by
  unfold commodityWarnings at hw
  by_cases h : D = []
  · simp [h] at hw
  · simp only [h, if_false] at hw
    obtain ⟨v, hv, rfl⟩ := List.mem_map.mp hw
    have hv' := List.mem_filter.mp (mem_onceEach hv)
    refine ⟨rfl, by simpa using hv'.2, uses_nonempty tx v hv'.1, h, v, hv'.1, rfl, rfl⟩

/-- Account warnings: exactly the postings that are not covered, when something is declared. -/
theorem account_exact (lower : Bytes → Bytes) (D : List Bytes) (tx : Transaction) (w : Warning) :
    w ∈ accountWarnings lower D tx ↔
      D ≠ [] ∧ ∃ p ∈ tx.postings, accountCovered lower D p.account.name = false ∧
        w = ⟨.account, p.account.name, p.range⟩ := by
  unfold accountWarnings
  by_cases h : D = []
  · simp [h]
  · simp only [h, if_false, List.mem_map, List.mem_filter, ne_eq, not_false_eq_true, true_and]
    constructor
    · rintro ⟨p, ⟨hp, hc⟩, rfl⟩
      exact ⟨p, hp, by simpa using hc, rfl⟩
    · rintro ⟨p, hp, hc, rfl⟩
      exact ⟨p, ⟨hp, by simp [hc]⟩, rfl⟩

/-! ### Settings -/

def filterBy (s : Settings) (ds : List Diag) : List Diag :=
  ds.filter fun d => shouldIncludeDiagnostic d.code s

/-- **settings_orthogonal** (analyzer diagnostics of any codes).  Under any of the 8 combinations
    the kept diagnostics are those of the all-on combination minus exactly the codes whose switch
    is off: each switch removes the diagnostics carrying its code(s) and nothing else. -/
theorem settings_orthogonal (s : Settings) (ds : List Diag) :
    filterBy s ds = ds.filter fun d =>
      (s.undeclaredAccounts || d.code != .undeclaredAccount) &&
      (s.undeclaredCommodities || d.code != .undeclaredCommodity) &&
      (s.unbalancedTransactions || (d.code != .unbalanced && d.code != .multipleInferred)) := by
  unfold filterBy
  apply List.filter_congr
  intro d _
  obtain ⟨a, c, u⟩ := s
  cases hcode : d.code <;> cases a <;> cases c <;> cases u <;> rfl

theorem all_on_keeps_everything (ds : List Diag) : filterBy ⟨true, true, true⟩ ds = ds := by
  unfold filterBy
  rw [List.filter_eq_self]
  intro d _
  cases h : d.code <;> simp [shouldIncludeDiagnostic]

/-- What the server publishes (UNDECLARED_* part) under any combination of the three switches,
    expressed through the all-on result: switching undeclaredAccounts off removes exactly the
    UNDECLARED_ACCOUNT warnings, undeclaredCommodities exactly the UNDECLARED_COMMODITY warnings,
    and unbalancedTransactions changes nothing. -/
theorem server_settings_orthogonal (lower : Bytes → Bytes) (files : List Journal) (cur : Nat)
    (curTree : List Nat) (wsTree : Option (List Nat)) (s : Settings) :
    serverAnalyze lower files cur curTree wsTree s =
      (serverAnalyze lower files cur curTree wsTree ⟨true, true, true⟩).filter fun d =>
        (s.undeclaredAccounts || d.code != .undeclaredAccount) &&
        (s.undeclaredCommodities || d.code != .undeclaredCommodity) := by
  unfold serverAnalyze
  simp only [List.filter_map, List.filter_filter]
  congr 1
  apply List.filter_congr
  intro d hd
  -- every diagnostic of the model carries one of the two UNDECLARED codes
  have hcode : d.code = .undeclaredAccount ∨ d.code = .undeclaredCommodity := by
    rw [rule_exact] at hd
    obtain ⟨w, _, rfl⟩ := List.mem_map.mp hd
    unfold render
    cases w.kind <;> simp
  obtain ⟨a, c, u⟩ := s
  rcases hcode with h | h <;> cases a <;> cases c <;>
    simp [shouldIncludeDiagnostic, toPub, h, Function.comp]

/-! ### Sources of declarations -/

/-- **sources_exact.**  The declared sets the server uses are the statement's union: the
    declarations of the current file, of its include tree and of its workspace — with and
    without a workspace, whatever the include tree and the workspace consist of. -/
theorem sources_exact (files : List Journal) (cur : Nat) (curTree : List Nat)
    (wsTree : Option (List Nat)) (x : Bytes) :
    (x ∈ serverDeclaredAccounts files cur curTree wsTree ↔
       x ∈ declaredAccounts ⟨files, cur, curTree, wsTree⟩) ∧
    (x ∈ serverDeclaredCommodities files cur curTree wsTree ↔
       x ∈ declaredCommodities ⟨files, cur, curTree, wsTree⟩) := by
  unfold serverDeclaredAccounts serverDeclaredCommodities externalAccounts externalCommodities
    declaredAccounts declaredCommodities relevant wsDecls declsOf
  simp only [collectAccounts_eq, collectCommodities_eq, List.flatMap_cons, List.flatMap_append,
    List.mem_append, fileAt_eq files cur curTree wsTree]
  cases wsTree <;> simp <;> grind

/-- **server_exact.**  The UNDECLARED_* diagnostics the server publishes for the current file are
    the statement's warnings for D = current file ∪ include tree ∪ workspace, filtered by the two
    switches, each rendered as a protocol diagnostic (0-based range of the posting resp. of the
    commodity token, severity Warning). -/
theorem server_exact (lower : Bytes → Bytes) (files : List Journal) (cur : Nat) (curTree : List Nat)
    (wsTree : Option (List Nat)) (s : Settings) :
    serverAnalyze lower files cur curTree wsTree s =
      (published lower ⟨files, cur, curTree, wsTree⟩
        ⟨s.undeclaredAccounts, s.undeclaredCommodities⟩).map renderPub := by
  simp only [serverAnalyze, published]
  rw [rule_exact]
  have hsrc := sources_exact files cur curTree wsTree
  have hj : declaredAccountsOf (fileAt files cur) = collectDeclaredAccounts (fileAt files cur) :=
    (collectAccounts_eq _).symm
  have hc : declaredCommoditiesOf (fileAt files cur) = collectDeclaredCommodities (fileAt files cur) :=
    (collectCommodities_eq _).symm
  rw [hj, hc]
  have hd := declared_order_irrelevant lower (fun x => (hsrc x).1) (fun x => (hsrc x).2)
    (fileAt files cur)
  unfold serverDeclaredAccounts serverDeclaredCommodities at hd
  rw [hd]
  simp only [List.filter_map, List.map_map]
  congr 1
  apply List.filter_congr
  intro w _
  obtain ⟨k, sub, r⟩ := w
  cases k <;> simp [render, enabled, shouldIncludeDiagnostic]

/-! ### The defect repaired by fix-c18-include-declarations.diff -/

def foo : Bytes := [102, 111, 111]
def fooX : Bytes := [102, 111, 111, 58, 120]
def bar : Bytes := [98, 97, 114]

/-- current file: `account bar`, `include b`, one transaction with a posting to `foo:x`. -/
def cexCur : Journal :=
  { transactions := [{ (default : Transaction) with
      postings := [{ (default : Posting) with account := ⟨fooX, default⟩, range := ⟨⟨5, 5, 40⟩, ⟨5, 25, 60⟩⟩ }] }],
    directives := [.account ⟨bar, default⟩ [] [] [] default],
    comments := [], includes := [⟨[98], default⟩] }

/-- included file: `account foo`. -/
def cexInc : Journal :=
  { transactions := [], directives := [.account ⟨foo, default⟩ [] [] [] default], comments := [], includes := [] }

/-- Before the fix, without a workspace, a declaration made in an included file was not
    consulted: `foo:x` was warned about although `foo` is declared in the include tree
    (replays/C18/include-declarations.jsonl reproduces it against the real server). -/
theorem pinned_include_declarations_counterexample :
    (serverAnalyzeUnfixed goLower [cexCur, cexInc] 0 none ⟨true, true, true⟩).length = 1 ∧
    published goLower ⟨[cexCur, cexInc], 0, [1], none⟩ ⟨true, true⟩ = [] ∧
    serverAnalyze goLower [cexCur, cexInc] 0 [1] none ⟨true, true, true⟩ = [] := by
  decide

/-- The code as pinned agrees with the repaired code (hence with the statement, by
    `server_exact`) exactly when the include tree of the current file declares nothing beyond what
    the file itself and the workspace declare. -/
theorem pinned_server_exact_partial (lower : Bytes → Bytes) (files : List Journal) (cur : Nat)
    (curTree : List Nat) (wsTree : Option (List Nat)) (s : Settings)
    (gA : ∀ x ∈ declsOf files curTree collectDeclaredAccounts,
      x ∈ collectDeclaredAccounts (fileAt files cur) ∨ x ∈ wsDecls files wsTree collectDeclaredAccounts)
    (gC : ∀ x ∈ declsOf files curTree collectDeclaredCommodities,
      x ∈ collectDeclaredCommodities (fileAt files cur) ∨ x ∈ wsDecls files wsTree collectDeclaredCommodities) :
    serverAnalyzeUnfixed lower files cur wsTree s =
      (published lower ⟨files, cur, curTree, wsTree⟩
        ⟨s.undeclaredAccounts, s.undeclaredCommodities⟩).map renderPub := by
  rw [← server_exact]
  simp only [serverAnalyzeUnfixed, serverAnalyze]
  rw [analyze_order_irrelevant lower (fileAt files cur)
    (A' := externalAccounts files cur curTree wsTree) (C' := externalCommodities files cur curTree wsTree)]
  · intro x
    unfold externalAccounts
    simp only [List.mem_append]
    constructor
    · rintro (h | h)
      · exact Or.inl h
      · exact Or.inr (Or.inr h)
    · rintro (h | (h | h) | h)
      · exact Or.inl h
      · exact Or.inl h
      · exact gA x h
      · exact Or.inr h
  · intro x
    unfold externalCommodities
    simp only [List.mem_append]
    constructor
    · rintro (h | h)
      · exact Or.inl h
      · exact Or.inr (Or.inr h)
    · rintro (h | (h | h) | h)
      · exact Or.inl h
      · exact Or.inl h
      · exact gC x h
      · exact Or.inr h

/-- Non-vacuity of the guard: with the declaration of `foo` moved into the current file the
    pinned code is right (and the guard is what fails in the counterexample above). -/
example : (∀ x ∈ declsOf [{ cexCur with directives := cexInc.directives }, { cexInc with directives := [] }] [1]
      collectDeclaredAccounts, x ∈ collectDeclaredAccounts
        (fileAt [{ cexCur with directives := cexInc.directives }, { cexInc with directives := [] }] 0) ∨
      x ∈ wsDecls [{ cexCur with directives := cexInc.directives }, { cexInc with directives := [] }] none
        collectDeclaredAccounts) := by
  intro x hx
  simp [declsOf, fileAt, collectDeclaredAccounts, cexInc] at hx

/-! ### Non-vacuity and the run-time lower-casing -/

/-- The rule does warn: same files, but nothing declares `foo`. -/
example : (published goLower ⟨[cexCur, { cexInc with directives := [] }], 0, [1], none⟩
    ⟨true, true⟩).length = 1 := by decide

/-- For the lower-casing used in the correspondence runs, lower-casing the name and cutting at the
    first colon commute: "the first segment, lower-cased" and "the first segment of the lower-cased
    name" are the same reading. -/
theorem goLower_firstSegment (s : Bytes) : firstSegment (goLower s) = goLower (firstSegment s) := by
  fun_induction goLower s with
  | case1 r ih => simp [firstSegment, goLower, ih]
  | case2 r ih => simp [firstSegment, goLower, ih]
  | case3 b r h1 h2 ih =>
    by_cases hb : b = 58
    · subst hb; simp [firstSegment, goLower, asciiLower]
    · have hl := asciiLower_ne b hb
      simp only [firstSegment, hb, hl, if_false, ih]
      rw [goLower.eq_3]
      · intro r' e1 e2
        obtain ⟨r'', hr, _⟩ := firstSegment_cons e2
        exact h1 r'' e1 hr
      · intro r' e1 e2
        obtain ⟨r2, hr2, hs2⟩ := firstSegment_cons e2
        obtain ⟨r3, hr3, _⟩ := firstSegment_cons hs2
        exact h2 r3 e1 (by rw [hr2, hr3])
  | case4 => simp [firstSegment, goLower]

end HL.Props.C18
