/-
  C10 — Include resolution equals graph reachability, with exact cycle verdicts.

  Model: `HL.Loader` (`load`, `loadFromContent`, `loadF`); `m : Mode` says which of the three
  repairs (repo_patches/fix-include-*.diff) the tree has.  Specification: `HL.Reach`
  (`Reach`, `Edge`, `Loadable`, `Located`, the depth-first traversal `dfs`).
  `load_terminates` holds for every tree; the exactness theorems hold for the repaired tree
  (`Mode.repaired`); the behaviour of the pinned tree is kept as counterexample theorems.
  All theorems quantify over every file system (any number of files, any include graph,
  cyclic or not, any globs), every limit, every content of the cache that is consistent with
  the disk.
-/
import HL.Lemmas.Reach
namespace HL.Props.C10
open HL HL.Loader HL.Reach HL.Lemmas.Loader HL.Lemmas.Reach

/-! ### Termination -/

/-- **load_terminates**: resolving always terminates — on every tree (pinned or repaired), for
    every file system (cyclic or not, finite or not), every limit, cache, root and content the
    entry points' fuel `maxDepth + 1` is enough: `loadF` never runs out of it. -/
theorem load_terminates (fs : FS) (lim : Limits) (m : Mode) (cache : Cache) (root : Path) (file : File) :
    ∃ r es st, loadF fs lim m (fuelFor lim) root file [] 0 ⟨[], cache⟩ = some (r, es, st) := by
  obtain ⟨r, es, st, e, _⟩ := loadF_some fs lim m (fuelFor lim) root file [] 0 ⟨[], cache⟩
    (by unfold fuelFor; omega)
    (by unfold fuelFor mu; split <;> simp)
  exact ⟨r, es, st, e⟩

/-- … and the result does not depend on the fuel: any larger amount gives the same result. -/
theorem load_fuel_independent (fs : FS) (lim : Limits) (m : Mode) (cache : Cache) (root : Path)
    (file : File) (fuel : Nat) (h : fuelFor lim ≤ fuel) :
    loadF fs lim m fuel root file [] 0 ⟨[], cache⟩ =
      loadF fs lim m (fuelFor lim) root file [] 0 ⟨[], cache⟩ := by
  obtain ⟨r, es, st, e⟩ := load_terminates fs lim m cache root file
  rw [e]
  exact loadF_mono fs lim m _ _ h _ _ _ _ _ _ e

/-! ### The repaired loader is the specification's depth-first traversal -/

/-- order of files and diagnostics of a result -/
def view (r : Result) : Option (List Path) × List Err := (r.res.map (·.order), r.errs)

/-- **load_eq_dfs** (`LoadFromContent`): on the repaired tree, with any cache consistent with the
    disk, the files loaded, their order and every diagnostic (kind, path, range, in order) are
    those of the specification's depth-first traversal with ancestor stack. -/
theorem loadFromContent_eq_dfs (fs : FS) (lim : Limits) (hl : 1 ≤ lim.maxDepth) (c : Cache)
    (hc : Cons fs lim c) (root : Path) (rf : File) :
    view (loadFromContent fs lim .repaired c root rf) = expectContent fs lim root rf := by
  unfold loadFromContent expectContent view
  split
  · rfl
  · obtain ⟨res, es, st', e, h1, h2, _⟩ := loadF_sim fs lim (fuelFor lim) 0 (by omega)
      (by unfold fuelFor; omega) root rf [] ⟨[], c⟩ hc
    rw [e]
    simp only [Option.map_some, dfs, h1, h2, Nat.sub_zero]

/-- **load_eq_dfs** (`Load`). -/
theorem load_eq_dfs (fs : FS) (lim : Limits) (hl : 1 ≤ lim.maxDepth) (c : Cache)
    (hc : Cons fs lim c) (root : Path) :
    view (load fs lim .repaired c root) = expect fs lim root := by
  unfold load expect
  cases fs root with
  | none => rfl
  | some rf => exact loadFromContent_eq_dfs fs lim hl c hc root rf

/-! ### Files loaded = files reachable, each once -/

section
variable (fs : FS) (lim : Limits) (root : Path) (rf : File)

theorem dfs_pre2 : Pre2 fs lim root rf root rf [] [] :=
  ⟨by simp [fileOf], Or.inl rfl, Reach.root, fun x hx => by simp at hx,
    fun x hx => by simp only [List.mem_singleton] at hx; exact Or.inl hx⟩

theorem dfs_shape : (dfs fs lim root rf).seen = (dfs fs lim root rf).order.reverse ++ [root] ∧
    (dfs fs lim root rf).seen.Nodup :=
  visit_shape fs lim _ root rf [] [] (by simp) List.nodup_nil

/-- No file is loaded twice, and the root is not among the included files. -/
theorem dfs_nodup : (dfs fs lim root rf).order.Nodup ∧ root ∉ (dfs fs lim root rf).order := by
  obtain ⟨h1, h2⟩ := dfs_shape fs lim root rf
  rw [h1] at h2
  have := List.nodup_append.mp h2
  refine ⟨(List.reverse_perm _).nodup_iff.mp this.1, ?_⟩
  intro hr
  exact this.2.2 root (List.mem_reverse.mpr hr) root (by simp) rfl

/-- Every file loaded is reachable from the root through include directives. -/
theorem dfs_sound : ∀ g ∈ (dfs fs lim root rf).order, Reach fs lim root rf g :=
  (visit_sound fs lim root rf _ root rf [] [] (dfs_pre2 fs lim root rf)).2.1

theorem dfs_pre3 : Pre3 fs root rf root rf [] [] :=
  ⟨by simp [fileOf], Or.inl rfl, fun x hx => by simp at hx⟩

theorem dfs_reach_seen (hnd : NoDepth (dfs fs lim root rf).errs) :
    ∀ g, Reach fs lim root rf g → g ∈ (dfs fs lim root rf).seen := by
  obtain ⟨p1, p2⟩ := visit_complete fs lim root rf (lim.maxDepth - 1) root rf [] []
    (dfs_pre3 fs root rf)
  have hcl := p2 hnd
  intro g hg
  induction hg with
  | root => exact p1 root List.mem_cons_self
  | step _ he hl ih => exact hcl _ ih (by simp) _ he hl

/-- If the depth limit was not hit, every reachable file is loaded — whatever other
    diagnostics (missing, oversized, cycles, bad globs) were produced on the way. -/
theorem dfs_complete (hnd : NoDepth (dfs fs lim root rf).errs) :
    ∀ g, Reach fs lim root rf g → g = root ∨ g ∈ (dfs fs lim root rf).order := by
  intro g hg
  have := dfs_reach_seen fs lim root rf hnd g hg
  rw [(dfs_shape fs lim root rf).1] at this
  simp only [List.mem_append, List.mem_reverse, List.mem_singleton] at this
  exact this.symm

/-- If the depth limit was not hit and some reachable file lies on a cycle of include
    directives, a cycle diagnostic is produced. -/
theorem dfs_cyclic_has_error (hnd : NoDepth (dfs fs lim root rf).errs)
    (hcy : ∃ x, Reach fs lim root rf x ∧ OnCycle fs lim root rf x) :
    ∃ e ∈ (dfs fs lim root rf).errs, e.kind = .cycle := by
  apply Classical.byContradiction
  intro hno
  have hnc : NoCyc (dfs fs lim root rf).errs := fun e he hk => hno ⟨e, he, hk⟩
  obtain ⟨x, hx, hon⟩ := hcy
  have hpost := visit_acyc fs lim root rf (lim.maxDepth - 1) root rf [] []
    ⟨dfs_pre3 fs root rf, by simp, fun x hx => by simp at hx⟩ hnd hnc
  exact hpost.2 x (dfs_reach_seen fs lim root rf hnd x hx) (by simp) hon

/-- Every diagnostic is attached to the directive that names the offending file, in a file that
    is itself reachable, and says something true (see `HL.Reach.Located`). -/
theorem dfs_located : ∀ e ∈ (dfs fs lim root rf).errs, Located fs lim root rf e :=
  (visit_sound fs lim root rf _ root rf [] [] (dfs_pre2 fs lim root rf)).2.2

end

/-- **files_eq_reach**: on the repaired tree `LoadFromContent(root, content)` (content within
    the size limit, any consistent cache) returns a journal whose `FileOrder`
    * has no duplicates and does not contain the root,
    * contains only files reachable from the root through include directives
      (plain, `./`, `../`, absolute, `~/` and glob forms alike — `Names`),
    * and, when no depth-limit diagnostic was produced, contains every such file. -/
theorem files_eq_reach (fs : FS) (lim : Limits) (hl : 1 ≤ lim.maxDepth) (c : Cache)
    (hc : Cons fs lim c) (root : Path) (rf : File) (hsz : rf.size ≤ lim.maxSize) :
    ∃ res, (loadFromContent fs lim .repaired c root rf).res = some res ∧
      res.order.Nodup ∧ root ∉ res.order ∧
      (∀ g ∈ res.order, Reach fs lim root rf g) ∧
      (NoDepth (loadFromContent fs lim .repaired c root rf).errs →
        ∀ g, Reach fs lim root rf g → g = root ∨ g ∈ res.order) := by
  have h := loadFromContent_eq_dfs fs lim hl c hc root rf
  unfold expectContent view at h
  simp only [Nat.not_lt.mpr hsz, if_false, Prod.mk.injEq] at h
  obtain ⟨h1, h2⟩ := h
  cases hr : (loadFromContent fs lim .repaired c root rf).res with
  | none => rw [hr] at h1; simp at h1
  | some res =>
    rw [hr] at h1
    simp only [Option.map_some, Option.some.injEq] at h1
    refine ⟨res, rfl, ?_, ?_, ?_, ?_⟩
    · rw [h1]; exact (dfs_nodup fs lim root rf).1
    · rw [h1]; exact (dfs_nodup fs lim root rf).2
    · rw [h1]; exact dfs_sound fs lim root rf
    · rw [h1, h2]; exact dfs_complete fs lim root rf

/-- The same for `Load(root)`: the root is read from disk. -/
theorem files_eq_reach_load (fs : FS) (lim : Limits) (hl : 1 ≤ lim.maxDepth) (c : Cache)
    (hc : Cons fs lim c) (root : Path) (rf : File) (hroot : fs root = some rf)
    (hsz : rf.size ≤ lim.maxSize) :
    ∃ res, (load fs lim .repaired c root).res = some res ∧
      res.order.Nodup ∧ root ∉ res.order ∧
      (∀ g ∈ res.order, Reach fs lim root rf g) ∧
      (NoDepth (load fs lim .repaired c root).errs →
        ∀ g, Reach fs lim root rf g → g = root ∨ g ∈ res.order) := by
  have : load fs lim .repaired c root = loadFromContent fs lim .repaired c root rf := by
    unfold load; rw [hroot]
  rw [this]
  exact files_eq_reach fs lim hl c hc root rf hsz

/-- **files_match_order** (every tree): `Files` has an entry exactly for the paths of `FileOrder`,
    and every entry is the parse of the file as it is on disk (consistent cache). -/
theorem files_match_order (fs : FS) (lim : Limits) (m : Mode) (c : Cache) (hc : Cons fs lim c)
    (root : Path) (rf : File) (res : Res) (h : (loadFromContent fs lim m c root rf).res = some res) :
    (∀ q, (res.files.get q).isSome = true ↔ q ∈ res.order) ∧
    (∀ q f, res.files.get q = some f → fs q = some f) := by
  unfold loadFromContent at h
  split at h
  · simp at h
  · split at h
    · simp at h
    · rename_i r es st e
      simp only at h
      subst h
      obtain ⟨h1, h2⟩ := loadF_files fs lim m _ _ _ _ _ _ _ _ _ hc e
      exact ⟨h2, fun q f hq => (h1.cons fs lim q f hq).1⟩

/-! ### Diagnostics -/

/-- **errors_local**: on the repaired tree every diagnostic of a load is `Located`: a missing,
    oversized or too-deep include (and a cycle, a refused path, a glob without match) is
    reported with the range of the directive that names it, in a file that is reachable, and
    the reason given is true. -/
theorem errors_local (fs : FS) (lim : Limits) (hl : 1 ≤ lim.maxDepth) (c : Cache)
    (hc : Cons fs lim c) (root : Path) (rf : File) (hsz : rf.size ≤ lim.maxSize) :
    ∀ e ∈ (loadFromContent fs lim .repaired c root rf).errs, Located fs lim root rf e := by
  have h := loadFromContent_eq_dfs fs lim hl c hc root rf
  unfold expectContent view at h
  simp only [Nat.not_lt.mpr hsz, if_false, Prod.mk.injEq] at h
  rw [h.2]
  exact dfs_located fs lim root rf

/-- … and an error on one directive does not stop the others: the loop over a file's
    directives is a fold, each step starts from wherever the previous one ended. -/
theorem errors_do_not_stop (fs : FS) (lim : Limits) (rec : RecS) (cd : Bool) (f : Path)
    (stk : List Path) (its₁ its₂ : List Item) (o : Out) :
    visitItems fs lim rec cd f stk (its₁ ++ its₂) o =
      visitItems fs lim rec cd f stk its₂ (visitItems fs lim rec cd f stk its₁ o) := by
  induction its₁ generalizing o with
  | nil => rfl
  | cons it rest ih => cases it <;> simp only [List.cons_append, visitItems, ih]

/-- A failed include leaves the files loaded so far untouched and adds exactly one diagnostic
    on the directive (`rng`) naming the file (`g`). -/
theorem failed_include_is_local (fs : FS) (lim : Limits) (rec : RecS) (cd : Bool) (f : Path)
    (stk : List Path) (rng : Rng) (g : Path) (o : Out)
    (h1 : stk.contains g = false) (h2 : o.seen.contains g = false)
    (h3 : ¬ (Loadable fs lim g ∧ cd = true)) :
    ∃ e, e.path = g ∧ e.rng = rng ∧ e.kind ≠ .cycle ∧
      follow fs lim rec cd f stk rng g o = { o with errs := o.errs ++ [e] } := by
  unfold follow
  simp only [h1, h2, Bool.false_eq_true, if_false]
  split
  · exact ⟨_, rfl, rfl, by simp, rfl⟩
  · rename_i fg hfg
    split
    · exact ⟨_, rfl, rfl, by simp, rfl⟩
    · rename_i hs
      split
      · exact ⟨_, rfl, rfl, by simp, rfl⟩
      · rename_i hcd
        exact absurd ⟨⟨fg, hfg, Nat.le_of_not_lt hs⟩, by simpa using hcd⟩ h3

/-! ### Cycles -/

/-- **cycle_iff_backedge**, the step of the traversal that follows one directive of `f`
    (range `rng`, target `g`) while `stk` is the stack of files currently being included
    (`f` on top):
    * `g` on the stack (a back edge) — exactly one cycle diagnostic is attached to this
      directive, nothing is loaded;
    * `g` not on the stack — this directive gets no cycle diagnostic: it is skipped silently
      (already loaded along another path — a diamond is not an error), or gets one
      non-cycle diagnostic, or `g` is loaded and the only further diagnostics are those of
      loading `g`. -/
theorem cycle_iff_backedge (fs : FS) (lim : Limits) (rec : RecS) (cd : Bool) (f : Path)
    (stk : List Path) (rng : Rng) (g : Path) (o : Out) :
    (stk.contains g = true →
      follow fs lim rec cd f stk rng g o = { o with errs := o.errs ++ [⟨.cycle, g, "", rng, some f⟩] }) ∧
    (stk.contains g = false →
      follow fs lim rec cd f stk rng g o = o ∨
      (∃ e, e.path = g ∧ e.rng = rng ∧ e.kind ≠ .cycle ∧
        follow fs lim rec cd f stk rng g o = { o with errs := o.errs ++ [e] }) ∨
      (∃ fg, fs g = some fg ∧ follow fs lim rec cd f stk rng g o =
        { order := o.order ++ g :: (rec g fg stk o.seen).order,
          errs := o.errs ++ (rec g fg stk o.seen).errs, seen := (rec g fg stk o.seen).seen })) := by
  constructor
  · intro h; unfold follow; simp only [h, if_true]
  · intro h
    by_cases h2 : o.seen.contains g = true
    · left; unfold follow; simp only [h, h2, Bool.false_eq_true, if_false, if_true]
    · have h2' : o.seen.contains g = false := by simpa using h2
      by_cases h3 : Loadable fs lim g ∧ cd = true
      · right; right
        obtain ⟨⟨fg, hfg, hs⟩, hcd⟩ := h3
        refine ⟨fg, hfg, ?_⟩
        unfold follow
        simp only [h, h2', Bool.false_eq_true, if_false, hfg, Nat.not_lt.mpr hs, hcd, Bool.not_true]
      · right; left
        exact failed_include_is_local fs lim rec cd f stk rng g o h h2' h3

/-- **cycle_sound**: a cycle diagnostic reported by the repaired loader is a real cycle of
    include directives through the directive it is attached to: the including file `b`
    names `g` there, and `g` leads back to `b`. -/
theorem cycle_sound (fs : FS) (lim : Limits) (hl : 1 ≤ lim.maxDepth) (c : Cache)
    (hc : Cons fs lim c) (root : Path) (rf : File) (hsz : rf.size ≤ lim.maxSize)
    (e : Err) (he : e ∈ (loadFromContent fs lim .repaired c root rf).errs) (hk : e.kind = .cycle) :
    ∃ b, e.base = some b ∧ Reach fs lim root rf b ∧ EdgeL fs lim root rf b e.path ∧
      LeadsL fs lim root rf e.path b := by
  have hloc := errors_local fs lim hl c hc root rf hsz e he
  cases hloc with
  | cycle hr hf hi hn hent hlead => exact ⟨_, rfl, hr, ⟨⟨_, hf, _, hi, hn⟩, hent⟩, hlead⟩
  | notFound => simp at hk
  | tooLarge => simp at hk
  | depth => simp at hk
  | directive _ _ _ h => rcases h with h | h | h <;> simp [h] at hk
  | parse => simp [parseErr] at hk

/-- no reachable file lies on a cycle of include directives -/
def Acyclic (fs : FS) (lim : Limits) (root : Path) (rf : File) : Prop :=
  ∀ b, Reach fs lim root rf b → ¬ OnCycle fs lim root rf b

/-- **acyclic_no_cycle_error**: if the include graph has no cycle, the repaired loader reports
    no cycle — however many different paths lead to the same file (diamonds). -/
theorem acyclic_no_cycle_error (fs : FS) (lim : Limits) (hl : 1 ≤ lim.maxDepth) (c : Cache)
    (hc : Cons fs lim c) (root : Path) (rf : File) (hsz : rf.size ≤ lim.maxSize)
    (hac : Acyclic fs lim root rf) :
    ∀ e ∈ (loadFromContent fs lim .repaired c root rf).errs, e.kind ≠ .cycle := by
  intro e he hk
  obtain ⟨b, _, hr, hedge, hlead⟩ := cycle_sound fs lim hl c hc root rf hsz e he hk
  exact hac b hr ⟨e.path, hedge, hlead⟩

/-- **cycle_error_iff_cyclic**: when the depth limit is not hit, the repaired loader reports a
    cycle if and only if some file reachable from the root lies on a cycle of include
    directives. -/
theorem cycle_error_iff_cyclic (fs : FS) (lim : Limits) (hl : 1 ≤ lim.maxDepth) (c : Cache)
    (hc : Cons fs lim c) (root : Path) (rf : File) (hsz : rf.size ≤ lim.maxSize)
    (hnd : NoDepth (loadFromContent fs lim .repaired c root rf).errs) :
    (∃ e ∈ (loadFromContent fs lim .repaired c root rf).errs, e.kind = .cycle) ↔
      ∃ x, Reach fs lim root rf x ∧ OnCycle fs lim root rf x := by
  constructor
  · rintro ⟨e, he, hk⟩
    obtain ⟨b, _, hr, hedge, hlead⟩ := cycle_sound fs lim hl c hc root rf hsz e he hk
    exact ⟨b, hr, e.path, hedge, hlead⟩
  · intro hcy
    have h := loadFromContent_eq_dfs fs lim hl c hc root rf
    unfold expectContent view at h
    simp only [Nat.not_lt.mpr hsz, if_false, Prod.mk.injEq] at h
    rw [h.2] at hnd ⊢
    exact dfs_cyclic_has_error fs lim root rf hnd hcy

/-! ### The pinned tree (kept for the record) and non-vacuity -/

def mkInc (p : Nat) (l : Nat) : Inc := ⟨"", ⟨⟨l, 1, 0⟩, ⟨l, 9, 8⟩⟩, .file p⟩
def mkFile (ts : List Nat) : File := ⟨10, 0, ts.zipIdx.map (fun (t, i) => mkInc t (i + 1)), []⟩

/-- diamond f0 → f1, f2; f1 → f3; f2 → f3 -/
def diamond : FS := fun p => match p with
  | 0 => some (mkFile [1, 2]) | 1 => some (mkFile [3]) | 2 => some (mkFile [3])
  | 3 => some (mkFile []) | _ => none

/-- f0 includes f1, f2, f3 side by side -/
def wide : FS := fun p => match p with
  | 0 => some (mkFile [1, 2, 3]) | 1 => some (mkFile []) | 2 => some (mkFile [])
  | 3 => some (mkFile []) | _ => none

/-- f0 → f1 → f0 and f1 → f1 -/
def loop : FS := fun p => match p with
  | 0 => some (mkFile [1]) | 1 => some (mkFile [1, 0]) | _ => none

def brief (r : Result) : Option (List Path) × List (Kind × Path × Option Path × Nat) :=
  (r.res.map (·.order), r.errs.map fun e => (e.kind, e.path, e.base, e.rng.start.line))

/-- Pinned tree (DESIGN §8 row 8, reproduced against the real loader): the second path to f3 in
    a diamond is reported as a cycle "f2 includes f3". -/
theorem diamond_counterexample :
    brief (load diamond ⟨1000, 50⟩ .pinned [] 0) = (some [1, 3, 2], [(.cycle, 3, some 2, 1)]) := by
  decide +kernel

/-- Pinned tree (DESIGN §8 row 9): with depth limit 2 only the first of three sibling includes is
    loaded; the other two get "depth limit exceeded" with no range (line 0). -/
theorem wide_depth_counterexample :
    brief (load wide ⟨1000, 2⟩ .pinned [] 0) = (some [1], [(.depth, 2, none, 0), (.depth, 3, none, 0)]) := by
  decide +kernel

/-- The repaired tree on the same inputs, and on a graph with a 2-cycle and a self-loop: the
    cycle diagnostics sit on the directives that close the cycles (f1 line 1 → f1, line 2 → f0). -/
example : brief (load diamond ⟨1000, 50⟩ .repaired [] 0) = (some [1, 3, 2], []) := by decide +kernel
example : brief (load wide ⟨1000, 2⟩ .repaired [] 0) = (some [1, 2, 3], []) := by decide +kernel
example : brief (load loop ⟨1000, 50⟩ .repaired [] 0) =
    (some [1], [(.cycle, 1, some 1, 1), (.cycle, 0, some 1, 2)]) := by decide +kernel
/-- Non-vacuity of the hypotheses of the theorems above: an empty cache is consistent, the
    diamond is loaded without depth diagnostics, `loop` has a reachable file on a cycle. -/
example : Cons diamond ⟨1000, 50⟩ [] := fun p f h => by simp [Cache.get] at h
example : NoDepth (loadFromContent diamond ⟨1000, 50⟩ .repaired [] 0 (mkFile [1, 2])).errs := by
  intro e he
  have : (loadFromContent diamond ⟨1000, 50⟩ .repaired [] 0 (mkFile [1, 2])).errs = [] := by decide +kernel
  rw [this] at he; simp at he
example : ∃ x, Reach loop ⟨1000, 50⟩ 0 (mkFile [1]) x ∧ OnCycle loop ⟨1000, 50⟩ 0 (mkFile [1]) x := by
  have e01 : Edge loop 0 (mkFile [1]) 0 1 :=
    ⟨mkFile [1], by simp [fileOf], mkInc 1 1, by simp [mkFile, List.zipIdx], Or.inl rfl⟩
  have e10 : Edge loop 0 (mkFile [1]) 1 0 :=
    ⟨mkFile [1, 0], by simp [fileOf, loop], mkInc 0 2, by simp [mkFile, List.zipIdx], Or.inl rfl⟩
  have l1 : Loadable loop ⟨1000, 50⟩ 1 := ⟨mkFile [1, 0], rfl, by decide⟩
  exact ⟨0, Reach.root, 1, ⟨e01, Or.inr l1⟩, LeadsL.tail (LeadsL.refl 1) ⟨e10, Or.inl rfl⟩⟩

/-- a chain deeper than the limit: the too-deep include is reported on its directive (line 1 of f1) -/
example : brief (load (fun p => if p < 5 then some (mkFile [p + 1]) else none) ⟨1000, 2⟩ .repaired [] 0) =
    (some [1], [(.depth, 2, none, 1)]) := by decide +kernel

end HL.Props.C10
