/-
  C14 — Background work never races with, blocks or corrupts later requests.

  Shape of the argument (DESIGN 7.C14):
    1. `lockset_sound` / `no_deadlock` / `progress`: general theorems about the abstract
       transition system of HL/Model/Lockset.lean — for EVERY access table, lock-order table
       and pool of threads (any number of publish and refresh goroutines, any programs).
    2. `table_disciplined`, `table_covered`, `lock_order_acyclic`, `translator_facts`: closed
       facts about the table that tools/access REGENERATES from the Go source on every run
       (HL/Generated/Access.lean), decided by the kernel.
    3. `server_race_free`, `server_deadlock_free`: 1 applied to 2.
  Trusted, not proved: that the Go program is an instance of a pool that conforms to the
  extracted table (the translator's completeness and its fresh / atomic / role judgements),
  the Go memory model, and the race detector used by the schedule harness as a cross-check.
-/
import HL.Lemmas.Lockset
import HL.Generated.AccessExpect
import HL.Spec.Bg
namespace HL.Props.C14
open HL.Lockset HL.Lemmas.Lockset HL.Generated.Access HL.Generated.AccessExpect

section general
variable {ι κ : Type} [DecidableEq ι] [DecidableEq κ]

/-- In every reachable state a lock that is held exclusively is held by nobody else
    (mutex / rwmutex semantics are respected by the transition system). -/
theorem locks_exclusive (P : Pool ι κ) {σ : State κ} (hR : Reachable P σ)
    (t1 t2 : Nat) (l : κ) (m : Mode)
    (h1 : (l, Mode.excl) ∈ σ.held t1) (h2 : (l, m) ∈ σ.held t2) : t1 = t2 :=
  (inv_of_reachable hR).mutex t1 t2 l m h1 h2

/-- At every point of every run a thread holds exactly the locks that the acquire / release
    instructions of its executed program prefix leave held: the static lock column of the
    table speaks about the dynamic state. -/
theorem held_is_static (P : Pool ι κ) {σ : State κ} (hR : Reachable P σ) (t : Nat) :
    σ.held t = heldAfter ((P.prog t).take (σ.pc t)) :=
  (inv_of_reachable hR).heldEq t

theorem concurrentRoles_of (a b : Role) (h1 : a ≠ .init) (h2 : b ≠ .init)
    (h3 : ¬ (a = .main ∧ b = .main)) : concurrentRoles a b = true := by
  cases a <;> cases b <;> simp_all [concurrentRoles]

/-- **Soundness of the lockset discipline.**  For every table, every pool of threads whose
    accesses are instances of table rows (with the row's locks statically held) and whose
    thread structure is the server's (sequential initialisation, one handler thread, any
    number of background goroutines): if the table is disciplined, no reachable state has two
    different running threads about to perform conflicting accesses. -/
theorem lockset_sound (T : List (Row ι κ)) (P : Pool ι κ)
    (hC : Conforms T P) (hW : WF P) (hD : disciplined T = true)
    {σ : State κ} (hR : Reachable P σ) : ¬ Race P σ := by
  rintro ⟨t1, t2, a1, a2, hne, hs1, hs2, hn1, hn2, hloc, hw, hat, hf1, hf2⟩
  have hI := inv_of_reachable hR
  obtain ⟨r1, hr1, hrole1, hl1, hk1, ha1, hfr1, hlk1⟩ := hC t1 (σ.pc t1) a1 hn1
  obtain ⟨r2, hr2, hrole2, hl2, hk2, ha2, hfr2, hlk2⟩ := hC t2 (σ.pc t2) a2 hn2
  have hpair : pairOK r1 r2 = true := by
    have := List.all_eq_true.mp hD r1 hr1
    exact List.all_eq_true.mp this r2 hr2
  -- the two rows conflict
  have hconf : rowConflict r1 r2 = true := by
    unfold rowConflict
    have e1 : (r1.loc == r2.loc) = true := by rw [hl1, hl2, hloc]; exact beq_self_eq_true _
    have e2 : (r1.kind == Kind.write || r2.kind == Kind.write) = true := by
      rw [hk1, hk2]
      rcases hw with h | h <;> simp [h]
    have e3 : (!(r1.atomic && r2.atomic)) = true := by
      rw [ha1, ha2]
      cases h1 : a1.atomic <;> cases h2 : a2.atomic <;> simp_all
    have e4 : (!r1.fresh) = true := by rw [hfr1, hf1]; rfl
    have e5 : (!r2.fresh) = true := by rw [hfr2, hf2]; rfl
    rw [e1, e2, e3, e4, e5]; rfl
  -- their roles can run concurrently
  have hconc : concurrentRoles r1.role r2.role = true := by
    have un1 := unfinished_of_next hs1 hn1
    have un2 := unfinished_of_next hs2 hn2
    have n1 : r1.role ≠ Role.init := by
      intro h
      have h0 : t1 = 0 := (hW.init_iff t1).mp (hrole1 ▸ h)
      subst h0
      have := initDone hW hR t2 (fun h => hne h.symm) hs2
      have := un1.2
      omega
    have n2 : r2.role ≠ Role.init := by
      intro h
      have h0 : t2 = 0 := (hW.init_iff t2).mp (hrole2 ▸ h)
      subst h0
      have := initDone hW hR t1 hne hs1
      have := un2.2
      omega
    have n3 : ¬ (r1.role = Role.main ∧ r2.role = Role.main) := by
      rintro ⟨h1, h2⟩
      exact hne (hW.main_unique t1 t2 (hrole1 ▸ h1) (hrole2 ▸ h2))
    exact concurrentRoles_of _ _ n1 n2 n3
  -- so they hold a common lock, one of them exclusively: impossible
  have hcl : commonLock r1 r2 = true := by
    unfold pairOK at hpair
    rw [hconf, hconc] at hpair
    simpa using hpair
  unfold commonLock at hcl
  obtain ⟨x, hx, hcl⟩ := List.any_eq_true.mp hcl
  obtain ⟨y, hy, hxy⟩ := List.any_eq_true.mp hcl
  simp only [Bool.and_eq_true, Bool.or_eq_true, beq_iff_eq] at hxy
  obtain ⟨hl, hm⟩ := hxy
  have hx' : x ∈ σ.held t1 := by rw [hI.heldEq t1]; exact hlk1 x hx
  have hy' : y ∈ σ.held t2 := by rw [hI.heldEq t2]; exact hlk2 y hy
  obtain ⟨xl, xm⟩ := x
  obtain ⟨yl, ym⟩ := y
  simp only at hl hm
  subst hl
  rcases hm with h | h
  · subst h; exact hne (hI.mutex t1 t2 xl ym hx' hy')
  · subst h; exact hne (hI.mutex t2 t1 xl xm hy' hx').symm

/-- **Deadlock freedom from an acyclic lock order.**  For every pool whose acquisitions respect
    an order table that has a strict rank, and whose threads release what they acquire: in
    every reachable state in which some started thread is not finished, some such thread is
    not blocked — not even under the most blocking reading of Go's RWMutex (a reader waits
    for any holder and for any waiting writer). -/
theorem no_deadlock (O : List (κ × κ)) (rank : κ → Nat) (P : Pool ι κ)
    (hO : OrderConforms O P) (hA : acyclicBy rank O = true) (hB : Balanced P)
    {σ : State κ} (hR : Reachable P σ) (hU : ∃ t, Unfinished P σ t) :
    ∃ t, Unfinished P σ t ∧ ¬ StrictBlocked P σ t := by
  apply Classical.byContradiction
  intro hno
  have hall : ∀ t, Unfinished P σ t → StrictBlocked P σ t := by
    intro t ht
    apply Classical.byContradiction
    intro hb
    exact hno ⟨t, ht, hb⟩
  have hI := inv_of_reachable hR
  let M := (O.map fun q => rank q.2).sum
  have hM : ∀ p ∈ O, rank p.2 ≤ M := rank_bound rank O
  -- whoever waits for `l` waits for a holder of `l`, who waits for a lock of higher rank
  have holder : ∀ t l m, Unfinished P σ t → next P σ t = some (.acq l m) →
      ∃ t' l' m', Unfinished P σ t' ∧ next P σ t' = some (.acq l' m') ∧ (l, l') ∈ O := by
    intro t l m hu hn
    have hex : ∃ t' m', (l, m') ∈ σ.held t' := by
      obtain ⟨l0, m0, hn0, hb⟩ := hall t hu
      rw [hn] at hn0
      injection hn0 with hn0
      injection hn0 with e1 e2
      subst e1; subst e2
      rcases hb with hb | ⟨_, w, hsw, hnw⟩
      · exact hb
      · -- a waiting writer is itself blocked by a holder
        obtain ⟨l1, m1, hn1, hb1⟩ := hall w (unfinished_of_next hsw hnw)
        rw [hnw] at hn1
        injection hn1 with hn1
        injection hn1 with e1 e2
        subst e1; subst e2
        rcases hb1 with hb1 | ⟨hm, _⟩
        · exact hb1
        · cases hm
    obtain ⟨t', m', hh⟩ := hex
    have hu' := unfinished_of_holds hI hB hh
    obtain ⟨l', m'', hn', _⟩ := hall t' hu'
    refine ⟨t', l', m'', hu', hn', ?_⟩
    have := hO t' (σ.pc t') l' m'' hn' (l, m') (by rw [← hI.heldEq t']; exact hh)
    exact this
  have ascend : ∀ k t l m, Unfinished P σ t → next P σ t = some (.acq l m) →
      M + 1 ≤ rank l + k → False := by
    intro k
    induction k with
    | zero =>
      intro t l m hu hn hk
      obtain ⟨t', l', m', _, _, hmem⟩ := holder t l m hu hn
      have h1 := List.all_eq_true.mp hA (l, l') hmem
      have h2 := hM (l, l') hmem
      simp only [decide_eq_true_eq] at h1
      simp only at h2
      omega
    | succ k ih =>
      intro t l m hu hn hk
      obtain ⟨t', l', m', hu', hn', hmem⟩ := holder t l m hu hn
      have h1 := List.all_eq_true.mp hA (l, l') hmem
      simp only [decide_eq_true_eq] at h1
      exact ih t' l' m' hu' hn' (by omega)
  obtain ⟨t, hu⟩ := hU
  obtain ⟨l, m, hn, _⟩ := hall t hu
  exact ascend (M + 1) t l m hu hn (by omega)

/-- Corollary: under the same hypotheses the system can always take a step while some started
    thread is unfinished. -/
theorem progress (O : List (κ × κ)) (rank : κ → Nat) (P : Pool ι κ)
    (hO : OrderConforms O P) (hA : acyclicBy rank O = true) (hB : Balanced P)
    {σ : State κ} (hR : Reachable P σ) (hU : ∃ t, Unfinished P σ t) :
    ∃ σ', Step P σ σ' := by
  obtain ⟨t, hu, hnb⟩ := no_deadlock O rank P hO hA hB hR hU
  obtain ⟨i, hn⟩ := next_some_of_unfinished hu
  refine ⟨fire σ t i, t, i, hu.1, hn, ?_, rfl⟩
  cases i with
  | acq l m =>
    have hfree : ∀ t' m', (l, m') ∉ σ.held t' := by
      intro t' m' hh
      exact hnb ⟨l, m, hn, Or.inl ⟨t', m', hh⟩⟩
    cases m with
    | excl => exact hfree
    | shared => exact fun t' => hfree t' Mode.excl
  | rel l => trivial
  | acc a => trivial
  | spawn t' => trivial

end general

/-! ### The regenerated table -/

-- Diagnostics for the build log: if one of the closed facts below fails, these lines name the
-- rows / pairs responsible (function and line in the Go source).
#eval show IO Unit from do
  for r in uncovered do
    IO.println s!"C14 UNCOVERED ACCESS: {repr r.loc} {repr r.kind} by role {repr r.role} holding {repr r.locks} at {r.sites} is not covered by the protection stated in AccessExpect.lean"
  for p in (racePairs accessTable).take 20 do
    IO.println s!"C14 RACE PAIR: {repr p.1.loc}: {repr p.1.kind} by {repr p.1.role} holding {repr p.1.locks} at {p.1.sites}  ||  {repr p.2.kind} by {repr p.2.role} holding {repr p.2.locks} at {p.2.sites}"

/-- The access table extracted from the current Go source obeys the lockset discipline:
    every two conflicting accesses that can be performed by two different threads hold a
    common lock, at least one exclusively. -/
theorem table_disciplined : disciplined accessTable = true := by decide +kernel

/-- Every row of the regenerated table is an instance of the protection that
    HL/Generated/AccessExpect.lean states for its location (guarded by a named lock / atomic
    cell / immutable after initialisation / handler-thread only). -/
theorem table_covered : accessTable.all covered = true := by decide +kernel

theorem holds_spec {r : Row Loc Lock} {l : Lock} {b : Bool} (h : holds r l b = true) :
    ∃ x ∈ r.locks, x.1 = l ∧ (b = true → x.2 = Mode.excl) := by
  unfold holds at h
  obtain ⟨x, hx, hxl⟩ := List.any_eq_true.mp h
  simp only [Bool.and_eq_true, beq_iff_eq, Bool.or_eq_true, Bool.not_eq_true'] at hxl
  refine ⟨x, hx, hxl.1, ?_⟩
  intro hb
  rcases hxl.2 with h1 | h1
  · rw [hb] at h1; cases h1
  · exact h1

theorem commonLock_of {r s : Row Loc Lock} {x y : Lock × Mode} (hx : x ∈ r.locks) (hy : y ∈ s.locks)
    (hl : x.1 = y.1) (hm : x.2 = Mode.excl ∨ y.2 = Mode.excl) : commonLock r s = true := by
  unfold commonLock
  apply List.any_eq_true.mpr
  refine ⟨x, hx, List.any_eq_true.mpr ⟨y, hy, ?_⟩⟩
  simp only [Bool.and_eq_true, beq_iff_eq, Bool.or_eq_true]
  exact ⟨hl, hm⟩

/-- The protections of AccessExpect.lean imply the lockset discipline, for every table over
    the generated locations: if each row is covered by the protection stated for its location,
    every conflicting pair is fine. -/
theorem protection_sound (T : List (Row Loc Lock)) (hT : T.all covered = true) :
    disciplined T = true := by
  unfold disciplined
  apply List.all_eq_true.mpr
  intro r hr
  apply List.all_eq_true.mpr
  intro s hs
  have cr := List.all_eq_true.mp hT r hr
  have cs := List.all_eq_true.mp hT s hs
  unfold pairOK
  cases hc : rowConflict r s with
  | false => simp
  | true =>
    cases hcc : concurrentRoles r.role s.role with
    | false => simp
    | true =>
      simp only [Bool.and_self, Bool.not_true, Bool.false_or]
      unfold rowConflict at hc
      simp only [Bool.and_eq_true, beq_iff_eq, Bool.or_eq_true, Bool.not_eq_true'] at hc
      obtain ⟨⟨⟨⟨hloc, hw⟩, hat⟩, hfr⟩, hfs⟩ := hc
      unfold concurrentRoles at hcc
      simp only [Bool.and_eq_true, bne_iff_ne, ne_eq, Bool.not_eq_true', beq_eq_false_iff_ne, Bool.and_eq_false_iff] at hcc
      obtain ⟨⟨hri, hsi⟩, hmm⟩ := hcc
      unfold covered at cr cs
      have hri' : (r.role == Role.init) = false := by simpa using hri
      have hsi' : (s.role == Role.init) = false := by simpa using hsi
      rw [hfr, hri'] at cr
      rw [hfs, hsi'] at cs
      simp only [Bool.false_or] at cr cs
      rw [← hloc] at cs
      cases hp : protection r.loc with
      | guardedBy l =>
        rw [hp] at cr cs
        simp only at cr cs
        obtain ⟨x, hx, hxl, hxm⟩ := holds_spec cr
        obtain ⟨y, hy, hyl, hym⟩ := holds_spec cs
        apply commonLock_of hx hy (hxl.trans hyl.symm)
        rcases hw with h | h
        · exact Or.inl (hxm (by simp [h]))
        · exact Or.inr (hym (by simp [h]))
      | atomicCell =>
        rw [hp] at cr cs
        simp only at cr cs
        rw [cr, cs] at hat
        simp at hat
      | immutableAfterInit =>
        rw [hp] at cr cs
        simp only [beq_iff_eq] at cr cs
        rw [cr, cs] at hw
        simp at hw
      | mainOnly =>
        rw [hp] at cr cs
        simp only [beq_iff_eq] at cr cs
        rcases hmm with h | h
        · exact absurd cr h
        · exact absurd cs h
      | mainOwned l =>
        rw [hp] at cr cs
        simp only at cr cs
        by_cases hrm : r.role = Role.main
        · have hsm : s.role ≠ Role.main := by
            rcases hmm with h | h
            · exact absurd hrm h
            · exact h
          simp only [hrm, beq_self_eq_true, if_true, Bool.or_eq_true, beq_iff_eq] at cr
          have hsm' : (s.role == Role.main) = false := by simpa using hsm
          simp only [hsm', Bool.false_eq_true, if_false, Bool.and_eq_true, beq_iff_eq] at cs
          obtain ⟨y, hy, hyl, _⟩ := holds_spec cs.2
          have hrw : r.kind = Kind.write := by
            rcases hw with h | h
            · exact h
            · rw [cs.1] at h; cases h
          rcases cr with h | h
          · rw [h] at hrw; cases hrw
          · obtain ⟨x, hx, hxl, hxm⟩ := holds_spec h
            exact commonLock_of hx hy (hxl.trans hyl.symm) (Or.inl (hxm rfl))
        · have hrm' : (r.role == Role.main) = false := by simpa using hrm
          simp only [hrm', Bool.false_eq_true, if_false, Bool.and_eq_true, beq_iff_eq] at cr
          obtain ⟨x, hx, hxl, _⟩ := holds_spec cr.2
          by_cases hsm : s.role = Role.main
          · simp only [hsm, beq_self_eq_true, if_true, Bool.or_eq_true, beq_iff_eq] at cs
            have hsw : s.kind = Kind.write := by
              rcases hw with h | h
              · rw [cr.1] at h; cases h
              · exact h
            rcases cs with h | h
            · rw [h] at hsw; cases hsw
            · obtain ⟨y, hy, hyl, hym⟩ := holds_spec h
              exact commonLock_of hx hy (hxl.trans hyl.symm) (Or.inr (hym rfl))
          · have hsm' : (s.role == Role.main) = false := by simpa using hsm
            simp only [hsm', Bool.false_eq_true, if_false, Bool.and_eq_true, beq_iff_eq] at cs
            rcases hw with h | h
            · rw [cr.1] at h; cases h
            · rw [cs.1] at h; cases h

/-- The discipline of the regenerated table, derived a second time: from the per-location
    protections instead of the pairwise check. -/
theorem table_disciplined_by_protection : disciplined accessTable = true :=
  protection_sound accessTable table_covered

/-- The lock-acquisition nesting extracted from the source is acyclic (strictly ranked). -/
theorem lock_order_acyclic : acyclicBy lockRank lockOrder = true := by decide +kernel

/-- Facts about the source that the thread structure of the model relies on: the translator
    understood every construct and had complete type information; the jsonrpc2 handler is
    called inline (one `main` thread); NewServer and SetClient precede serving; the
    initialisation code starts no goroutine; lock-owning structs are only constructed during
    initialisation (so a lock field identifies one lock). -/
theorem translator_facts :
    unsupported = [] ∧ typeErrors = 0 ∧ serialHandler = true ∧ setClientBeforeServe = true ∧
    noSpawnInInit = true ∧ constructedOK = true := by
  refine ⟨by decide, by decide, by decide, by decide, by decide +kernel, by decide +kernel⟩

/-- The locations a background goroutine (publish / refresh) writes after publication, from the
    regenerated table.  Everything else a handler reads is written by the handler thread itself
    (or during initialisation), so a response can deviate from the one computed from the
    document state only through these: the settings and the CLI client (configuration,
    C19), the loader cache and limits (only consulted by loads), the workspace's
    declared-account / commodity caches (recomputed from the workspace state under its lock),
    and `Server.resolved` — the subject of `response_is_function_of_state` below. -/
def backgroundWrites : List Loc :=
  ((accessTable.filter fun r => (r.role == .publish || r.role == .refresh) && r.kind == .write && !r.fresh).map
    (·.loc)).eraseDups

/-- Whatever a background goroutine writes after publication is written under a lock that every
    other access of the location takes too, or through a `sync` type — no field is named here, so
    renaming or regrouping the fields changes nothing; `#eval backgroundWrites` lists them (for
    the current source: the loader cache and limits, `Server.cliClient`, `Server.resolved`,
    `Server.settings`, the workspace's declared-account / commodity caches). -/
theorem background_writes_protected :
    backgroundWrites.all (fun l => match protection l with
      | .guardedBy _ => true | .atomicCell => true | _ => false) = true := by
  decide +kernel

/-- The handlers that read `Server.resolved` (harness kinds completion / hover / definition /
    references; Rename, InlineCompletion and the accessor GetResolved are not exercised by the
    harness). -/
theorem resolved_readers :
    resolvedReaders = ["Completion", "Definition", "GetResolved", "Hover", "InlineCompletion",
      "References", "Rename"] := by decide

/-- What the transition system `HL.Bg` assumes about writers of `Server.resolved`, as a fact
    regenerated from the source: every call that can change the map (Store, Delete, ...; in the
    current source `dropDocCaches` — the delete at a version bump / close, events `change`,
    `close` — and `storeResolvedIfCurrent` — the version-checked store, event `finish` of a
    background task and the `store` access of a request) is made inside docVerMu, the lock
    under which the document's number is read and written.  A store outside it — the
    unconditional store of the pinned code, or a handler storing what it loaded without asking
    whether the document is still at that version — breaks this proof.  (Function names are
    not pinned: a rename does not.) -/
theorem resolved_mutators_versioned :
    resolvedMutators ≠ [] ∧ resolvedMutators.all (·.2) = true := by
  decide

/-- **C14, race part.**  Every pool of threads that is an instance of the extracted table —
    any number of publish and refresh goroutines, any interleaving with the serial handler
    thread — never reaches a state with a data race. -/
theorem server_race_free (P : Pool Loc Lock) (hC : Conforms accessTable P) (hW : WF P)
    {σ : State Lock} (hR : Reachable P σ) : ¬ Race P σ :=
  lockset_sound accessTable P hC hW table_disciplined hR

/-- **C14, blocking part.**  Every pool whose lock acquisitions nest as the extracted
    lock-order table says, and whose threads release their locks, can always make progress. -/
theorem server_deadlock_free (P : Pool Loc Lock) (hO : OrderConforms lockOrder P)
    (hB : Balanced P) {σ : State Lock} (hR : Reachable P σ) (hU : ∃ t, Unfinished P σ t) :
    (∃ t, Unfinished P σ t ∧ ¬ StrictBlocked P σ t) ∧ ∃ σ', Step P σ σ' :=
  ⟨no_deadlock lockOrder lockRank P hO lock_order_acyclic hB hR hU,
   progress lockOrder lockRank P hO lock_order_acyclic hB hR hU⟩

/-! ### The discipline check is not vacuous: the unfixed source fails it -/

/-- The `Server.cliClient` rows of the table extracted from the source BEFORE
    repo_patches/fix-race-cliclient.diff (frozen copy): `reinitCLI` (reached from
    `refreshConfiguration`, a goroutine) wrote the field without a lock; `getCodeActions` and
    `ExecuteCommand` read it on the handler thread without a lock. -/
def unfixedCliClientRows : List (Row Nat Nat) := [
  ⟨0, .init, .write, [], false, true, ["server.NewServer server.go:43"]⟩,
  ⟨0, .init, .write, [], false, false, ["server.Server.reinitCLI server.go:49"]⟩,
  ⟨0, .main, .read, [], false, false, ["server.Server.ExecuteCommand code_action.go:79", "server.Server.getCodeActions code_action.go:41"]⟩,
  ⟨0, .refresh, .write, [], false, false, ["server.Server.reinitCLI server.go:49"]⟩]

/-- On the unfixed rows the discipline fails, and exactly for the predicted pairs: the handler
    thread's read against a refresh goroutine's write, and two refresh goroutines writing
    concurrently.  (Reproduced against the real code with `go test -race`; fixed by guarding
    the field with settingsMu.) -/
theorem unfixed_cliClient_race_detected :
    disciplined unfixedCliClientRows = false ∧
    (racePairs unfixedCliClientRows).map (fun p => (p.1.role, p.1.kind, p.2.role, p.2.kind)) =
      [(.main, .read, .refresh, .write), (.refresh, .write, .main, .read),
       (.refresh, .write, .refresh, .write)] := by
  constructor <;> decide +kernel

/-- ... and the race is real in the transition system: a pool conforming to the unfixed rows
    reaches a state in which the handler thread and a refresh goroutine are both about to
    touch the field. -/
def racyPool : Pool Nat Nat where
  prog := fun t => match t with
    | 0 => [.spawn 1]
    | 1 => [.spawn 2, .acc ⟨0, .read, false, false⟩]
    | 2 => [.acc ⟨0, .write, false, false⟩]
    | _ => []
  role := fun t => match t with
    | 0 => .init
    | 1 => .main
    | _ => .refresh

theorem unfixed_race_reachable : ∃ σ, Reachable racyPool σ ∧ Race racyPool σ := by
  let σ1 : State Nat := fire State.init 0 (.spawn 1 : Instr Nat Nat)
  let σ2 : State Nat := fire σ1 1 (.spawn 2 : Instr Nat Nat)
  have r1 : Reachable racyPool σ1 :=
    .step .init ⟨0, .spawn 1, rfl, rfl, trivial, rfl⟩
  have r2 : Reachable racyPool σ2 :=
    .step r1 ⟨1, .spawn 2, rfl, rfl, trivial, rfl⟩
  refine ⟨σ2, r2, 1, 2, ⟨0, .read, false, false⟩, ⟨0, .write, false, false⟩, by decide, rfl, rfl, rfl, rfl, ?_⟩
  exact ⟨rfl, Or.inr rfl, by decide, rfl, rfl⟩

/-! ### Responses are computed from the state at the moment of the request -/

section bg
open HL.Bg
variable {Text Res Resp : Type}

/-- What the locals of a request in progress hold: the text passed to the loader is the
    handler's `doc`, the tree about to be stored is the tree of `doc`. -/
def ReqOK (load : Text → Res) (r : Req Text Res) : Prop :=
  match r.pc with
  | .lookup | .version | .content _ => True
  | .load _ t => t = r.doc
  | .store _ res => res = load r.doc

/-- Invariant of the model (code with repo_patches/fix-resolved-pending.diff). -/
structure BgInv (load : Text → Res) (σ : St Text Res) : Prop where
  /-- numbers of tasks in flight were drawn from the counter; the task that carries a
      document's current number carries its current text -/
  tasks : ∀ u, ∀ k ∈ σ.pending u, 1 ≤ k.num ∧ k.num ≤ σ.seq ∧ (k.num = σ.ver u → σ.docs u = some k.text)
  verLe : ∀ u, σ.ver u ≤ σ.seq
  /-- the stored tree is never the tree of another text -/
  fresh : ∀ u, σ.resolved u = none ∨ ∃ t, σ.docs u = some t ∧ σ.resolved u = some (load t)
  /-- an open document has a number -/
  opened : ∀ u t, σ.docs u = some t → σ.ver u ≠ 0
  /-- the handler's local `doc` is the document's text for as long as the request lasts -/
  req : ∀ r, σ.req = some r → σ.docs r.uri = some r.doc ∧ ReqOK load r
  /-- every answer was computed with the tree of the text it was computed from -/
  answers : ∀ a ∈ σ.answers, a.tree = some (load a.doc)

theorem bgInv_answer {load : Text → Res} {σ : St Text Res} (h : BgInv load σ) (r : Req Text Res)
    (tree : Option Res) (ht : tree = some (load r.doc)) : BgInv load (answer σ r tree) := by
  obtain ⟨h1, h2, h3, h4, h5, h6⟩ := h
  refine ⟨h1, h2, h3, h4, ?_, ?_⟩
  · intro r' hr'; simp [answer] at hr'
  · intro a ha
    simp only [answer, List.mem_append, List.mem_singleton] at ha
    rcases ha with ha | rfl
    · exact h6 a ha
    · exact ht

theorem bgInv_setPc {load : Text → Res} {σ : St Text Res} (h : BgInv load σ) (r : Req Text Res)
    (pc : RPc Text Res) (hd : σ.docs r.uri = some r.doc) (hok : ReqOK load { r with pc := pc }) :
    BgInv load (setPc σ r pc) := by
  obtain ⟨h1, h2, h3, h4, h5, h6⟩ := h
  refine ⟨h1, h2, h3, h4, ?_, h6⟩
  intro r' hr'
  simp only [setPc, Option.some.injEq] at hr'
  subst hr'
  exact ⟨hd, hok⟩

theorem bgInv_step (load : Text → Res) (σ : St Text Res) (e : Ev Text)
    (h : BgInv load σ) : BgInv load (step load true σ e) := by
  obtain ⟨h1, h2, h3, h4, h5, h6⟩ := h
  cases e with
  | change u t =>
    simp only [step]
    split
    · exact ⟨h1, h2, h3, h4, h5, h6⟩
    · rename_i hr
      refine ⟨?_, ?_, ?_, ?_, ?_, h6⟩
      · intro u' k hk
        simp only [Bg.upd] at hk ⊢
        by_cases hu : u' = u
        · subst hu
          simp only [if_true, List.mem_append, List.mem_singleton] at hk ⊢
          rcases hk with hk | rfl
          · obtain ⟨a, b, _⟩ := h1 _ k hk
            exact ⟨a, by omega, fun he => by omega⟩
          · exact ⟨by simp, by simp, fun _ => rfl⟩
        · simp only [hu, if_false] at hk ⊢
          obtain ⟨a, b, c⟩ := h1 _ k hk
          exact ⟨a, by omega, c⟩
      · intro u'; have := h2 u'; simp only [Bg.upd]; split <;> omega
      · intro u'; simp only [Bg.upd]; split
        · exact Or.inl rfl
        · exact h3 u'
      · intro u' t'; simp only [Bg.upd]; split
        · intro _; omega
        · exact h4 u' t'
      · intro r hr'; simp [hr] at hr'
  | close u =>
    simp only [step]
    split
    · exact ⟨h1, h2, h3, h4, h5, h6⟩
    · rename_i hr
      refine ⟨?_, ?_, ?_, ?_, ?_, h6⟩
      · intro u' k hk
        obtain ⟨a, b, c⟩ := h1 _ k hk
        refine ⟨a, b, ?_⟩
        simp only [Bg.upd]
        split
        · intro he; omega
        · exact c
      · intro u'; have := h2 u'; simp only [Bg.upd]; split <;> omega
      · intro u'; simp only [Bg.upd]; split
        · exact Or.inl rfl
        · exact h3 u'
      · intro u' t'; simp only [Bg.upd]; split
        · intro hc; cases hc
        · exact h4 u' t'
      · intro r hr'; simp [hr] at hr'
  | config b => exact ⟨h1, h2, h3, h4, h5, h6⟩
  | start u i =>
    simp only [step]
    split
    · exact ⟨h1, h2, h3, h4, h5, h6⟩
    · rename_i k hg
      have hmem : k ∈ σ.pending u := List.mem_of_getElem? hg
      split
      · exact ⟨h1, h2, h3, h4, h5, h6⟩
      · split
        · refine ⟨?_, h2, h3, h4, h5, h6⟩
          intro u' k' hk'
          simp only [Bg.upd] at hk'
          split at hk'
          · rename_i hu; subst hu
            rcases List.mem_or_eq_of_mem_set hk' with hk' | rfl
            · exact h1 _ k' hk'
            · exact h1 _ k hmem
          · exact h1 _ k' hk'
        · refine ⟨?_, h2, h3, h4, h5, h6⟩
          intro u' k' hk'
          simp only [Bg.upd] at hk'
          split at hk'
          · rename_i hu; subst hu
            exact h1 _ k' (List.mem_of_mem_eraseIdx hk')
          · exact h1 _ k' hk'
  | finish u i =>
    simp only [step]
    split
    · exact ⟨h1, h2, h3, h4, h5, h6⟩
    · rename_i k hg
      have hmem : k ∈ σ.pending u := List.mem_of_getElem? hg
      obtain ⟨_, _, hcur⟩ := h1 _ k hmem
      split
      · refine ⟨?_, h2, ?_, h4, h5, h6⟩
        · intro u' k' hk'
          simp only [Bg.upd] at hk'
          split at hk'
          · rename_i hu; subst hu
            exact h1 _ k' (List.mem_of_mem_eraseIdx hk')
          · exact h1 _ k' hk'
        · intro u'
          simp only
          split
          · rename_i hv
            simp only [Bg.upd]
            split
            · rename_i hu; subst hu
              exact Or.inr ⟨k.text, hcur hv, rfl⟩
            · exact h3 u'
          · exact h3 u'
      · exact ⟨h1, h2, h3, h4, h5, h6⟩
  | req u =>
    simp only [step]
    split
    · rename_i t hr hd
      refine ⟨h1, h2, h3, h4, ?_, h6⟩
      intro r hr'
      simp only [Option.some.injEq] at hr'
      subst hr'
      exact ⟨hd, trivial⟩
    · exact ⟨h1, h2, h3, h4, h5, h6⟩
  | adv =>
    simp only [step]
    split
    · exact ⟨h1, h2, h3, h4, h5, h6⟩
    · rename_i r hr
      obtain ⟨hd, hok⟩ := h5 r hr
      have hI : BgInv load σ := ⟨h1, h2, h3, h4, h5, h6⟩
      unfold advance
      split
      · -- lookup
        split
        · rename_i tree hres
          apply bgInv_answer hI
          rcases h3 r.uri with hn | ⟨t, ht, hr3⟩
          · rw [hn] at hres; cases hres
          · rw [hd] at ht; cases ht
            rw [hres] at hr3; exact hr3
        · simp only [if_true]
          exact bgInv_setPc hI r _ hd trivial
      · -- version
        split
        · rename_i hv
          exact absurd hv (h4 _ _ hd)
        · exact bgInv_setPc hI r _ hd trivial
      · -- content
        split
        · rename_i hn; rw [hd] at hn; cases hn
        · rename_i t ht
          rw [hd] at ht; cases ht
          exact bgInv_setPc hI r _ hd rfl
      · -- load
        rename_i v t hpc
        have : t = r.doc := by simpa [ReqOK, hpc] using hok
        subst this
        exact bgInv_setPc hI r _ hd rfl
      · -- store
        rename_i v res hpc
        have hres : res = load r.doc := by simpa [ReqOK, hpc] using hok
        apply bgInv_answer _ r _ (by rw [hres])
        refine ⟨h1, h2, ?_, h4, h5, h6⟩
        intro u'
        simp only
        split
        · simp only [Bg.upd]
          split
          · rename_i hu; subst hu
            exact Or.inr ⟨r.doc, hd, by rw [hres]⟩
          · exact h3 u'
        · exact h3 u'

theorem bgInv_init (load : Text → Res) : BgInv load (St.init : St Text Res) where
  tasks := by intro u k hk; simp [St.init] at hk
  verLe := by simp [St.init]
  fresh := fun _ => Or.inl rfl
  opened := by intro u t h; simp [St.init] at h
  req := by intro r h; simp [St.init] at h
  answers := by intro a h; simp [St.init] at h

theorem bgInv_run (load : Text → Res) (es : List (Ev Text)) : BgInv load (run load true es) := by
  unfold run
  suffices ∀ σ : St Text Res, BgInv load σ → BgInv load (es.foldl (step load true) σ) from
    this _ (bgInv_init load)
  induction es with
  | nil => intro σ h; exact h
  | cons e r ih => intro σ h; exact ih _ (bgInv_step load σ e h)

/-- what one access of the handler thread does to the request and the list of answers -/
theorem advance_shape (load : Text → Res) (fixed : Bool) (σ : St Text Res) (r : Req Text Res) :
    (∃ pc, (advance load fixed σ r).req = some { r with pc := pc } ∧ (advance load fixed σ r).answers = σ.answers) ∨
    (∃ tree, (advance load fixed σ r).req = none ∧ (advance load fixed σ r).answers = σ.answers ++ [⟨r.uri, r.doc, tree⟩]) := by
  unfold advance
  split
  · split
    · exact Or.inr ⟨_, rfl, rfl⟩
    · split
      · exact Or.inl ⟨_, rfl, rfl⟩
      · exact Or.inr ⟨_, rfl, rfl⟩
  · split
    · exact Or.inr ⟨_, rfl, rfl⟩
    · exact Or.inl ⟨_, rfl, rfl⟩
  · split
    · exact Or.inr ⟨_, rfl, rfl⟩
    · exact Or.inl ⟨_, rfl, rfl⟩
  · exact Or.inl ⟨_, rfl, rfl⟩
  · exact Or.inr ⟨_, rfl, rfl⟩

/-- The request taken on `u` with text `t` when `n` answers had been given is still being
    answered, or the `n`-th answer is its answer. -/
def Tracks (σ : St Text Res) (u : Nat) (t : Text) (n : Nat) : Prop :=
  (∃ r, σ.req = some r ∧ r.uri = u ∧ r.doc = t ∧ σ.answers.length = n) ∨
  (∃ a, σ.answers[n]? = some a ∧ a.uri = u ∧ a.doc = t)

theorem tracks_step (load : Text → Res) (fixed : Bool) (σ : St Text Res) (e : Ev Text) (u : Nat) (t : Text)
    (n : Nat) (h : Tracks σ u t n) : Tracks (step load fixed σ e) u t n := by
  rcases h with ⟨r, hr, hu, hd, hn⟩ | ⟨a, ha, hu, hd⟩
  · cases e with
    | change u' t' => simp only [step, hr]; exact Or.inl ⟨r, hr, hu, hd, hn⟩
    | close u' => simp only [step, hr]; exact Or.inl ⟨r, hr, hu, hd, hn⟩
    | config b => exact Or.inl ⟨r, hr, hu, hd, hn⟩
    | start u' i =>
      simp only [step]
      split
      · exact Or.inl ⟨r, hr, hu, hd, hn⟩
      · split
        · exact Or.inl ⟨r, hr, hu, hd, hn⟩
        · split <;> exact Or.inl ⟨r, hr, hu, hd, hn⟩
    | finish u' i =>
      simp only [step]
      split
      · exact Or.inl ⟨r, hr, hu, hd, hn⟩
      · split <;> exact Or.inl ⟨r, hr, hu, hd, hn⟩
    | req u' => simp only [step, hr]; exact Or.inl ⟨r, hr, hu, hd, hn⟩
    | adv =>
      simp only [step, hr]
      rcases advance_shape load fixed σ r with ⟨pc, h1, h2⟩ | ⟨tree, h1, h2⟩
      · exact Or.inl ⟨_, h1, hu, hd, by rw [h2]; exact hn⟩
      · refine Or.inr ⟨⟨r.uri, r.doc, tree⟩, ?_, hu, hd⟩
        rw [h2, ← hn]; simp
  · right
    refine ⟨a, ?_, hu, hd⟩
    have hlt : n < σ.answers.length := by
      rcases Nat.lt_or_ge n σ.answers.length with h | h
      · exact h
      · rw [List.getElem?_eq_none h] at ha; cases ha
    have grow : ∀ x, (σ.answers ++ [x])[n]? = some a := by
      intro x; rw [List.getElem?_append_left hlt]; exact ha
    cases e with
    | change u' t' => simp only [step]; split <;> exact ha
    | close u' => simp only [step]; split <;> exact ha
    | config b => exact ha
    | start u' i =>
      simp only [step]
      split
      · exact ha
      · split
        · exact ha
        · split <;> exact ha
    | finish u' i =>
      simp only [step]
      split
      · exact ha
      · split <;> exact ha
    | req u' => simp only [step]; split <;> exact ha
    | adv =>
      simp only [step]
      split
      · exact ha
      · rename_i r hr
        rcases advance_shape load fixed σ r with ⟨pc, h1, h2⟩ | ⟨tree, h1, h2⟩
        · rw [h2]; exact ha
        · rw [h2]; exact grow _

theorem tracks_foldl (load : Text → Res) (fixed : Bool) (es : List (Ev Text)) (σ : St Text Res) (u : Nat)
    (t : Text) (n : Nat) (h : Tracks σ u t n) : Tracks (es.foldl (step load fixed) σ) u t n := by
  induction es generalizing σ with
  | nil => exact h
  | cons e r ih => exact ih _ (tracks_step load fixed σ e u t n h)

theorem run_append (load : Text → Res) (fixed : Bool) (es es' : List (Ev Text)) :
    run load fixed (es ++ es') = es'.foldl (step load fixed) (run load fixed es) := by
  simp [run, List.foldl_append]

/-- **The stored include tree is never the tree of another text** (the protection of fix
    5fbc2c6, kept).  For every history of opens / changes / closes / requests / configuration
    changes and every scheduling of the background tasks: `Server.resolved[u]` is absent or is
    the tree loaded from the CURRENT text of `u`. -/
theorem resolved_never_stale (load : Text → Res) (es : List (Ev Text)) (u : Nat) :
    (run load true es).resolved u = none ∨
    ∃ t, (run load true es).docs u = some t ∧ (run load true es).resolved u = some (load t) :=
  (bgInv_run load es).fresh u

/-- The text a request in progress works with is the document's text, in every state until the
    answer (no notification is handled while a request is being answered). -/
theorem request_text_is_current (load : Text → Res) (es : List (Ev Text)) (r : Req Text Res)
    (hr : (run load true es).req = some r) : (run load true es).docs r.uri = some r.doc :=
  ((bgInv_run load es).req r hr).1

/-- Every answer ever given was computed with the include tree of the text it was computed
    from — never without a tree, never with the tree of another text. -/
theorem every_answer_uses_tree_of_its_text (load : Text → Res) (es : List (Ev Text))
    (a : Answer Text Res) (ha : a ∈ (run load true es).answers) : a.tree = some (load a.doc) :=
  (bgInv_run load es).answers a ha

/-- **Responses are a function of the state at the moment the request was taken** — in full,
    no guard.  For every trace `es` (any number of documents, changes, closes, earlier requests,
    background tasks in any interleaving, diagnostics switched off and on) after which the
    handler thread is free and document `u` is open with text `t`, and for every continuation
    `mid` (the background tasks and configuration changes that run while the request is being
    answered, and whatever follows): the answer to the request taken at that moment — the
    first answer after those given before — is the handler applied to `t` and the include
    tree of `t`, i.e. `specRespond` in the state in which the request was taken. -/
theorem response_is_function_of_state (load : Text → Res) (h : Text → Option Res → Resp)
    (es mid : List (Ev Text)) (u : Nat) (t : Text) (a : Answer Text Res)
    (idle : (run load true es).req = none) (hd : (run load true es).docs u = some t)
    (ha : (run load true (es ++ .req u :: mid)).answers[(run load true es).answers.length]? = some a) :
    a.uri = u ∧ some (a.response h) = specRespond load h (run load true es) u := by
  have h0 : Tracks (step load true (run load true es) (.req u)) u t (run load true es).answers.length := by
    simp only [step, idle, hd]
    exact Or.inl ⟨_, rfl, rfl, rfl, rfl⟩
  have h1 := tracks_foldl load true mid _ u t _ h0
  have e : run load true (es ++ .req u :: mid)
      = mid.foldl (step load true) (step load true (run load true es) (.req u)) := by
    rw [run_append]; rfl
  rw [← e] at h1
  rcases h1 with ⟨r, _, _, _, hn⟩ | ⟨a', ha', hu', hd'⟩
  · rw [List.getElem?_eq_none (by omega)] at ha; cases ha
  · rw [ha] at ha'; cases ha'
    have := every_answer_uses_tree_of_its_text load (es ++ .req u :: mid) a (List.mem_of_getElem? ha)
    exact ⟨hu', by simp [Answer.response, specRespond, hd, this, hd']⟩

/-- ... and the request is answered: five accesses of the handler thread after it was taken, at
    the latest, whatever the background does in between (here: a task of the document reads
    the settings, loads and stores, another document changes... the hypotheses of the theorem
    are met by a trace in which every kind of event occurs).  Non-vacuity. -/
example :
    let load := fun t : Nat => t + 100
    let es : List (Ev Nat) := [.change 0 1, .change 1 5, .start 1 0, .config false, .change 0 2, .start 0 1]
    let mid : List (Ev Nat) := [.adv, .start 0 0, .adv, .config true, .finish 1 0, .adv, .change 0 9, .adv,
      .finish 0 0, .adv, .change 0 3]
    (run load true es).req = none ∧ (run load true es).docs 0 = some 2 ∧
    (run load true es).resolved 0 = none ∧ (run load true es).pending 0 = [⟨1, 1, false⟩] ∧
    (run load true (es ++ .req 0 :: mid)).answers = [⟨0, 2, some 102⟩] ∧
    (run load true (es ++ .req 0 :: mid)).docs 0 = some 3 := by
  decide

/-- The repaired window, diagnostics on: a request taken right after a change, before the
    task of that change has run, is answered with the tree of the new text, and the tree is
    kept; the task of the OLDER text that finishes afterwards does not replace it. -/
example :
    let load := fun t : Nat => t + 100
    let es : List (Ev Nat) := [.change 0 1, .start 0 0, .change 0 2, .req 0, .adv, .adv, .adv, .adv, .adv, .finish 0 0]
    (run load true es).answers = [⟨0, 2, some 102⟩] ∧ (run load true es).resolved 0 = some 102 := by
  decide

/-- The code before repo_patches/fix-resolved-pending.diff (`fixed := false`): a request handled
    before the task of the current content has stored its tree was answered by the fall-back,
    without the included files; the same trace on the repaired code (which needs four more
    accesses) answers with the tree of the current text. -/
theorem pinned_resolved_pending_counterexample :
    let load := fun t : Nat => t + 100
    let h := fun (t : Nat) (r : Option Nat) => (t, r)
    let es : List (Ev Nat) := [.change 0 1, .start 0 0, .finish 0 0, .change 0 2]
    (run load false (es ++ [.req 0, .adv])).answers.map (·.response h) = [(2, none)] ∧
    specRespond load h (run load false es) 0 = some (2, some 102) ∧
    (run load true (es ++ [.req 0, .adv, .adv, .adv, .adv, .adv])).answers.map (·.response h) = [(2, some 102)] := by
  decide

/-- ... and with diagnostics switched off the task ended without loading, so the fall-back
    stayed for good; the repaired code loads in the handler, and keeps the tree. -/
theorem pinned_resolved_pending_after_skip_counterexample :
    let load := fun t : Nat => t + 100
    let h := fun (t : Nat) (r : Option Nat) => (t, r)
    let es : List (Ev Nat) := [.change 0 1, .start 0 0, .finish 0 0, .config false, .change 0 2, .start 0 0]
    (run load false es).pending 0 = [] ∧
    (run load false (es ++ [.req 0, .adv])).answers.map (·.response h) = [(2, none)] ∧
    specRespond load h (run load false es) 0 = some (2, some 102) ∧
    (run load true (es ++ [.req 0, .adv, .adv, .adv, .adv, .adv])).answers.map (·.response h) = [(2, some 102)] ∧
    (run load true (es ++ [.req 0, .adv, .adv, .adv, .adv, .adv])).resolved 0 = some 102 := by
  decide

end bg

/-! ### Non-vacuity of the hypotheses of `server_race_free` / `server_deadlock_free` -/

/-- locks in the order in which they may be taken (ascending rank) -/
def insertLock (x : Lock × Mode) : List (Lock × Mode) → List (Lock × Mode)
  | [] => [x]
  | y :: r => if lockRank x.1 ≤ lockRank y.1 then x :: y :: r else y :: insertLock x r

def sortLocks (ls : List (Lock × Mode)) : List (Lock × Mode) := ls.foldl (fun acc x => insertLock x acc) []

/-- the program "take the row's locks, perform its access, release them" -/
def progOf (r : Row Loc Lock) : List (Instr Loc Lock) :=
  let ls := sortLocks r.locks
  ls.map (fun x => Instr.acq x.1 x.2) ++ [.acc ⟨r.loc, r.kind, r.atomic, r.fresh⟩] ++
    ls.reverse.map (fun x => Instr.rel x.1)

def pickRow (role : Role) (p : Row Loc Lock → Bool) : List (Instr Loc Lock) :=
  match accessTable.find? (fun r => r.role == role && p r) with
  | some r => progOf r
  | none => []

/-- A small instance of the server, built from rows of the regenerated table (no field or mutex
    is named): initialisation performs a write and starts the handler thread; the handler
    performs a locked access, starts a refresh and a publish goroutine and performs a locked
    write; refresh performs a write under two nested locks; publish a locked read and a write. -/
def demoPool : Pool Loc Lock where
  prog := fun t => match t with
    | 0 => pickRow .init (fun r => r.kind == .write) ++ [.spawn 1]
    | 1 => pickRow .main (fun r => r.locks.length ≥ 1) ++ [.spawn 2, .spawn 3] ++
           pickRow .main (fun r => r.kind == .write && r.locks.length ≥ 1)
    | 2 => pickRow .refresh (fun r => r.kind == .write && r.locks.length ≥ 2)
    | 3 => pickRow .publish (fun r => r.kind == .read && r.locks.length ≥ 1) ++
           pickRow .publish (fun r => r.kind == .write && r.locks.length ≥ 1)
    | _ => []
  role := fun t => match t with
    | 0 => .init
    | 1 => .main
    | 2 => .refresh
    | _ => .publish

def hasAccess (p : List (Instr Loc Lock)) : Bool := p.any fun i => match i with | .acc _ => true | _ => false

/-- executable form of `Conforms` for one program -/
def progConforms (T : List (Row Loc Lock)) (role : Role) (p : List (Instr Loc Lock)) : Bool :=
  (List.range p.length).all fun n =>
    match p[n]? with
    | some (.acc a) => T.any fun r => r.role == role && r.loc == a.loc && r.kind == a.kind &&
        r.atomic == a.atomic && r.fresh == a.fresh &&
        r.locks.all fun x => (heldAfter (p.take n)).contains x
    | _ => true

def progOrder (O : List (Lock × Lock)) (p : List (Instr Loc Lock)) : Bool :=
  (List.range p.length).all fun n =>
    match p[n]? with
    | some (.acq l _) => (heldAfter (p.take n)).all fun x => O.contains (x.1, l)
    | _ => true

example : (List.range 4).all (fun t => progConforms accessTable (demoPool.role t) (demoPool.prog t)
    && progOrder lockOrder (demoPool.prog t) && (heldAfter (demoPool.prog t)).isEmpty
    && hasAccess (demoPool.prog t)) = true := by
  decide +kernel

/-- …and the instance is not degenerate: the refresh thread really nests two locks. -/
example : ((demoPool.prog 2).filter fun i => match i with | .acq _ _ => true | _ => false).length ≥ 2 := by
  decide +kernel

end HL.Props.C14
