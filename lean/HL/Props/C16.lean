/-
  C16 — Completion is sound, complete for prefixes, bounded and frequency-ranked.

  Model: HL/Model/Completion.lean (internal/server/completion.go, the lookup side of
  internal/analyzer/indexer.go, maxResults normalisation of settings.go).
  Spec : HL/Spec/CompletionSpec.lean.

  All theorems hold for every lower-casing function `lower`, every symbol table, line, cursor,
  trigger and configuration, and for EVERY ranking `ranked` that `sort.Slice` may return
  (`IsRanking`: a sorted permutation of the filtered, scored candidates).  `rankExec_isRanking`
  shows the executable ranking of the driver is one of them.

  `fx = true` is the code with repo_patches/fix-completion-edit-range.diff; `fx = false` the code
  as pinned.  Only `edit_replaces_fragment` depends on it.
-/
import HL.Lemmas.Completion
namespace HL.Props.C16
open HL.Text HL.Completion HL.CompletionSpec HL.Lemmas.Text

/-- The executable pipeline of the driver is `finish` on one admissible ranking, so every theorem
    below applies to `complete`. -/
theorem complete_is_finish (lower : Char → Char) (fx : Bool) (t : Table) (st : Settings) (line : Str)
    (ch : Nat) (trig : Str) :
    ∃ ranked, IsRanking (countsFor t (determineContext line ch trig)) (scoredFor lower fx t st line ch trig) ranked ∧
      complete lower fx t st line ch trig = finish fx st line ch trig ranked :=
  ⟨_, rankExec_isRanking _ _, rfl⟩

/-! ## sound -/

/-- Unguarded form: every returned label is a name of the context's table and matches the query
    — with fuzzy matching on, the query without its trailing colon. -/
theorem sound_weak (lower : Char → Char) (fx : Bool) (t : Table) (st : Settings) (line : Str) (ch : Nat)
    (trig : Str) (ranked : List Scored)
    (hr : IsRanking (countsFor t (determineContext line ch trig)) (scoredFor lower fx t st line ch trig) ranked)
    (hj : judged (determineContext line ch trig) = true) (hidx : indexSubset t = true)
    (s : Scored) (hs : s ∈ (finish fx st line ch trig ranked).items) :
    s.label ∈ namesOf t (finish fx st line ch trig ranked).ctx ∧
    matchesQ lower st.fuzzy
      (if st.fuzzy then trimColon (finish fx st line ch trig ranked).query else (finish fx st line ch trig ranked).query)
      s.label = true := by
  simp only [finish] at hs ⊢
  have h1 : s ∈ ranked := (truncate_sublist _ _).subset hs
  have h2 : s ∈ scoredFor lower fx t st line ch trig := hr.1.mem_iff.1 h1
  unfold scoredFor at h2
  simp only [] at h2
  obtain ⟨hl, hm⟩ := mem_filterAndScore _ _ _ _ _ h2
  refine ⟨labelsFor_subset t _ line _ hj hidx _ hl, ?_⟩
  generalize extractQuery fx (determineContext line ch trig) line (takeU16 line ch) = q at hm ⊢
  unfold matchesQ subseqCI prefixCI
  rcases hm with ⟨hq, _⟩ | ⟨_, hf, _, hp⟩ | ⟨_, hf, hpos⟩
  · subst hq
    cases st.fuzzy <;> simp [trimColon, List.isSublist_iff_sublist]
  · simp only [hf, Bool.false_eq_true, if_false]
    exact List.isPrefixOf_iff_prefix.2 hp
  · simp only [hf, if_true]
    exact List.isSublist_iff_sublist.2 (fuzzyItemScore_pos_weak lower q s.label hpos)

/-- Guard of the known finding `segment-colon`, negated: fuzzy matching is off or the query does
    not end in a colon. -/
def noSegmentColon (fuzzy : Bool) (q : Str) : Bool := !fuzzy || q.getLast? != some ':'

/-- `sound`, outside the guard of `segment-colon`: every returned label is in the symbol table
    of its context and matches the query — as a subsequence (letter case ignored) with fuzzy
    matching on, as a prefix with it off. -/
theorem sound_partial (lower : Char → Char) (fx : Bool) (t : Table) (st : Settings) (line : Str) (ch : Nat)
    (trig : Str) (ranked : List Scored)
    (hr : IsRanking (countsFor t (determineContext line ch trig)) (scoredFor lower fx t st line ch trig) ranked)
    (hj : judged (determineContext line ch trig) = true) (hidx : indexSubset t = true)
    (hg : noSegmentColon st.fuzzy (finish fx st line ch trig ranked).query = true)
    (s : Scored) (hs : s ∈ (finish fx st line ch trig ranked).items) :
    s.label ∈ namesOf t (finish fx st line ch trig ranked).ctx ∧
    matchesQ lower st.fuzzy (finish fx st line ch trig ranked).query s.label = true := by
  have hw := sound_weak lower fx t st line ch trig ranked hr hj hidx s hs
  refine ⟨hw.1, ?_⟩
  have h2 := hw.2
  unfold noSegmentColon at hg
  cases hf : st.fuzzy
  · simpa [hf] using h2
  · simp only [hf, Bool.not_true, Bool.false_or, bne_iff_ne, ne_eq] at hg
    simp only [hf, if_true] at h2
    rwa [trimColon_eq _ hg] at h2

/-- In the form of the executable oracle. -/
theorem sound_partial_oracle (lower : Char → Char) (fx : Bool) (t : Table) (st : Settings) (line : Str) (ch : Nat)
    (trig : Str) (ranked : List Scored)
    (hr : IsRanking (countsFor t (determineContext line ch trig)) (scoredFor lower fx t st line ch trig) ranked)
    (hj : judged (determineContext line ch trig) = true) (hidx : indexSubset t = true)
    (hg : noSegmentColon st.fuzzy (finish fx st line ch trig ranked).query = true) :
    soundOK lower st.fuzzy t (finish fx st line ch trig ranked).ctx (finish fx st line ch trig ranked).query
      ((finish fx st line ch trig ranked).items.map (·.label)) = true := by
  unfold soundOK
  rw [List.all_eq_true]
  intro l hl
  obtain ⟨s, hs, rfl⟩ := List.mem_map.1 hl
  have := sound_partial lower fx t st line ch trig ranked hr hj hidx hg s hs
  simp only [Bool.and_eq_true, List.contains_iff_mem]
  exact this

/-- `segment-colon`: the query `exp:` returns `foo:expenses` (its segment `expenses` matches
    `exp`), which does not contain `exp:` as a subsequence. -/
theorem sound_counterexample :
    (filterAndScore goLower ["foo:expenses".toList] "exp:".toList true).map (·.label) = ["foo:expenses".toList] ∧
    subseqCI goLower "exp:".toList "foo:expenses".toList = false := by
  decide +kernel

/-- The same through the whole pipeline: a posting line `    exp:` with the cursor at its end. -/
theorem segment_colon_counterexample :
    let t : Table := { (default : Table) with accounts := ["foo:expenses".toList] }
    let r := complete goLower true t ⟨50, true⟩ "    exp:".toList 8 []
    r.ctx = .account ∧ r.query = "exp:".toList ∧ r.items.map (·.label) = ["foo:expenses".toList] ∧
    matchesQ goLower true r.query "foo:expenses".toList = false := by
  decide +kernel

example : noSegmentColon true "exp".toList = true ∧ noSegmentColon false "exp:".toList = true := by decide

/-! ## prefix_complete -/

/-- A non-empty (indeed any) case-insensitive prefix scores above zero. -/
theorem prefix_scores_positive (lower : Char → Char) (q n : Str) (h : prefixCI lower q n = true) :
    0 < fuzzyItemScore lower q n ∧ 0 < fuzzyScore lower n q :=
  ⟨fuzzyItemScore_of_prefix lower q n (List.isPrefixOf_iff_prefix.1 h),
   fuzzyScore_pos_of_prefix lower n q (List.isPrefixOf_iff_prefix.1 h)⟩

/-- The by-prefix index returns a superset of the names with that prefix, or the lookup falls
    back to all names. -/
theorem index_superset_or_all (t : Table) (key n : Str) (hn : n ∈ t.accounts)
    (hidx : indexSuperset t = true) (hk : key <+: n) : n ∈ accountsForPrefix t key :=
  accountsForPrefix_complete t key n hn hidx (Or.inr (Or.inr hk))

/-- Guard of the known finding `byprefix-narrowing`, negated: outside the account context, or the
    extracted account prefix is empty / not a key of the index / a prefix of the name. -/
def notNarrowed (t : Table) (c : Ctx) (line : Str) (col : Nat) (n : Str) : Bool :=
  c != .account ||
  (let key := extractAccountPrefix line col
   key.isEmpty || (t.byPrefix.lookup key).isNone || key.isPrefixOf n)

/-- `prefix_complete`, outside the guard of `byprefix-narrowing`: every name of the context's
    table that has the query as a case-insensitive prefix is in the untruncated list. -/
theorem prefix_complete_partial (lower : Char → Char) (fx : Bool) (t : Table) (st : Settings) (line : Str)
    (ch : Nat) (trig : Str) (ranked : List Scored)
    (hr : IsRanking (countsFor t (determineContext line ch trig)) (scoredFor lower fx t st line ch trig) ranked)
    (hj : judged (determineContext line ch trig) = true)
    (hidx : determineContext line ch trig = .account → indexSuperset t = true)
    (n : Str) (hn : n ∈ namesOf t (determineContext line ch trig))
    (hp : prefixCI lower (finish fx st line ch trig ranked).query n = true)
    (hg : notNarrowed t (determineContext line ch trig) line (takeU16 line ch) n = true) :
    n ∈ ranked.map (·.label) := by
  have hlab : n ∈ labelsFor t (determineContext line ch trig) line (takeU16 line ch) := by
    generalize determineContext line ch trig = c at hj hn hg hidx
    cases c <;> simp [judged] at hj <;> simp only [labelsFor, namesOf] at hn ⊢ <;> try exact hn
    refine accountsForPrefix_complete t _ n hn (hidx rfl) ?_
    simp only [notNarrowed, bne_self_eq_false, Bool.false_or, Bool.or_eq_true, List.isEmpty_iff,
      Option.isNone_iff_eq_none] at hg
    rcases hg with (h | h) | h
    · exact Or.inl h
    · exact Or.inr (Or.inl h)
    · exact Or.inr (Or.inr (List.isPrefixOf_iff_prefix.1 h))
  have hsc := filterAndScore_complete lower _ (extractQuery fx (determineContext line ch trig) line (takeU16 line ch))
    st.fuzzy n hlab (List.isPrefixOf_iff_prefix.1 hp)
  exact (hr.1.map _).mem_iff.2 hsc

/-- ... and in the returned list when the limit allows. -/
theorem prefix_complete_within_limit_partial (lower : Char → Char) (fx : Bool) (t : Table) (st : Settings)
    (line : Str) (ch : Nat) (trig : Str) (ranked : List Scored)
    (hr : IsRanking (countsFor t (determineContext line ch trig)) (scoredFor lower fx t st line ch trig) ranked)
    (hj : judged (determineContext line ch trig) = true)
    (hidx : determineContext line ch trig = .account → indexSuperset t = true)
    (hlim : ranked.length ≤ normMax st.maxRaw)
    (n : Str) (hn : n ∈ namesOf t (determineContext line ch trig))
    (hp : prefixCI lower (finish fx st line ch trig ranked).query n = true)
    (hg : notNarrowed t (determineContext line ch trig) line (takeU16 line ch) n = true) :
    n ∈ (finish fx st line ch trig ranked).items.map (·.label) := by
  have := prefix_complete_partial lower fx t st line ch trig ranked hr hj hidx n hn hp hg
  simp only [finish]
  rw [truncate_eq_take _ _ (normMax_pos _), List.take_of_length_le hlim]
  exact this

/-- In the form of the executable oracle: when no name of the context lies inside the guard of
    `byprefix-narrowing`, `completeOK` accepts the answer. -/
theorem prefix_complete_oracle_partial (lower : Char → Char) (fx : Bool) (t : Table) (st : Settings)
    (line : Str) (ch : Nat) (trig : Str) (ranked : List Scored)
    (hr : IsRanking (countsFor t (determineContext line ch trig)) (scoredFor lower fx t st line ch trig) ranked)
    (hj : judged (determineContext line ch trig) = true)
    (hidx : determineContext line ch trig = .account → indexSuperset t = true)
    (hg : ∀ n ∈ namesOf t (determineContext line ch trig),
      notNarrowed t (determineContext line ch trig) line (takeU16 line ch) n = true) :
    completeOK lower t (finish fx st line ch trig ranked).ctx (finish fx st line ch trig ranked).query
      ((finish fx st line ch trig ranked).items.map (·.label)) (normMax st.maxRaw) = true := by
  unfold completeOK
  by_cases hlen : (finish fx st line ch trig ranked).items.length ≥ normMax st.maxRaw
  · simp only [List.length_map, ge_iff_le, Bool.or_eq_true, decide_eq_true_eq]
    exact Or.inl hlen
  · simp only [Bool.or_eq_true]
    refine Or.inr ?_
    rw [List.all_eq_true]
    intro n hn
    by_cases hp : prefixCI lower (finish fx st line ch trig ranked).query n = true
    · have hlim : ranked.length ≤ normMax st.maxRaw := by
        simp only [finish, truncate_eq_take _ _ (normMax_pos _), List.length_take] at hlen
        omega
      have := prefix_complete_within_limit_partial lower fx t st line ch trig ranked hr hj hidx hlim n hn hp
        (hg n hn)
      simp only [Bool.or_eq_true, List.contains_iff_mem]
      exact Or.inr this
    · simp only [Bool.or_eq_true, Bool.not_eq_true']
      exact Or.inl (by simpa using hp)

/-- Payee, commodity and tag contexts have no index: complete without a guard. -/
theorem prefix_complete_names (lower : Char → Char) (fx : Bool) (t : Table) (st : Settings) (line : Str)
    (ch : Nat) (trig : Str) (ranked : List Scored)
    (hr : IsRanking (countsFor t (determineContext line ch trig)) (scoredFor lower fx t st line ch trig) ranked)
    (hc : determineContext line ch trig = .payee ∨ determineContext line ch trig = .commodity ∨
          determineContext line ch trig = .tagName)
    (n : Str) (hn : n ∈ namesOf t (determineContext line ch trig))
    (hp : prefixCI lower (finish fx st line ch trig ranked).query n = true) :
    n ∈ ranked.map (·.label) := by
  refine prefix_complete_partial lower fx t st line ch trig ranked hr ?_ ?_ n hn hp ?_
  · rcases hc with h | h | h <;> rw [h] <;> rfl
  · intro h; rcases hc with h' | h' | h' <;> rw [h] at h' <;> cases h'
  · rcases hc with h | h | h <;> simp [notNarrowed, h]

/-- `byprefix-narrowing`: `expenses:food` and `Expenses:Fun` are two accounts; typing
    `expenses:f` hits the index key `expenses:` and `Expenses:Fun`, which starts with the
    fragment when letter case is ignored, is not offered (limit 50, one item returned). -/
theorem prefix_complete_counterexample :
    let t : Table := { (default : Table) with
      accounts := ["expenses:food".toList, "Expenses:Fun".toList],
      byPrefix := [("expenses:".toList, ["expenses:food".toList]), ("Expenses:".toList, ["Expenses:Fun".toList])] }
    let r := complete goLower true t ⟨50, true⟩ "    expenses:f".toList 14 []
    indexSuperset t = true ∧ indexSubset t = true ∧ r.ctx = .account ∧ r.query = "expenses:f".toList ∧
    prefixCI goLower r.query "Expenses:Fun".toList = true ∧
    r.items.map (·.label) = ["expenses:food".toList] ∧
    notNarrowed t .account "    expenses:f".toList 14 "Expenses:Fun".toList = false := by
  decide +kernel

example : notNarrowed default .account "    exp".toList 7 "expenses:food".toList = true := by decide

/-! ## bounded, limit_prefix -/

/-- At most the configured maximum is returned (the setting is normalised to a positive value). -/
theorem bounded (fx : Bool) (st : Settings) (line : Str) (ch : Nat) (trig : Str) (ranked : List Scored) :
    (finish fx st line ch trig ranked).items.length ≤ normMax st.maxRaw ∧ 0 < normMax st.maxRaw :=
  ⟨truncate_length_le _ _ (normMax_pos _), normMax_pos _⟩

/-- A smaller maximum returns a prefix of the list returned for a larger one, given the same
    ranked list. -/
theorem limit_prefix (fx : Bool) (f : Bool) (m₁ m₂ : Int) (line : Str) (ch : Nat) (trig : Str)
    (ranked : List Scored) (h : normMax m₁ ≤ normMax m₂) :
    (finish fx ⟨m₁, f⟩ line ch trig ranked).items =
      ((finish fx ⟨m₂, f⟩ line ch trig ranked).items).take (normMax m₁) := by
  simp only [finish]
  rw [truncate_eq_take _ _ (normMax_pos _), truncate_eq_take _ _ (normMax_pos _), List.take_take,
    Nat.min_eq_left h]

/-- The candidates do not depend on the limit. -/
theorem scored_independent_of_limit (lower : Char → Char) (fx : Bool) (t : Table) (f : Bool) (m₁ m₂ : Int)
    (line : Str) (ch : Nat) (trig : Str) :
    scoredFor lower fx t ⟨m₁, f⟩ line ch trig = scoredFor lower fx t ⟨m₂, f⟩ line ch trig := rfl

/-- `limit-prefix-tie-order`: two requests may rank tied names differently (the analyzer visits
    included files in map order, `sort.Slice` is unstable), and then the shorter answer is not a
    prefix of the longer one.  Both lists below are rankings of the same candidates. -/
theorem limit_prefix_tie_counterexample :
    let scored : List Scored := [⟨"a".toList, 1000⟩, ⟨"b".toList, 1000⟩]
    let r₁ : List Scored := [⟨"a".toList, 1000⟩, ⟨"b".toList, 1000⟩]
    let r₂ : List Scored := [⟨"b".toList, 1000⟩, ⟨"a".toList, 1000⟩]
    IsRanking none scored r₁ ∧ IsRanking none scored r₂ ∧
    (finish true ⟨1, true⟩ [] 0 [] r₁).items ≠ ((finish true ⟨2, true⟩ [] 0 [] r₂).items).take 1 := by
  refine ⟨⟨List.Perm.refl _, by decide⟩, ⟨List.Perm.swap _ _ _, by decide⟩, by decide⟩

/-- The sort key of an item. -/
def keyOf (counts : Option (List (Str × Nat))) (s : Scored) : Nat × Nat := (s.score, countOf counts s.label)

/-- Whatever `sort.Slice` does inside a tie class, the sequence of keys (score, count) is the
    same for every ranking of the same candidates.  (This is what the correspondence check
    compares position-wise; labels are compared as multisets per tie class.) -/
theorem ranking_keys_unique (counts : Option (List (Str × Nat))) (scored r₁ r₂ : List Scored)
    (h₁ : IsRanking counts scored r₁) (h₂ : IsRanking counts scored r₂) :
    r₁.map (keyOf counts) = r₂.map (keyOf counts) := by
  let le : Nat × Nat → Nat × Nat → Prop := fun a b => b.1 < a.1 ∨ (b.1 = a.1 ∧ b.2 ≤ a.2)
  have hs : ∀ r, IsRanking counts scored r → (r.map (keyOf counts)).Pairwise le := by
    intro r hr
    rw [List.pairwise_map]
    refine hr.2.imp ?_
    intro a b hab
    rw [less_false_iff] at hab
    exact hab
  refine List.Perm.eq_of_pairwise (le := le) ?_ (hs r₁ h₁) (hs r₂ h₂)
    ((h₁.1.trans h₂.1.symm).map _)
  intro a b _ _ hab hba
  obtain ⟨a1, a2⟩ := a
  obtain ⟨b1, b2⟩ := b
  simp only [le] at hab hba
  simp only [Prod.mk.injEq]
  omega

/-- `limit_prefix` for two independent requests: the keys of the shorter answer are a prefix of
    the keys of the longer one (outside `limit-prefix-tie-order`'s guard — a tie class cut or
    ordered differently — the labels agree as well, see `limit_prefix`). -/
theorem limit_prefix_keys_partial (counts : Option (List (Str × Nat))) (fx f : Bool) (m₁ m₂ : Int)
    (line : Str) (ch : Nat) (trig : Str) (scored r₁ r₂ : List Scored)
    (h₁ : IsRanking counts scored r₁) (h₂ : IsRanking counts scored r₂) (h : normMax m₁ ≤ normMax m₂) :
    (finish fx ⟨m₁, f⟩ line ch trig r₁).items.map (keyOf counts) =
      ((finish fx ⟨m₂, f⟩ line ch trig r₂).items.map (keyOf counts)).take (normMax m₁) := by
  simp only [finish]
  rw [truncate_eq_take _ _ (normMax_pos _), truncate_eq_take _ _ (normMax_pos _), List.map_take,
    List.map_take, List.take_take, Nat.min_eq_left h, ranking_keys_unique counts scored r₁ r₂ h₁ h₂]

/-! ## frequency_ranked -/

/-- With nothing typed, usage counts do not increase along the result. -/
theorem frequency_ranked (lower : Char → Char) (fx : Bool) (t : Table) (st : Settings) (line : Str) (ch : Nat)
    (trig : Str) (ranked : List Scored)
    (hr : IsRanking (countsFor t (determineContext line ch trig)) (scoredFor lower fx t st line ch trig) ranked)
    (hq : (finish fx st line ch trig ranked).query = []) :
    ((finish fx st line ch trig ranked).items.map fun s =>
      countOf (countsFor t (determineContext line ch trig)) s.label).Pairwise (· ≥ ·) := by
  simp only [finish] at hq ⊢
  have hscore : ∀ s ∈ ranked, s.score = fuzzyScoreEmptyPattern := by
    intro s hs
    have h2 : s ∈ scoredFor lower fx t st line ch trig := hr.1.mem_iff.1 hs
    unfold scoredFor at h2
    simp only [hq] at h2
    unfold filterAndScore at h2
    simp only [if_true] at h2
    obtain ⟨l, _, rfl⟩ := List.mem_map.1 h2
    rfl
  have hp : (truncate (normMax st.maxRaw) ranked).Pairwise fun a b =>
      less (countsFor t (determineContext line ch trig)) b a = false :=
    hr.2.sublist (truncate_sublist _ _)
  rw [List.pairwise_map]
  refine List.Pairwise.imp_of_mem ?_ hp
  intro a b ha hb hab
  have ha' := hscore a ((truncate_sublist _ _).subset ha)
  have hb' := hscore b ((truncate_sublist _ _).subset hb)
  rw [less_false_iff] at hab
  omega

/-- In the form of the executable oracle. -/
theorem frequency_ranked_oracle (lower : Char → Char) (fx : Bool) (t : Table) (st : Settings) (line : Str)
    (ch : Nat) (trig : Str) (ranked : List Scored)
    (hr : IsRanking (countsFor t (determineContext line ch trig)) (scoredFor lower fx t st line ch trig) ranked)
    (hj : judged (determineContext line ch trig) = true) :
    rankedOK t (finish fx st line ch trig ranked).ctx (finish fx st line ch trig ranked).query
      ((finish fx st line ch trig ranked).items.map (·.label)) = true := by
  unfold rankedOK
  cases hq : (finish fx st line ch trig ranked).query with
  | cons _ _ => rfl
  | nil =>
    simp only [List.isEmpty_nil, Bool.not_true, Bool.false_or]
    apply nonIncreasing_of_pairwise
    have := frequency_ranked lower fx t st line ch trig ranked hr hq
    rw [List.map_map]
    have hfun : (usage t (finish fx st line ch trig ranked).ctx ∘ fun s : Scored => s.label) =
        fun s => countOf (countsFor t (determineContext line ch trig)) s.label := by
      funext s; exact usage_eq_countOf t _ hj s.label
    rw [hfun]; exact this

/-! ## edit_replaces_fragment -/

/-- With the repaired code, in the account, payee and commodity contexts the edit range is
    `[s, cursor]` with `s ≤ cursor`, and the text it covers is exactly the query. -/
theorem edit_replaces_fragment (c : Ctx) (line : Str) (ch : Nat) (hv : validCursor line ch = true)
    (hc : c = .account ∨ c = .payee ∨ c = .commodity) :
    ∃ a, editRange true c line ch = some (a, ch) ∧ a ≤ ch ∧
      fragOf line a ch = extractQuery true c line (takeU16 line ch) := by
  have hcol := takeU16_le line ch
  obtain ⟨s, hs, hle, hq⟩ := editStart_query c line (takeU16 line ch) hcol hc
  simp only [validCursor, Bool.and_eq_true, decide_eq_true_eq, beq_iff_eq] at hv
  refine ⟨u16len (line.take s), ?_, ?_, ?_⟩
  · simp only [editRange, hs, Option.map_some]
  · have := u16len_take_mono line s (takeU16 line ch) hle
    omega
  · unfold fragOf
    rw [takeU16_u16len_take line s (by omega)]
    exact hq

/-- The same for the answer of `Completion`. -/
theorem edit_replaces_fragment_answer (st : Settings) (line : Str) (ch : Nat) (trig : Str) (ranked : List Scored)
    (hv : validCursor line ch = true)
    (hc : determineContext line ch trig = .account ∨ determineContext line ch trig = .payee ∨
          determineContext line ch trig = .commodity) :
    ∃ a, (finish true st line ch trig ranked).range = some (a, ch) ∧ editOK ch (a, ch) = true ∧
      fragOf line a ch = (finish true st line ch trig ranked).query := by
  obtain ⟨a, h1, h2, h3⟩ := edit_replaces_fragment _ line ch hv hc
  exact ⟨a, h1, by simp [editOK, h2], h3⟩

/-- Tag contexts carry no edit range and an empty query (see `tag_fragment_ignored_counterexample`). -/
theorem tag_context_no_range (fx : Bool) (line : Str) (ch : Nat) :
    editRange fx .tagName line ch = none ∧ extractQuery fx .tagName line (takeU16 line ch) = [] :=
  ⟨rfl, rfl⟩

/-- `range-query-mismatch` (code as pinned, `fx = false`), three shapes:
    * blanks after the amount: `    a:b  1    USD`, cursor 11 — commodity context, range `[14, 11]`;
    * cursor inside a directive keyword: `account foo`, cursor 3 — range `[8, 3]`;
    * status mark on a header line: `2024-01-01 * sho` — the range covers `sho`, the query is `* sho`. -/
theorem edit_range_counterexample :
    (determineContext "    a:b  1    USD".toList 11 [] = .commodity ∧
      editRange false .commodity "    a:b  1    USD".toList 11 = some (14, 11)) ∧
    (determineContext "account foo".toList 3 [] = .account ∧
      editRange false .account "account foo".toList 3 = some (8, 3)) ∧
    (determineContext "2024-01-01 * sho".toList 16 [] = .payee ∧
      editRange false .payee "2024-01-01 * sho".toList 16 = some (13, 16) ∧
      extractQuery false .payee "2024-01-01 * sho".toList 16 = "* sho".toList) := by
  decide +kernel

/-- The repaired code on the same inputs. -/
example :
    editRange true .commodity "    a:b  1    USD".toList 11 = some (11, 11) ∧
    editRange true .account "account foo".toList 3 = some (0, 3) ∧
    extractQuery true .payee "2024-01-01 * sho".toList 16 = "sho".toList := by
  decide +kernel

/-! ## Where the server's fragment is not the name being typed -/

/-- On a posting line (indent, then text without a leading blank) the account query is everything
    between the indent and the cursor, and the edit range starts right after the indent. -/
theorem posting_fragment_partial (fx : Bool) (ind frag rest : Str) (hi : ind ≠ [])
    (hind : ∀ c ∈ ind, isBlankTab c = true) (hfrag : ∀ c ∈ frag.head?, isBlankTab c = false) :
    extractQuery fx .account (ind ++ frag ++ rest) (ind.length + frag.length) = frag ∧
    editStart fx .account (ind ++ frag ++ rest) (ind.length + frag.length) = some ind.length := by
  have htake : (ind ++ frag ++ rest).take (ind.length + frag.length) = ind ++ frag := by
    rw [← List.length_append]; exact List.take_left' rfl
  obtain ⟨b, bs, rfl⟩ := List.exists_cons_of_ne_nil hi
  have hb := hind b List.mem_cons_self
  have hba : 'a' ≠ b := by rintro rfl; simp [isBlankTab] at hb
  have hnp : ∀ (p : Str), p.head? = some 'a' → ∀ r : Str, hasPrefix (b :: bs ++ r) p = false :=
    fun p hp r => hasPrefix_false_of_head _ p b 'a' rfl hp hba
  have hdw : (b :: bs ++ frag).dropWhile isBlankTab = frag := by
    rw [List.dropWhile_append_of_pos (by simpa using hind)]
    cases frag with
    | nil => rfl
    | cons f fs =>
      have := hfrag f (by simp)
      simp [this]
  have h1 := hnp directiveAccount rfl
  have h2 := hnp directiveApplyAccount rfl
  constructor
  · simp only [extractQuery, htake]
    rw [not_hasPrefix_cut _ _ (by simpa using h1 frag), not_hasPrefix_cut _ _ (by simpa using h2 frag)]
    exact hdw
  · simp only [editStart, htake]
    have e1 : hasPrefix (b :: bs ++ frag ++ rest) directiveAccount = false := by
      simpa [List.append_assoc] using h1 (frag ++ rest)
    have e2 : hasPrefix (b :: bs ++ frag ++ rest) directiveApplyAccount = false := by
      simpa [List.append_assoc] using h2 (frag ++ rest)
    have e1' := h1 frag
    have e2' := h2 frag
    have hlen : (b :: bs).length + frag.length - frag.length = (b :: bs).length := by omega
    cases fx <;>
      simp only [e1, e2, e1', e2', Bool.false_eq_true, if_false, if_true, trimLeftP, hdw, hlen]

example : posting_fragment_partial true "    ".toList "assets:c".toList "  1 USD".toList (by decide) (by decide) (by decide)
    = posting_fragment_partial true "    ".toList "assets:c".toList "  1 USD".toList (by decide) (by decide) (by decide) := rfl

example : hasPrefix "    a:b  1 U".toList fourBlanks = true ∧
    determineTagContext "    a:b  1 U".toList (takeU16 "    a:b  1 U".toList 12) = .unknown := by decide

/-- `fragment-includes-mark`: that text includes a status mark or an opening parenthesis, which no
    account name contains — typing `(ass` on a virtual posting offers nothing although
    `assets:cash` exists, and the range covers the parenthesis. -/
theorem fragment_includes_mark_counterexample :
    let t : Table := { (default : Table) with accounts := ["assets:cash".toList] }
    let r := complete goLower true t ⟨50, true⟩ "    (ass".toList 8 []
    let r' := complete goLower true t ⟨50, true⟩ "    ass".toList 7 []
    r.ctx = .account ∧ r.query = "(ass".toList ∧ r.range = some (4, 8) ∧ r.items = [] ∧
    prefixCI goLower "ass".toList "assets:cash".toList = true ∧
    r'.items.map (·.label) = ["assets:cash".toList] := by
  decide +kernel

/-- `tag-fragment-ignored`: in a comment every tag name is offered whatever has been typed, and
    without an edit range. -/
theorem tag_fragment_ignored_counterexample :
    let t : Table := { (default : Table) with tags := ["cat".toList, "dog".toList] }
    let r := complete goLower true t ⟨50, true⟩ "    ; ca".toList 8 []
    r.ctx = .tagName ∧ r.query = [] ∧ r.range = none ∧
    r.items.map (·.label) = ["cat".toList, "dog".toList] ∧
    matchesQ goLower true "ca".toList "dog".toList = false := by
  decide +kernel

/-- `short-indent`: a line indented by fewer than four blanks is not taken for a posting. -/
theorem short_indent_counterexample :
    determineContext "  assets:c".toList 10 [] = .date ∧
    determineContext "    assets:c".toList 12 [] = .account := by
  decide +kernel

/-- A line that starts with four blanks or a tab and has no `;` before the cursor is completed as
    a posting (account or commodity context) on an invoked request. -/
theorem posting_context_partial (line : Str) (ch : Nat)
    (hind : hasPrefix line fourBlanks = true ∨ hasPrefix line ['\t'] = true)
    (hsemi : determineTagContext line (takeU16 line ch) = .unknown) :
    determineContext line ch [] = .account ∨ determineContext line ch [] = .commodity := by
  have hhead : ∃ x, line.head? = some x ∧ 'a' ≠ x ∧ 'c' ≠ x := by
    cases line with
    | nil => rcases hind with h | h <;> simp [hasPrefix, fourBlanks] at h
    | cons x xs =>
      refine ⟨x, rfl, ?_⟩
      rcases hind with h | h <;> simp only [hasPrefix, fourBlanks, List.isPrefixOf_cons_cons,
        Bool.and_eq_true, beq_iff_eq] at h <;> rw [← h.1] <;> decide
  obtain ⟨x, hx, hxa, hxc⟩ := hhead
  have hne : line ≠ [] := by rintro rfl; simp at hx
  have h1 := hasPrefix_false_of_head line directiveAccount x 'a' hx rfl hxa
  have h2 := hasPrefix_false_of_head line directiveCommodity x 'c' hx rfl hxc
  have h3 := hasPrefix_false_of_head line directiveApplyAccount x 'a' hx rfl hxa
  have h4 : (hasPrefix line fourBlanks || hasPrefix line ['\t']) = true := by
    rcases hind with h | h <;> simp [h]
  unfold determineContext
  simp only [hsemi, ne_eq, not_true_eq_false, if_false, hne, h1, h2, h3, h4, Bool.false_eq_true,
    reduceCtorEq, or_self, if_true]
  unfold determinePostingContext
  simp only []
  split
  · exact Or.inl rfl
  · split
    · exact Or.inl rfl
    · split
      · exact Or.inl rfl
      · split
        · exact Or.inl rfl
        · exact Or.inr rfl

end HL.Props.C16
