import HL.Model.Completion
import HL.Spec.CompletionSpec
namespace HL.Props.C16
open HL.Completion HL.CompletionSpec

theorem placeholder : normMax 0 = 50 := by decide

end HL.Props.C16
