/-
  C16 — Completion is sound, complete for prefixes, bounded and frequency-ranked.

  Model: HL/Model/Completion.lean (internal/server/completion.go with the completion repairs, the
  account list of internal/analyzer/indexer.go, maxResults normalisation of settings.go).
  Spec : HL/Spec/CompletionSpec.lean.

  All theorems hold for every lower-casing function `lower`, every symbol table, line, cursor,
  trigger and configuration.  `sound`, `prefix_complete`, `bounded`, `frequency_ranked` hold for
  EVERY sorted permutation `ranked` of the filtered, scored candidates (`IsRanking`), so they do
  not depend on how ties are ordered; `rankExec_isRanking` shows the executable ranking
  (`sort.SliceStable`) is one of them, `limit_prefix_full` and `ranking_stable` are about that
  ranking itself.

  The code before the repairs is `HL.Completion.Pinned` (HL/Model/CompletionPinned.lean); the
  `pinned_*_counterexample` theorems record what it did on the witnesses of the findings.
-/
import HL.Lemmas.Completion
import HL.Model.CompletionPinned
namespace HL.Props.C16
open HL.Text HL.Completion HL.CompletionSpec HL.Lemmas.Text

/-- The executable pipeline of the driver is `finish` on one admissible ranking, so every theorem
    below applies to `complete`. -/
theorem complete_is_finish (lower : Char → Char) (t : Table) (st : Settings) (line : Str)
    (ch : Nat) (trig : Str) :
    ∃ ranked, IsRanking (countsFor t (determineContext line ch trig)) (scoredFor lower t st line ch trig) ranked ∧
      complete lower t st line ch trig = finish st line ch trig ranked :=
  ⟨_, rankExec_isRanking _ _, rfl⟩

/-! ## sound -/

/-- `sound`: every returned label is in the symbol table of its context and matches the query —
    as a subsequence (letter case ignored) with fuzzy matching on, as a prefix with it off. -/
theorem sound (lower : Char → Char) (t : Table) (st : Settings) (line : Str) (ch : Nat)
    (trig : Str) (ranked : List Scored)
    (hr : IsRanking (countsFor t (determineContext line ch trig)) (scoredFor lower t st line ch trig) ranked)
    (hj : judged (determineContext line ch trig) = true)
    (s : Scored) (hs : s ∈ (finish st line ch trig ranked).items) :
    s.label ∈ namesOf t (finish st line ch trig ranked).ctx ∧
    matchesQ lower st.fuzzy (finish st line ch trig ranked).query s.label = true := by
  simp only [finish] at hs ⊢
  have h1 : s ∈ ranked := (truncate_sublist _ _).subset hs
  have h2 : s ∈ scoredFor lower t st line ch trig := hr.1.mem_iff.1 h1
  unfold scoredFor at h2
  simp only [] at h2
  obtain ⟨hl, hm⟩ := mem_filterAndScore _ _ _ _ _ h2
  refine ⟨labelsFor_subset lower t _ line _ hj _ hl, ?_⟩
  generalize extractQuery (determineContext line ch trig) line (takeU16 line ch) = q at hm ⊢
  unfold matchesQ subseqCI prefixCI
  rcases hm with ⟨hq, _⟩ | ⟨_, hf, _, hp⟩ | ⟨_, hf, hpos⟩
  · subst hq
    cases st.fuzzy <;> simp [List.isSublist_iff_sublist]
  · simp only [hf, Bool.false_eq_true, if_false]
    exact List.isPrefixOf_iff_prefix.2 hp
  · simp only [hf, if_true]
    exact List.isSublist_iff_sublist.2 (fuzzyItemScore_pos lower q s.label hpos)

/-- In the form of the executable oracle. -/
theorem sound_oracle (lower : Char → Char) (t : Table) (st : Settings) (line : Str) (ch : Nat)
    (trig : Str) (ranked : List Scored)
    (hr : IsRanking (countsFor t (determineContext line ch trig)) (scoredFor lower t st line ch trig) ranked)
    (hj : judged (determineContext line ch trig) = true) :
    soundOK lower st.fuzzy t (finish st line ch trig ranked).ctx (finish st line ch trig ranked).query
      ((finish st line ch trig ranked).items.map (·.label)) = true := by
  unfold soundOK
  rw [List.all_eq_true]
  intro l hl
  obtain ⟨s, hs, rfl⟩ := List.mem_map.1 hl
  have := sound lower t st line ch trig ranked hr hj s hs
  simp only [Bool.and_eq_true, List.contains_iff_mem]
  exact this

/-- `segment-colon` (repaired): before the repair the query `exp:` returned `foo:expenses` (its
    segment `expenses` matches `exp`), which does not contain `exp:` as a subsequence; the
    repaired code considers only segments followed by a colon and returns `expenses:food` alone. -/
theorem pinned_segment_colon_counterexample :
    let names := ["foo:expenses".toList, "expenses:food".toList]
    (Pinned.filterAndScore goLower names "exp:".toList true).map (·.label) = names ∧
    subseqCI goLower "exp:".toList "foo:expenses".toList = false ∧
    (filterAndScore goLower names "exp:".toList true).map (·.label) = ["expenses:food".toList] := by
  decide +kernel

/-- The same through the whole pipeline: a posting line `    exp:` with the cursor at its end. -/
theorem pinned_segment_colon_pipeline_counterexample :
    let t : Table := { (default : Table) with accounts := ["foo:expenses".toList] }
    let r := Pinned.complete goLower true t ⟨50, true⟩ "    exp:".toList 8 []
    let r' := complete goLower t ⟨50, true⟩ "    exp:".toList 8 []
    r.ctx = .account ∧ r.query = "exp:".toList ∧ r.items.map (·.label) = ["foo:expenses".toList] ∧
    matchesQ goLower true r.query "foo:expenses".toList = false ∧
    r'.ctx = .account ∧ r'.query = "exp:".toList ∧ r'.items = [] := by
  decide +kernel

/-- Non-vacuity of `sound`: a query ending in a colon with fuzzy matching on, non-empty answer. -/
example :
    let t : Table := { (default : Table) with accounts := ["foo:expenses".toList, "Expenses:food".toList] }
    let r := complete goLower t ⟨50, true⟩ "  exp:".toList 6 []
    judged r.ctx = true ∧ r.query = "exp:".toList ∧ r.items.map (·.label) = ["Expenses:food".toList] := by
  decide +kernel

/-! ## prefix_complete -/

/-- A non-empty (indeed any) case-insensitive prefix scores above zero. -/
theorem prefix_scores_positive (lower : Char → Char) (q n : Str) (h : prefixCI lower q n = true) :
    0 < fuzzyItemScore lower q n ∧ 0 < fuzzyScore lower n q :=
  ⟨fuzzyItemScore_of_prefix lower q n (List.isPrefixOf_iff_prefix.1 h),
   fuzzyScore_pos_of_prefix lower n q (List.isPrefixOf_iff_prefix.1 h)⟩

/-- The narrowing of the account candidates keeps every account that starts with the typed
    fragment, letter case ignored (the typed parent is a prefix of the fragment). -/
theorem narrowing_keeps_prefixed (lower : Char → Char) (t : Table) (line : Str) (col : Nat) (n : Str)
    (hn : n ∈ t.accounts) (hp : prefixCI lower (extractQuery .account line col) n = true) :
    n ∈ accountsForPrefix lower t (extractAccountPrefix line col) :=
  accountsForPrefix_complete lower t _ n hn
    (((extractAccountPrefix_prefix line col).map lower).trans (List.isPrefixOf_iff_prefix.1 hp))

/-- `prefix_complete`: every name of the context's table that has the query as a
    case-insensitive prefix is in the untruncated list. -/
theorem prefix_complete (lower : Char → Char) (t : Table) (st : Settings) (line : Str)
    (ch : Nat) (trig : Str) (ranked : List Scored)
    (hr : IsRanking (countsFor t (determineContext line ch trig)) (scoredFor lower t st line ch trig) ranked)
    (hj : judged (determineContext line ch trig) = true)
    (n : Str) (hn : n ∈ namesOf t (determineContext line ch trig))
    (hp : prefixCI lower (finish st line ch trig ranked).query n = true) :
    n ∈ ranked.map (·.label) := by
  have hp' := List.isPrefixOf_iff_prefix.1 hp
  have hlab := labelsFor_complete lower t _ line (takeU16 line ch) hj n hn hp'
  have hsc := filterAndScore_complete lower _ (extractQuery (determineContext line ch trig) line (takeU16 line ch))
    st.fuzzy n hlab hp'
  exact (hr.1.map _).mem_iff.2 hsc

/-- ... and in the returned list when the limit allows. -/
theorem prefix_complete_within_limit (lower : Char → Char) (t : Table) (st : Settings)
    (line : Str) (ch : Nat) (trig : Str) (ranked : List Scored)
    (hr : IsRanking (countsFor t (determineContext line ch trig)) (scoredFor lower t st line ch trig) ranked)
    (hj : judged (determineContext line ch trig) = true)
    (hlim : ranked.length ≤ normMax st.maxRaw)
    (n : Str) (hn : n ∈ namesOf t (determineContext line ch trig))
    (hp : prefixCI lower (finish st line ch trig ranked).query n = true) :
    n ∈ (finish st line ch trig ranked).items.map (·.label) := by
  have := prefix_complete lower t st line ch trig ranked hr hj n hn hp
  simp only [finish]
  rw [truncate_eq_take _ _ (normMax_pos _), List.take_of_length_le hlim]
  exact this

/-- In the form of the executable oracle: `completeOK` accepts every answer. -/
theorem prefix_complete_oracle (lower : Char → Char) (t : Table) (st : Settings)
    (line : Str) (ch : Nat) (trig : Str) (ranked : List Scored)
    (hr : IsRanking (countsFor t (determineContext line ch trig)) (scoredFor lower t st line ch trig) ranked)
    (hj : judged (determineContext line ch trig) = true) :
    completeOK lower t (finish st line ch trig ranked).ctx (finish st line ch trig ranked).query
      ((finish st line ch trig ranked).items.map (·.label)) (normMax st.maxRaw) = true := by
  unfold completeOK
  by_cases hlen : (finish st line ch trig ranked).items.length ≥ normMax st.maxRaw
  · simp only [List.length_map, ge_iff_le, Bool.or_eq_true, decide_eq_true_eq]
    exact Or.inl hlen
  · simp only [Bool.or_eq_true]
    refine Or.inr ?_
    rw [List.all_eq_true]
    intro n hn
    by_cases hp : prefixCI lower (finish st line ch trig ranked).query n = true
    · have hlim : ranked.length ≤ normMax st.maxRaw := by
        simp only [finish, truncate_eq_take _ _ (normMax_pos _), List.length_take] at hlen
        omega
      have := prefix_complete_within_limit lower t st line ch trig ranked hr hj hlim n hn hp
      simp only [Bool.or_eq_true, List.contains_iff_mem]
      exact Or.inr this
    · simp only [Bool.or_eq_true, Bool.not_eq_true']
      exact Or.inl (by simpa using hp)

/-- `byprefix-narrowing` (repaired): `expenses:food` and `Expenses:Fun` are two accounts; before
    the repair typing `expenses:f` hit the case-sensitive index key `expenses:` and `Expenses:Fun`,
    which starts with the fragment when letter case is ignored, was not offered; likewise
    `assets:my bank:` was looked up as `bank:`.  The repaired code offers them. -/
theorem pinned_byprefix_narrowing_counterexample :
    let t : Table := { (default : Table) with
      accounts := ["expenses:food".toList, "Expenses:Fun".toList],
      byPrefix := [("expenses:".toList, ["expenses:food".toList]), ("Expenses:".toList, ["Expenses:Fun".toList])] }
    let r := Pinned.complete goLower true t ⟨50, true⟩ "    expenses:f".toList 14 []
    let r' := complete goLower t ⟨50, true⟩ "    expenses:f".toList 14 []
    indexSuperset t = true ∧ indexSubset t = true ∧ r.ctx = .account ∧ r.query = "expenses:f".toList ∧
    prefixCI goLower r.query "Expenses:Fun".toList = true ∧
    r.items.map (·.label) = ["expenses:food".toList] ∧
    r'.query = "expenses:f".toList ∧
    r'.items.map (·.label) = ["expenses:food".toList, "Expenses:Fun".toList] := by
  decide +kernel

theorem pinned_byprefix_blank_counterexample :
    let t : Table := { (default : Table) with
      accounts := ["assets:my bank:foo".toList, "bank:x".toList],
      byPrefix := [("assets:".toList, ["assets:my bank:foo".toList]), ("assets:my bank:".toList, ["assets:my bank:foo".toList]),
                   ("bank:".toList, ["bank:x".toList])] }
    let line := "    assets:my bank:".toList
    Pinned.extractAccountPrefix line 19 = "bank:".toList ∧
    (Pinned.complete goLower true t ⟨50, true⟩ line 19 []).items = [] ∧
    extractAccountPrefix line 19 = "assets:my bank:".toList ∧
    (complete goLower t ⟨50, true⟩ line 19 []).items.map (·.label) = ["assets:my bank:foo".toList] := by
  decide +kernel

/-! ## bounded, limit_prefix -/

/-- At most the configured maximum is returned (the setting is normalised to a positive value). -/
theorem bounded (st : Settings) (line : Str) (ch : Nat) (trig : Str) (ranked : List Scored) :
    (finish st line ch trig ranked).items.length ≤ normMax st.maxRaw ∧ 0 < normMax st.maxRaw :=
  ⟨truncate_length_le _ _ (normMax_pos _), normMax_pos _⟩

/-- A smaller maximum returns a prefix of the list returned for a larger one, given the same
    ranked list. -/
theorem limit_prefix (f : Bool) (m₁ m₂ : Int) (line : Str) (ch : Nat) (trig : Str)
    (ranked : List Scored) (h : normMax m₁ ≤ normMax m₂) :
    (finish ⟨m₁, f⟩ line ch trig ranked).items =
      ((finish ⟨m₂, f⟩ line ch trig ranked).items).take (normMax m₁) := by
  simp only [finish]
  rw [truncate_eq_take _ _ (normMax_pos _), truncate_eq_take _ _ (normMax_pos _), List.take_take,
    Nat.min_eq_left h]

/-- The candidates do not depend on the limit. -/
theorem scored_independent_of_limit (lower : Char → Char) (t : Table) (f : Bool) (m₁ m₂ : Int)
    (line : Str) (ch : Nat) (trig : Str) :
    scoredFor lower t ⟨m₁, f⟩ line ch trig = scoredFor lower t ⟨m₂, f⟩ line ch trig := rfl

/-- `limit_prefix` in full, for two separate requests on the same state: the answer under the
    smaller maximum is a prefix of the answer under the larger one (labels, not only keys).  The
    ranking is a function of the candidates (`sort.SliceStable`), so nothing is assumed about ties. -/
theorem limit_prefix_full (lower : Char → Char) (t : Table) (f : Bool) (m₁ m₂ : Int) (line : Str) (ch : Nat)
    (trig : Str) (h : normMax m₁ ≤ normMax m₂) :
    (complete lower t ⟨m₁, f⟩ line ch trig).items =
      ((complete lower t ⟨m₂, f⟩ line ch trig).items).take (normMax m₁) := by
  unfold complete
  simp only [scored_independent_of_limit lower t f m₁ m₂]
  exact limit_prefix f m₁ m₂ line ch trig _ h

/-- In the form of the executable oracle. -/
theorem limit_prefix_oracle (lower : Char → Char) (t : Table) (f : Bool) (m₁ m₂ : Int) (line : Str) (ch : Nat)
    (trig : Str) (h : normMax m₁ ≤ normMax m₂) :
    limitPrefixOK (normMax m₁) ((complete lower t ⟨m₁, f⟩ line ch trig).items.map (·.label))
      ((complete lower t ⟨m₂, f⟩ line ch trig).items.map (·.label)) = true := by
  unfold limitPrefixOK
  rw [limit_prefix_full lower t f m₁ m₂ line ch trig h, List.map_take]
  exact beq_self_eq_true _

/-- The ranking of `complete` is the stable one: it is sorted, and of two candidates the earlier
    one stays first unless the later one ranks strictly higher (Go: `sort.SliceStable`). -/
theorem ranking_stable (counts : Option (List (Str × Nat))) (scored : List Scored) :
    IsRanking counts scored (rankExec counts scored) ∧
    ∀ a b, [a, b].Sublist scored → less counts b a = false → [a, b].Sublist (rankExec counts scored) :=
  ⟨rankExec_isRanking counts scored, fun a b => rankExec_stable counts scored a b⟩

/-- ... and that determines the ranking: any sorted permutation of distinct candidates that
    keeps the input order in this sense IS `rankExec`'s (a stable sort is a function, so modelling
    `sort.SliceStable` by one particular stable sort loses nothing). -/
theorem ranking_unique (counts : Option (List (Str × Nat))) (scored r : List Scored)
    (hnd : scored.Nodup) (hr : IsRanking counts scored r)
    (hst : ∀ a b, [a, b].Sublist scored → less counts b a = false → [a, b].Sublist r) :
    r = rankExec counts scored :=
  stable_ranking_unique counts scored r hnd hr hst

/-- `limit-prefix-tie-order` (repaired by making the sort stable and the analyzer's order
    deterministic): with `sort.Slice` any sorted permutation was possible, two requests could rank
    tied names differently, and then the shorter answer is not a prefix of the longer one.  Both
    lists below are sorted permutations of the same candidates. -/
theorem pinned_limit_prefix_tie_counterexample :
    let scored : List Scored := [⟨"a".toList, 1000⟩, ⟨"b".toList, 1000⟩]
    let r₁ : List Scored := [⟨"a".toList, 1000⟩, ⟨"b".toList, 1000⟩]
    let r₂ : List Scored := [⟨"b".toList, 1000⟩, ⟨"a".toList, 1000⟩]
    IsRanking none scored r₁ ∧ IsRanking none scored r₂ ∧
    (finish ⟨1, true⟩ [] 0 [] r₁).items ≠ ((finish ⟨2, true⟩ [] 0 [] r₂).items).take 1 ∧
    rankExec none scored = r₁ := by
  refine ⟨⟨List.Perm.refl _, by decide⟩, ⟨List.Perm.swap _ _ _, by decide⟩, by decide, by decide⟩

/-- The sort key of an item. -/
def keyOf (counts : Option (List (Str × Nat))) (s : Scored) : Nat × Nat := (s.score, countOf counts s.label)

/-- Whatever a sort does inside a tie class, the sequence of keys (score, count) is the
    same for every ranking of the same candidates. -/
theorem ranking_keys_unique (counts : Option (List (Str × Nat))) (scored r₁ r₂ : List Scored)
    (h₁ : IsRanking counts scored r₁) (h₂ : IsRanking counts scored r₂) :
    r₁.map (keyOf counts) = r₂.map (keyOf counts) := by
  let le : Nat × Nat → Nat × Nat → Prop := fun a b => b.1 < a.1 ∨ (b.1 = a.1 ∧ b.2 ≤ a.2)
  have hs : ∀ r, IsRanking counts scored r → (r.map (keyOf counts)).Pairwise le := by
    intro r hr
    rw [List.pairwise_map]
    refine hr.2.imp ?_
    intro a b hab
    rw [less_false_iff] at hab
    exact hab
  refine List.Perm.eq_of_pairwise (le := le) ?_ (hs r₁ h₁) (hs r₂ h₂)
    ((h₁.1.trans h₂.1.symm).map _)
  intro a b _ _ hab hba
  obtain ⟨a1, a2⟩ := a
  obtain ⟨b1, b2⟩ := b
  simp only [le] at hab hba
  simp only [Prod.mk.injEq]
  omega

/-- `limit_prefix` on keys for ANY two sorted permutations (holds even for an unstable sort). -/
theorem limit_prefix_keys_any_sort (counts : Option (List (Str × Nat))) (f : Bool) (m₁ m₂ : Int)
    (line : Str) (ch : Nat) (trig : Str) (scored r₁ r₂ : List Scored)
    (h₁ : IsRanking counts scored r₁) (h₂ : IsRanking counts scored r₂) (h : normMax m₁ ≤ normMax m₂) :
    (finish ⟨m₁, f⟩ line ch trig r₁).items.map (keyOf counts) =
      ((finish ⟨m₂, f⟩ line ch trig r₂).items.map (keyOf counts)).take (normMax m₁) := by
  simp only [finish]
  rw [truncate_eq_take _ _ (normMax_pos _), truncate_eq_take _ _ (normMax_pos _), List.map_take,
    List.map_take, List.take_take, Nat.min_eq_left h, ranking_keys_unique counts scored r₁ r₂ h₁ h₂]

/-! ## frequency_ranked -/

/-- With nothing typed, usage counts do not increase along the result. -/
theorem frequency_ranked (lower : Char → Char) (t : Table) (st : Settings) (line : Str) (ch : Nat)
    (trig : Str) (ranked : List Scored)
    (hr : IsRanking (countsFor t (determineContext line ch trig)) (scoredFor lower t st line ch trig) ranked)
    (hq : (finish st line ch trig ranked).query = []) :
    ((finish st line ch trig ranked).items.map fun s =>
      countOf (countsFor t (determineContext line ch trig)) s.label).Pairwise (· ≥ ·) := by
  simp only [finish] at hq ⊢
  have hscore : ∀ s ∈ ranked, s.score = fuzzyScoreEmptyPattern := by
    intro s hs
    have h2 : s ∈ scoredFor lower t st line ch trig := hr.1.mem_iff.1 hs
    unfold scoredFor at h2
    simp only [hq] at h2
    unfold filterAndScore at h2
    simp only [if_true] at h2
    obtain ⟨l, _, rfl⟩ := List.mem_map.1 h2
    rfl
  have hp : (truncate (normMax st.maxRaw) ranked).Pairwise fun a b =>
      less (countsFor t (determineContext line ch trig)) b a = false :=
    hr.2.sublist (truncate_sublist _ _)
  rw [List.pairwise_map]
  refine List.Pairwise.imp_of_mem ?_ hp
  intro a b ha hb hab
  have ha' := hscore a ((truncate_sublist _ _).subset ha)
  have hb' := hscore b ((truncate_sublist _ _).subset hb)
  rw [less_false_iff] at hab
  omega

/-- In the form of the executable oracle. -/
theorem frequency_ranked_oracle (lower : Char → Char) (t : Table) (st : Settings) (line : Str)
    (ch : Nat) (trig : Str) (ranked : List Scored)
    (hr : IsRanking (countsFor t (determineContext line ch trig)) (scoredFor lower t st line ch trig) ranked)
    (hj : judged (determineContext line ch trig) = true) :
    rankedOK t (finish st line ch trig ranked).ctx (finish st line ch trig ranked).query
      ((finish st line ch trig ranked).items.map (·.label)) = true := by
  unfold rankedOK
  cases hq : (finish st line ch trig ranked).query with
  | cons _ _ => rfl
  | nil =>
    simp only [List.isEmpty_nil, Bool.not_true, Bool.false_or]
    apply nonIncreasing_of_pairwise
    have := frequency_ranked lower t st line ch trig ranked hr hq
    rw [List.map_map]
    have hfun : (usage t (finish st line ch trig ranked).ctx ∘ fun s : Scored => s.label) =
        fun s => countOf (countsFor t (determineContext line ch trig)) s.label := by
      funext s; exact usage_eq_countOf t _ hj s.label
    rw [hfun]; exact this

/-! ## edit_replaces_fragment -/

/-- In the account, payee, commodity and tag-name contexts the edit range is `[s, cursor]` with
    `s ≤ cursor`, and the text it covers is exactly the query. -/
theorem edit_replaces_fragment (c : Ctx) (line : Str) (ch : Nat) (hv : validCursor line ch = true)
    (hc : c = .account ∨ c = .payee ∨ c = .commodity ∨ c = .tagName) :
    ∃ a, editRange c line ch = some (a, ch) ∧ a ≤ ch ∧
      fragOf line a ch = extractQuery c line (takeU16 line ch) := by
  have hcol := takeU16_le line ch
  obtain ⟨s, hs, hle, hq⟩ := editStart_query c line (takeU16 line ch) hcol hc
  simp only [validCursor, Bool.and_eq_true, decide_eq_true_eq, beq_iff_eq] at hv
  refine ⟨u16len (line.take s), ?_, ?_, ?_⟩
  · simp only [editRange, hs, Option.map_some]
  · have := u16len_take_mono line s (takeU16 line ch) hle
    omega
  · unfold fragOf
    rw [takeU16_u16len_take line s (by omega)]
    exact hq

/-- The same for the answer of `Completion`, in every judged context. -/
theorem edit_replaces_fragment_answer (st : Settings) (line : Str) (ch : Nat) (trig : Str) (ranked : List Scored)
    (hv : validCursor line ch = true) (hj : judged (determineContext line ch trig) = true) :
    ∃ a, (finish st line ch trig ranked).range = some (a, ch) ∧ editOK ch (a, ch) = true ∧
      fragOf line a ch = (finish st line ch trig ranked).query := by
  have hc : determineContext line ch trig = .account ∨ determineContext line ch trig = .payee ∨
      determineContext line ch trig = .commodity ∨ determineContext line ch trig = .tagName := by
    cases h : determineContext line ch trig <;> simp [judged, h] at hj ⊢
  obtain ⟨a, h1, h2, h3⟩ := edit_replaces_fragment _ line ch hv hc
  exact ⟨a, h1, by simp [editOK, h2], h3⟩

/-- `range-query-mismatch` (repaired earlier; code as pinned, `fx = false`), three shapes:
    * blanks after the amount: `    a:b  1    USD`, cursor 11 — commodity context, range `[14, 11]`;
    * cursor inside a directive keyword: `account foo`, cursor 3 — range `[8, 3]`;
    * status mark on a header line: `2024-01-01 * sho` — the range covers `sho`, the query is `* sho`. -/
theorem pinned_edit_range_counterexample :
    (Pinned.determineContext "    a:b  1    USD".toList 11 [] = .commodity ∧
      Pinned.editRange false .commodity "    a:b  1    USD".toList 11 = some (14, 11)) ∧
    (Pinned.determineContext "account foo".toList 3 [] = .account ∧
      Pinned.editRange false .account "account foo".toList 3 = some (8, 3)) ∧
    (Pinned.determineContext "2024-01-01 * sho".toList 16 [] = .payee ∧
      Pinned.editRange false .payee "2024-01-01 * sho".toList 16 = some (13, 16) ∧
      Pinned.extractQuery false .payee "2024-01-01 * sho".toList 16 = "* sho".toList) := by
  decide +kernel

/-- The repaired code on the same inputs. -/
example :
    editRange .commodity "    a:b  1    USD".toList 11 = some (11, 11) ∧
    editRange .account "account foo".toList 3 = some (0, 3) ∧
    extractQuery .payee "2024-01-01 * sho".toList 16 = "sho".toList := by
  decide +kernel

/-! ## The fragment is the name being typed: marks, brackets and codes are not part of it -/

/-- On a posting line the account fragment never starts with a blank, a status mark or an opening
    bracket. -/
theorem account_fragment_excludes_marks (line : Str) (col : Nat)
    (h1 : hasPrefix (line.take col) directiveAccount = false)
    (h2 : hasPrefix (line.take col) directiveApplyAccount = false) :
    ∀ c ∈ (extractQuery .account line col).head?, isAccountSkip c = false := by
  intro c hc
  simp only [extractQuery, accountQueryStart, h1, h2, Bool.false_eq_true, if_false, trimLeftP] at hc
  rw [drop_sub_dropWhile] at hc
  have := List.head?_dropWhile_not isAccountSkip (line.take col)
  rw [Option.mem_def.1 hc] at this
  simpa using this

/-- Posting line, constructively: after an indent followed by any status marks / opening brackets
    (`pre`, non-empty, e.g. `"    "`, `"  * "`, `"\t("`, `" ! ["`), the account query is the text
    typed behind them and the edit range starts right there. -/
theorem posting_fragment (pre frag rest : Str) (hi : pre ≠ [])
    (hpre : ∀ c ∈ pre, isAccountSkip c = true) (hfrag : ∀ c ∈ frag.head?, isAccountSkip c = false) :
    extractQuery .account (pre ++ frag ++ rest) (pre.length + frag.length) = frag ∧
    editStart .account (pre ++ frag ++ rest) (pre.length + frag.length) = some pre.length := by
  have htake : (pre ++ frag ++ rest).take (pre.length + frag.length) = pre ++ frag := by
    rw [← List.length_append]; exact List.take_left' rfl
  obtain ⟨b, bs, rfl⟩ := List.exists_cons_of_ne_nil hi
  have hb := hpre b List.mem_cons_self
  have hba : 'a' ≠ b := by rintro rfl; simp [isAccountSkip] at hb
  have h1 : hasPrefix (b :: bs ++ frag) directiveAccount = false :=
    hasPrefix_false_of_head _ _ b 'a' rfl rfl hba
  have h2 : hasPrefix (b :: bs ++ frag) directiveApplyAccount = false :=
    hasPrefix_false_of_head _ _ b 'a' rfl rfl hba
  have hdw : (b :: bs ++ frag).dropWhile isAccountSkip = frag := by
    rw [List.dropWhile_append_of_pos (by simpa using hpre)]
    cases frag with
    | nil => rfl
    | cons f fs =>
      have := hfrag f (by simp)
      simp [this]
  have hstart : accountQueryStart (b :: bs ++ frag) = (b :: bs).length := by
    simp only [accountQueryStart, h1, h2, Bool.false_eq_true, if_false, trimLeftP, hdw, List.length_append]
    omega
  constructor
  · simp only [extractQuery, htake, hstart]
    exact List.drop_left
  · simp only [editStart, htake, hstart]

example : (posting_fragment "  * (".toList "ass".toList "  1 USD".toList (by decide) (by decide) (by decide)).1
    = (posting_fragment "  * (".toList "ass".toList "  1 USD".toList (by decide) (by decide) (by decide)).1 := rfl

/-- Transaction line without a code: after the date, one blank and any status marks / blanks
    (`marks`), the payee query is the text typed behind them. -/
theorem header_fragment (date marks frag rest p : Str) (hp : p = date ++ ' ' :: marks) (hd : ' ' ∉ date)
    (hm : ∀ c ∈ marks, isPayeeSkip c = true)
    (hf : ∀ c ∈ frag.head?, isPayeeSkip c = false ∧ c ≠ '(') :
    extractQuery .payee (p ++ frag ++ rest) (p.length + frag.length) = frag ∧
    editStart .payee (p ++ frag ++ rest) (p.length + frag.length) = some p.length := by
  have hpf : p ++ frag = date ++ ' ' :: (marks ++ frag) := by rw [hp]; simp
  have hidx := indexOf_append_cons ' ' date (marks ++ frag) hd
  have hdrop : (date ++ ' ' :: (marks ++ frag)).drop (date.length + 1) = marks ++ frag := by
    have : date ++ ' ' :: (marks ++ frag) = (date ++ [' ']) ++ (marks ++ frag) := by simp
    rw [this]; exact List.drop_left' (by simp)
  have hdw := dropWhile_append_frag isPayeeSkip marks frag hm (fun c hc => (hf c hc).1)
  have hsk : skipCode frag = frag := skipCode_id frag (fun c hc => (hf c hc).2)
  have hstart : payeeQueryStart (p ++ frag) = p.length := by
    have : payeeQueryStart (p ++ frag) = (p ++ frag).length - frag.length := by
      rw [hpf]
      simp only [payeeQueryStart, hidx, hdrop, trimLeftP, hdw, hsk]
    rw [this, length_sub_frag]
  constructor
  · simp only [extractQuery, take_pre_frag, hstart]
    exact List.drop_left
  · simp only [editStart, take_pre_frag, hstart]

/-- Transaction line with a code: after the date, status marks and a closed code `(body)`
    followed by blanks, the payee query is the text typed behind them. -/
theorem header_fragment_code (date marks body blanks frag rest p : Str)
    (hp : p = date ++ ' ' :: marks ++ '(' :: body ++ ')' :: blanks) (hd : ' ' ∉ date)
    (hm : ∀ c ∈ marks, isPayeeSkip c = true) (hb : ')' ∉ body) (hbl : ∀ c ∈ blanks, isBlank c = true)
    (hf : ∀ c ∈ frag.head?, isBlank c = false) :
    extractQuery .payee (p ++ frag ++ rest) (p.length + frag.length) = frag ∧
    editStart .payee (p ++ frag ++ rest) (p.length + frag.length) = some p.length := by
  have hpf : p ++ frag = date ++ ' ' :: (marks ++ (('(' :: body) ++ ')' :: (blanks ++ frag))) := by
    rw [hp]; simp
  have hidx := indexOf_append_cons ' ' date (marks ++ (('(' :: body) ++ ')' :: (blanks ++ frag))) hd
  have hdrop : (date ++ ' ' :: (marks ++ (('(' :: body) ++ ')' :: (blanks ++ frag)))).drop (date.length + 1)
      = marks ++ (('(' :: body) ++ ')' :: (blanks ++ frag)) := by
    have : date ++ ' ' :: (marks ++ (('(' :: body) ++ ')' :: (blanks ++ frag)))
        = (date ++ [' ']) ++ (marks ++ (('(' :: body) ++ ')' :: (blanks ++ frag))) := by simp
    rw [this]; exact List.drop_left' (by simp)
  have hdw : (marks ++ (('(' :: body) ++ ')' :: (blanks ++ frag))).dropWhile isPayeeSkip
      = ('(' :: body) ++ ')' :: (blanks ++ frag) :=
    dropWhile_append_frag isPayeeSkip marks _ hm (by intro c hc; simp at hc; subst hc; rfl)
  have hclose : indexOf ')' (('(' :: body) ++ ')' :: (blanks ++ frag)) = some (body.length + 1) := by
    have := indexOf_append_cons ')' ('(' :: body) (blanks ++ frag) (by simp [hb])
    simpa using this
  have hdw2 := dropWhile_append_frag isBlank blanks frag hbl hf
  have hsk : skipCode (('(' :: body) ++ ')' :: (blanks ++ frag)) = frag := by
    have hd2 : (('(' :: body) ++ ')' :: (blanks ++ frag)).drop (body.length + 1 + 1) = blanks ++ frag := by
      have : ('(' :: body) ++ ')' :: (blanks ++ frag) = (('(' :: body) ++ [')']) ++ (blanks ++ frag) := by simp
      rw [this]; exact List.drop_left' (by simp)
    simp only [List.cons_append] at hclose hd2
    simp only [skipCode, List.cons_append, trimLeftP, hclose, hd2, hdw2]
  have hstart : payeeQueryStart (p ++ frag) = p.length := by
    have : payeeQueryStart (p ++ frag) = (p ++ frag).length - frag.length := by
      rw [hpf]
      simp only [payeeQueryStart, hidx, hdrop, trimLeftP, hdw, hsk]
    rw [this, length_sub_frag]
  constructor
  · simp only [extractQuery, take_pre_frag, hstart]
    exact List.drop_left
  · simp only [editStart, take_pre_frag, hstart]

/-- Comment, first tag: after the semicolon and blanks the tag query is the text typed behind them
    (no comma in it). -/
theorem tag_fragment_first (pre blanks frag rest p : Str) (hp : p = pre ++ ';' :: blanks) (hs : ';' ∉ pre)
    (hbl : ∀ c ∈ blanks, isBlankTab c = true) (hf : ∀ c ∈ frag.head?, isBlankTab c = false)
    (hc : ',' ∉ frag) :
    extractQuery .tagName (p ++ frag ++ rest) (p.length + frag.length) = frag ∧
    editStart .tagName (p ++ frag ++ rest) (p.length + frag.length) = some p.length := by
  have hpf : p ++ frag = pre ++ ';' :: (blanks ++ frag) := by rw [hp]; simp
  have hidx := indexOf_append_cons ';' pre (blanks ++ frag) hs
  have hnc : ∀ x ∈ ';' :: (blanks ++ frag), (x == ',') = false := by
    intro x hx
    rcases List.mem_cons.1 hx with rfl | hx
    · rfl
    · exact not_comma_of_blanks_frag blanks frag hbl hc x hx
  have hlast := lastIndexP_append_of_not (· == ',') pre (';' :: (blanks ++ frag)) hnc
  have hpart : tagPartStart (pre ++ ';' :: (blanks ++ frag)) = pre.length + 1 := by
    simp only [tagPartStart, hidx, hlast]
    cases hl : lastIndexP (· == ',') pre with
    | none => rfl
    | some c =>
      have hlt := lastIndexP_lt _ _ _ hl
      simp only []
      rw [if_neg (Nat.not_le.2 (Nat.lt_succ_of_lt hlt))]
  have hdrop : (pre ++ ';' :: (blanks ++ frag)).drop (pre.length + 1) = blanks ++ frag := by
    have : pre ++ ';' :: (blanks ++ frag) = (pre ++ [';']) ++ (blanks ++ frag) := by simp
    rw [this]; exact List.drop_left' (by simp)
  have hdw := dropWhile_append_frag isBlankTab blanks frag hbl hf
  have hstart : tagNameQueryStart (p ++ frag) = p.length := by
    have : tagNameQueryStart (p ++ frag) = (p ++ frag).length - frag.length := by
      rw [hpf]
      simp only [tagNameQueryStart, hpart, hdrop, trimLeftP, hdw]
    rw [this, length_sub_frag]
  constructor
  · simp only [extractQuery, take_pre_frag, hstart]
    exact List.drop_left
  · simp only [editStart, take_pre_frag, hstart]

/-- Comment, a further tag: after the last comma of the comment and blanks. -/
theorem tag_fragment_after_comma (pre mid blanks frag rest p : Str)
    (hp : p = pre ++ ';' :: mid ++ ',' :: blanks) (hs : ';' ∉ pre)
    (hbl : ∀ c ∈ blanks, isBlankTab c = true) (hf : ∀ c ∈ frag.head?, isBlankTab c = false)
    (hc : ',' ∉ frag) :
    extractQuery .tagName (p ++ frag ++ rest) (p.length + frag.length) = frag ∧
    editStart .tagName (p ++ frag ++ rest) (p.length + frag.length) = some p.length := by
  have hpf : p ++ frag = pre ++ ';' :: (mid ++ ',' :: (blanks ++ frag)) := by rw [hp]; simp
  have hpf2 : pre ++ ';' :: (mid ++ ',' :: (blanks ++ frag)) = (pre ++ ';' :: mid) ++ ',' :: (blanks ++ frag) := by
    simp
  have hidx := indexOf_append_cons ';' pre (mid ++ ',' :: (blanks ++ frag)) hs
  have hnc := not_comma_of_blanks_frag blanks frag hbl hc
  have hlast : lastIndexP (· == ',') (pre ++ ';' :: (mid ++ ',' :: (blanks ++ frag))) = some (pre.length + 1 + mid.length) := by
    rw [hpf2, lastIndexP_append_cons (· == ',') (pre ++ ';' :: mid) (blanks ++ frag) ',' rfl hnc]
    simp only [List.length_append, List.length_cons]
    congr 1; omega
  have hpart : tagPartStart (pre ++ ';' :: (mid ++ ',' :: (blanks ++ frag))) = pre.length + 1 + mid.length + 1 := by
    simp only [tagPartStart, hidx, hlast]
    rw [if_pos (Nat.le_add_right _ _)]
  have hdrop : (pre ++ ';' :: (mid ++ ',' :: (blanks ++ frag))).drop (pre.length + 1 + mid.length + 1) = blanks ++ frag := by
    have : pre ++ ';' :: (mid ++ ',' :: (blanks ++ frag)) = ((pre ++ ';' :: mid) ++ [',']) ++ (blanks ++ frag) := by simp
    rw [this]; exact List.drop_left' (by simp; omega)
  have hdw := dropWhile_append_frag isBlankTab blanks frag hbl hf
  have hstart : tagNameQueryStart (p ++ frag) = p.length := by
    have : tagNameQueryStart (p ++ frag) = (p ++ frag).length - frag.length := by
      rw [hpf]
      simp only [tagNameQueryStart, hpart, hdrop, trimLeftP, hdw]
    rw [this, length_sub_frag]
  constructor
  · simp only [extractQuery, take_pre_frag, hstart]
    exact List.drop_left
  · simp only [editStart, take_pre_frag, hstart]

/-- Non-vacuity of the fragment theorems on the witnesses of the finding. -/
example :
    extractQuery .payee "2024-01-02 * (123) sho".toList 22 = "sho".toList ∧
    extractQuery .tagName "    a:b  1,5 USD ; cat:1, do".toList 28 = "do".toList ∧
    extractQuery .account "\t! [ass".toList 7 = "ass".toList := by
  decide +kernel

/-- `fragment-includes-mark` (repaired): before the repair the text after the indent / the date was
    the fragment — typing `(ass` on a virtual posting offered nothing although `assets:cash`
    exists, the range covered the parenthesis; a transaction code was part of the payee query. -/
theorem pinned_fragment_includes_mark_counterexample :
    let t : Table := { (default : Table) with accounts := ["assets:cash".toList], payees := ["shop".toList] }
    let r := Pinned.complete goLower true t ⟨50, true⟩ "    (ass".toList 8 []
    let r' := complete goLower t ⟨50, true⟩ "    (ass".toList 8 []
    let h := Pinned.complete goLower true t ⟨50, true⟩ "2024-01-02 (123) sho".toList 20 []
    let h' := complete goLower t ⟨50, true⟩ "2024-01-02 (123) sho".toList 20 []
    r.ctx = .account ∧ r.query = "(ass".toList ∧ r.range = some (4, 8) ∧ r.items = [] ∧
    prefixCI goLower "ass".toList "assets:cash".toList = true ∧
    r'.query = "ass".toList ∧ r'.range = some (5, 8) ∧ r'.items.map (·.label) = ["assets:cash".toList] ∧
    h.query = "(123) sho".toList ∧ h.items = [] ∧
    h'.query = "sho".toList ∧ h'.range = some (17, 20) ∧ h'.items.map (·.label) = ["shop".toList] := by
  decide +kernel

/-- `tag-fragment-ignored` (repaired): before the repair every tag name was offered in a comment
    whatever had been typed, and without an edit range. -/
theorem pinned_tag_fragment_ignored_counterexample :
    let t : Table := { (default : Table) with tags := ["cat".toList, "dog".toList] }
    let r := Pinned.complete goLower true t ⟨50, true⟩ "    ; ca".toList 8 []
    let r' := complete goLower t ⟨50, true⟩ "    ; ca".toList 8 []
    r.ctx = .tagName ∧ r.query = [] ∧ r.range = none ∧
    r.items.map (·.label) = ["cat".toList, "dog".toList] ∧
    matchesQ goLower true "ca".toList "dog".toList = false ∧
    r'.ctx = .tagName ∧ r'.query = "ca".toList ∧ r'.range = some (6, 8) ∧
    r'.items.map (·.label) = ["cat".toList] ∧ newText .tagName "cat".toList = "cat:".toList := by
  decide +kernel

/-! ## posting_context -/

/-- `short-indent` (repaired): before the repair a line indented by fewer than four blanks was not
    taken for a posting. -/
theorem pinned_short_indent_counterexample :
    Pinned.determineContext "  assets:c".toList 10 [] = .date ∧
    Pinned.determineContext "    assets:c".toList 12 [] = .account ∧
    determineContext "  assets:c".toList 10 [] = .account ∧
    determineContext " assets:c".toList 9 [] = .account := by
  decide +kernel

/-- `status-mark-separator` (repaired): before the repair the blanks between the status mark of a
    posting and its account were taken for the separator in front of the amount, and commodities
    were offered inside the account name. -/
theorem pinned_status_mark_separator_counterexample :
    Pinned.determineContext "    !  a:big box".toList 13 [] = .commodity ∧
    determineContext "    !  a:big box".toList 13 [] = .account ∧
    extractQuery .account "    !  a:big box".toList 13 = "a:big ".toList ∧
    determineContext "    !  a:big box  1 U".toList 21 [] = .commodity ∧
    extractQuery .commodity "    !  a:big box  1 U".toList 21 = "U".toList := by
  decide +kernel

/-- `posting_context`: a line that starts with a blank or a tab (an indent of any width ≥ 1) and
    has no `;` before the cursor is completed as a posting (account or commodity context) on an
    invoked request. -/
theorem posting_context (line : Str) (ch : Nat)
    (hind : line.head? = some ' ' ∨ line.head? = some '\t')
    (hsemi : determineTagContext line (takeU16 line ch) = .unknown) :
    determineContext line ch [] = .account ∨ determineContext line ch [] = .commodity := by
  have hhead : ∃ x, line.head? = some x ∧ 'a' ≠ x ∧ 'c' ≠ x := by
    rcases hind with h | h <;> exact ⟨_, h, by decide, by decide⟩
  obtain ⟨x, hx, hxa, hxc⟩ := hhead
  have hne : line ≠ [] := by rintro rfl; simp at hx
  have h1 := hasPrefix_false_of_head line directiveAccount x 'a' hx rfl hxa
  have h2 := hasPrefix_false_of_head line directiveCommodity x 'c' hx rfl hxc
  have h3 := hasPrefix_false_of_head line directiveApplyAccount x 'a' hx rfl hxa
  have h4 : (hasPrefix line [' '] || hasPrefix line ['\t']) = true := by
    cases line with
    | nil => exact absurd rfl hne
    | cons y ys =>
      simp only [List.head?_cons, Option.some.injEq] at hind
      rcases hind with h | h <;> subst h <;> simp [hasPrefix]
  unfold determineContext
  simp only [hsemi, ne_eq, not_true_eq_false, if_false, hne, h1, h2, h3, h4, Bool.false_eq_true,
    reduceCtorEq, or_self, if_true]
  unfold determinePostingContext
  simp only []
  split
  · exact Or.inl rfl
  · split
    · exact Or.inl rfl
    · split
      · exact Or.inl rfl
      · split
        · exact Or.inl rfl
        · exact Or.inr rfl

/-- Non-vacuity: indents of one to eight blanks and a tab. -/
example : (List.range 8).all (fun k =>
      determineContext (List.replicate (k + 1) ' ' ++ "a:b  1 U".toList) (k + 1 + 8) [] == .commodity &&
      determineContext (List.replicate (k + 1) ' ' ++ "a:b  1 U".toList) (k + 1 + 2) [] == .account) = true ∧
    determineContext "\ta:b".toList 3 [] = .account := by
  decide +kernel

end HL.Props.C16
