/-
  C01 — Document mirror fidelity under any edit history.
  Property theorems only; helper lemmas live in HL/Lemmas/Text.lean.
-/
import HL.Lemmas.Text
import HL.Generated.Expect.Text
import HL.Generated.Expect.PureText
import HL.Generated.Expect.Dispatch
namespace HL.Props.C01
open HL.Text HL.Ref HL.Lemmas.Text

/-- A ranged change from a conforming client is applied at the client's UTF-16 offsets:
    for every document, every range (any lines, any characters, past line end, past document
    end) and every inserted text. -/
theorem mirror_change (s : Txt) (r : Range) (t : Txt) (h : rangeOK s r = true) :
    enc16 (applyChange true s r t) = Ref.applyOne (enc16 s) (.ranged r t) := by
  simp only [rangeOK, Bool.and_eq_true, decide_eq_true_eq] at h
  obtain ⟨⟨h1, h2⟩, h3⟩ := h
  have e1 := u16len_take_lspToIdx s r.sl r.sc h1
  have e2 := u16len_take_lspToIdx s r.el r.ec h2
  have l1 := lspToIdx_le s r.sl r.sc
  have l2 := lspToIdx_le s r.el r.ec
  have hle : lspToIdx true s r.sl r.sc ≤ lspToIdx true s r.el r.ec := by
    apply Nat.le_of_not_lt
    intro hlt
    have := u16len_take_lt s _ _ hlt l1
    omega
  unfold applyChange Ref.applyOne
  simp only [Nat.not_lt.mpr hle, if_false, Nat.min_eq_left l1, Nat.min_eq_left l2]
  rw [enc16_append, enc16_append, enc16_take, enc16_drop, e1, e2]

/-- One content change, ranged or range-less, as decoded from the wire. -/
theorem mirror_one (s : Txt) (c : Ref.Change) (h : changeOK s c = true) :
    enc16 (Text.applyOne true s (wire c)) = Ref.applyOne (enc16 s) c := by
  cases c with
  | full t => simp [wire, Text.applyOne, Ref.applyOne]
  | ranged r t =>
    simp only [wire, Text.applyOne]
    exact mirror_change s r t h

/-- Several changes in one notification apply in order. -/
theorem mirror_notification (s : Txt) (cs : List Ref.Change) (h : changesOK s cs = true) :
    enc16 (Text.applyAll true s (cs.map wire)) = Ref.applyAll (enc16 s) cs := by
  induction cs generalizing s with
  | nil => rfl
  | cons c cs ih =>
    simp only [changesOK, Bool.and_eq_true] at h
    obtain ⟨h1, h3⟩ := h
    simp only [Text.applyAll, Ref.applyAll, List.map_cons, List.foldl_cons]
    rw [← mirror_one s c h1]
    exact ih _ h3

/-! ### Histories over any number of documents -/

/-- The server's store mirrors the client's buffers. -/
def Sim (d : Text.Docs) (rd : Ref.Docs) : Prop := ∀ u, (d.get u).map enc16 = rd.get u

theorem find_filter_ne {α} (d : List (Uri × α)) (u v : Uri) (h : u ≠ v) :
    (d.filter (·.1 != u)).find? (·.1 == v) = d.find? (·.1 == v) := by
  rw [List.find?_filter]
  congr 1
  funext x
  by_cases hx : x.1 = v
  · have : ¬ v = u := fun e => h e.symm
    simp [hx, this]
  · simp [hx]

theorem find_filter_eq {α} (d : List (Uri × α)) (u : Uri) :
    (d.filter (·.1 != u)).find? (·.1 == u) = none := by
  rw [List.find?_filter, List.find?_eq_none]
  intro x _
  by_cases hx : x.1 = u <;> simp [hx]

theorem get_set {α} (d : List (Uri × α)) (u v : Uri) (t : α) :
    (((u, t) :: d.filter (·.1 != u)).find? (·.1 == v)).map (·.2)
      = if u = v then some t else (d.find? (·.1 == v)).map (·.2) := by
  by_cases h : u = v
  · subst h; simp
  · have hb : (u == v) = false := by simpa using h
    simp only [List.find?_cons, hb, h, if_false]
    rw [find_filter_ne d u v h]

theorem get_erase {α} (d : List (Uri × α)) (u v : Uri) :
    ((d.filter (·.1 != u)).find? (·.1 == v)).map (·.2)
      = if u = v then none else (d.find? (·.1 == v)).map (·.2) := by
  by_cases h : u = v
  · subst h; simp
  · simp only [h, if_false]; rw [find_filter_ne d u v h]

theorem sim_step (d : Text.Docs) (rd : Ref.Docs) (n : Ref.Note) (hs : Sim d rd)
    (hn : noteOK d n = true) : Sim (Text.step true d (wireNote n)) (Ref.step rd n) := by
  intro v
  cases n with
  | didOpen u t =>
    simp only [wireNote, Text.step, Ref.step, Text.Docs.get, Text.Docs.set, Text.Docs.erase,
      Ref.Docs.get, Ref.Docs.set, Ref.Docs.erase, get_set]
    split
    · rfl
    · exact hs v
  | didClose u =>
    simp only [wireNote, Text.step, Ref.step, Text.Docs.get, Text.Docs.erase,
      Ref.Docs.get, Ref.Docs.erase, get_erase]
    split
    · rfl
    · exact hs v
  | didChange u cs =>
    have hu := hs u
    simp only [wireNote, Text.step, Ref.step]
    cases hd : Text.Docs.get d u with
    | none =>
      rw [hd] at hu; simp only [Option.map_none] at hu
      rw [← hu]; exact hs v
    | some t =>
      rw [hd] at hu; simp only [Option.map_some] at hu
      rw [← hu]
      simp only [noteOK, hd] at hn
      simp only [Text.Docs.get, Text.Docs.set, Text.Docs.erase,
        Ref.Docs.get, Ref.Docs.set, Ref.Docs.erase, get_set]
      split
      · simp only [Option.map_some]; rw [mirror_notification t cs hn]
      · exact hs v

theorem sim_run (d : Text.Docs) (rd : Ref.Docs) (h : List Ref.Note) (hs : Sim d rd)
    (hok : histOK d h = true) :
    Sim ((h.map wireNote).foldl (Text.step true) d) (h.foldl Ref.step rd) := by
  induction h generalizing d rd with
  | nil => exact hs
  | cons n ns ih =>
    simp only [histOK, Bool.and_eq_true] at hok
    simp only [List.map_cons, List.foldl_cons]
    exact ih _ _ (sim_step d rd n hs hok.1) hok.2

/-- **C01, first sentence.** After any finite history of didOpen / didChange / didClose /
    re-open over any number of documents sent by a conforming client, the text the server
    holds for every URI is exactly the client's text (and is absent exactly when the client
    has the document closed).  No guard on the shape of changes: an insertion at 0:0 is a
    ranged change like any other since the repair of finding `insert-at-origin`. -/
theorem mirror_history (h : List Ref.Note) (hok : histOK [] h = true) (u : Uri) :
    ((Text.run true (h.map wireNote)).get u).map enc16 = (Ref.run h).get u :=
  sim_run [] [] h (fun _ => rfl) hok u

/-! ### Counterexamples (kernel-evaluated) -/

/-- Finding `insert-at-origin` (repaired by a `fix:` commit): with the PINNED decoding
    (`wirePinned`: range by value, `isFullChange`) a ranged insertion at 0:0 is taken for a
    full replacement — the client holds "Xabc", the server "X"; with the repaired decoding
    (`wire`) both hold "Xabc". -/
theorem pinned_insert_at_origin_counterexample :
    let c : Ref.Change := .ranged ⟨0, 0, 0, 0⟩ ['X']
    changeOK ['a', 'b', 'c'] c = true ∧
    enc16 (Text.applyOne true ['a', 'b', 'c'] (wirePinned c)) ≠ Ref.applyOne (enc16 ['a', 'b', 'c']) c ∧
    enc16 (Text.applyOne true ['a', 'b', 'c'] (wire c)) = Ref.applyOne (enc16 ['a', 'b', 'c']) c := by
  decide

/-- mapper.go as pinned (no CR trimming): a character past the end of a CRLF line lands
    between CR and LF.  This is the defect repaired by the `fix:` commit; the theorems above
    are about the repaired function (`trimCR = true`). -/
theorem pinned_crlf_clamp_counterexample :
    let s : Txt := ['a', 'b', '\r', '\n', 'c']
    let r : Range := ⟨0, 99, 0, 99⟩
    rangeOK s r = true ∧
    enc16 (applyChange false s r ['X']) ≠ Ref.applyOne (enc16 s) (.ranged r ['X']) ∧
    enc16 (applyChange true s r ['X']) = Ref.applyOne (enc16 s) (.ranged r ['X']) := by
  decide

/-- Non-vacuity: a history with a non-BMP character, a CRLF line, a multi-change
    notification, a range past the line end, close and re-open satisfies `histOK`. -/
example : histOK []
    [.didOpen "a" ['x', '😀', '\r', '\n', 'y'],
     .didChange "a" [.ranged ⟨0, 3, 0, 9⟩ ['z'], .ranged ⟨1, 0, 5, 0⟩ [], .ranged ⟨0, 0, 0, 0⟩ ['w'], .full ['q']],
     .didClose "a", .didOpen "a" []] = true := by decide

end HL.Props.C01
