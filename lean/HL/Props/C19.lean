/-
  C19 — Configuration is total, validated and effective.
  Property theorems only; helper lemmas live in HL/Lemmas/Settings.lean.

  Model: HL/Model/Settings.lean (settings.go, Initialize, the refresh tasks).
  Statement's rule: HL/Spec/SettingsSpec.lean.
-/
import HL.Lemmas.Settings
import HL.Lemmas.SettingsSpec
namespace HL.Props.C19
open HL.Settings HL.Lemmas.Settings HL.Lemmas.SettingsSpec

/-! ## Totality: no payload, at initialisation or on change, makes the code fail -/

/-- One step of a background refresh task never fails: `result[0]` is guarded by the length
    test, every type assertion in settings.go is of the comma-ok form. -/
theorem refresh_step_total (σ : Srv) (i : Nat) (r : Pull) : ∃ σ', stepTask σ i r = .ok σ' := by
  unfold stepTask
  split
  · exact ⟨_, rfl⟩
  · split <;> exact ⟨_, rfl⟩
  · exact ⟨_, rfl⟩
  · exact ⟨_, rfl⟩
  · rename_i l _
    cases l with
    | nil => exact ⟨_, rfl⟩
    | cons x xs => exact ⟨_, rfl⟩
  · exact ⟨_, rfl⟩
  · exact ⟨_, rfl⟩

/-- `Initialize` never fails on any initialization options of any shape. -/
theorem initialize_total (σ : Srv) (p : InitParams) : ∃ r, initializeSrv σ (some p) = .ok r :=
  ⟨_, rfl⟩

/-- The only failure in this area: `Initialize(ctx, nil)` dereferences nil.  The JSON-RPC
    dispatcher always passes a pointer to a decoded struct, so no client can trigger it. -/
theorem initialize_nil_panics (σ : Srv) : initializeSrv σ none = .error .nilDeref := rfl

def wireEvent : Event → Bool
  | .init none => false
  | _ => true

theorem step_total (σ : Srv) (e : Event) (h : wireEvent e = true) : ∃ σ', step σ e = .ok σ' := by
  cases e with
  | init p =>
    cases p with
    | none => simp [wireEvent] at h
    | some p => exact ⟨_, rfl⟩
  | initialized => exact ⟨_, rfl⟩
  | didChangeConfiguration s => exact ⟨_, rfl⟩
  | task i r => exact refresh_step_total σ i r

/-- **parse_total.** Any sequence of initialisations, change notifications and background
    steps, under any interleaving, with payloads and client replies of any shape and any
    value types, runs to completion: no panic branch of the model is reachable.
    (`parseSettingsFromRaw` itself is a total function by structural recursion on the JSON
    value — Lean accepts no other kind.) -/
theorem parse_total (σ : Srv) (es : List Event) (h : ∀ e ∈ es, wireEvent e = true) :
    ∃ σ', run σ es = .ok σ' := by
  induction es generalizing σ with
  | nil => exact ⟨σ, rfl⟩
  | cons e es ih =>
    obtain ⟨σ₁, h₁⟩ := step_total σ e (h e (List.mem_cons_self ..))
    obtain ⟨σ₂, h₂⟩ := ih σ₁ (fun e' he' => h e' (List.mem_cons_of_mem _ he'))
    exact ⟨σ₂, by simp only [run, h₁, h₂]⟩

/-! ## Normalisation -/

/-- **normalize_idempotent.** -/
theorem normalize_idempotent (s : Settings) : normalize (normalize s) = normalize s :=
  normalize_idem s

/-- what `Normal` means field by field: counts are positive, the path is not empty -/
theorem normal_iff (s : Settings) :
    Normal s ↔ (0 < s.completion.maxResults ∧ 0 < s.formatting.indentSize ∧ s.cli.path ≠ "" ∧
      0 < s.cli.timeout ∧ 0 < s.limits.maxFileSizeBytes ∧ 0 < s.limits.maxIncludeDepth) := by
  constructor
  · intro h
    have h1 := normal_get s h .cMaxResults
    have h2 := normal_get s h .oIndentSize
    have h3 := normal_get s h .xPath
    have h4 := normal_get s h .xTimeout
    have h5 := normal_get s h .lMaxFileSizeBytes
    have h6 := normal_get s h .lMaxIncludeDepth
    simp only [normLeaf_eq, ruleOf, HL.Settings.get, NormCond.holds, defaults,
      defaultLimits, millisecond, decide_eq_true_eq] at h1 h2 h3 h4 h5 h6
    refine ⟨?_, ?_, ?_, ?_, ?_, ?_⟩
    · by_cases c : s.completion.maxResults ≤ 0
      · simp [c] at h1; omega
      · omega
    · by_cases c : s.formatting.indentSize ≤ 0
      · simp [c] at h2; omega
      · omega
    · intro c
      simp [c] at h3
    · by_cases c : s.cli.timeout ≤ 0
      · simp [c] at h4; omega
      · omega
    · by_cases c : s.limits.maxFileSizeBytes ≤ 0
      · simp [c] at h5; omega
      · omega
    · by_cases c : s.limits.maxIncludeDepth ≤ 0
      · simp [c] at h6; omega
      · omega
  · intro ⟨h1, h2, h3, h4, h5, h6⟩
    apply ext_get
    intro l
    rw [get_normalize]
    cases l <;> simp [normLeaf_eq, ruleOf, HL.Settings.get, NormCond.holds] <;>
      first | omega | (intro c; exact absurd c h3) | skip

/-- every result of `parseSettingsFromRaw` is normalised -/
theorem parse_normal (base : Settings) (j : Json) : Normal (parseSettingsFromRaw base j) := by
  rw [parse_eq]; exact normal_normalize _

theorem step_normal (σ σ' : Srv) (e : Event) (hs : Normal σ.settings)
    (ht : ∀ pc ∈ σ.tasks, ∀ s, pc = Pc.parsed s → Normal s)
    (h : step σ e = .ok σ') :
    Normal σ'.settings ∧ ∀ pc ∈ σ'.tasks, ∀ s, pc = Pc.parsed s → Normal s := by
  have setTask_inv : ∀ (τ : Srv) (i : Nat) (pc : Pc),
      (∀ s, pc = Pc.parsed s → Normal s) →
      (∀ q ∈ τ.tasks, ∀ s, q = Pc.parsed s → Normal s) →
      ∀ q ∈ (setTask τ i pc).tasks, ∀ s, q = Pc.parsed s → Normal s := by
    intro τ i pc hpc hτ q hq s hqs
    simp only [setTask] at hq
    rcases List.mem_or_eq_of_mem_set hq with hq | hq
    · exact hτ q hq s hqs
    · exact hpc s (hq ▸ hqs)
  cases e with
  | init p =>
    cases p with
    | none => simp [step, initializeSrv, Except.map] at h
    | some p =>
      simp only [step, initializeSrv, Except.map, Except.ok.injEq] at h
      subst h
      refine ⟨normal_normalize _, ?_⟩
      cases p.workspaceCfg <;> exact ht
  | initialized =>
    simp only [step, Except.ok.injEq] at h
    subst h
    refine ⟨hs, ?_⟩
    intro pc hpc s hps
    simp only [spawnRefresh, List.mem_append, List.mem_singleton] at hpc
    rcases hpc with hpc | hpc
    · exact ht pc hpc s hps
    · rw [hpc] at hps; cases hps
  | didChangeConfiguration _ =>
    simp only [step, Except.ok.injEq] at h
    subst h
    refine ⟨hs, ?_⟩
    intro pc hpc s hps
    simp only [spawnRefresh, List.mem_append, List.mem_singleton] at hpc
    rcases hpc with hpc | hpc
    · exact ht pc hpc s hps
    · rw [hpc] at hps; cases hps
  | task i r =>
    simp only [step, stepTask] at h
    split at h
    · simp only [Except.ok.injEq] at h; subst h; exact ⟨hs, ht⟩
    · split at h <;> (simp only [Except.ok.injEq] at h; subst h)
      · exact ⟨hs, setTask_inv σ i _ (fun s hh => by cases hh) ht⟩
      · exact ⟨hs, setTask_inv σ i _ (fun s hh => by cases hh) ht⟩
    · simp only [Except.ok.injEq] at h; subst h
      exact ⟨hs, setTask_inv σ i _ (fun s hh => by cases hh) ht⟩
    · simp only [Except.ok.injEq] at h; subst h
      exact ⟨hs, setTask_inv σ i _ (fun s hh => by cases hh) ht⟩
    · rename_i l _
      cases l with
      | nil =>
        simp only [List.length_nil, if_true, Except.ok.injEq] at h; subst h
        exact ⟨hs, setTask_inv σ i _ (fun s hh => by cases hh) ht⟩
      | cons x xs =>
        simp only [List.length_cons, Nat.add_one_ne_zero, if_false, index0, bind, Except.bind,
          Except.ok.injEq] at h
        subst h
        exact ⟨hs, setTask_inv σ i _ (fun s hh => by cases hh; exact parse_normal _ _) ht⟩
    · rename_i s' hget
      simp only [Except.ok.injEq] at h; subst h
      refine ⟨normal_normalize _, ?_⟩
      exact setTask_inv (setSettings σ s') i _ (fun s hh => by cases hh) ht
    · simp only [Except.ok.injEq] at h; subst h; exact ⟨hs, ht⟩

/-- **stored_is_normal.** Whatever happens — any payloads, any replies, any interleaving of
    background tasks, for runs of any length — the settings held by the server are always
    normalised. -/
theorem stored_is_normal (hasClient : Bool) (es : List Event) (σ' : Srv)
    (h : run (newServer hasClient) es = .ok σ') : Normal σ'.settings := by
  suffices H : ∀ (es : List Event) (σ σ' : Srv), Normal σ.settings →
      (∀ pc ∈ σ.tasks, ∀ s, pc = Pc.parsed s → Normal s) → run σ es = .ok σ' →
      Normal σ'.settings from
    H es (newServer hasClient) σ' (normal_normalize _) (by simp [newServer]) h
  intro es
  induction es with
  | nil =>
    intro σ σ' hs _ h
    simp only [run, Except.ok.injEq] at h
    exact h ▸ hs
  | cons e es ih =>
    intro σ σ' hs ht h
    simp only [run] at h
    cases hst : step σ e with
    | error p => rw [hst] at h; cases h
    | ok σ₁ =>
      rw [hst] at h
      obtain ⟨h1, h2⟩ := step_normal σ σ₁ e hs ht hst
      exact ih σ₁ σ' h1 h2 h

/-! ## What a payload does to each field -/

/-- **parse, field by field.** With `m` the object the code ends up reading (the innermost
    object of the `hledger` chain): a field holds the normalised value of the *last* statement
    of `applySettingsMap` (source order) whose coercion succeeded, else its normalised
    previous value. -/
theorem parse_field (base : Settings) (j : Json) (l : Leaf) :
    HL.Settings.get (parseSettingsFromRaw base j) l =
      normLeaf l (match target j with
        | some m => ((candidates m l).getLast?).getD (HL.Settings.get base l)
        | none => HL.Settings.get base l) := by
  rw [parse_eq, get_normalize]
  unfold applyTarget
  cases target j with
  | none => rfl
  | some m => simp only [get_applySettingsMap]

/-- **illtyped_unchanged.** For every key: if no statement reading that field finds a
    well-typed value — the key is absent, its section is not an object, the value is null, an
    array, an object, a number where a boolean is expected, an unparsable string … or the
    payload is not an object at all — the stored field keeps its previous value. -/
theorem illtyped_unchanged (base : Settings) (j : Json) (l : Leaf) (hn : Normal base)
    (h : ∀ m, target j = some m →
      ∀ e ∈ keyTable, e.leaf = l → coerceLeaf l (entryRaw m e) = none) :
    HL.Settings.get (parseSettingsFromRaw base j) l = HL.Settings.get base l := by
  rw [parse_field]
  cases ht : target j with
  | none => exact normal_get base hn l
  | some m =>
    have hc : candidates m l = [] := by
      unfold candidates candidatesIn
      rw [List.filterMap_eq_nil_iff]
      intro e he
      simp only [List.mem_filter, decide_eq_true_eq] at he
      exact h m ht e he.1 he.2
    simp only [hc, List.getLast?_nil, Option.getD_none]
    exact normal_get base hn l

/-- the shapes that are ill-typed for each coercion -/
theorem illtyped_shapes :
    (∀ l, coerceLeaf l .null = none) ∧ (∀ l a, coerceLeaf l (.arr a) = none) ∧
    (∀ l o, coerceLeaf l (.obj o) = none) ∧
    (∀ l m e, l.coerce = .toBool → coerceLeaf l (.num m e) = none) ∧
    (∀ l m e, l.coerce = .toString → coerceLeaf l (.num m e) = none) ∧
    (∀ l b, l.coerce ≠ .toBool → coerceLeaf l (.bool b) = none) := by
  refine ⟨?_, ?_, ?_, ?_, ?_, ?_⟩
  · intro l; cases l <;> rfl
  · intro l a; cases l <;> rfl
  · intro l o; cases l <;> rfl
  · intro l m e h; cases l <;> first | rfl | (simp [Leaf.coerce] at h)
  · intro l m e h; cases l <;> first | rfl | (simp [Leaf.coerce] at h)
  · intro l b h; cases l <;> first | rfl | (simp [Leaf.coerce] at h)

/-- a payload that is not an object changes nothing -/
theorem non_object_unchanged (base : Settings) (j : Json) (hn : Normal base)
    (h : target j = none) : parseSettingsFromRaw base j = base := by
  apply ext_get
  intro l
  exact illtyped_unchanged base j l hn (fun m hm => by rw [h] at hm; cases hm)

/-- **welltyped_applied.** If the last statement that finds a well-typed value for field `l`
    finds `v`, the field becomes `v` (normalised). -/
theorem welltyped_applied (base : Settings) (j : Json) (l : Leaf) (m : List (String × Json))
    (v : Val) (ht : target j = some m) (hv : (candidates m l).getLast? = some v) :
    HL.Settings.get (parseSettingsFromRaw base j) l = normLeaf l v := by
  rw [parse_field, ht]
  simp only [hv, Option.getD_some]

/-- **nonpositive_defaults.** A non-positive number given for a limit, a size, an indent or a
    timeout falls back to the default. -/
theorem nonpositive_defaults (base : Settings) (j : Json) (l : Leaf) (m : List (String × Json))
    (n : Int) (ht : target j = some m) (hv : (candidates m l).getLast? = some (.i n))
    (hn : n ≤ 0)
    (hl : l ∈ [Leaf.cMaxResults, .oIndentSize, .xTimeout, .lMaxFileSizeBytes, .lMaxIncludeDepth]) :
    HL.Settings.get (parseSettingsFromRaw base j) l = HL.Settings.get defaults l := by
  rw [welltyped_applied base j l m _ ht hv]
  simp only [List.mem_cons, List.not_mem_nil, or_false] at hl
  rcases hl with rfl | rfl | rfl | rfl | rfl <;>
    simp [normLeaf_eq, ruleOf, NormCond.holds, hn]

/-- The one numeric setting that is *not* validated: a negative
    `formatting.minAlignmentColumn` is stored as given (default 0).  The formatter treats
    every value ≤ 0 as "no minimum" (`opts.MinAlignmentColumn > 0 && …`), which the behaviour
    probe of `c19.seq` checks on the real code; the oracle therefore compares this field up to
    that equivalence (`HL.SettingsSpec.agree`). -/
theorem negative_minAlignment_is_kept :
    HL.Settings.get (parseSettingsFromRaw defaults
      (.obj [("formatting.minAlignmentColumn", .num (-5) 0)])) .oMinAlignmentColumn = .i (-5) := by
  decide

/-! ## Sequences -/

/-- Initialisation applies the options to the initial settings and gates the capabilities by
    the feature switches that result. -/
theorem initialize_effect (σ : Srv) (p : InitParams) :
    ∃ σ' caps, initializeSrv σ (some p) = .ok (σ', caps) ∧
      σ'.settings = parseSettingsFromRaw σ.settings p.options ∧
      caps = capsOf σ'.settings ∧
      σ'.supportsCfg = (p.workspaceCfg.getD σ.supportsCfg) := by
  refine ⟨_, _, rfl, ?_, rfl, ?_⟩
  · cases p.workspaceCfg <;> exact parse_normal _ _
  · cases p.workspaceCfg <;> rfl

/-- One change handled without interleaving, the client answering the pull with `[p]`. -/
theorem change_serial (σ : Srv) (pushed p : Json) (hc : σ.hasClient = true)
    (hs : σ.supportsCfg = true) :
    ∃ σ', run σ (changeEvents σ.tasks.length pushed (.items [p])) = .ok σ' ∧
      σ'.settings = parseSettingsFromRaw σ.settings p ∧
      σ'.hasClient = true ∧ σ'.supportsCfg = true := by
  have hlen : σ.tasks.length < (σ.tasks ++ [Pc.start]).length := by simp
  generalize hr : run σ (changeEvents σ.tasks.length pushed (.items [p])) = res
  simp only [changeEvents, run, step, spawnRefresh, stepTask, setTask, setSettings, hc, hs,
    List.getElem?_append_right (Nat.le_refl _), Nat.sub_self, List.getElem?_cons_zero,
    Bool.not_true, Bool.or_self, Bool.false_eq_true, if_false, List.length_set,
    List.getElem?_set_self hlen, List.length_cons, List.length_nil, Nat.zero_add,
    Nat.add_one_ne_zero, index0, bind, Except.bind, List.set_set] at hr
  subst hr
  exact ⟨_, rfl, parse_normal _ _, rfl, rfl⟩

/-- the events of a list of changes handled one after the other -/
def serialEvents : Nat → List (Json × Json) → List Event
  | _, [] => []
  | n, (pushed, p) :: r => changeEvents n pushed (.items [p]) ++ serialEvents (n + 1) r

theorem run_append (σ : Srv) (a b : List Event) :
    run σ (a ++ b) = match run σ a with | .ok σ' => run σ' b | .error e => .error e := by
  induction a generalizing σ with
  | nil => rfl
  | cons e a ih =>
    simp only [List.cons_append, run]
    cases step σ e with
    | error p => rfl
    | ok σ₁ => exact ih σ₁

theorem change_serial_tasks (σ : Srv) (pushed : Json) (r : Pull) (σ' : Srv)
    (h : run σ (changeEvents σ.tasks.length pushed r) = .ok σ') :
    σ'.tasks.length = σ.tasks.length + 1 := by
  have step_len : ∀ (τ τ' : Srv) i r, stepTask τ i r = .ok τ' → τ'.tasks.length = τ.tasks.length := by
    intro τ τ' i r h
    unfold stepTask at h
    split at h
    · simp only [Except.ok.injEq] at h; subst h; rfl
    · split at h <;> (simp only [Except.ok.injEq] at h; subst h; simp [setTask])
    · simp only [Except.ok.injEq] at h; subst h; simp [setTask]
    · simp only [Except.ok.injEq] at h; subst h; simp [setTask]
    · rename_i l _
      cases l with
      | nil => simp only [List.length_nil, if_true, Except.ok.injEq] at h; subst h; simp [setTask]
      | cons x xs =>
        simp only [List.length_cons, Nat.add_one_ne_zero, if_false, index0, bind, Except.bind,
          Except.ok.injEq] at h
        subst h; simp [setTask]
    · simp only [Except.ok.injEq] at h; subst h; simp [setTask, setSettings]
    · simp only [Except.ok.injEq] at h; subst h; rfl
  simp only [changeEvents, run, step] at h
  generalize hτ0 : spawnRefresh σ = τ0 at h
  have l0 : τ0.tasks.length = σ.tasks.length + 1 := by rw [← hτ0]; simp [spawnRefresh]
  cases h1 : stepTask τ0 σ.tasks.length r with
  | error e => rw [h1] at h; cases h
  | ok τ1 =>
    rw [h1] at h; simp only at h
    cases h2 : stepTask τ1 σ.tasks.length r with
    | error e => rw [h2] at h; cases h
    | ok τ2 =>
      rw [h2] at h; simp only at h
      cases h3 : stepTask τ2 σ.tasks.length r with
      | error e => rw [h3] at h; cases h
      | ok τ3 =>
        rw [h3] at h; simp only at h
        cases h4 : stepTask τ3 σ.tasks.length r with
        | error e => rw [h4] at h; cases h
        | ok τ4 =>
          rw [h4] at h; simp only at h
          cases h5 : stepTask τ4 σ.tasks.length r with
          | error e => rw [h5] at h; cases h
          | ok τ5 =>
            rw [h5] at h
            simp only [Except.ok.injEq] at h
            subst h
            rw [step_len _ _ _ _ h5, step_len _ _ _ _ h4, step_len _ _ _ _ h3,
              step_len _ _ _ _ h2, step_len _ _ _ _ h1, l0]

/-- **sequence_fold (guarded form).** For a client that supports `workspace/configuration`
    and any list of changes, of any length, each handled to completion before the next arrives
    (the pull answered with payload `p`): the settings at the end are the left fold of
    `parseSettingsFromRaw` over the pulled payloads.  The payload carried by the notification
    itself (`pushed`) plays no role. -/
theorem sequence_fold_partial (σ : Srv) (cs : List (Json × Json)) (hc : σ.hasClient = true)
    (hs : σ.supportsCfg = true) :
    ∃ σ', run σ (serialEvents σ.tasks.length cs) = .ok σ' ∧
      σ'.settings = (cs.map (·.2)).foldl parseSettingsFromRaw σ.settings := by
  induction cs generalizing σ with
  | nil => exact ⟨σ, rfl, rfl⟩
  | cons c cs ih =>
    obtain ⟨pushed, p⟩ := c
    obtain ⟨σ₁, h1, hset, hc1, hs1⟩ := change_serial σ pushed p hc hs
    have hl := change_serial_tasks σ pushed _ σ₁ h1
    obtain ⟨σ₂, h2, hfold⟩ := ih σ₁ hc1 hs1
    refine ⟨σ₂, ?_, ?_⟩
    · simp only [serialEvents, run_append, h1]
      rw [← hl]; exact h2
    · simp only [List.map_cons, List.foldl_cons, ← hset]; exact hfold

/-- **sequence_fold, from a fresh server.** `initialize` with options `opts` from a client
    that announces `workspace.configuration`, then any number of changes handled in order: the
    settings are the fold of `parseSettingsFromRaw` over `opts` and the pulled payloads,
    starting from the defaults. -/
theorem sequence_fold_from_init_partial (opts : Json) (cs : List (Json × Json)) :
    ∃ σ', run (newServer true) (.init (some ⟨some true, opts⟩) :: serialEvents 0 cs) = .ok σ' ∧
      σ'.settings = (opts :: cs.map (·.2)).foldl parseSettingsFromRaw (normalize defaults) := by
  obtain ⟨σ₁, caps, h1, hset, _, hcfg⟩ := initialize_effect (newServer true) ⟨some true, opts⟩
  have hσ : step (newServer true) (.init (some ⟨some true, opts⟩)) = .ok σ₁ := by
    simp only [step, h1, Except.map]
  have htasks : σ₁.tasks.length = 0 := by
    simp only [initializeSrv, Except.ok.injEq, Prod.mk.injEq] at h1
    rw [← h1.1]; rfl
  have hcl : σ₁.hasClient = true := by
    simp only [initializeSrv, Except.ok.injEq, Prod.mk.injEq] at h1
    rw [← h1.1]; rfl
  obtain ⟨σ₂, h2, hfold⟩ := sequence_fold_partial σ₁ cs hcl (by simpa using hcfg)
  refine ⟨σ₂, ?_, ?_⟩
  · simp only [run, hσ]
    rw [← htasks]; exact h2
  · simp only [List.foldl_cons]
    rw [hfold, hset]; rfl

/-- non-vacuity: a server after `initialize` with the capability announced satisfies the
    hypotheses, and two changes do fold -/
example : ∃ σ', run (newServer true)
    (.init (some ⟨some true, .null⟩) ::
      serialEvents 0 [(.null, .obj [("completion.maxResults", .num 5 0)]),
                      (.null, .obj [("formatting", .obj [("indentSize", .str " 2 ")])])]) = .ok σ' ∧
    σ'.settings.completion.maxResults = 5 ∧ σ'.settings.formatting.indentSize = 2 := by
  refine ⟨_, rfl, ?_, ?_⟩ <;> decide +kernel

def finalSettings : Except Panic Srv → Option Settings
  | .ok σ => some σ.settings
  | .error _ => none

def p5 : Json := .obj [("completion.maxResults", .num 5 0)]
def p7 : Json := .obj [("completion.maxResults", .num 7 0)]
def pIndent2 : Json := .obj [("formatting.indentSize", .num 1 1)]
def inited : List Event := [.init (some ⟨some true, .null⟩)]

/-- **Known finding `refresh-out-of-order`.** Two changes, 5 then 7; both refresh tasks ask;
    the client's answer to the second request is processed first.  At rest the server holds
    5, the client's configuration says 7 (the fold in announcement order gives 7). -/
theorem refresh_out_of_order_counterexample :
    (finalSettings (run (newServer true) (inited ++
      [.didChangeConfiguration p5, .didChangeConfiguration p7,
       .task 0 .err, .task 1 .err,                        -- both send their request
       .task 1 (.items [p7]), .task 1 .err, .task 1 .err,  -- second answered, parsed, stored
       .task 0 (.items [p5]), .task 0 .err, .task 0 .err]))).map (·.completion.maxResults)
      = some 5 ∧
    ([p5, p7].foldl parseSettingsFromRaw (normalize defaults)).completion.maxResults = 7 := by
  decide +kernel

/-- **Lost update** (model only; the window lies between `getSettings` and `setSettings` in
    `refreshConfiguration` and cannot be held open in the real code without a hook): two
    changes touching different fields, both tasks read the settings before either stores.
    The first task's update is lost — the result is neither order's fold. -/
theorem lost_update_counterexample :
    (finalSettings (run (newServer true) (inited ++
      [.didChangeConfiguration p5, .didChangeConfiguration pIndent2,
       .task 0 .err, .task 1 .err,
       .task 0 (.items [p5]), .task 1 (.items [pIndent2]),   -- replies arrive
       .task 0 .err, .task 1 .err,                            -- both read + parse
       .task 0 .err, .task 1 .err]))).map                     -- both store
        (fun s => (s.completion.maxResults, s.formatting.indentSize)) = some (50, 2) ∧
    (let s := [p5, pIndent2].foldl parseSettingsFromRaw (normalize defaults)
     (s.completion.maxResults, s.formatting.indentSize)) = (5, 2) := by
  decide +kernel

/-- **Known finding `push-ignored`.** A client that did not announce
    `workspace.configuration` (or no client object at all): the server never pulls, and the
    settings carried by `didChangeConfiguration` are not looked at — a change has no effect. -/
theorem push_ignored_counterexample :
    (finalSettings (run (newServer true)
      [.init (some ⟨some false, .null⟩), .didChangeConfiguration p5,
       .task 0 .err, .task 0 .err, .task 0 .err])).map (·.completion.maxResults) = some 50 := by
  decide +kernel

/-- In general: without the capability a change notification never changes the settings. -/
theorem push_ignored (σ : Srv) (pushed : Json) (r : Pull) (h : σ.supportsCfg = false) :
    (finalSettings (run σ (changeEvents σ.tasks.length pushed r))) = some σ.settings := by
  have hlen : σ.tasks.length < (σ.tasks ++ [Pc.start]).length := by simp
  simp only [changeEvents, run, step, spawnRefresh, stepTask, setTask, h,
    List.getElem?_append_right (Nat.le_refl _), Nat.sub_self, List.getElem?_cons_zero,
    Bool.not_false, Bool.or_true, if_true, List.getElem?_set_self hlen, finalSettings]


/-! ## The statement's rule -/

open HL.SettingsSpec in
theorem valid_iff_normal (s : Settings) : valid s = true ↔ Normal s := by
  rw [normal_iff]
  unfold valid
  simp only [Bool.and_eq_true, decide_eq_true_eq, and_assoc]

open HL.SettingsSpec in
/-- **Effective (guarded form): the code meets the statement's rule.**  For every previously
    stored (validated) settings and every JSON payload in which no object that carries a
    `hledger` member also carries a recognised well-typed setting: after
    `parseSettingsFromRaw` every field is as the rule of `HL.SettingsSpec` demands —
    recognised well-typed values (booleans also as strings in any letter case with blanks,
    integers also as strings or integral floats) are applied, non-positive counts and the
    empty path give the default, ill-typed and unrecognised entries leave the previous value —
    and the result is validated. -/
theorem effective_partial (prev : Settings) (j : Json) (hv : valid prev = true)
    (hg : wrapperShadows j = false) :
    specOk prev j (parseSettingsFromRaw prev j) = true := by
  have hN : Normal prev := (valid_iff_normal prev).mp hv
  unfold specOk
  rw [Bool.and_eq_true]
  refine ⟨?_, (valid_iff_normal _).mpr (parse_normal prev j)⟩
  unfold specOkAt
  rw [List.all_eq_true]
  intro l _
  unfold leafOk
  simp only
  split
  · rfl
  · rename_i hun
    have hun' : Class.unspec ∉ mentions l (levels j) := by simpa using hun
    -- the mentions: skipped objects contribute nothing good
    have hsplit : mentions l (levels j) = mentions l (shadowed j) ++ mentions l (innermost j) := by
      rw [levels_split j]; unfold mentions; rw [List.flatMap_append]
    have hgoods : goods (mentions l (levels j)) = goods (mentions l (innermost j)) := by
      rw [hsplit, goods_append, goods_shadowed j l hg]; rfl
    have hsub : ∀ c ∈ mentions l (innermost j), c ∈ mentions l (levels j) := by
      intro c hc; rw [hsplit]; exact List.mem_append_right _ hc
    rw [hgoods, parse_field, innermost_eq]
    cases ht : target j with
    | none =>
      simp only [mentions, List.flatMap_nil, goods]
      rw [normal_get prev hN l]; exact agree_refl _ _
    | some m =>
      have hm : mentions l [m] = mentionsIn l m := by simp [mentions]
      have hin : innermost j = [m] := by rw [innermost_eq, ht]
      simp only [hm]
      cases hc : (candidates m l).getLast? with
      | none =>
        -- no statement found a value: every mention is ill-typed
        have hnil : candidates m l = [] := List.getLast?_eq_none_iff.mp hc
        have hng : goods (mentionsIn l m) = [] := by
          cases hgs : goods (mentionsIn l m) with
          | nil => rfl
          | cons g gs =>
            exfalso
            have hgm : Class.good g ∈ mentionsIn l m := (mem_goods _ g).mp (by rw [hgs]; exact List.mem_cons_self ..)
            obtain ⟨e, he, hl, hce⟩ := candidate_of_mention l m _ hgm
            have hr := read_vs_coerce l (entryRaw m e)
            rw [← hce] at hr
            obtain ⟨w, hw, _⟩ := hr
            have : w ∈ candidates m l := by
              unfold candidates candidatesIn
              rw [List.mem_filterMap]
              exact ⟨e, by simp [he, hl], hw⟩
            rw [hnil] at this; cases this
        simp only [hng, Option.getD_none]
        rw [normal_get prev hN l]; exact agree_refl _ _
      | some w =>
        simp only [Option.getD_some]
        have hwm : w ∈ candidates m l := List.mem_of_getLast? hc
        unfold candidates candidatesIn at hwm
        rw [List.mem_filterMap] at hwm
        obtain ⟨e, hef, hw⟩ := hwm
        simp only [List.mem_filter, decide_eq_true_eq] at hef
        have hmen := mention_of_candidate l m e w hef.1 hef.2 hw
        have hr := read_vs_coerce l (entryRaw m e)
        cases hrl : readLeaf l (entryRaw m e) with
        | good g =>
          rw [hrl] at hr hmen
          obtain ⟨w', hw', hag⟩ := hr
          rw [hw] at hw'
          cases hw'
          have hgm : g ∈ goods (mentionsIn l m) := (mem_goods _ g).mpr hmen
          cases hgs : goods (mentionsIn l m) with
          | nil => rw [hgs] at hgm; cases hgm
          | cons g0 gs =>
            simp only
            rw [← hgs, List.any_eq_true]
            exact ⟨g, hgm, hag⟩
        | bad =>
          rw [hrl] at hr
          rw [hr] at hw; cases hw
        | unspec =>
          exfalso
          rw [hrl] at hmen
          exact hun' (hsub _ (by rw [hin, hm]; exact hmen))

open HL.SettingsSpec in
/-- non-vacuity: a payload with wrapper, both key forms, a boolean as text and a number as
    text satisfies the guard, and the result really changed -/
example :
    let j : Json := .obj [("hledger", .obj [("completion", .obj [("maxResults", .str " 7 ")]),
      ("features.hover", .str " FALSE "), ("formatting.indentSize", .num 0 0)])]
    wrapperShadows j = false ∧ valid (normalize defaults) = true ∧
    (parseSettingsFromRaw (normalize defaults) j).completion.maxResults = 7 ∧
    (parseSettingsFromRaw (normalize defaults) j).features.hover = false ∧
    (parseSettingsFromRaw (normalize defaults) j).formatting.indentSize = 4 := by
  decide +kernel

open HL.SettingsSpec in
/-- **Known finding `wrapper-shadows-siblings`.** `{"hledger": {}, "completion": {"maxResults": 7}}`
    and `{"hledger": null, "completion.maxResults": 7}`: the recognised, well-typed 7 next
    to the `hledger` member is never read; the rule is violated. -/
theorem wrapper_shadows_counterexample :
    let j1 : Json := .obj [("hledger", .obj []), ("completion", .obj [("maxResults", .num 7 0)])]
    let j2 : Json := .obj [("hledger", .null), ("completion.maxResults", .num 7 0)]
    let s0 := normalize defaults
    (parseSettingsFromRaw s0 j1).completion.maxResults = 50 ∧ specOk s0 j1 (parseSettingsFromRaw s0 j1) = false ∧
    (parseSettingsFromRaw s0 j2).completion.maxResults = 50 ∧ specOk s0 j2 (parseSettingsFromRaw s0 j2) = false ∧
    wrapperShadows j1 = true ∧ wrapperShadows j2 = true := by
  decide +kernel

end HL.Props.C19
