/-
  C19 — Configuration is total, validated and effective.
  Property theorems only; helper lemmas live in HL/Lemmas/Settings.lean and
  HL/Lemmas/SettingsSpec.lean.

  Model: HL/Model/Settings.lean (settings.go, Initialize, the refresh tasks, the loader's cache
  as far as the limits go), HL/Model/FmtWidth.lean (the formatter's width arithmetic in Go ints).
  Statement's rule: HL/Spec/SettingsSpec.lean.

  The model describes the tree after the repairs of the findings wrapper-shadows-siblings,
  unbounded-width-panics, limits-skip-cached-includes, refresh-out-of-order, push-ignored and
  feature-switch-after-init (the request-level `FeatureGate`; `feature_switches_effective`);
  the behaviour of the pinned tree is kept in the `pinned_*_counterexample` theorems.
-/
import HL.Generated.Expect.FeatureGate
import HL.Generated.Expect.PureDiag
import HL.Lemmas.Settings
import HL.Lemmas.SettingsSpec
import HL.Model.FmtWidth
import HL.Lemmas.SettingsSrv
namespace HL.Props.C19
open HL.Settings HL.Lemmas.Settings HL.Lemmas.SettingsSpec HL.Lemmas.SettingsSrv

/-! ## Totality: no payload, at initialisation or on change, makes the code fail -/

/-- One step of a background refresh task never fails: `result[0]` is guarded by the length
    test, every type assertion in settings.go is of the comma-ok form. -/
theorem refresh_step_total (σ : Srv) (i : Nat) (r : Pull) : ∃ σ', stepTask σ i r = .ok σ' := by
  unfold stepTask
  split
  · exact ⟨_, rfl⟩
  · split <;> exact ⟨_, rfl⟩
  · exact ⟨_, rfl⟩
  · exact ⟨_, rfl⟩
  · rename_i l _
    cases l with
    | nil => exact ⟨_, rfl⟩
    | cons x xs => exact ⟨_, rfl⟩
  · exact ⟨_, rfl⟩

/-- `Initialize` never fails on any initialization options of any shape. -/
theorem initialize_total (σ : Srv) (p : InitParams) : ∃ r, initializeSrv σ (some p) = .ok r :=
  ⟨_, rfl⟩

/-- The only failure in this area: `Initialize(ctx, nil)` dereferences nil.  The JSON-RPC
    dispatcher always passes a pointer to a decoded struct, so no client can trigger it. -/
theorem initialize_nil_panics (σ : Srv) : initializeSrv σ none = .error .nilDeref := rfl

def wireEvent : Event → Bool
  | .init none => false
  | _ => true

theorem step_total (σ : Srv) (e : Event) (h : wireEvent e = true) : ∃ σ', step σ e = .ok σ' := by
  cases e with
  | init p =>
    cases p with
    | none => simp [wireEvent] at h
    | some p => exact ⟨_, rfl⟩
  | initialized => exact ⟨_, rfl⟩
  | didChangeConfiguration s => exact ⟨_, rfl⟩
  | task i r => exact refresh_step_total σ i r
  | probe f => exact ⟨_, rfl⟩

/-- **parse_total.** Any sequence of initialisations, change notifications (pulled or pushed),
    background steps and loads, under any interleaving, with payloads and client replies of any
    shape and any value types, runs to completion: no panic branch of the model is reachable.
    (`parseSettingsFromRaw` itself is a total function by structural recursion on the JSON
    value — Lean accepts no other kind.) -/
theorem parse_total (σ : Srv) (es : List Event) (h : ∀ e ∈ es, wireEvent e = true) :
    ∃ σ', run σ es = .ok σ' := by
  induction es generalizing σ with
  | nil => exact ⟨σ, rfl⟩
  | cons e es ih =>
    obtain ⟨σ₁, h₁⟩ := step_total σ e (h e (List.mem_cons_self ..))
    obtain ⟨σ₂, h₂⟩ := ih σ₁ (fun e' he' => h e' (List.mem_cons_of_mem _ he'))
    exact ⟨σ₂, by simp only [run, h₁, h₂]⟩

/-! ## Normalisation -/

/-- **normalize_idempotent.** -/
theorem normalize_idempotent (s : Settings) : normalize (normalize s) = normalize s :=
  normalize_idem s

/-- what `Normal` means field by field: counts are positive, the widths lie in their documented
    ranges, the path is not empty -/
theorem normal_iff (s : Settings) :
    Normal s ↔ (0 < s.completion.maxResults ∧
      0 < s.formatting.indentSize ∧ s.formatting.indentSize ≤ 32 ∧
      0 ≤ s.formatting.minAlignmentColumn ∧ s.formatting.minAlignmentColumn ≤ 500 ∧
      s.cli.path ≠ "" ∧ 0 < s.cli.timeout ∧ 0 < s.limits.maxFileSizeBytes ∧
      0 < s.limits.maxIncludeDepth) := by
  constructor
  · intro h
    have h1 := normal_get s h .cMaxResults
    have h2 := normal_get s h .oIndentSize
    have h2' := normal_get s h .oMinAlignmentColumn
    have h3 := normal_get s h .xPath
    have h4 := normal_get s h .xTimeout
    have h5 := normal_get s h .lMaxFileSizeBytes
    have h6 := normal_get s h .lMaxIncludeDepth
    simp only [normLeaf_eq, normVal, HL.Settings.get, Val.i.injEq, Val.s.injEq] at h1 h2 h2' h3 h4 h5 h6
    refine ⟨?_, ?_, ?_, ?_, ?_, ?_, ?_, ?_, ?_⟩
    · split at h1 <;> omega
    · split at h2 <;> (try split at h2) <;> omega
    · split at h2 <;> (try split at h2) <;> omega
    · split at h2' <;> (try split at h2') <;> omega
    · split at h2' <;> (try split at h2') <;> omega
    · intro c
      simp [c] at h3
    · split at h4 <;> omega
    · split at h5 <;> omega
    · split at h6 <;> omega
  · intro ⟨h1, h2, h2b, h3, h3b, h4, h5, h6, h7⟩
    apply ext_get
    intro l
    rw [get_normalize, normLeaf_eq]
    cases l <;> simp only [normVal, HL.Settings.get] <;>
      first | rfl | (simp only [Val.i.injEq]; (repeat' split) <;> omega) | (simp [h4])

/-- **stored_is_normal.** Whatever happens — any payloads, any replies, any interleaving of
    background tasks, for runs of any length — the settings held by the server are always
    normalised. -/
theorem stored_is_normal (hasClient : Bool) (es : List Event) (σ' : Srv)
    (h : run (newServer hasClient) es = .ok σ') : Normal σ'.settings := by
  have h0 : Normal (newServer hasClient).settings := by
    rw [newServer_settings]; exact normal_normalize _
  exact run_invariant (fun σ => Normal σ.settings) step_normal _ _ es h0 h

/-- **stored_is_bounded.** Every numeric setting the server holds, at any time, lies inside
    its range: counts, sizes and the timeout are positive, the indent is between 1 and 32, the
    minimum alignment column between 0 and 500 — whatever numbers were sent. -/
theorem stored_is_bounded (hasClient : Bool) (es : List Event) (σ' : Srv)
    (h : run (newServer hasClient) es = .ok σ') :
    1 ≤ σ'.settings.completion.maxResults ∧
    1 ≤ σ'.settings.formatting.indentSize ∧ σ'.settings.formatting.indentSize ≤ maxIndentSize ∧
    0 ≤ σ'.settings.formatting.minAlignmentColumn ∧
    σ'.settings.formatting.minAlignmentColumn ≤ maxMinAlignmentColumn ∧
    1 ≤ σ'.settings.cli.timeout ∧ 1 ≤ σ'.settings.limits.maxFileSizeBytes ∧
    1 ≤ σ'.settings.limits.maxIncludeDepth := by
  have hn := (normal_iff _).mp (stored_is_normal hasClient es σ' h)
  unfold maxIndentSize maxMinAlignmentColumn
  omega

/-! ## What a payload does to each field -/

open HL.SettingsSpec (levels levelsIn) in
/-- **parse, field by field.** Over the objects of the `hledger` chain, outermost first: a
    field holds the normalised value of the *last* statement of `applySettingsMap` (objects in
    chain order, statements in source order) whose coercion succeeded, else its normalised
    previous value. -/
theorem parse_field (base : Settings) (j : Json) (l : Leaf) :
    HL.Settings.get (parseSettingsFromRaw base j) l =
      normLeaf l (((allCandidates j l).getLast?).getD (HL.Settings.get base l)) := by
  rw [parse_eq, get_normalize, get_foldl_levels]; rfl

open HL.SettingsSpec (levels) in
/-- **illtyped_unchanged.** For every key: if no statement reading that field finds a
    well-typed value in any object of the chain — the key is absent, its section is not an
    object, the value is null, an array, an object, a number where a boolean is expected, an
    unparsable string … or the payload is not an object at all — the stored field keeps its
    previous value. -/
theorem illtyped_unchanged (base : Settings) (j : Json) (l : Leaf) (hn : Normal base)
    (h : ∀ m ∈ levels j, ∀ e ∈ keyTable, e.leaf = l → coerceLeaf l (entryRaw m e) = none) :
    HL.Settings.get (parseSettingsFromRaw base j) l = HL.Settings.get base l := by
  rw [parse_field]
  have hc : allCandidates j l = [] := by
    unfold allCandidates
    rw [List.flatMap_eq_nil_iff]
    intro m hm
    unfold candidates candidatesIn
    rw [List.filterMap_eq_nil_iff]
    intro e he
    simp only [List.mem_filter, decide_eq_true_eq] at he
    exact h m hm e he.1 he.2
  simp only [hc, List.getLast?_nil, Option.getD_none]
  exact normal_get base hn l

/-- the shapes that are ill-typed for each coercion -/
theorem illtyped_shapes :
    (∀ l, coerceLeaf l .null = none) ∧ (∀ l a, coerceLeaf l (.arr a) = none) ∧
    (∀ l o, coerceLeaf l (.obj o) = none) ∧
    (∀ l m e, l.coerce = .toBool → coerceLeaf l (.num m e) = none) ∧
    (∀ l m e, l.coerce = .toString → coerceLeaf l (.num m e) = none) ∧
    (∀ l b, l.coerce ≠ .toBool → coerceLeaf l (.bool b) = none) := by
  refine ⟨?_, ?_, ?_, ?_, ?_, ?_⟩
  · intro l; cases l <;> rfl
  · intro l a; cases l <;> rfl
  · intro l o; cases l <;> rfl
  · intro l m e h; cases l <;> first | rfl | (simp [Leaf.coerce] at h)
  · intro l m e h; cases l <;> first | rfl | (simp [Leaf.coerce] at h)
  · intro l b h; cases l <;> first | rfl | (simp [Leaf.coerce] at h)

open HL.SettingsSpec (levels) in
/-- a payload that is not an object changes nothing -/
theorem non_object_unchanged (base : Settings) (j : Json) (hn : Normal base)
    (h : levels j = []) : parseSettingsFromRaw base j = base := by
  apply ext_get
  intro l
  exact illtyped_unchanged base j l hn (fun m hm => by rw [h] at hm; cases hm)

/-- **welltyped_applied.** If the last statement that finds a well-typed value for field `l`
    finds `v`, the field becomes `v` (normalised). -/
theorem welltyped_applied (base : Settings) (j : Json) (l : Leaf) (v : Val)
    (hv : (allCandidates j l).getLast? = some v) :
    HL.Settings.get (parseSettingsFromRaw base j) l = normLeaf l v := by
  rw [parse_field]
  simp only [hv, Option.getD_some]

/-- **nonpositive_defaults.** A non-positive number given for a limit, a size, an indent, a
    column or a timeout falls back to the default. -/
theorem nonpositive_defaults (base : Settings) (j : Json) (l : Leaf) (n : Int)
    (hv : (allCandidates j l).getLast? = some (.i n)) (hn : n ≤ 0)
    (hl : l ∈ [Leaf.cMaxResults, .oIndentSize, .xTimeout, .lMaxFileSizeBytes, .lMaxIncludeDepth]
      ∨ (l = .oMinAlignmentColumn)) :
    HL.Settings.get (parseSettingsFromRaw base j) l = HL.Settings.get defaults l := by
  rw [welltyped_applied base j l _ hv, normLeaf_eq]
  simp only [List.mem_cons, List.not_mem_nil, or_false] at hl
  rcases hl with (rfl | rfl | rfl | rfl | rfl) | rfl <;>
    simp only [normVal, HL.Settings.get, defaults, defaultLimits, millisecond, Val.i.injEq] <;>
    (repeat' split) <;> omega

/-- **above_maximum_clamped.** A width above its documented maximum is stored as the maximum. -/
theorem above_maximum_clamped (base : Settings) (j : Json) (n : Int) :
    ((allCandidates j .oIndentSize).getLast? = some (.i n) → n > maxIndentSize →
      (parseSettingsFromRaw base j).formatting.indentSize = maxIndentSize) ∧
    ((allCandidates j .oMinAlignmentColumn).getLast? = some (.i n) → n > maxMinAlignmentColumn →
      (parseSettingsFromRaw base j).formatting.minAlignmentColumn = maxMinAlignmentColumn) := by
  unfold maxIndentSize maxMinAlignmentColumn
  constructor
  · intro hv hn
    have h := welltyped_applied base j .oIndentSize _ hv
    rw [normLeaf_eq] at h
    simp only [normVal, HL.Settings.get, Val.i.injEq] at h
    rw [h]; (repeat' split) <;> omega
  · intro hv hn
    have h := welltyped_applied base j .oMinAlignmentColumn _ hv
    rw [normLeaf_eq] at h
    simp only [normVal, HL.Settings.get, Val.i.injEq] at h
    rw [h]; (repeat' split) <;> omega

/-- A negative `formatting.minAlignmentColumn` falls back to the default 0 ("no minimum") like
    the other non-positive numbers; a huge one is reduced to the maximum. -/
theorem minAlignment_examples :
    (parseSettingsFromRaw defaults
      (.obj [("formatting.minAlignmentColumn", .num (-5) 0)])).formatting.minAlignmentColumn = 0 ∧
    (parseSettingsFromRaw defaults
      (.obj [("formatting", .obj [("minAlignmentColumn", .num 1 53)])])).formatting.minAlignmentColumn = 500 ∧
    (parseSettingsFromRaw defaults
      (.obj [("formatting.indentSize", .str "9223372036854775807")])).formatting.indentSize = 32 := by
  decide +kernel

/-! ## The `hledger` wrapper, for every JSON shape -/

/-- **wrapper, all shapes.**
    * a payload that is not an object: nothing is read;
    * an object without a member `hledger`, or whose member `hledger` is anything but an object
      (null, a number, a string, an array …): the members of the object are read;
    * an object whose member `hledger` is an object: the members of the object are read, then
      the section is read the same way on top of them. -/
theorem wrapper_semantics (base : Settings) :
    (∀ j, (∀ kvs, j ≠ .obj kvs) → parseSettingsFromRaw base j = normalize base) ∧
    (∀ kvs, parseSettingsFromRaw base (.obj kvs) =
      match lookup "hledger" kvs with
      | some (.obj m) => parseSettingsFromRaw (applySettingsMap base kvs) (.obj m)
      | _ => normalize (applySettingsMap base kvs)) := by
  constructor
  · intro j hj
    cases j with
    | obj kvs => exact absurd rfl (hj kvs)
    | null => unfold parseSettingsFromRaw; rfl
    | bool _ => unfold parseSettingsFromRaw; rfl
    | num _ _ => unfold parseSettingsFromRaw; rfl
    | str _ => unfold parseSettingsFromRaw; rfl
    | arr _ => unfold parseSettingsFromRaw; rfl
  · intro kvs
    unfold parseSettingsFromRaw
    simp only
    rw [parseNested_lookup]
    cases hl : lookup "hledger" kvs with
    | none => rfl
    | some v => cases v <;> rfl

/-- nothing shadows anything: a recognised well-typed value next to a `hledger` member — of
    whatever type — is read (the two witnesses of the repaired finding
    `wrapper-shadows-siblings`), and the section wins where both give a value -/
theorem wrapper_examples :
    let s0 := normalize defaults
    (parseSettingsFromRaw s0 (.obj [("hledger", .obj []), ("completion", .obj [("maxResults", .num 7 0)])])).completion.maxResults = 7 ∧
    (parseSettingsFromRaw s0 (.obj [("hledger", .null), ("completion.maxResults", .num 7 0)])).completion.maxResults = 7 ∧
    (parseSettingsFromRaw s0 (.obj [("hledger", .num 5 0), ("completion.maxResults", .num 7 0)])).completion.maxResults = 7 ∧
    (parseSettingsFromRaw s0 (.obj [("hledger", .obj [("completion.maxResults", .num 9 0)]),
      ("completion.maxResults", .num 7 0), ("formatting.indentSize", .num 1 1)])).completion.maxResults = 9 ∧
    (parseSettingsFromRaw s0 (.obj [("hledger", .obj [("completion.maxResults", .num 9 0)]),
      ("completion.maxResults", .num 7 0), ("formatting.indentSize", .num 1 1)])).formatting.indentSize = 2 := by
  decide +kernel

/-! ## The statement's rule -/

open HL.SettingsSpec in
theorem valid_iff_normal (s : Settings) : valid s = true ↔ Normal s := by
  rw [normal_iff]
  unfold valid
  simp only [Bool.and_eq_true, decide_eq_true_eq, and_assoc]

open HL.SettingsSpec in
/-- **effective: the code meets the statement's rule, for every payload.**  For every
    previously stored (validated) settings and every JSON value whatsoever — with or without a
    `hledger` wrapper, the wrapper nested to any depth, settings next to a `hledger` member of
    any type: after `parseSettingsFromRaw` every field is as the rule of `HL.SettingsSpec`
    demands — recognised well-typed values (booleans also as strings in any letter case with
    blanks, integers also as strings or integral floats) are applied, non-positive counts and
    the empty path give the default, widths above their maximum give the maximum, ill-typed and
    unrecognised entries leave the previous value — and the result is validated. -/
theorem effective (prev : Settings) (j : Json) (hv : valid prev = true) :
    specOk prev j (parseSettingsFromRaw prev j) = true := by
  have hN : Normal prev := (valid_iff_normal prev).mp hv
  unfold specOk
  rw [Bool.and_eq_true]
  refine ⟨?_, (valid_iff_normal _).mpr (parse_normal prev j)⟩
  unfold specOkAt
  rw [List.all_eq_true]
  intro l _
  unfold leafOk
  simp only
  split
  · rfl
  · rename_i hun
    have hun' : Class.unspec ∉ mentions l (levels j) := by simpa using hun
    rw [parse_field]
    cases hc : (allCandidates j l).getLast? with
    | none =>
      -- no statement found a value: every mention is ill-typed
      have hnil : allCandidates j l = [] := List.getLast?_eq_none_iff.mp hc
      have hng : goods (mentions l (levels j)) = [] := by
        cases hgs : goods (mentions l (levels j)) with
        | nil => rfl
        | cons g gs =>
          exfalso
          have hgm : Class.good g ∈ mentions l (levels j) :=
            (mem_goods _ g).mp (by rw [hgs]; exact List.mem_cons_self ..)
          unfold mentions at hgm
          rw [List.mem_flatMap] at hgm
          obtain ⟨m, hm, hgm⟩ := hgm
          obtain ⟨e, he, hl, hce⟩ := candidate_of_mention l m _ hgm
          have hr := read_vs_coerce l (entryRaw m e)
          rw [← hce] at hr
          obtain ⟨w, hw, _⟩ := hr
          have : w ∈ allCandidates j l := by
            unfold allCandidates
            rw [List.mem_flatMap]
            refine ⟨m, hm, ?_⟩
            unfold candidates candidatesIn
            rw [List.mem_filterMap]
            exact ⟨e, by simp [he, hl], hw⟩
          rw [hnil] at this; cases this
      simp only [hng, Option.getD_none]
      rw [normal_get prev hN l]; exact agree_refl _ _
    | some w =>
      simp only [Option.getD_some]
      have hwm : w ∈ allCandidates j l := List.mem_of_getLast? hc
      unfold allCandidates at hwm
      rw [List.mem_flatMap] at hwm
      obtain ⟨m, hm, hwm⟩ := hwm
      unfold candidates candidatesIn at hwm
      rw [List.mem_filterMap] at hwm
      obtain ⟨e, hef, hw⟩ := hwm
      simp only [List.mem_filter, decide_eq_true_eq] at hef
      have hmen := mention_of_candidate l m e w hef.1 hef.2 hw
      have hmen' : readLeaf l (entryRaw m e) ∈ mentions l (levels j) := by
        unfold mentions
        rw [List.mem_flatMap]
        exact ⟨m, hm, hmen⟩
      have hr := read_vs_coerce l (entryRaw m e)
      cases hrl : readLeaf l (entryRaw m e) with
      | good g =>
        rw [hrl] at hr hmen'
        obtain ⟨w', hw', hag⟩ := hr
        rw [hw] at hw'
        cases hw'
        have hgm : g ∈ goods (mentions l (levels j)) := (mem_goods _ g).mpr hmen'
        cases hgs : goods (mentions l (levels j)) with
        | nil => rw [hgs] at hgm; cases hgm
        | cons g0 gs =>
          simp only
          rw [← hgs, List.any_eq_true]
          exact ⟨g, hgm, hag⟩
      | bad =>
        rw [hrl] at hr
        rw [hr] at hw; cases hw
      | unspec =>
        exfalso
        rw [hrl] at hmen'
        exact hun' hmen'

open HL.SettingsSpec in
/-- non-vacuity: a payload with wrapper, settings next to the wrapper, both key forms, a
    boolean as text, a number as text and a huge width is judged by the rule (no field is
    unspecified), and the result really changed -/
example :
    let j : Json := .obj [("hledger", .obj [("completion", .obj [("maxResults", .str " 7 ")]),
      ("features.hover", .str " FALSE "), ("formatting.indentSize", .num 0 0)]),
      ("formatting.minAlignmentColumn", .num 1 40), ("cli.timeout", .num 5 0)]
    valid (normalize defaults) = true ∧
    (Leaf.all.all fun l => !(mentions l (levels j)).contains .unspec) = true ∧
    (parseSettingsFromRaw (normalize defaults) j).completion.maxResults = 7 ∧
    (parseSettingsFromRaw (normalize defaults) j).features.hover = false ∧
    (parseSettingsFromRaw (normalize defaults) j).formatting.indentSize = 4 ∧
    (parseSettingsFromRaw (normalize defaults) j).formatting.minAlignmentColumn = 500 ∧
    (parseSettingsFromRaw (normalize defaults) j).cli.timeout = 5000000 := by
  decide +kernel

/-! ## Sequences -/

/-- **Out-of-order replies: the latest request wins.**  A server that asks its client
    (`workspace.configuration` announced) receives any number of change notifications in a
    row — `qs`, then `p` — and after that the refresh tasks, the new ones and any older ones
    still in flight, take their steps in ANY order whatsoever (`es` is an arbitrary list of
    task steps: any interleaving, any order of reply processing, steps of finished tasks,
    anything), the client answering the LATEST request with `p` (and the superseded requests
    with anything at all).  Once no task is in flight, the settings are exactly `p` applied to
    the settings from before the burst: no superseded answer is ever stored, in no order. -/
theorem burst_latest_wins (σ : Srv) (hc : σ.hasClient = true) (hs : σ.supportsCfg = true)
    (hwf : WF σ) (qs : List Json) (p : Json) (es : List Event)
    (hes : ∀ e ∈ es, ∃ i r, e = .task i r ∧
      (i = σ.tasks.length + qs.length → ∃ xs, r = .items (p :: xs)))
    (σ' : Srv)
    (hrun : run σ ((qs ++ [p]).map .didChangeConfiguration ++ es) = .ok σ') :
    σ'.hasClient = true ∧ σ'.supportsCfg = true ∧ WF σ' ∧
    (quiescent σ' = true → σ'.settings = parseSettingsFromRaw σ.settings p) := by
  obtain ⟨σ₁, h1, hset, hc1, hs1, hwf1, hlen⟩ := run_changes qs σ hc hs hwf
  have hb := spawnRefresh_burst σ₁ p hc1 hs1 hwf1
  rw [List.map_append, List.append_assoc, run_append, h1] at hrun
  simp only [List.map_cons, List.map_nil, List.singleton_append, run,
    step_change_pull σ₁ p hc1 hs1] at hrun
  rw [hlen] at hb
  obtain ⟨hB, hfin⟩ := newest_wins _ _ _ _ _ _ es hb hes hrun
  refine ⟨hB.frame.hc, hB.frame.hs, wf_of_frame _ _ _ hB.frame, fun hq => ?_⟩
  rw [hfin hq, hset]

/-- Rounds of configuration changes: in each round any number of notifications arrive in a row
    (`qs`, then `p`), the tasks run under any schedule (`es`) as in `burst_latest_wins`, and the
    round ends when no task is in flight. -/
inductive Rounds : Srv → List (List Json × Json) → Srv → Prop
  | nil (σ : Srv) : Rounds σ [] σ
  | cons (σ σ₁ σ₂ : Srv) (qs : List Json) (p : Json) (es : List Event) (bs : List (List Json × Json))
      (hes : ∀ e ∈ es, ∃ i r, e = .task i r ∧
        (i = σ.tasks.length + qs.length → ∃ xs, r = .items (p :: xs)))
      (hrun : run σ ((qs ++ [p]).map .didChangeConfiguration ++ es) = .ok σ₁)
      (hq : quiescent σ₁ = true) (rest : Rounds σ₁ bs σ₂) : Rounds σ ((qs, p) :: bs) σ₂

/-- **sequence_fold.**  For every sequence of rounds, of any length — in particular for every
    sequence of changes each handled before the next arrives (`qs = []` in every round), under
    every schedule of the task steps — the settings at the end are the left fold of
    `parseSettingsFromRaw` over the latest payload of each round, starting from the settings at
    the beginning.  Whatever order the replies were processed in. -/
theorem sequence_fold (σ σ' : Srv) (bs : List (List Json × Json)) (hc : σ.hasClient = true)
    (hs : σ.supportsCfg = true) (hwf : WF σ) (h : Rounds σ bs σ') :
    σ'.settings = (bs.map (·.2)).foldl parseSettingsFromRaw σ.settings := by
  induction h with
  | nil σ => rfl
  | cons σ σ₁ σ₂ qs p es bs hes hrun hq _ ih =>
    obtain ⟨hc1, hs1, hwf1, hfin⟩ := burst_latest_wins σ hc hs hwf qs p es hes σ₁ hrun
    rw [ih hc1 hs1 hwf1, hfin hq]
    rfl

/-- Initialisation applies the options to the initial settings and gates the capabilities by
    the feature switches that result. -/
theorem initialize_effect (σ : Srv) (p : InitParams) :
    ∃ σ' caps, initializeSrv σ (some p) = .ok (σ', caps) ∧
      σ'.settings = parseSettingsFromRaw σ.settings p.options ∧
      caps = capsOf σ'.settings ∧
      σ'.supportsCfg = (p.workspaceCfg.getD σ.supportsCfg) ∧
      σ'.tasks = σ.tasks ∧ σ'.refreshSeq = σ.refreshSeq ∧ σ'.hasClient = σ.hasClient := by
  refine ⟨_, _, rfl, ?_, rfl, ?_, ?_, ?_, ?_⟩
  · cases p.workspaceCfg <;> exact parse_normal _ _
  · cases p.workspaceCfg <;> rfl
  · cases p.workspaceCfg <;> rfl
  · cases p.workspaceCfg <;> rfl
  · cases p.workspaceCfg <;> rfl

/-- **sequence_fold, from a fresh server.** `initialize` with options `opts` from a client
    that announces `workspace.configuration`, then any rounds of changes: the settings are the
    fold of `parseSettingsFromRaw` over `opts` and the latest payload of each round, starting
    from the defaults. -/
theorem sequence_fold_from_init (opts : Json) (bs : List (List Json × Json)) (σ₁ σ' : Srv)
    (hinit : step (newServer true) (.init (some ⟨some true, opts⟩)) = .ok σ₁)
    (h : Rounds σ₁ bs σ') :
    σ'.settings = (opts :: bs.map (·.2)).foldl parseSettingsFromRaw (normalize defaults) := by
  obtain ⟨σ₀, caps, h1, hset, _, hcfg, htasks, hseq, hcl⟩ :=
    initialize_effect (newServer true) ⟨some true, opts⟩
  simp only [step, h1, Except.map, Except.ok.injEq] at hinit
  subst hinit
  have hwf : WF σ₀ := by
    intro t ht; rw [htasks] at ht; cases ht
  rw [sequence_fold σ₀ σ' bs (by rw [hcl]; rfl) (by rw [hcfg]; rfl) hwf h, hset]
  rfl

/-- the task numbers never exceed `refreshSeq`, in every reachable state -/
theorem wf_step (σ σ' : Srv) (e : Event) (hwf : WF σ) (h : step σ e = .ok σ') : WF σ' := by
  cases e with
  | init p =>
    cases p with
    | none => simp [step, initializeSrv, Except.map] at h
    | some p =>
      obtain ⟨σ₀, caps, h1, _, _, _, htasks, hseq, _⟩ := initialize_effect σ p
      simp only [step, h1, Except.map, Except.ok.injEq] at h
      subst h
      intro t ht
      rw [htasks] at ht; rw [hseq]; exact hwf t ht
  | initialized =>
    simp only [step, Except.ok.injEq] at h
    subst h; exact spawnRefresh_wf σ hwf
  | didChangeConfiguration p =>
    simp only [step, Except.ok.injEq] at h
    subst h
    unfold didChangeConfiguration
    split
    · exact spawnRefresh_wf σ hwf
    · have hn : WF (nextRefresh σ) := by
        intro t ht
        have := hwf t ht
        simp only [nextRefresh] at ht ⊢
        omega
      split
      · exact hn
      · obtain ⟨ha1, ha2, _, _⟩ := applyConfiguration_tasks (nextRefresh σ) (nextRefresh σ).refreshSeq p
        intro t ht
        rw [ha1] at ht; rw [ha2]; exact hn t ht
  | task i r =>
    simp only [step] at h
    have hset : ∀ (τ : Srv) (j : Nat) (pc : Pc), WF τ → WF (setPc τ j pc) := by
      intro τ j pc hτ t ht
      obtain ⟨k, hk⟩ := List.getElem?_of_mem ht
      rw [setPc_getElem?] at hk
      split at hk
      · cases hkt : τ.tasks[k]? with
        | none => rw [hkt] at hk; cases hk
        | some t0 =>
          rw [hkt] at hk
          simp only [Option.map_some, Option.some.injEq] at hk
          rw [← hk]
          exact hτ t0 (List.mem_of_getElem? hkt)
      · exact hτ t (List.mem_of_getElem? hk)
    rcases stepTask_cases σ σ' i r h with rfl | ⟨t, _, h | h | h | h⟩
    · exact hwf
    · rw [h.2]; exact hset _ _ _ hwf
    · rw [h.2]; exact hset _ _ _ hwf
    · obtain ⟨q, _, _, h⟩ := h; rw [h]; exact hset _ _ _ hwf
    · obtain ⟨x, xs, _, h⟩ := h
      rw [h]
      apply hset
      obtain ⟨ha1, ha2, _, _⟩ := applyConfiguration_tasks σ t.seq x
      intro t' ht'
      rw [ha1] at ht'; rw [ha2]; exact hwf t' ht'
  | probe f =>
    simp only [step, Except.ok.injEq] at h
    subst h
    intro t ht
    have e1 : (probeLoad σ f).tasks = σ.tasks := by unfold probeLoad; dsimp only; split <;> rfl
    have e2 : (probeLoad σ f).refreshSeq = σ.refreshSeq := by unfold probeLoad; dsimp only; split <;> rfl
    rw [e1] at ht; rw [e2]; exact hwf t ht

theorem wf_reachable (hasClient : Bool) (es : List Event) (σ' : Srv)
    (h : run (newServer hasClient) es = .ok σ') : WF σ' :=
  run_invariant WF wf_step _ _ es (by intro t ht; cases ht) h

/-- A superseded answer is never stored: a step of a task whose number is not the newest
    leaves the settings alone, whatever the reply. -/
theorem superseded_never_stores (σ σ' : Srv) (i : Nat) (r : Pull) (t : Task)
    (ht : σ.tasks[i]? = some t) (hold : t.seq ≠ σ.refreshSeq) (h : stepTask σ i r = .ok σ') :
    σ'.settings = σ.settings := by
  rcases stepTask_cases σ σ' i r h with rfl | ⟨t', ht', h | h | h | h⟩
  · rfl
  · rw [h.2]; rfl
  · rw [h.2]; rfl
  · obtain ⟨q, _, _, h⟩ := h; rw [h]; rfl
  · obtain ⟨x, xs, _, h⟩ := h
    rw [ht] at ht'
    cases ht'
    rw [h]
    show (applyConfiguration σ t.seq x).settings = σ.settings
    rw [applyConfiguration_settings]
    simp only [hold, if_false]

/-! ### A client that cannot be asked: the pushed settings count -/

/-- **Pushed settings are applied** (finding `push-ignored`, repaired): without a client that
    announced `workspace.configuration`, the settings carried by the notification are parsed
    on top of the stored ones, at once, and no task is started. -/
theorem push_applied (σ : Srv) (p : Json) (h : (σ.hasClient && σ.supportsCfg) = false)
    (hn : Normal σ.settings) :
    ∃ σ', step σ (.didChangeConfiguration p) = .ok σ' ∧
      σ'.settings = parseSettingsFromRaw σ.settings p ∧ σ'.tasks = σ.tasks ∧
      σ'.hasClient = σ.hasClient ∧ σ'.supportsCfg = σ.supportsCfg := by
  refine ⟨_, rfl, ?_⟩
  unfold didChangeConfiguration
  simp only [h, Bool.false_eq_true, if_false]
  have happ : ∀ q : Json,
      (applyConfiguration (nextRefresh σ) (nextRefresh σ).refreshSeq q).settings =
        parseSettingsFromRaw σ.settings q := by
    intro q
    rw [applyConfiguration_settings]
    simp only [if_true]
    rfl
  have hrest : ∀ q : Json,
      (applyConfiguration (nextRefresh σ) (nextRefresh σ).refreshSeq q).tasks = σ.tasks ∧
      (applyConfiguration (nextRefresh σ) (nextRefresh σ).refreshSeq q).hasClient = σ.hasClient ∧
      (applyConfiguration (nextRefresh σ) (nextRefresh σ).refreshSeq q).supportsCfg = σ.supportsCfg := by
    intro q
    obtain ⟨a1, _, a3, a4⟩ := applyConfiguration_tasks (nextRefresh σ) (nextRefresh σ).refreshSeq q
    exact ⟨a1, a3, a4⟩
  cases p with
  | null =>
    refine ⟨?_, rfl, rfl, rfl⟩
    show σ.settings = parseSettingsFromRaw σ.settings .null
    unfold parseSettingsFromRaw
    exact hn.symm
  | bool b => exact ⟨happ _, hrest _⟩
  | num m e => exact ⟨happ _, hrest _⟩
  | str s => exact ⟨happ _, hrest _⟩
  | arr a => exact ⟨happ _, hrest _⟩
  | obj o => exact ⟨happ _, hrest _⟩

/-- **sequence_fold for pushed settings.**  Any number of change notifications to a server
    that cannot ask: the settings are the left fold of `parseSettingsFromRaw` over the pushed
    payloads. -/
theorem sequence_fold_push (σ : Srv) (ps : List Json) (h : (σ.hasClient && σ.supportsCfg) = false)
    (hn : Normal σ.settings) :
    ∃ σ', run σ (ps.map .didChangeConfiguration) = .ok σ' ∧
      σ'.settings = ps.foldl parseSettingsFromRaw σ.settings := by
  induction ps generalizing σ with
  | nil => exact ⟨σ, rfl, rfl⟩
  | cons p ps ih =>
    obtain ⟨σ₁, h1, hset, _, hc1, hs1⟩ := push_applied σ p h hn
    obtain ⟨σ₂, h2, hfold⟩ := ih σ₁ (by rw [hc1, hs1]; exact h) (by rw [hset]; exact parse_normal _ _)
    refine ⟨σ₂, ?_, ?_⟩
    · simp only [List.map_cons, run, h1]; exact h2
    · rw [hfold, hset]; rfl

/-! ## The feature switches take effect on the requests, after any configuration history -/

/-- a feature switch is an ordinary boolean field of the settings -/
theorem get_feature (s : Settings) (f : Feature) :
    HL.Settings.get s f.leaf = .b (featureOn s f) := by cases f <;> rfl

/-- every value a payload can assign to a feature switch is a boolean -/
theorem feature_candidate_bool (j : Json) (f : Feature) (w : Val) (hw : w ∈ allCandidates j f.leaf) :
    ∃ v, w = .b v := by
  unfold allCandidates at hw
  rw [List.mem_flatMap] at hw
  obtain ⟨m, _, hw⟩ := hw
  unfold candidates candidatesIn at hw
  rw [List.mem_filterMap] at hw
  obtain ⟨e, _, hc⟩ := hw
  have ht := coerceLeaf_typeOK _ _ _ hc
  cases w with
  | b v => exact ⟨v, rfl⟩
  | i v => cases f <;> simp [typeOK, Feature.leaf, Leaf.coerce] at ht
  | s v => cases f <;> simp [typeOK, Feature.leaf, Leaf.coerce] at ht

/-- The value of switch `f` after the payload `p`: the last recognised, well-typed value the
    payload gives for it (any object of the `hledger` chain, either key form), else the value
    it had. -/
def switchAfter (f : Feature) (b : Bool) (p : Json) : Bool :=
  match (allCandidates p f.leaf).getLast? with
  | some (.b v) => v
  | _ => b

/-- … and after a whole sequence of payloads -/
def lastSwitch (f : Feature) (ps : List Json) (b0 : Bool) : Bool := ps.foldl (switchAfter f) b0

/-- one payload, one switch -/
theorem featureOn_parse (s : Settings) (p : Json) (f : Feature) :
    featureOn (parseSettingsFromRaw s p) f = switchAfter f (featureOn s f) p := by
  have h := parse_field s p f.leaf
  rw [get_feature, get_feature, normLeaf_eq] at h
  unfold switchAfter
  cases hc : (allCandidates p f.leaf).getLast? with
  | none =>
    rw [hc] at h
    simp only [Option.getD_none] at h
    have h' : Val.b (featureOn (parseSettingsFromRaw s p) f) = Val.b (featureOn s f) := by
      rw [h]; cases f <;> rfl
    exact Val.b.inj h'
  | some w =>
    obtain ⟨v, rfl⟩ := feature_candidate_bool p f w (List.mem_of_getLast? hc)
    rw [hc] at h
    simp only [Option.getD_some] at h
    have h' : Val.b (featureOn (parseSettingsFromRaw s p) f) = Val.b v := by
      rw [h]; cases f <;> rfl
    exact Val.b.inj h'

/-- any sequence of payloads, one switch -/
theorem featureOn_fold (ps : List Json) (s : Settings) (f : Feature) :
    featureOn (ps.foldl parseSettingsFromRaw s) f = lastSwitch f ps (featureOn s f) := by
  induction ps generalizing s with
  | nil => rfl
  | cons p ps ih =>
    simp only [List.foldl_cons, lastSwitch]
    rw [ih, featureOn_parse]
    rfl

/-- every switch is on in a fresh server -/
theorem featureOn_fresh (f : Feature) : featureOn (normalize defaults) f = true := by
  cases f <;> decide +kernel

/-- **The gate is the switch**: for each of the eight switches enforced by `FeatureGate`, and
    each request method the gate's table files under it, what the client receives — the
    handler's answer or the gate's `null` — is decided by the switch as stored now; a method
    that is not in the table always reaches its handler.  (`requestFeature` is the source's
    table: `HL.Generated.Expect.feature_gate_table`; the served handler passes through the
    gate: `feature_gate_chained`.) -/
theorem gate_is_switch (σ : Srv) {α : Type} (full : α) :
    (∀ m f, (m, f) ∈ requestFeature → dispatch σ m full = respond σ f (some full) none) ∧
    (∀ m, (∀ f, (m, f) ∉ requestFeature) → dispatch σ m full = some full) ∧
    (∀ f, f ≠ .diagnostics → f ≠ .inlineCompletion → ∃ m, (m, f) ∈ requestFeature) := by
  refine ⟨?_, ?_, ?_⟩
  · intro m f hm
    have hf : featureOfMethod m requestFeature = some f := by
      simp only [requestFeature, List.mem_cons, Prod.mk.injEq, List.not_mem_nil, or_false] at hm
      rcases hm with ⟨rfl, rfl⟩ | ⟨rfl, rfl⟩ | ⟨rfl, rfl⟩ | ⟨rfl, rfl⟩ | ⟨rfl, rfl⟩ | ⟨rfl, rfl⟩ |
        ⟨rfl, rfl⟩ | ⟨rfl, rfl⟩ | ⟨rfl, rfl⟩ | ⟨rfl, rfl⟩ <;> decide
    unfold dispatch gatePasses respond
    rw [hf]
  · intro m hm
    have hnone : ∀ t : List (String × Feature), (∀ f, (m, f) ∉ t) → featureOfMethod m t = none := by
      intro t
      induction t with
      | nil => intro _; rfl
      | cons x t ih =>
        intro h
        obtain ⟨a, g⟩ := x
        unfold featureOfMethod
        by_cases ha : a = m
        · exact absurd (List.mem_cons_self ..) (ha ▸ h g)
        · simp only [ha, if_false]
          exact ih (fun f hf => h f (List.mem_cons_of_mem _ hf))
    unfold dispatch gatePasses
    rw [hnone requestFeature hm]
    rfl
  · intro f h1 h2
    cases f
    case diagnostics => exact absurd rfl h1
    case inlineCompletion => exact absurd rfl h2
    all_goals first
      | exact ⟨"textDocument/hover", by decide⟩
      | exact ⟨"textDocument/completion", by decide⟩
      | exact ⟨"textDocument/formatting", by decide⟩
      | exact ⟨"textDocument/semanticTokens/full", by decide⟩
      | exact ⟨"textDocument/codeAction", by decide⟩
      | exact ⟨"textDocument/foldingRange", by decide⟩
      | exact ⟨"textDocument/documentLink", by decide⟩
      | exact ⟨"workspace/symbol", by decide⟩

/-- **feature_switches_effective.**  A server that asks its client: initialisation with any
    options, then any number of rounds of configuration changes, of any length, overlapping in
    any way, the answers handled in any order (`Rounds`, as in `sequence_fold`).  Afterwards,
    for EACH of the ten feature switches, a request of that feature is answered by its handler
    iff the LAST recognised, well-typed value delivered for the switch — by the options or by
    the latest payload of some round — is `true` (no such value: the default, on); otherwise
    it gets the empty answer.  No guard: what `Initialize` advertised is irrelevant. -/
theorem feature_switches_effective (opts : Json) (bs : List (List Json × Json)) (σ₁ σ' : Srv)
    (hinit : step (newServer true) (.init (some ⟨some true, opts⟩)) = .ok σ₁)
    (h : Rounds σ₁ bs σ') (f : Feature) {α : Type} (full empty : α) :
    respond σ' f full empty =
      if lastSwitch f (opts :: bs.map (·.2)) true then full else empty := by
  unfold respond
  rw [sequence_fold_from_init opts bs σ₁ σ' hinit h, featureOn_fold, featureOn_fresh]

/-- … from any state of such a server (not only a fresh one) -/
theorem feature_switches_effective_from (σ σ' : Srv) (bs : List (List Json × Json))
    (hc : σ.hasClient = true) (hs : σ.supportsCfg = true) (hwf : WF σ) (h : Rounds σ bs σ')
    (f : Feature) {α : Type} (full empty : α) :
    respond σ' f full empty =
      if lastSwitch f (bs.map (·.2)) (featureOn σ.settings f) then full else empty := by
  unfold respond
  rw [sequence_fold σ σ' bs hc hs hwf h, featureOn_fold]

/-- **… and for a client that cannot be asked**: initialisation with any options (the client
    did not announce `workspace.configuration`, or said `false`, or there is no client), then
    any number of `didChangeConfiguration` notifications carrying settings: the same
    statement, over the options and the pushed payloads. -/
theorem feature_switches_effective_push (hasClient : Bool) (cfg : Option Bool) (opts : Json)
    (ps : List Json) (hcfg : (hasClient && cfg.getD false) = false)
    (f : Feature) {α : Type} (full empty : α) :
    ∃ σ', run (newServer hasClient) (.init (some ⟨cfg, opts⟩) :: ps.map .didChangeConfiguration) = .ok σ' ∧
      respond σ' f full empty = if lastSwitch f (opts :: ps) true then full else empty := by
  obtain ⟨σ₀, caps, h1, hset, _, hsup, _, _, hcl⟩ := initialize_effect (newServer hasClient) ⟨cfg, opts⟩
  have hno : (σ₀.hasClient && σ₀.supportsCfg) = false := by
    rw [hcl, hsup]; exact hcfg
  obtain ⟨σ', hrun, hfold⟩ := sequence_fold_push σ₀ ps hno (by rw [hset]; exact parse_normal _ _)
  refine ⟨σ', ?_, ?_⟩
  · simp only [run, step, h1, Except.map]
    exact hrun
  · unfold respond
    rw [hfold, hset, ← List.foldl_cons (f := parseSettingsFromRaw), featureOn_fold]
    show (if lastSwitch f (opts :: ps) (featureOn (normalize defaults) f) = true then full else empty) = _
    rw [featureOn_fresh]

/-- The finding's shape, without its guard: whatever was advertised and whatever came before,
    once the latest payload says `false` for a switch, requests of that feature get the empty
    answer; once it says `true`, the handler answers. -/
theorem switched_off_answers_empty (s : Settings) (ps : List Json) (p : Json) (f : Feature) (v : Bool)
    (hv : (allCandidates p f.leaf).getLast? = some (.b v)) :
    featureOn ((ps ++ [p]).foldl parseSettingsFromRaw s) f = v := by
  rw [List.foldl_append]
  simp only [List.foldl_cons, List.foldl_nil]
  rw [featureOn_parse]
  unfold switchAfter
  rw [hv]

/-- At initialisation the two agree: a feature is advertised iff its requests are answered
    (the capabilities are not registered again later; the requests follow the switch). -/
theorem initialize_consistent (σ : Srv) (p : InitParams) (f : Feature) {α : Type} (full empty : α) :
    ∃ σ' caps, initializeSrv σ (some p) = .ok (σ', caps) ∧
      (∀ b, caps.advertises f = some b → respond σ' f full empty = if b then full else empty) := by
  refine ⟨_, _, rfl, ?_⟩
  intro b hb
  cases f <;> simp only [Caps.advertises, capsOf, Option.some.injEq, reduceCtorEq] at hb <;>
    (subst hb; rfl)

/-! ### Schedules, concretely -/

def finalSettings : Except Panic Srv → Option Settings
  | .ok σ => some σ.settings
  | .error _ => none

def isQuiescent : Except Panic Srv → Bool
  | .ok σ => quiescent σ
  | .error _ => false

def p5 : Json := .obj [("completion.maxResults", .num 5 0)]

def p7 : Json := .obj [("completion.maxResults", .num 7 0)]

def pIndent2 : Json := .obj [("formatting.indentSize", .num 1 1)]

def inited : List Event := [.init (some ⟨some true, .null⟩)]

/-- non-vacuity of `burst_latest_wins` / `sequence_fold`, and the schedule of the repaired
    finding `refresh-out-of-order`: three requests in flight (5, an indent, 7), every task
    sends its request, the answers are processed in the order 3rd, 1st, 2nd — and in the order
    2nd, 3rd, 1st.  No task is left; the server holds 7, and the superseded indent was never
    stored. -/
example :
    let burst : List Event := inited ++
      [.didChangeConfiguration p5, .didChangeConfiguration pIndent2, .didChangeConfiguration p7,
       .task 0 .err, .task 1 .err, .task 2 .err]
    let a := run (newServer true) (burst ++
      [.task 2 (.items [p7]), .task 2 .err, .task 0 (.items [p5]), .task 0 .err,
       .task 1 (.items [pIndent2]), .task 1 .err])
    let b := run (newServer true) (burst ++
      [.task 1 (.items [pIndent2]), .task 2 (.items [p7]), .task 1 .err, .task 0 (.items [p5]),
       .task 2 .err, .task 0 .err])
    isQuiescent a = true ∧ isQuiescent b = true ∧
    (finalSettings a).map (fun s => (s.completion.maxResults, s.formatting.indentSize)) = some (7, 4) ∧
    (finalSettings b).map (fun s => (s.completion.maxResults, s.formatting.indentSize)) = some (7, 4) := by
  decide +kernel

/-- serial changes fold, pulled or pushed -/
example :
    (finalSettings (run (newServer true) (inited ++
      changeEvents 0 .null (.items [p5]) ++ changeEvents 1 .null (.items [pIndent2])))).map
        (fun s => (s.completion.maxResults, s.formatting.indentSize)) = some (5, 2) ∧
    (finalSettings (run (newServer true)
      [.init (some ⟨some false, .null⟩), .didChangeConfiguration (.obj [("hledger", p5)]),
       .didChangeConfiguration pIndent2])).map
        (fun s => (s.completion.maxResults, s.formatting.indentSize)) = some (5, 2) := by
  decide +kernel

def afterInit : Srv := match run (newServer true) inited with | .ok σ => σ | .error _ => newServer true

/-- non-vacuity of `sequence_fold`: two rounds — three overlapping changes answered in the order
    3rd, 1st, 2nd, then a single change — do form `Rounds`, and fold to (7, 2). -/
example : ∃ σ', Rounds afterInit [([p5, pIndent2], p7), ([], pIndent2)] σ' ∧
    (σ'.settings.completion.maxResults, σ'.settings.formatting.indentSize) = (7, 2) := by
  refine ⟨_, Rounds.cons _ _ _ [p5, pIndent2] p7
    [.task 0 .err, .task 1 .err, .task 2 (.items [p7]), .task 2 (.items [p7]), .task 2 (.items [p7]),
     .task 0 (.items [p5]), .task 0 .err, .task 1 (.items [pIndent2]), .task 1 .err] _ ?_ rfl ?_
    (Rounds.cons _ _ _ [] pIndent2
      [.task 3 (.items [pIndent2]), .task 3 (.items [pIndent2]), .task 3 (.items [pIndent2])] [] ?_ rfl ?_ (Rounds.nil _)), ?_⟩
  · intro e he
    simp only [List.mem_cons, List.not_mem_nil, or_false] at he
    rcases he with rfl | rfl | rfl | rfl | rfl | rfl | rfl | rfl | rfl <;>
      first
      | exact ⟨_, _, rfl, fun h => ⟨[], rfl⟩⟩
      | exact ⟨_, _, rfl, fun h => absurd h (by decide +kernel)⟩
  · decide +kernel
  · intro e he
    simp only [List.mem_cons, List.not_mem_nil, or_false] at he
    rcases he with rfl | rfl | rfl <;>
      first
      | exact ⟨_, _, rfl, fun h => ⟨[], rfl⟩⟩
      | exact ⟨_, _, rfl, fun h => absurd h (by decide +kernel)⟩
  · decide +kernel
  · decide +kernel

/-! ### The feature switches, concretely -/

def fsOff : Json := .obj [("features", .obj [("hover", .bool false)])]

def fsBack : Json := .obj [("hledger", .obj [("features.hover", .str " TRUE "),
  ("features.semanticTokens", .str "false")])]

def srvOf (r : Except Panic Srv) : Srv := match r with | .ok σ => σ | .error _ => newServer true

def fsEs1 : List Event := [.task 0 (.items [fsOff]), .task 0 (.items [fsOff]), .task 0 (.items [fsOff])]

def fsS2 : Srv := srvOf (run afterInit (.didChangeConfiguration fsOff :: fsEs1))

def fsEs2 : List Event := [.task 1 .err, .task 2 (.items [fsBack]), .task 2 (.items [fsBack]),
  .task 2 (.items [fsBack]), .task 1 (.items [p5]), .task 1 .err]

def fsS3 : Srv := srvOf (run fsS2 (.didChangeConfiguration p5 :: .didChangeConfiguration fsBack :: fsEs2))

/-- non-vacuity of `feature_switches_effective` (and the replay of the repaired finding):
    initialisation with every feature on, hover advertised; a change — pulled — says
    `features.hover = false`: hover requests get `null`, completion is still answered; in a
    second round two changes overlap, the later one switches hover on again and semantic tokens
    off through the dotted keys, as text, inside the `hledger` wrapper.  These runs do form
    `Rounds`, and the gate follows. -/
example :
    step (newServer true) (.init (some ⟨some true, .null⟩)) = .ok afterInit ∧
    Rounds afterInit [([], fsOff)] fsS2 ∧ Rounds afterInit [([], fsOff), ([p5], fsBack)] fsS3 ∧
    (capsOf afterInit.settings).hoverProvider = true ∧
    dispatch afterInit "textDocument/hover" "H" = some "H" ∧
    dispatch fsS2 "textDocument/hover" "H" = none ∧
    dispatch fsS2 "textDocument/completion" "C" = some "C" ∧
    dispatch fsS3 "textDocument/hover" "H" = some "H" ∧
    dispatch fsS3 "textDocument/semanticTokens/full/delta" "T" = none ∧
    dispatch fsS3 "textDocument/definition" "D" = some "D" ∧
    lastSwitch .hover [.null, fsOff] true = false ∧
    lastSwitch .hover [.null, fsOff, fsBack] true = true ∧
    lastSwitch .semanticTokens [.null, fsOff, fsBack] true = false ∧
    (Feature.all.map fun f => lastSwitch f [.null, fsOff] true) =
      [false, true, true, true, true, true, true, true, true, true] := by
  have hes1 : ∀ e ∈ fsEs1, ∃ i r, e = .task i r ∧
      (i = afterInit.tasks.length + ([] : List Json).length → ∃ xs, r = .items (fsOff :: xs)) := by
    intro e he
    simp only [fsEs1, List.mem_cons, List.not_mem_nil, or_false] at he
    rcases he with rfl | rfl | rfl <;> exact ⟨_, _, rfl, fun _ => ⟨[], rfl⟩⟩
  have hes2 : ∀ e ∈ fsEs2, ∃ i r, e = .task i r ∧
      (i = fsS2.tasks.length + [p5].length → ∃ xs, r = .items (fsBack :: xs)) := by
    intro e he
    simp only [fsEs2, List.mem_cons, List.not_mem_nil, or_false] at he
    rcases he with rfl | rfl | rfl | rfl | rfl | rfl <;>
      first
      | exact ⟨_, _, rfl, fun _ => ⟨[], rfl⟩⟩
      | exact ⟨_, _, rfl, fun h => absurd h (by decide +kernel)⟩
  have r2 : Rounds fsS2 [([p5], fsBack)] fsS3 :=
    Rounds.cons fsS2 fsS3 fsS3 [p5] fsBack fsEs2 [] hes2 rfl (by decide +kernel) (Rounds.nil _)
  refine ⟨rfl, Rounds.cons afterInit fsS2 fsS2 [] fsOff fsEs1 [] hes1 rfl (by decide +kernel) (Rounds.nil _),
    Rounds.cons afterInit fsS2 fsS3 [] fsOff fsEs1 _ hes1 rfl (by decide +kernel) r2, ?_⟩
  decide +kernel

/-! ### The pinned tree (findings repaired by `fix:` commits; kept on record) -/

def pinnedServer (supportsCfg : Bool) : SrvP := ⟨normalizePinned defaults, supportsCfg, true, []⟩

/-- **Finding `refresh-out-of-order`, pinned code.** Two changes, 5 then 7; both refresh tasks
    ask; the client's answer to the second request is processed first.  At rest the pinned
    server holds 5 while the latest request said 7.  The repaired model, same schedule: 7. -/
theorem pinned_refresh_out_of_order_counterexample :
    ((runP (pinnedServer true)
      [.didChangeConfiguration p5, .didChangeConfiguration p7,
       .task 0 .err, .task 1 .err,                        -- both send their request
       .task 1 (.items [p7]), .task 1 .err, .task 1 .err,  -- second answered, parsed, stored
       .task 0 (.items [p5]), .task 0 .err, .task 0 .err]).settings.completion.maxResults = 5) ∧
    ((finalSettings (run (newServer true) (inited ++
      [.didChangeConfiguration p5, .didChangeConfiguration p7,
       .task 0 .err, .task 1 .err,
       .task 1 (.items [p7]), .task 1 .err,
       .task 0 (.items [p5]), .task 0 .err]))).map (·.completion.maxResults) = some 7) := by
  decide +kernel

/-- **Lost update, pinned code.**  Two changes touching different fields, both tasks read the
    settings before either stores: the first task's update is lost (50, 2).  In the repaired
    code reading, parsing and storing is one step under `refreshMu`, and only the newest task
    performs it. -/
theorem pinned_lost_update_counterexample :
    (let s := (runP (pinnedServer true)
      [.didChangeConfiguration p5, .didChangeConfiguration pIndent2,
       .task 0 .err, .task 1 .err,
       .task 0 (.items [p5]), .task 1 (.items [pIndent2]),   -- replies arrive
       .task 0 .err, .task 1 .err,                            -- both read + parse
       .task 0 .err, .task 1 .err]).settings                  -- both store
     (s.completion.maxResults, s.formatting.indentSize)) = (50, 2) := by
  decide +kernel

/-- **Finding `push-ignored`, pinned code.** A client that did not announce
    `workspace.configuration`: the pinned server never pulls and never looks at the settings
    carried by `didChangeConfiguration` — a change has no effect.  Repaired: 5. -/
theorem pinned_push_ignored_counterexample :
    ((runP (pinnedServer false)
      [.didChangeConfiguration p5, .task 0 .err, .task 0 .err, .task 0 .err]).settings.completion.maxResults = 50) ∧
    ((finalSettings (run (newServer true)
      [.init (some ⟨some false, .null⟩), .didChangeConfiguration p5])).map
        (·.completion.maxResults) = some 5) := by
  decide +kernel

open HL.SettingsSpec in
/-- **Finding `wrapper-shadows-siblings`, pinned code.** `{"hledger": {}, "completion":
    {"maxResults": 7}}` and `{"hledger": null, "completion.maxResults": 7}`: the pinned parser
    never reads the recognised, well-typed 7 next to the `hledger` member and violates the
    rule; the repaired one reads it (and meets the rule, `effective`). -/
theorem pinned_wrapper_shadows_counterexample :
    let j1 : Json := .obj [("hledger", .obj []), ("completion", .obj [("maxResults", .num 7 0)])]
    let j2 : Json := .obj [("hledger", .null), ("completion.maxResults", .num 7 0)]
    let s0 := normalize defaults
    (parseSettingsFromRawPinned s0 j1).completion.maxResults = 50 ∧
    specOk s0 j1 (parseSettingsFromRawPinned s0 j1) = false ∧
    (parseSettingsFromRawPinned s0 j2).completion.maxResults = 50 ∧
    specOk s0 j2 (parseSettingsFromRawPinned s0 j2) = false ∧
    (parseSettingsFromRaw s0 j1).completion.maxResults = 7 ∧
    (parseSettingsFromRaw s0 j2).completion.maxResults = 7 := by
  decide +kernel

open HL.SettingsSpec in
/-- **Finding `unbounded-width-panics`, pinned code.** The pinned normalisation has no upper
    bounds: `formatting.minAlignmentColumn = 2^53` and `indentSize = "9223372036854775807"` are
    stored as given (what that does to the formatter: `pinned_width_overflows_allocation`). -/
theorem pinned_unbounded_width_counterexample :
    (parseSettingsFromRawPinned (normalize defaults)
      (.obj [("formatting", .obj [("minAlignmentColumn", .num 1 53)])])).formatting.minAlignmentColumn
        = 9007199254740992 ∧
    (parseSettingsFromRawPinned (normalize defaults)
      (.obj [("formatting.indentSize", .str "9223372036854775807")])).formatting.indentSize
        = 9223372036854775807 := by
  decide +kernel

/-- **Finding `limits-skip-cached-includes`, pinned code.** After a load under the default
    limits the probe's files a, b, c are cached.  `limits.maxFileSizeBytes` is lowered to 60
    (file a has 72 bytes) and the depth to 1.  The pinned `SetLimits` keeps the cache: the next
    load serves the cached oversized file (no "too large", it reaches the depth limit instead);
    a loader with an empty cache — what the repaired `SetLimits` leaves — refuses it. -/
theorem pinned_limits_skip_cached_counterexample :
    (includeProbe [] 10485760 50).2.2 = [3, 2, 1] ∧
    ((includeProbe [3, 2, 1] 60 1).1, (includeProbe [3, 2, 1] 60 1).2.1) = (true, false) ∧
    ((includeProbe [] 60 1).1, (includeProbe [] 60 1).2.1) = (false, true) ∧
    ((run (newServer true) (inited ++ [.probe true] ++
        changeEvents 0 .null (.items [.obj [("limits", .obj [("maxIncludeDepth", .num 1 0),
          ("maxFileSizeBytes", .num 15 2)])]])) : Except Panic Srv) matches .ok ⟨_, _, _, _, _, []⟩) := by
  decide +kernel

/-- **Finding `feature-switch-after-init`, pinned code.**  Initialisation with every feature on
    (hover advertised), then a configuration change — answered by the client — that says
    `features.hover = false`.  The settings hold `false`, yet the pinned server, which has no
    gate and whose hover handler never consults the settings, still answers hover (`true`)
    where the statement asks for the empty answer; the repaired server replies `null`.  The
    same for the seven other switches that only `Initialize` read; the two switches the pinned
    code did consult (diagnostics, inline completion) were effective already. -/
theorem pinned_feature_switch_after_init_counterexample :
    let off (k : String) : Json := .obj [("features", .obj [(k, .bool false)])]
    let after (k : String) : Srv :=
      match run (newServer true) (inited ++ changeEvents 0 .null (.items [off k])) with
      | .ok σ => σ
      | .error _ => newServer true
    (after "hover").settings.features.hover = false ∧
    (capsOf afterInit.settings).hoverProvider = true ∧
    respondPinned (after "hover") .hover true false = true ∧
    respond (after "hover") .hover true false = false ∧
    dispatch (after "hover") "textDocument/hover" () = none ∧
    ([("completion", Feature.completion), ("formatting", .formatting),
      ("semanticTokens", .semanticTokens), ("codeActions", .codeActions),
      ("foldingRanges", .foldingRanges), ("documentLinks", .documentLinks),
      ("workspaceSymbol", .workspaceSymbol)].all fun (k, f) =>
        !featureOn (after k).settings f && respondPinned (after k) f true false &&
        !respond (after k) f true false) = true ∧
    ([("diagnostics", Feature.diagnostics), ("inlineCompletion", .inlineCompletion)].all fun (k, f) =>
        !featureOn (after k).settings f && !respondPinned (after k) f true false) = true := by
  decide +kernel

/-! ## The include cache never outlives the limits -/

/-- **cached_within_limits.** In every reachable state, every included file the loader holds
    passed the size check under the limits now in force: `SetLimits` empties the cache whenever the
    limits change. -/
theorem cached_within_limits (hasClient : Bool) (es : List Event) (σ' : Srv)
    (h : run (newServer hasClient) es = .ok σ') : CacheOK σ' :=
  run_invariant CacheOK cacheOK_step _ _ es (by intro k hk; cases hk) h

open HL.SettingsSpec in
/-- **The stored limits govern the load, whatever was loaded before** (finding
    `limits-skip-cached-includes`, repaired): in every reachable state, what the behaviour
    probe observes with the loader's cache as it is equals what the statement asks for — the
    observation a loader with an empty cache would give. -/
theorem limits_govern_load (hasClient : Bool) (es : List Event) (σ' : Srv) (client : Bool)
    (h : run (newServer hasClient) es = .ok σ') :
    expectedObsAt σ'.settings client
      (fun L D => ((includeProbe σ'.cache L D).1, (includeProbe σ'.cache L D).2.1)) =
    expectedObs σ'.settings client := by
  have hok := cached_within_limits hasClient es σ' h
  have hv : ((includeProbe σ'.cache σ'.settings.limits.maxFileSizeBytes σ'.settings.limits.maxIncludeDepth).1,
      (includeProbe σ'.cache σ'.settings.limits.maxFileSizeBytes σ'.settings.limits.maxIncludeDepth).2.1) =
      includeVerdict σ'.settings.limits.maxFileSizeBytes σ'.settings.limits.maxIncludeDepth := by
    unfold includeVerdict includeProbe
    dsimp only
    split
    · rfl
    · obtain ⟨e1, e2⟩ := includeFrom_verdict σ'.settings.limits.maxFileSizeBytes
        σ'.settings.limits.maxIncludeDepth 4 1 σ'.cache [] hok (by intro x hx; cases hx)
      rw [e1, e2]
  unfold expectedObs expectedObsAt
  simp only [hv]

/-! ## A configuration cannot crash the formatter -/

open HL.FmtWidth in
/-- **formatting_total_for_accepted_settings.**  For validated (stored) settings and any
    document: every count handed to `strings.Repeat` by the formatter — the indent, the gap
    in front of an amount, the gap in front of a balance assertion — and by the inline
    completion is at least 1, at most `536 +` the longest account `+` the longest amount of the
    document, and therefore never negative and never beyond what can be allocated: the calls
    cannot panic, whatever numbers the configuration carried. -/
theorem formatting_total_for_accepted_settings (s : Settings) (hn : Normal s) (d : Lens)
    (hd : lensOK d) :
    (∀ n ∈ repeatCounts s.formatting.indentSize s.formatting.minAlignmentColumn d,
      1 ≤ n ∧ n ≤ 536 + d.account + d.amount ∧ repeatOK n = true) ∧
    (∀ n ∈ repeatCountsUnaligned s.formatting.indentSize, 1 ≤ n ∧ n ≤ 32 ∧ repeatOK n = true) := by
  obtain ⟨_, hi1, hi2, hm1, hm2, _⟩ := (normal_iff s).mp hn
  obtain ⟨w1, w2, w3, w4, w5⟩ := widths_bounded s.formatting.indentSize s.formatting.minAlignmentColumn d
    ⟨by omega, hi2⟩ ⟨hm1, hm2⟩ hd
  obtain ⟨a1, a2, b1, b2, c1, c2, e1, e2⟩ := hd
  unfold docBound at *
  have hok : ∀ n : Int, 1 ≤ n → n ≤ 536 + d.account + d.amount → repeatOK n = true := by
    intro n h1 h2
    unfold repeatOK maxAlloc
    simp only [Bool.and_eq_true, decide_eq_true_eq]
    omega
  constructor
  · intro n hn
    unfold repeatCounts at hn
    dsimp only at hn w3 w4 w5
    rw [w1] at hn
    rw [w3, w5, w2] at hn
    simp only [List.mem_cons, List.not_mem_nil, or_false] at hn
    have hb : 1 ≤ n ∧ n ≤ 536 + d.account + d.amount := by
      rcases hn with rfl | rfl | rfl
      · omega
      · (repeat' split) <;> omega
      · (repeat' split) <;> omega
    exact ⟨hb.1, hb.2, hok n hb.1 hb.2⟩
  · intro n hn
    unfold repeatCountsUnaligned minSpaces at hn
    rw [w1] at hn
    simp only [List.mem_cons, List.not_mem_nil, or_false] at hn
    have hb : 1 ≤ n ∧ n ≤ 32 := by rcases hn with rfl | rfl <;> omega
    exact ⟨hb.1, hb.2, hok n hb.1 (by omega)⟩

open HL.FmtWidth in
/-- … in particular in every state the server can reach. -/
theorem formatting_total_reachable (hasClient : Bool) (es : List Event) (σ' : Srv)
    (h : run (newServer hasClient) es = .ok σ') (d : Lens) (hd : lensOK d) :
    ∀ n ∈ repeatCounts σ'.settings.formatting.indentSize σ'.settings.formatting.minAlignmentColumn d ++
        repeatCountsUnaligned σ'.settings.formatting.indentSize, repeatOK n = true := by
  intro n hn
  obtain ⟨h1, h2⟩ := formatting_total_for_accepted_settings σ'.settings
    (stored_is_normal hasClient es σ' h) d hd
  rcases List.mem_append.mp hn with hn | hn
  · exact (h1 n hn).2.2
  · exact (h2 n hn).2.2

open HL.FmtWidth in
/-- **The formatter model's natural-number columns are Go's `int` columns** for every accepted
    configuration: `HL.Fmt.effIndent`, `HL.Fmt.effGlobalCol` and `HL.Fmt.amountGap` (the model
    C04/C05 reason about) equal the wrapping-`int` computations above. -/
theorem widths_match_format_model (o : HL.Fmt.Options) (j : HL.Ast.Journal)
    (hi : 1 ≤ o.indentSize ∧ o.indentSize ≤ 32) (hm : 0 ≤ o.minCol ∧ o.minCol ≤ 500)
    (ha : (HL.Fmt.maxAccountLenTxs j.transactions : Int) ≤ docBound) :
    (HL.Fmt.effIndent o : Int) = goIndent o.indentSize ∧
    (o.alignAmounts = true → (HL.Fmt.effGlobalCol j o : Int) =
      goGlobalCol (goIndent o.indentSize) o.minCol (HL.Fmt.maxAccountLenTxs j.transactions)) ∧
    (∀ (p : HL.Ast.Posting) (al : HL.Fmt.AlignmentInfo) (indent : HL.Bytes),
      (al.accountCol : Int) ≤ 534 + docBound →
      (HL.FmtText.runeCount (HL.Fmt.postingHead p indent) : Int) ≤ docBound →
      (HL.Fmt.amountGap p al indent true : Int) =
        goAmountGap al.accountCol (HL.FmtText.runeCount (HL.Fmt.postingHead p indent))) := by
  unfold docBound at *
  have e1 : (HL.Fmt.effIndent o : Int) = goIndent o.indentSize := by
    unfold HL.Fmt.effIndent goIndent HL.Fmt.defaultIndentSize
    split <;> omega
  refine ⟨e1, ?_, ?_⟩
  · intro hal
    have hg := (widths_bounded o.indentSize o.minCol ⟨HL.Fmt.maxAccountLenTxs j.transactions, 0, 0, 0⟩ hi hm
      (by unfold lensOK docBound; dsimp only; omega)).2.1
    dsimp only at hg
    have hgi : goIndent o.indentSize = o.indentSize := by unfold goIndent; split <;> omega
    rw [hgi, hg]
    unfold HL.Fmt.effGlobalCol HL.Fmt.globalAlignmentColumn HL.Fmt.minSpaces
    simp only [hal, if_true, Bool.and_eq_true, decide_eq_true_eq]
    rw [hgi] at e1
    split <;> split <;> omega
  · intro p al indent hcol hhead
    unfold HL.Fmt.amountGap goAmountGap imax minSpaces HL.Fmt.minSpaces
    rw [wrap64_mid _ (by omega) (by omega)]
    simp only [Bool.true_and, decide_eq_true_eq]
    split <;> split <;> (try split) <;> omega

open HL.FmtWidth in
/-- **Finding `unbounded-width-panics`, pinned code**: with the widths the pinned tree stored
    (`pinned_unbounded_width_counterexample`) the formatter asks `strings.Repeat` for 2^53 − 17
    blanks in front of an amount, or for an indent of 2^63 − 1 blanks: beyond any allocation,
    the request handler panics.  With what the repaired normalisation stores for the same
    payloads (500, 32) every count is small. -/
theorem pinned_width_overflows_allocation :
    let d : Lens := ⟨13, 17, 6, 30⟩
    (repeatCounts 4 9007199254740992 d).all repeatOK = false ∧
    (repeatCounts 9223372036854775807 0 d).all repeatOK = false ∧
    (repeatCountsUnaligned 9223372036854775807).all repeatOK = false ∧
    repeatCounts 4 500 d = [4, 483, 478] ∧ repeatCounts 32 0 d = [32, 30, 25] := by
  decide +kernel

end HL.Props.C19
