/-
  C03 — kernel-checked counterexamples for the open findings (and, about the pinned lexer, for
  the repaired ones), and end-to-end examples.
  (The line-shape lemmas of the parser are in HL/Props/C03.lean.)

  Each journal below is derivable from grammar G (DESIGN.md 4.2) and the model of
  `parser.Parse` (lexer model composed with parser model, with the Unicode classifier of the
  Go toolchain) reports a syntax error on it.  The same shapes fail on the real parser
  (witnesses under replays/C03/, replayed on every run).
-/
import HL.Model.Pipeline
import HL.Model.LexerPinned
namespace HL.Props.C03Cex
open HL

/-- finding `description-first-word-decides-token`: a description that is an all-caps word is lexed as a commodity symbol (`2024-01-15 ACME\n    a:b  1 USD\n    c:d\n`). -/
theorem description_first_word_counterexample :
    (HL.Pipeline.parseText Classes.go [50, 48, 50, 52, 45, 48, 49, 45, 49, 53, 32, 65, 67, 77, 69, 10, 32, 32, 32, 32, 97, 58, 98, 32, 32, 49, 32, 85, 83, 68, 10, 32, 32, 32, 32, 99, 58, 100, 10]).2 ≠ [] := by decide +kernel

/-- finding `description-first-word-decides-token`: a description with a leading digit is lexed as a number (`2024-01-15 7-Eleven\n    a:b  1 USD\n    c:d\n`). -/
theorem description_leading_digit_counterexample :
    (HL.Pipeline.parseText Classes.go [50, 48, 50, 52, 45, 48, 49, 45, 49, 53, 32, 55, 45, 69, 108, 101, 118, 101, 110, 10, 32, 32, 32, 32, 97, 58, 98, 32, 32, 49, 32, 85, 83, 68, 10, 32, 32, 32, 32, 99, 58, 100, 10]).2 ≠ [] := by decide +kernel

/-- finding `description-first-word-decides-token`: a description containing a colon is lexed as an account name (`2024-01-15 shop: food\n    a:b  1 USD\n    c:d\n`). -/
theorem description_colon_counterexample :
    (HL.Pipeline.parseText Classes.go [50, 48, 50, 52, 45, 48, 49, 45, 49, 53, 32, 115, 104, 111, 112, 58, 32, 102, 111, 111, 100, 10, 32, 32, 32, 32, 97, 58, 98, 32, 32, 49, 32, 85, 83, 68, 10, 32, 32, 32, 32, 99, 58, 100, 10]).2 ≠ [] := by decide +kernel

/-- The journal of the repaired finding `crlf-line-ends`
    (`2024-01-15 x\r\n    a:b  1 USD\r\n    c:d\r\n`). -/
def crlfJournal : Bytes := [50, 48, 50, 52, 45, 48, 49, 45, 49, 53, 32, 120, 13, 10, 32, 32, 32, 32, 97, 58, 98, 32, 32, 49, 32, 85, 83, 68, 13, 10, 32, 32, 32, 32, 99, 58, 100, 13, 10]

/-- Repaired finding `crlf-line-ends`: a journal with CRLF line ends parses silently, and its
    tree has the one transaction with both postings (the general statements are
    `HL.Props.C03.crlf_is_lf` and `HL.Props.C03Faithful.C03_faithful_core_crlf`). -/
theorem crlf_line_ends_parses :
    (HL.Pipeline.parseText Classes.go crlfJournal).2 = [] ∧
    (HL.Pipeline.parseText Classes.go crlfJournal).1.transactions.map (·.postings.length) = [2] := by
  decide +kernel

/-- What the PINNED lexer (HL/Model/LexerPinned.lean: only LF ends a line) did on the same journal:
    the CR behind `USD` became a Text token with an empty value, the parser reported an error on
    the first posting line and the transaction lost its second posting. -/
theorem pinned_crlf_line_ends_counterexample :
    let r := HL.Parser.parseTokens HL.Parser.defaultNumDeps (HL.Pipeline.parserClasses Classes.go)
      (HL.Lex.Pinned.lexAll Classes.go crlfJournal)
    r.2 ≠ [] ∧ r.1.transactions.map (·.postings.length) = [1] ∧
    ((HL.Lex.Pinned.lexAll Classes.go crlfJournal).filter
      (fun t => t.ty == .text && t.val.isEmpty)).length = 2 := by
  decide +kernel

/-- finding `text-commodity-swallows-rest-of-line`: a lower-case right commodity is free text that runs over the cost (`2024-01-15 x\n    a:b  2 hours @ 10 USD\n    c:d\n`). -/
theorem text_commodity_swallows_counterexample :
    (HL.Pipeline.parseText Classes.go [50, 48, 50, 52, 45, 48, 49, 45, 49, 53, 32, 120, 10, 32, 32, 32, 32, 97, 58, 98, 32, 32, 50, 32, 104, 111, 117, 114, 115, 32, 64, 32, 49, 48, 32, 85, 83, 68, 10, 32, 32, 32, 32, 99, 58, 100, 10]).2 ≠ [] := by decide +kernel

/-- finding `sign-before-spaced-letter-commodity`: a sign before a letter commodity followed by a blank is not a sign (`2024-01-15 x\n    a:b  -USD 1\n    c:d\n`). -/
theorem sign_before_spaced_commodity_counterexample :
    (HL.Pipeline.parseText Classes.go [50, 48, 50, 52, 45, 48, 49, 45, 49, 53, 32, 120, 10, 32, 32, 32, 32, 97, 58, 98, 32, 32, 45, 85, 83, 68, 32, 49, 10, 32, 32, 32, 32, 99, 58, 100, 10]).2 ≠ [] := by decide +kernel

/-- finding `digit-ending-account-before-commodity`: the look-behind sees the digit ending the account name (`2024-01-15 x\n    a:b2  USD5\n    c:d\n`). -/
theorem digit_ending_account_counterexample :
    (HL.Pipeline.parseText Classes.go [50, 48, 50, 52, 45, 48, 49, 45, 49, 53, 32, 120, 10, 32, 32, 32, 32, 97, 58, 98, 50, 32, 32, 85, 83, 68, 53, 10, 32, 32, 32, 32, 99, 58, 100, 10]).2 ≠ [] := by decide +kernel

/-- finding `directive-commodity-not-upper-case`: a price directive for a lower-case commodity (`P 2024-01-15 hrs 5 USD\n`). -/
theorem directive_commodity_counterexample :
    (HL.Pipeline.parseText Classes.go [80, 32, 50, 48, 50, 52, 45, 48, 49, 45, 49, 53, 32, 104, 114, 115, 32, 53, 32, 85, 83, 68, 10]).2 ≠ [] := by decide +kernel

/-- finding `trailing-mark-then-word-commodity`: after a trailing mark the commodity word is not seen as following an amount (`2024-01-15 x\n    a:b  5. C7x\n    c:d\n`). -/
theorem trailing_mark_commodity_counterexample :
    (HL.Pipeline.parseText Classes.go [50, 48, 50, 52, 45, 48, 49, 45, 49, 53, 32, 120, 10, 32, 32, 32, 32, 97, 58, 98, 32, 32, 53, 46, 32, 67, 55, 120, 10, 32, 32, 32, 32, 99, 58, 100, 10]).2 ≠ [] := by decide +kernel

/-- Repaired finding `tab-before-amount`: a TAB between account and amount parses. -/
theorem tab_before_amount_parses :
    (HL.Pipeline.parseText Classes.go [50, 48, 50, 52, 45, 48, 49, 45, 49, 53, 32, 120, 10, 32, 32, 32, 32, 97, 58, 98, 9, 49, 32, 85, 83, 68, 10, 32, 32, 32, 32, 99, 58, 100, 10]).2 = [] := by decide +kernel

/-- A TEST (not the unbounded claim): one plain journal of G with secondary date, status, code,
    payee | note, tags, a virtual posting, a cost and an assertion parses without error. -/
example : (HL.Pipeline.parseText Classes.go [50, 48, 50, 52, 45, 48, 49, 45, 49, 53, 61, 50, 48, 50, 52, 45, 48, 49, 45, 49, 54, 32, 42, 32, 40, 52, 50, 41, 32, 115, 104, 111, 112, 32, 124, 32, 109, 105, 108, 107, 32, 32, 59, 32, 107, 58, 32, 118, 10, 32, 32, 32, 32, 97, 58, 98, 32, 32, 45, 49, 44, 50, 51, 52, 46, 53, 48, 32, 69, 85, 82, 32, 64, 32, 50, 32, 85, 83, 68, 32, 61, 32, 36, 53, 10, 32, 32, 32, 32, 40, 99, 58, 100, 41, 32, 32, 49, 32, 34, 88, 32, 89, 34, 10, 32, 32, 32, 32, 101, 58, 102, 10]).2 = [] := by decide +kernel

end HL.Props.C03Cex
