import HL.Model.Ast

/-!
  Model of `github.com/shopspring/decimal` v1.4.0 as far as hledger-lsp uses it
  (decimal.go: NewFromString, rescale, RescalePair, Add, Sub, Neg, Abs, Mul, Cmp, Equal, Sign,
  IsZero, IsNegative, IsPositive, String, StringFixed, Round, string(trim)).

  A `Decimal{value *big.Int, exp int32}` is `Dec = {coef : Int, exp : Int}`; the zero value
  `Decimal{nil, 0}` is `⟨0, 0⟩` (every method the repo calls goes through `ensureInitialized`
  or `Sign`, which treat nil as 0).  `Mul` panics when the exponent sum leaves int32: `mul`
  returns `none` for the panic.  Strings are byte lists.
-/
namespace HL
namespace Dec

def int32Min : Int := -2147483648
def int32Max : Int := 2147483647

def zero : Dec := ⟨0, 0⟩
/-- the package variable `decimal.Zero = New(0, 1)`. -/
def zeroValue : Dec := ⟨0, 1⟩

/-- `Decimal.rescale`: `value.Quo` truncates towards zero (T-division). -/
def rescale (d : Dec) (e : Int) : Dec :=
  if e > d.exp then ⟨d.coef.tdiv (10 ^ (e - d.exp).toNat), e⟩
  else ⟨d.coef * 10 ^ (d.exp - e).toNat, e⟩

/-- `RescalePair`. -/
def rescalePair (a b : Dec) : Dec × Dec :=
  if a.exp < b.exp then (a, rescale b a.exp)
  else if a.exp > b.exp then (rescale a b.exp, b)
  else (a, b)

def add (a b : Dec) : Dec :=
  let p := rescalePair a b
  ⟨p.1.coef + p.2.coef, p.1.exp⟩

def sub (a b : Dec) : Dec :=
  let p := rescalePair a b
  ⟨p.1.coef - p.2.coef, p.1.exp⟩

def neg (a : Dec) : Dec := ⟨-a.coef, a.exp⟩

/-- `Sign`. -/
def sign (a : Dec) : Int := if a.coef < 0 then -1 else if a.coef = 0 then 0 else 1
def isZero (a : Dec) : Bool := a.coef == 0
def isNegative (a : Dec) : Bool := decide (a.coef < 0)
def isPositive (a : Dec) : Bool := decide (a.coef > 0)

def abs (a : Dec) : Dec := if isNegative a then ⟨Int.ofNat a.coef.natAbs, a.exp⟩ else a

/-- `Mul`; `none` is the panic "exponent … overflows an int32!". -/
def mul (a b : Dec) : Option Dec :=
  let e := a.exp + b.exp
  if e > int32Max ∨ e < int32Min then none else some ⟨a.coef * b.coef, e⟩

/-- `Cmp`: -1, 0, +1. -/
def cmp (a b : Dec) : Int :=
  let p := rescalePair a b
  if p.1.coef < p.2.coef then -1 else if p.1.coef = p.2.coef then 0 else 1

def equal (a b : Dec) : Bool := cmp a b == 0

/-- `Round(places)`: half away from zero. -/
def round (d : Dec) (places : Int) : Dec :=
  if d.exp = -places then d else
  let r := rescale d (-places - 1)
  let v := if r.coef < 0 then r.coef - 5 else r.coef + 5
  let q := v.ediv 10
  let m := v.emod 10
  let q := if q < 0 ∧ m ≠ 0 then q + 1 else q
  ⟨q, r.exp + 1⟩

/-! ### decimal digits -/

def digitByte (n : Nat) : UInt8 := UInt8.ofNat (48 + n % 10)

/-- `big.Int.String()` of a natural number, by structural recursion on fuel. -/
def natDigitsF : Nat → Nat → Bytes
  | 0, _ => []
  | fuel + 1, n => if n < 10 then [digitByte n] else natDigitsF fuel (n / 10) ++ [digitByte n]

def natDigits (n : Nat) : Bytes := natDigitsF (n + 1) n

def intDigits (i : Int) : Bytes :=
  if i < 0 then 45 :: natDigits i.natAbs else natDigits i.natAbs

def dropTrailingZeros (s : Bytes) : Bytes := (s.reverse.dropWhile (· == 48)).reverse

/-- `Decimal.string(trimTrailingZeros)`. -/
def toStr (trim : Bool) (d : Dec) : Bytes :=
  if d.exp ≥ 0 then intDigits (rescale d 0).coef else
  let str := natDigits d.coef.natAbs
  let n := (-d.exp).toNat
  let ip := if str.length > n then str.take (str.length - n) else [48]
  let fp := if str.length > n then str.drop (str.length - n)
            else List.replicate (n - str.length) 48 ++ str
  let fp := if trim then dropTrailingZeros fp else fp
  let number := if fp.isEmpty then ip else ip ++ 46 :: fp
  if d.coef < 0 then 45 :: number else number

/-- `Decimal.String()`. -/
def toString (d : Dec) : Bytes := toStr true d

/-- `Decimal.StringFixed(places)`. -/
def stringFixed (d : Dec) (places : Int) : Bytes := toStr false (round d places)

/-! ### NewFromString -/

def isDigit (c : UInt8) : Bool := 48 ≤ c && c ≤ 57

/-- digits only, left to right; `none` on a non-digit. -/
def parseNatAux : Bytes → Nat → Option Nat
  | [], acc => some acc
  | c :: r, acc => if isDigit c then parseNatAux r (acc * 10 + (c.toNat - 48)) else none

/-- non-empty digit string. -/
def parseNat (s : Bytes) : Option Nat :=
  match s with
  | [] => none
  | _ => parseNatAux s 0

/-- The grammar `[+-]?[0-9]+` shared by `strconv.ParseInt(s, 10, _)` and
    `big.Int.SetString(s, 10)` (base 10: no prefixes, no underscores). -/
def parseInt (s : Bytes) : Option Int :=
  match s with
  | [] => none
  | c :: r =>
    if c == 43 then (parseNat r).map Int.ofNat
    else if c == 45 then (parseNat r).map fun n => -Int.ofNat n
    else (parseNat (c :: r)).map Int.ofNat

def isE (c : UInt8) : Bool := c == 69 || c == 101

/-- split at the first byte satisfying `p` (the byte itself is dropped). -/
def splitAt1 (p : UInt8 → Bool) : Bytes → Bytes × Option Bytes
  | [] => ([], none)
  | c :: r => if p c then ([], some r) else
      let q := splitAt1 p r
      (c :: q.1, q.2)

/-- the exponent after 'E'/'e': `strconv.ParseInt(_, 10, 32)`; no exponent part: 0. -/
def parseExp (es : Option Bytes) : Option Int :=
  match es with
  | none => some 0
  | some x =>
    match parseInt x with
    | none => none
    | some v => if v < int32Min ∨ v > int32Max then none else some v

/-- the part before the exponent: at most one '.', digits parsed as one integer. -/
def ofMantissa (mant : Bytes) (e0 : Int) : Option Dec :=
  if mant.count 46 > 1 then none else
  let q := splitAt1 (· == 46) mant
  let fpl := q.2.getD []
  match parseInt (q.1 ++ fpl) with
  | none => none
  | some c =>
    let e := e0 - fpl.length
    if e < int32Min ∨ e > int32Max then none else some ⟨c, e⟩

/-- `decimal.NewFromString`; `none` = error. -/
def ofString (s : Bytes) : Option Dec :=
  let q := splitAt1 isE s
  match parseExp q.2 with
  | none => none
  | some e0 => ofMantissa q.1 e0

/-- Exact rational value. -/
def toRat (d : Dec) : Rat := (d.coef : Rat) * (10 : Rat) ^ d.exp

end Dec
end HL
