/-
  `parser.Parse(text)`: the lexer model composed with the parser model (the parser only ever
  calls `Lexer.Next`; `lexAll` is the complete token stream of the text, ending with EOF).
  Correspondence: op `c03.journal` compares this composition with the real `parser.Parse`
  on journals from grammar G (text in, syntax tree and errors out); ops `lex.tokens` and
  `parse.tokens` compare the two halves separately.
-/
import HL.Model.Lexer
import HL.Model.Parser
import HL.Model.ParserNum
namespace HL.Pipeline
open HL

def parserClasses (C : HL.Classes) : HL.Parser.Classes := ⟨C.isLetter, C.isDigit⟩

def parseText (C : HL.Classes) (input : Bytes) : Ast.Journal × List Ast.ParseError :=
  HL.Parser.parseTokens HL.Parser.defaultNumDeps (parserClasses C) (HL.Lex.lexAll C input)

end HL.Pipeline
