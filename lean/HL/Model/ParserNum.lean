import HL.Model.ParserStr
/-
  Numeric helpers of internal/parser/parser.go and the one function of shopspring/decimal the
  parser calls.  The parser model (HL/Model/Parser.lean) is parametric in these through
  `NumDeps`; `defaultNumDeps` is a direct transcription:

    parser.go  normalizeNumber             -> normalizeNumber (splits the exponent off)
    parser.go  normalizeMantissa           -> normalizeMantissa
    parser.go  removeSeparator             -> removeSeparator
    decimal.go NewFromString (180-249)    -> decOfString   (success/failure and value)
-/
namespace HL.Parser
open HL HL.PStr

/-- What the parser needs from the number layer. -/
structure NumDeps where
  /-- `normalizeNumber` -/
  normalize : Bytes → Bytes
  /-- `decimal.NewFromString`: `none` = an error was returned. -/
  decOfString : Bytes → Option Dec

def removeSeparator (s : Bytes) (sep : UInt8) : Bytes := s.filter (· ≠ sep)

/-- The counting loop of `normalizeNumber`: `(dotCount, commaCount, lastDot, lastComma)`;
    `lastDot`/`lastComma` stay 0 when there is none (Go's zero value). -/
def countMarks : Bytes → Nat → (Nat × Nat × Nat × Nat) → (Nat × Nat × Nat × Nat)
  | [], _, acc => acc
  | c :: r, i, (dc, cc, ld, lc) =>
    if c = 0x2E then countMarks r (i+1) (dc+1, cc, i, lc)
    else if c = 0x2C then countMarks r (i+1) (dc, cc+1, ld, i)
    else countMarks r (i+1) (dc, cc, ld, lc)

/-- `for i := 0; i < last; i++ { if s[i] != '0' && s[i] != '-' { hasNonZero = true } }` -/
def hasNonZeroBefore (s : Bytes) (last : Nat) : Bool :=
  (s.take last).any (fun c => c ≠ 0x30 && c ≠ 0x2D)

/-- The final rewriting loop: every '.'/',' is dropped except the one at index `decimalPos`,
    which becomes '.'. -/
def rewriteMarks : Bytes → Nat → Nat → Bytes
  | [], _, _ => []
  | c :: r, i, dp =>
    if c = 0x2E ∨ c = 0x2C then
      (if i = dp then [0x2E] else []) ++ rewriteMarks r (i+1) dp
    else c :: rewriteMarks r (i+1) dp

/-- Index of the first 'E' or 'e' (`strings.IndexAny(value, "Ee")`). -/
def indexE : Bytes → Nat → Option Nat
  | [], _ => none
  | c :: r, i => if c = 0x45 ∨ c = 0x65 then some i else indexE r (i+1)

def normalizeMantissa (s : Bytes) : Bytes :=
  let (dotCount, commaCount, lastDot, lastComma) := countMarks s 0 (0, 0, 0, 0)
  if dotCount = 0 ∧ commaCount = 0 then s
  else if dotCount = 0 ∧ commaCount = 1 then
    if lastComma ≥ 1 ∧ s.length - lastComma - 1 = 3 ∧ hasNonZeroBefore s lastComma then
      s.take lastComma ++ s.drop (lastComma + 1)
    else s.take lastComma ++ [0x2E] ++ s.drop (lastComma + 1)
  else if dotCount = 1 ∧ commaCount = 0 then
    if lastDot ≥ 1 ∧ s.length - lastDot - 1 = 3 ∧ hasNonZeroBefore s lastDot then
      s.take lastDot ++ s.drop (lastDot + 1)
    else s
  else if commaCount > 1 ∧ dotCount = 0 then removeSeparator s 0x2C
  else if dotCount > 1 ∧ commaCount = 0 then removeSeparator s 0x2E
  else
    let decimalPos :=
      if dotCount > 0 ∧ commaCount = 1 ∧ lastComma > lastDot then lastComma
      else if commaCount > 0 ∧ dotCount = 1 ∧ lastDot > lastComma then lastDot
      else if dotCount > 0 ∧ commaCount = 1 then lastDot
      else 0
    rewriteMarks s 0 decimalPos


/-- `normalizeNumber`: separators are rewritten in the mantissa only; an exponent part
    (from the first 'e'/'E' on) is kept as it is. -/
def normalizeNumber (s : Bytes) : Bytes :=
  match indexE s 0 with
  | some i => normalizeMantissa (s.take i) ++ s.drop i
  | none => normalizeMantissa s

/-- `decimal.NewFromString`. -/
def decOfString (value0 : Bytes) : Option Dec :=
  -- scientific notation
  let r : Option (Bytes × Int) :=
    match indexE value0 0 with
    | some ei =>
      match parseIntBits 32 (value0.drop (ei + 1)) with
      | none => none
      | some e => some (value0.take ei, e)
    | none => some (value0, 0)
  match r with
  | none => none
  | some (value, exp0) =>
    let dots := value.count 0x2E
    if dots > 1 then none else
    let (intString, exp) : Bytes × Int :=
      match value.idxOf? 0x2E with
      | none => (value, exp0)
      | some p => (value.take p ++ value.drop (p + 1), exp0 - ((value.length - (p + 1) : Nat) : Int))
    -- `strconv.ParseInt(_, 10, 64)` for at most 18 bytes, `big.Int.SetString(_, 10)` otherwise:
    -- both accept exactly an optional sign and at least one digit; 18 bytes always fit int64.
    match signedDigits intString with
    | none => none
    | some c =>
      if exp < -2147483648 ∨ exp > 2147483647 then none
      else some ⟨c, exp⟩

def defaultNumDeps : NumDeps := ⟨normalizeNumber, decOfString⟩

end HL.Parser
