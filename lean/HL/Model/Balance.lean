import HL.Model.Dec

/-!
  Model of internal/analyzer/balance.go (CheckBalance, filterRealPostings,
  countInferredPostings, sumByCommodity), of the UNBALANCED / MULTIPLE_INFERRED part of
  internal/analyzer/analyzer.go (analyzeInternal, createBalanceDiagnostic), of
  internal/analyzer/account_balance.go (CalculateAccountBalances,
  CalculateAccountBalancesFromTransactions) and of the counting helpers of
  internal/server/hover.go (countPostingsForAccountInTransactions, payee count of
  buildPayeeHoverWithTransactions, forEachTag, countTagUsage, countTagValueUsage).

  Go maps are association lists with unique keys in first-insertion order (`KV.set`); nothing
  observable depends on that order: the UNBALANCED message names the commodities in sorted
  order (fix a16f2b7) and is compared byte for byte.
  A panic inside `decimal.Mul` (exponent overflow) is `none`.

  `sumByCommodity` is modelled as of repo_patches/fix-zero-quantity-total-cost.diff (a zero
  quantity with a total cost contributes `decimal.Zero`); `contributionPinned` keeps the
  behaviour before the fix for the record.
-/
namespace HL
namespace KV

/-- `m[k]` with zero value `z`. -/
def get {β} (m : List (Bytes × β)) (k : Bytes) (z : β) : β :=
  match m with
  | [] => z
  | (k', v) :: r => if k' = k then v else get r k z

def find? {β} (m : List (Bytes × β)) (k : Bytes) : Option β :=
  match m with
  | [] => none
  | (k', v) :: r => if k' = k then some v else find? r k

/-- `m[k] = v`. -/
def set {β} (m : List (Bytes × β)) (k : Bytes) (v : β) : List (Bytes × β) :=
  match m with
  | [] => [(k, v)]
  | (k', v') :: r => if k' = k then (k, v) :: r else (k', v') :: set r k v

/-- byte-wise lexicographic `<` (Go string comparison). -/
def bytesLt : Bytes → Bytes → Bool
  | [], [] => false
  | [], _ :: _ => true
  | _ :: _, [] => false
  | a :: r, b :: s => if a < b then true else if b < a then false else bytesLt r s

def insertSorted (k : Bytes) : List Bytes → List Bytes
  | [] => [k]
  | x :: r => if bytesLt k x then k :: x :: r else x :: insertSorted k r

/-- `sort.Strings` (on the unique keys of a map every correct sort returns this list). -/
def sortStrings (l : List Bytes) : List Bytes := l.foldr insertSorted []

end KV

namespace Balance
open Ast

abbrev Sums := List (Bytes × Dec)

/-- `filterRealPostings`. -/
def filterReal (ps : List Posting) : List Posting :=
  ps.filter fun p => p.virt == .none || p.virt == .balanced

/-- `countInferredPostings`: count and index of the last amount-less posting (-1 if none). -/
def countInferred : List Posting → Nat → Nat × Int → Nat × Int
  | [], _, acc => acc
  | p :: r, i, (cnt, last) =>
    if p.amount.isNone then countInferred r (i + 1) (cnt + 1, (i : Int)) else countInferred r (i + 1) (cnt, last)

/-- What one posting adds in `sumByCommodity`: the key and the quantity.  `none` = skipped
    (no amount); `some none` = `Mul` panicked. -/
def contribution (p : Posting) : Option (Option (Bytes × Dec)) :=
  match p.amount with
  | none => none
  | some a =>
    match p.cost with
    | some c =>
      let q : Option Dec :=
        if c.isTotal then some (if Dec.isZero a.quantity then Dec.zeroValue else c.amount.quantity)
        else Dec.mul c.amount.quantity (Dec.abs a.quantity)
      match q with
      | none => some none
      | some q =>
        let q := if Dec.isNegative a.quantity then Dec.neg q else q
        some (some (c.amount.commodity.symbol, q))
    | none => some (some (a.commodity.symbol, a.quantity))

/-- `contribution` before fix-zero-quantity-total-cost: the total cost is taken as is. -/
def contributionPinned (p : Posting) : Option (Option (Bytes × Dec)) :=
  match p.amount with
  | none => none
  | some a =>
    match p.cost with
    | some c =>
      let q : Option Dec := if c.isTotal then some c.amount.quantity else Dec.mul c.amount.quantity (Dec.abs a.quantity)
      match q with
      | none => some none
      | some q =>
        let q := if Dec.isNegative a.quantity then Dec.neg q else q
        some (some (c.amount.commodity.symbol, q))
    | none => some (some (a.commodity.symbol, a.quantity))

/-- `sumByCommodity`. -/
def sumByCommodity : List Posting → Sums → Option Sums
  | [], m => some m
  | p :: r, m =>
    match contribution p with
    | none => sumByCommodity r m
    | some none => none
    | some (some (k, q)) => sumByCommodity r (KV.set m k (Dec.add (KV.get m k Dec.zero) q))

/-- `sumByCommodity` before fix-zero-quantity-total-cost. -/
def sumByCommodityPinned : List Posting → Sums → Option Sums
  | [], m => some m
  | p :: r, m =>
    match contributionPinned p with
    | none => sumByCommodityPinned r m
    | some none => none
    | some (some (k, q)) => sumByCommodityPinned r (KV.set m k (Dec.add (KV.get m k Dec.zero) q))

structure Result where
  balanced : Bool
  differences : Sums
  inferredIdx : Int
deriving Repr, DecidableEq, Inhabited, BEq

/-- the final loop of `CheckBalance` over the sums. -/
def differencesOf (sums : Sums) : Sums :=
  sums.filterMap fun (k, v) => if Dec.isZero v then none else some (k, Dec.abs v)

/-- `CheckBalance`; `none` = panic. -/
def check (tx : Transaction) : Option Result :=
  let real := filterReal tx.postings
  let (cnt, idx) := countInferred real 0 (0, -1)
  if cnt > 1 then some ⟨false, [], -1⟩ else
  match sumByCommodity real [] with
  | none => none
  | some sums =>
    if cnt == 1 then some ⟨true, [], idx⟩ else
    let d := differencesOf sums
    some ⟨d.isEmpty, d, idx⟩

/-- `CheckBalance` before fix-zero-quantity-total-cost. -/
def checkPinned (tx : Transaction) : Option Result :=
  let real := filterReal tx.postings
  let (cnt, idx) := countInferred real 0 (0, -1)
  if cnt > 1 then some ⟨false, [], -1⟩ else
  match sumByCommodityPinned real [] with
  | none => none
  | some sums =>
    if cnt == 1 then some ⟨true, [], idx⟩ else
    let d := differencesOf sums
    some ⟨d.isEmpty, d, idx⟩

inductive Code where | unbalanced | multipleInferred
deriving Repr, DecidableEq, Inhabited, BEq

/-- the pieces `"<commodity> off by <diff.String()>"` joined by `"; "`, in the given order. -/
def messageParts : Sums → Bytes
  | [] => []
  | [(k, v)] => k ++ bs " off by " ++ Dec.toString v
  | (k, v) :: r => k ++ bs " off by " ++ Dec.toString v ++ bs "; " ++ messageParts r

/-- the differences in the order the message names them: by commodity, byte-wise sorted
    (fix a16f2b7; before it the order was that of Go's map iteration). -/
def sortedDifferences (d : Sums) : Sums :=
  (KV.sortStrings (d.map (·.1))).map fun k => (k, KV.get d k Dec.zero)

/-- `createBalanceDiagnostic` for a result with `!Balanced`. -/
def balanceDiagnostic (r : Result) : Code × Bytes :=
  if r.inferredIdx == -1 && r.differences.isEmpty then
    (.multipleInferred, bs "transaction has multiple postings without amounts")
  else (.unbalanced, bs "transaction does not balance: " ++ messageParts (sortedDifferences r.differences))

/-- analyzeInternal's use of `CheckBalance`: the code of the balance diagnostic of one
    transaction, if any (outer `none` = panic). -/
def diagCode (tx : Transaction) : Option (Option Code) :=
  match check tx with
  | none => none
  | some r => if r.balanced then some none else some (some (balanceDiagnostic r).1)

/-! ### account balances (C20) -/

abbrev AccountBalances := List (Bytes × Sums)

def addPosting (b : AccountBalances) (p : Posting) : AccountBalances :=
  match p.amount with
  | none => b
  | some a =>
    let inner := KV.get b p.account.name []
    KV.set b p.account.name (KV.set inner a.commodity.symbol (Dec.add (KV.get inner a.commodity.symbol Dec.zero) a.quantity))

/-- `CalculateAccountBalancesFromTransactions` (and `CalculateAccountBalances` on
    `journal.Transactions`: the two bodies are identical). -/
def accountBalances (txs : List Transaction) : AccountBalances :=
  txs.foldl (fun b tx => tx.postings.foldl addPosting b) []

/-- `countPostingsForAccountInTransactions`. -/
def countPostings (acct : Bytes) (txs : List Transaction) : Nat :=
  txs.foldl (fun n tx => tx.postings.foldl (fun n p => if p.account.name = acct then n + 1 else n) n) 0

/-- the count of `buildPayeeHoverWithTransactions`. -/
def countPayee (payee : Bytes) (txs : List Transaction) : Nat :=
  txs.foldl (fun n tx => if tx.payee = payee || tx.description = payee then n + 1 else n) 0

/-- `forEachTag`: tags of the transaction's comments, then of each posting. -/
def allTags (txs : List Transaction) : List Tag :=
  txs.flatMap fun tx => tx.comments.flatMap (·.tags) ++ tx.postings.flatMap (·.tags)

def countTagUsage (name : Bytes) (txs : List Transaction) : Nat :=
  (allTags txs).foldl (fun n t => if t.name = name then n + 1 else n) 0

def countTagValueUsage (name value : Bytes) (txs : List Transaction) : Nat :=
  (allTags txs).foldl (fun n t => if t.name = name && t.value = value then n + 1 else n) 0

end Balance
end HL
