/-!
# The server as a labelled transition system (DESIGN 3.8), publish part

Transcribes, from `internal/server/server.go` of the repository under verification
(line numbers of the tree with `repo_patches/fix-stale-diagnostics.diff` and then
`repo_patches/hook-server-yield.diff` applied):

* `Server.DidOpen`   (l. 179-184)  `documents.Store`; `nextDocVersion`; `go publishDiagnosticsVersion`
* `Server.DidChange` (l. 186-210)  the same, only when the document is open
* `Server.DidClose`  (l. 217-222)  `documents.Delete`; `dropDocVersion`
* `nextDocVersion` / `dropDocVersion` / `isCurrentDocVersion` (l. 243-265), each one critical
  section of `docVerMu`
* `publishDiagnosticsVersion` (l. 290-333) and `publishIfCurrent` (l. 273-284): the background task

and, with `guarded := false`, the pinned code (commit 19aa5c3 of server.go), in which a task
calls `client.PublishDiagnostics` unconditionally at the end of `publishDiagnostics`.

## What is a step, and why

`cmd/hledger-lsp/main.go` hands `protocol.ServerHandler(...)` to `conn.Go` without
`jsonrpc2.AsyncHandler`, so notifications are handled one after the other by one goroutine (the
*handler thread*).  The only other goroutines in this part of the server are the tasks started by
the `go` statements in DidOpen/DidChange.  Steps are cut at every access to state that another
goroutine can see:

* `openDoc` / `change` / `close` — one handler run.  (DidOpen and didChange also call
  `workspace.UpdateFile` and `loader.InvalidateFile` before `nextDocVersion` — DidOpen since
  fix-didopen-workspace.diff; that is `diag`'s environment, see "Domain" below, not the publish
  protocol.)  Its only access to state that a *task* reads
  is the single critical section of `docVerMu` inside `nextDocVersion` / `dropDocVersion`
  (tasks never read `Server.documents`), and the `go` statement comes after it in program order,
  so the new task captures exactly the version stored.  Hence the whole handler is one atomic
  event as far as tasks and the client can tell.
* `analyse i` — `getSettings`, `loader.LoadFromContent`, `storeResolvedIfCurrent`, `analyze`
  (l. 291-331).  None of this reads or writes what the publish protocol depends on (`publishMu`,
  the client; `storeResolvedIfCurrent` reads the version table in a critical section of its own
  and writes `Server.resolved` only), so it is one step whose result is `diag text` for an
  *uninterpreted* `diag` (DESIGN 3.9; C14/C19 refine this step — `HL.Bg` (Spec/Bg.lean) is the
  transition system of `Server.resolved`, in which the handler thread stores too since
  repo_patches/fix-resolved-pending.diff: a request that finds no tree stored resolves it from
  the current buffer, `Server.documentResolved` — C13 does not care what the diagnostics of a
  text are).
* `lock i`    — `s.publishMu.Lock()` (l. 275); enabled only when the mutex is free.
* `check i`   — `isCurrentDocVersion` (l. 277, body l. 260-265): one critical section of `docVerMu`, reads the
  version table once.
* `publish i` — `s.client.PublishDiagnostics` (l. 280): the client appends to its log.
* `unlock i`  — the deferred `publishMu.Unlock()` (l. 276); the task ends.

`lock`, `check`, `publish`, `unlock` are separate steps although `publishMu` is held throughout:
handler events (which do not take `publishMu`) and other tasks' `analyse` steps can and do happen
in between, and the model lets them.  What is atomic in the model is exactly one critical section
of `docVerMu`, one mutex operation, or one client call.

Domain and what `diag` stands for.  URIs are `file://` URIs and a client is attached: for any
other URI `publishDiagnosticsVersion` returns at l. 301-303 (and at l. 291-293 without a client)
before it reaches the publish protocol — such a task publishes nothing at all, hence nothing stale
either; it is not modelled.  `diag text` stands for "whatever lines 295-331 compute from the
captured text": the empty list when `Features.Diagnostics` is off (l. 296-299 — that path goes
through `publishIfCurrent` too), otherwise `analyze` plus the include-load errors.  It is a function
of the text alone as long as settings, workspace and the files on disk do not change during the
trace (the harness keeps them fixed; C19 is about changing settings).

`publishMu` is ONE mutex for the whole server (not one per URI): `lock : Option Nat` below.

In the pinned variant a task has the steps `analyse i` and `publish i` only (no lock, no check);
`ver`/`seq` and the task numbers are then ghost bookkeeping (the pinned code has no such fields,
and no step of the pinned variant reads them).
-/

namespace HL.Srv

abbrev Uri := Nat

/-- `f[k ↦ v]`. -/
def upd {β : Type} (f : Nat → β) (k : Nat) (v : β) : Nat → β := fun x => if x = k then v else f x

@[simp] theorem upd_same {β : Type} (f : Nat → β) (k : Nat) (v : β) : upd f k v k = v := by simp [upd]
theorem upd_other {β : Type} (f : Nat → β) (k : Nat) (v : β) (x : Nat) (h : x ≠ k) : upd f k v x = f x := by
  simp [upd, h]

/-- Program counter of a background task. -/
inductive PC (Diags : Type) where
  | start                  -- spawned by the `go` statement, nothing done yet
  | ready (d : Diags)      -- analysed; next: `publishMu.Lock()` (pinned: the client call)
  | locked (d : Diags)     -- holds publishMu; next: `isCurrentDocVersion`
  | checked (d : Diags)    -- holds publishMu, check passed; next: `client.PublishDiagnostics`
  | unlocking              -- holds publishMu, nothing more to publish; next: Unlock and return
  deriving DecidableEq, Repr

/-- The task holds `publishMu`. -/
def PC.holds {Diags : Type} : PC Diags → Bool
  | .locked _ | .checked _ | .unlocking => true
  | _ => false

/-- The diagnostics a task carries (computed, not yet handed to the client). -/
def PC.diag? {Diags : Type} : PC Diags → Option Diags
  | .ready d | .locked d | .checked d => some d
  | _ => none

/-- The arguments captured by the `go` statement, and the program counter.  The captured version
    is the key under which the task sits in `St.tasks`. -/
structure Task (Text Diags : Type) where
  uri : Uri
  text : Text
  pc : PC Diags
  deriving DecidableEq, Repr

structure St (Text Diags : Type) where
  /-- `Server.documents` -/
  docs : Uri → Option Text
  /-- `Server.docVersions` -/
  ver : Uri → Option Nat
  /-- `Server.docSeq` -/
  seq : Nat
  /-- in-flight background tasks, keyed by the version they captured (unique: one `go` per bump) -/
  tasks : Nat → Option (Task Text Diags)
  /-- `Server.publishMu`: `none` = free, `some i` = held (by task `i`; the owner is ghost) -/
  lock : Option Nat
  /-- the client: PublishDiagnostics notifications received per URI, oldest first; the first
      component (the version the diagnostics were computed from) is a ghost tag -/
  log : Uri → List (Nat × Diags)

def St.init {Text Diags : Type} : St Text Diags :=
  { docs := fun _ => none, ver := fun _ => none, seq := 0, tasks := fun _ => none, lock := none,
    log := fun _ => [] }

inductive Ev (Text : Type) where
  | openDoc (u : Uri) (t : Text)
  | change (u : Uri) (t : Text)     -- the content after applying the change (C01 models how)
  | close (u : Uri)
  | analyse (i : Nat)
  | lock (i : Nat)
  | check (i : Nat)
  | publish (i : Nat)
  | unlock (i : Nat)
  deriving DecidableEq, Repr

section
variable {Text Diags : Type}

/-- Store content, bump the version, start the task (DidOpen; DidChange on an open document). -/
def spawn (s : St Text Diags) (u : Uri) (t : Text) : St Text Diags :=
  { s with docs := upd s.docs u (some t), ver := upd s.ver u (some (s.seq + 1)), seq := s.seq + 1,
           tasks := upd s.tasks (s.seq + 1) (some ⟨u, t, .start⟩) }

def setPc (s : St Text Diags) (i : Nat) (k : Task Text Diags) (pc : PC Diags) : St Text Diags :=
  { s with tasks := upd s.tasks i (some { k with pc := pc }) }

/-- One transition; `none` when the event is not enabled in `s`. -/
def step? (diag : Text → Diags) (guarded : Bool) (s : St Text Diags) : Ev Text → Option (St Text Diags)
  | .openDoc u t => some (spawn s u t)
  | .change u t =>
    match s.docs u with
    | none => some s                       -- `if doc, ok := s.documents.Load(uri); ok { … }`
    | some _ => some (spawn s u t)
  | .close u => some { s with docs := upd s.docs u none, ver := upd s.ver u none }
  | .analyse i =>
    match s.tasks i with
    | some k => match k.pc with
      | .start => some (setPc s i k (.ready (diag k.text)))
      | _ => none
    | none => none
  | .lock i =>
    match guarded, s.lock, s.tasks i with
    | true, none, some k => match k.pc with
      | .ready d => some { setPc s i k (.locked d) with lock := some i }
      | _ => none
    | _, _, _ => none
  | .check i =>
    match s.tasks i with
    | some k => match k.pc with
      | .locked d => some (setPc s i k (if s.ver k.uri = some i then .checked d else .unlocking))
      | _ => none
    | none => none
  | .publish i =>
    match s.tasks i with
    | some k => match k.pc, guarded with
      | .checked d, _ => some { setPc s i k .unlocking with log := upd s.log k.uri (s.log k.uri ++ [(i, d)]) }
      | .ready d, false => some { s with tasks := upd s.tasks i none, log := upd s.log k.uri (s.log k.uri ++ [(i, d)]) }
      | _, _ => none
    | none => none
  | .unlock i =>
    match s.tasks i with
    | some k => match k.pc with
      | .unlocking => some { s with tasks := upd s.tasks i none, lock := none }
      | _ => none
    | none => none

/-- Total version: an event that is not enabled leaves the state alone. -/
def step (diag : Text → Diags) (guarded : Bool) (s : St Text Diags) (e : Ev Text) : St Text Diags :=
  (step? diag guarded s e).getD s

/-- The state after a finite trace (events that are not enabled are skipped, so *every* list of
    events is a trace and every behaviour of the server is one of them). -/
def run (diag : Text → Diags) (guarded : Bool) (es : List (Ev Text)) : St Text Diags :=
  es.foldl (step diag guarded) St.init

/-- No background task in flight.  Task numbers never exceed `seq` (`Inv.task_le`), so the bounded
    form, which `decide` can evaluate, says the same as `∀ i, s.tasks i = none`. -/
def Quiescent (s : St Text Diags) : Prop := ∀ i, i ≤ s.seq → s.tasks i = none

instance (s : St Text Diags) : Decidable (Quiescent s) := by
  unfold Quiescent; exact Nat.decidableBallLE _ _

/-- What the client shows for `u`: the diagnostics of the last notification received. -/
def shown (s : St Text Diags) (u : Uri) : Option Diags := ((s.log u).getLast?).map (·.2)

/-- The versions published for `u`, in order of arrival at the client. -/
def publishedVersions (s : St Text Diags) (u : Uri) : List Nat := (s.log u).map (·.1)

theorem run_append (diag : Text → Diags) (g : Bool) (es es' : List (Ev Text)) :
    run diag g (es ++ es') = es'.foldl (step diag g) (run diag g es) := by
  simp [run, List.foldl_append]

theorem run_snoc (diag : Text → Diags) (g : Bool) (es : List (Ev Text)) (e : Ev Text) :
    run diag g (es ++ [e]) = step diag g (run diag g es) e := by
  simp [run_append]

end
end HL.Srv
