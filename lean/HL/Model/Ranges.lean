/-
  Model of the range geometry of every position-carrying feature of internal/server:

    position.go           columnMapper (lineColumn, position, toProtocol, runePosition): the
                          conversion between the rune columns of the syntax tree and the UTF-16
                          characters of LSP, with the lines of the text the tree was parsed from
    lsputil/mapper.go     RuneOffsetToUTF16, UTF16OffsetToRuneOffset
    hover.go              positionInRange, (*columnMapper).payeeRange (the walk over the header
                          line is HL/Model/PayeeRange.lean), estimatePayeeRange,
                          getPayeeOrDescription, findElementAtPosition, findTagAtPosition,
                          Hover (the returned Range)
    server.go             analyze / publishDiagnostics: the range construction for
                          parse errors, analyzer diagnostics and include (load) errors
    definition.go         findDefinitionTarget, findDefinitionLocation and its helpers
                          (single-file setting: the journal map holds the current document only)
    references.go         findReferences, sortAndDedup            (range geometry only)
    rename.go             PrepareRename, Rename (edit ranges)
    symbol.go             DocumentSymbol (Range / SelectionRange)
    workspace_symbol.go   extractSymbols with the empty query
    links.go              DocumentLink ranges
    folding.go            findTransactionFolds, findDirectiveFolds, findCommentBlockFolds
    completion.go         calculateTextEditRange (placement and uint32 conversion; the line-level
                          function is HL.Completion.editRange; the completion context is an input)
    inline_completion.go  the edit range of the item

  Input: the syntax tree produced by the real parser (`HL.Ast.Journal`), the text as
  `List Char` (documents are valid UTF-8), the cursor.  Output: LSP ranges whose four
  components are `UInt32`, so that `uint32(0 - 1) = 4294967295` is in the model.

  Go strings inside the tree are `Bytes`; `utf8.RuneCountInString` / `lsputil.UTF16Len` of such
  a string are computed from the UTF-8 lead bytes (`runeLenB` / `u16lenB`), which is what
  `for _, r := range s` yields on valid UTF-8.  The mapper is its `lines` field: `List Txt`
  (`strings.Split(content, "\n")` = `lines doc`).  The byte offsets of completion.go are modelled as char indices: every offset that
  code computes lies next to an ASCII byte or at a line end, hence on a rune boundary, and
  `ByteOffsetToUTF16(line, byteOf k) = u16len (line.take k)`.
-/
import HL.Model.Ast
import HL.Model.Text
import HL.Model.Completion
import HL.Model.PayeeRange
namespace HL.Ranges
open HL HL.Ast HL.Text

/-- `protocol.Range`. -/
structure LRange where
  sl : UInt32
  sc : UInt32
  el : UInt32
  ec : UInt32
deriving Repr, DecidableEq, Inhabited, BEq

/-- Which of the delivered repairs the code under test contains (the harness probes the real
    functions with canary inputs).  `false` everywhere = the tree as pinned.
    link: fix-link-range.diff (upstream 04b7a3e), fold: fix-fold-ranges.diff (upstream 4d2f7df). -/
structure Fixes where
  link : Bool
  fold : Bool
deriving Repr, DecidableEq, Inhabited

def Fixes.pinned : Fixes := ⟨false, false⟩
def Fixes.all : Fixes := ⟨true, true⟩

/-- `uint32(x - 1)` for a Go `int` `x ≥ 0`: zero wraps to 4294967295. -/
def m1 (n : Nat) : UInt32 := if n = 0 then 0xFFFFFFFF else UInt32.ofNat (n - 1)

/-- `astRangeToProtocol` as pinned (before fix-utf16-positions.diff): `column − 1` is copied
    into the UTF-16 `character`.  Only the `pinned_…` counterexamples mention it. -/
def astRangeToProtocolPinned (r : Rng) : LRange :=
  ⟨m1 r.start.line, m1 r.start.col, m1 r.stop.line, m1 r.stop.col⟩

/-- `columnMapper.lineColumn`: the character is the UTF-16 length of the first `col − 1` runes
    of the line (`lsputil.RuneOffsetToUTF16`; a negative count gives 0); without the text of the
    line the column is passed on unchanged.  `lns` is the mapper (`lines` of the text). -/
def convChar (lns : List Txt) (line col : Nat) : UInt32 :=
  if line = 0 then m1 col else
  match lns[line - 1]? with
  | some ln => UInt32.ofNat (u16len (ln.take (col - 1)))
  | none => m1 col

/-- `columnMapper.toProtocol` (hover, definition, references, rename, symbols, links,
    analyzer diagnostics). -/
def astRangeToProtocol (lns : List Txt) (r : Rng) : LRange :=
  ⟨m1 r.start.line, convChar lns r.start.line r.start.col, m1 r.stop.line, convChar lns r.stop.line r.stop.col⟩

/-- A cursor (`protocol.Position`, both components `uint32`). -/
structure Cur where
  line : Nat
  char : Nat
deriving Repr, DecidableEq, Inhabited

/-- `columnMapper.runePosition`: the cursor with its character counted in runes
    (`lsputil.UTF16OffsetToRuneOffset` = `takeU16`). -/
def runeCur (lns : List Txt) (c : Cur) : Cur :=
  match lns[c.line]? with
  | some ln => ⟨c.line, takeU16 ln c.char⟩
  | none => c

/-- `positionInRange` (the cursor counts runes). -/
def positionInRange (c : Cur) (r : Rng) : Bool :=
  let line := c.line + 1
  let col := c.char + 1
  if line < r.start.line || line > r.stop.line then false
  else if line == r.start.line && col < r.start.col then false
  else if line == r.stop.line && col > r.stop.col then false
  else true

/-- `lsputil.UTF16Len` of a Go string holding valid UTF-8. -/
def u16lenB : Bytes → Nat
  | [] => 0
  | b :: bs => (if b < 0x80 || b ≥ 0xC0 then (if b ≥ 0xF0 then 2 else 1) else 0) + u16lenB bs

/-- `utf8.RuneCountInString` of a Go string holding valid UTF-8. -/
def runeLenB : Bytes → Nat
  | [] => 0
  | b :: bs => (if b < 0x80 || b ≥ 0xC0 then 1 else 0) + runeLenB bs

/-- `getPayeeOrDescription`. -/
def payeeOf (tx : Transaction) : Bytes := if tx.payee ≠ [] then tx.payee else tx.description

/-- `estimatePayeeRange`: one column after the date, two more after a status mark (the whole
    answer of the tree as pinned; now the fallback when the mapper has no text for the line). -/
def estimatePayeeRange (tx : Transaction) (payee : Bytes) : Rng :=
  let startCol := tx.date.range.stop.col + 1 + (if tx.status ≠ .none then 2 else 0)
  ⟨⟨tx.date.range.start.line, startCol, 0⟩, ⟨tx.date.range.start.line, startCol + runeLenB payee, 0⟩⟩

/-- `(*columnMapper).payeeRange` (repo_patches/fix-payee-range.diff): the description is looked
    up on the header line of the text the tree was parsed from (`lns` = the mapper's lines); the
    payee is a trimmed prefix of the description, so the range runs from there for the length
    of the payee.  Without that line, or when the line ends before a description: the estimate. -/
def payeeRange (lns : List Txt) (tx : Transaction) (payee : Bytes) : Rng :=
  match HL.PayeeRange.payeeStart lns tx.date.range.start.line tx.date.range.stop.col with
  | some col => ⟨⟨tx.date.range.start.line, col, 0⟩, ⟨tx.date.range.start.line, col + runeLenB payee, 0⟩⟩
  | none => estimatePayeeRange tx payee

/-- What a reported range is a range *of* (used by the oracle to pick the lexeme). -/
inductive Kind where
  | date | payee | tag | tagValue | account | amount | commodity | transaction | directive | other
deriving Repr, DecidableEq, Inhabited, BEq

def Kind.name : Kind → String
  | .date => "date" | .payee => "payee" | .tag => "tag" | .tagValue => "tagValue"
  | .account => "account" | .amount => "amount" | .commodity => "commodity"
  | .transaction => "transaction" | .directive => "directive" | .other => "other"

/-- A located element: kind, the text it stands for (name / symbol / payee / value), the
    position range the code computed for it. -/
structure Hit where
  kind : Kind
  name : Bytes
  rng : Rng
  derived : Bool := false   -- computed by column arithmetic (payee range, tag halves, nameRange)
deriving Repr, DecidableEq, Inhabited, BEq

/-- The two sub-ranges `findTagAtPosition` derives from a tag. -/
def tagNameRng (t : Tag) : Rng :=
  let colonCol := t.range.start.col + runeLenB t.name
  ⟨t.range.start, ⟨t.range.start.line, colonCol, t.range.start.off + t.name.length⟩⟩
/-- The value is measured back from the end of the tag (fix-tag-value-range.diff). -/
def tagValueRng (t : Tag) : Rng :=
  ⟨⟨t.range.stop.line, t.range.stop.col - runeLenB t.value, t.range.stop.off - t.value.length⟩, t.range.stop⟩
/-- As pinned: the value range starts right after the colon. -/
def tagValueRngPinned (t : Tag) : Rng :=
  let colonCol := t.range.start.col + u16lenB t.name
  ⟨⟨t.range.start.line, colonCol + 1, t.range.start.off + t.name.length + 1⟩, t.range.stop⟩

/-- `findTagAtPosition`. -/
def findTagAtPosition (tags : List Tag) (c : Cur) : Option Hit :=
  match tags.find? (fun t => positionInRange c t.range) with
  | none => none
  | some t =>
    let colonCol := t.range.start.col + runeLenB t.name
    if c.char + 1 ≤ colonCol then some ⟨.tag, t.name, tagNameRng t, true⟩
    else some ⟨.tagValue, t.value, tagValueRng t, true⟩

/-- The posting part of the loop body of `findElementAtPosition`. -/
def hoverPosting (c : Cur) (p : Posting) : Option Hit :=
  if positionInRange c p.account.range then some ⟨.account, p.account.name, p.account.range, false⟩
  else match p.amount with
    | some a =>
      if positionInRange c a.range then some ⟨.amount, a.raw, a.range, false⟩
      else findTagAtPosition p.tags c
    | none => findTagAtPosition p.tags c

/-- The transaction part of the loop body of `findElementAtPosition`. -/
def hoverTx (lns : List Txt) (c : Cur) (tx : Transaction) : Option Hit :=
  if positionInRange c tx.date.range then some ⟨.date, [], tx.date.range, false⟩
  else
    let payee := payeeOf tx
    if payee ≠ [] && positionInRange c (payeeRange lns tx payee) then
      some ⟨.payee, payee, payeeRange lns tx payee, true⟩
    else match tx.comments.findSome? (fun cm => findTagAtPosition cm.tags c) with
      | some h => some h
      | none => tx.postings.findSome? (hoverPosting c)

/-- `findElementAtPosition` (`lns`: the mapper of the text the journal was parsed from). -/
def findElementAtPosition (lns : List Txt) (j : Journal) (c : Cur) : Option Hit :=
  j.transactions.findSome? (hoverTx lns c)

/-- `Hover`: the `Range` of the response (every hover context produces non-empty content). -/
def hover (lns : List Txt) (j : Journal) (c : Cur) : Option (Hit × LRange) :=
  (findElementAtPosition lns j (runeCur lns c)).map fun h => (h, astRangeToProtocol lns h.rng)

/-! ### Definition, references, rename -/

/-- `nameRange` (references.go): the range of a symbol's lexeme given where it starts. -/
def nameRange (start : Pos) (name : Bytes) : Rng := ⟨start, ⟨start.line, start.col + runeLenB name, 0⟩⟩
def accountNameRange (a : Account) : Rng := nameRange a.range.start a.name
/-- `directiveCommodityRange` (repo_patches/fix-quoted-commodity-directive.diff): the range the
    parser recorded for the commodity of a `commodity` / `P` directive when it has an End — the
    token's extent, which includes the quotes of a quoted symbol, as for a commodity written in
    a posting — otherwise derived from the symbol. -/
def directiveCommodityRange (c : Commodity) : Rng :=
  if c.range.stop != Pos.zero then c.range else nameRange c.range.start c.symbol
/-- As pinned (b9a9245 … before that repair): always derived from the symbol, two short when the
    lexeme is written in quotes. -/
def directiveCommodityRangePinned (c : Commodity) : Rng := nameRange c.range.start c.symbol
/-- The located commodity of a directive: `derived` says whether the range was computed from
    the symbol (no End in the tree) or is the range stored in the tree. -/
def directiveCommodityHit (name : Bytes) (c : Commodity) : Hit :=
  ⟨.commodity, name, directiveCommodityRange c, c.range.stop == Pos.zero⟩

/-- `postingCommodities`: amount, cost, assertion. -/
def postingCommodities (p : Posting) : List Commodity :=
  (match p.amount with | some a => [a.commodity] | none => []) ++
  (match p.cost with | some c => [c.amount.commodity] | none => []) ++
  (match p.assertion with | some b => [b.amount.commodity] | none => [])

def commodityAt (c : Cur) (cm : Commodity) : Option Hit :=
  if cm.symbol ≠ [] && positionInRange c cm.range then some ⟨.commodity, cm.symbol, cm.range, false⟩ else none

def defPosting (c : Cur) (p : Posting) : Option Hit :=
  if positionInRange c (accountNameRange p.account) then
    some ⟨.account, p.account.name, accountNameRange p.account, true⟩
  else (postingCommodities p).findSome? (commodityAt c)

def defTx (lns : List Txt) (c : Cur) (tx : Transaction) : Option Hit :=
  let payee := payeeOf tx
  if payee ≠ [] && positionInRange c (payeeRange lns tx payee) then
    some ⟨.payee, payee, payeeRange lns tx payee, true⟩
  else tx.postings.findSome? (defPosting c)

/-- The directive loop of `findDefinitionTarget`. -/
def defDirective (c : Cur) : Directive → Option Hit
  | .account a _ _ _ _ =>
    if positionInRange c (accountNameRange a) then some ⟨.account, a.name, accountNameRange a, true⟩ else none
  | .commodity cm _ _ _ _ =>
    if cm.symbol ≠ [] && positionInRange c (directiveCommodityRange cm) then
      some (directiveCommodityHit cm.symbol cm) else none
  | .price _ cm p _ =>
    if cm.symbol ≠ [] && positionInRange c (directiveCommodityRange cm) then
      some (directiveCommodityHit cm.symbol cm)
    else commodityAt c p.commodity
  | _ => none

/-- The two loops of `findDefinitionTarget` for a cursor that counts runes. -/
def findDefinitionTargetR (lns : List Txt) (j : Journal) (c : Cur) : Option Hit :=
  match j.transactions.findSome? (defTx lns c) with
  | some h => some h
  | none => j.directives.findSome? (defDirective c)

/-- `findDefinitionTarget` (kind ∈ payee, account, commodity): `pos = mapper.runePosition(pos)`. -/
def findDefinitionTarget (lns : List Txt) (j : Journal) (c : Cur) : Option Hit :=
  findDefinitionTargetR lns j (runeCur lns c)

/-- `compareDates a b < 0`. -/
def dateLt (a b : Date) : Bool :=
  if a.year ≠ b.year then a.year < b.year
  else if a.month ≠ b.month then a.month < b.month
  else a.day < b.day

/-- The "earliest" loops of definition.go: keep the first candidate whose date is strictly
    smaller than every earlier one. -/
def earliest : Option (Date × Rng) → List (Date × Rng) → Option (Date × Rng)
  | best, [] => best
  | none, x :: xs => earliest (some x) xs
  | some b, x :: xs => if dateLt x.1 b.1 then earliest (some x) xs else earliest (some b) xs

def accountUsages (j : Journal) (name : Bytes) : List (Date × Rng) :=
  j.transactions.flatMap fun tx =>
    (tx.postings.filter (fun p => p.account.name == name)).map fun p => (tx.date, p.account.range)

def commodityUsages (j : Journal) (sym : Bytes) : List (Date × Rng) :=
  j.transactions.flatMap fun tx =>
    tx.postings.filterMap fun p => match p.amount with
      | some a => if a.commodity.symbol == sym then some (tx.date, a.commodity.range) else none
      | none => none

def payeeUsages (j : Journal) (payee : Bytes) : List (Date × Rng) :=
  (j.transactions.filter (fun tx => payeeOf tx == payee)).map fun tx => (tx.date, tx.range)

/-- `findDefinitionLocation` in the single-file setting; the kind says what the returned
    range is a range of. -/
def definitionHit (j : Journal) (t : Hit) : Option Hit :=
  match t.kind with
  | .account =>
    match j.directives.findSome? (fun d => match d with
        | .account a _ _ _ r => if a.name == t.name then some r else none
        | _ => none) with
    | some r => some ⟨.directive, t.name, r, false⟩
    | none => (earliest none (accountUsages j t.name)).map fun x => ⟨.account, t.name, x.2, false⟩
  | .commodity =>
    match j.directives.findSome? (fun d => match d with
        | .commodity cm _ _ _ r => if cm.symbol == t.name then some r else none
        | _ => none) with
    | some r => some ⟨.directive, t.name, r, false⟩
    | none => (earliest none (commodityUsages j t.name)).map fun x => ⟨.commodity, t.name, x.2, false⟩
  | .payee => (earliest none (payeeUsages j t.name)).map fun x => ⟨.transaction, t.name, x.2, false⟩
  | _ => none

/-- `Definition`. -/
def definition (lns : List Txt) (j : Journal) (c : Cur) : List (Hit × LRange) :=
  match findDefinitionTarget lns j c with
  | none => []
  | some t => match definitionHit j t with
    | none => []
    | some h => [(h, astRangeToProtocol lns h.rng)]

/-- The directive part of `findCommodityReferences`. -/
def commodityRefDirective (sym : Bytes) (decl : Bool) : Directive → List Hit
  | .commodity cm _ _ _ _ =>
    if decl && cm.symbol == sym then [directiveCommodityHit sym cm] else []
  | .price _ cm p _ =>
    (if cm.symbol == sym then [directiveCommodityHit sym cm] else []) ++
    (if p.commodity.symbol == sym then [(⟨.commodity, sym, p.commodity.range, false⟩ : Hit)] else [])
  | _ => []

/-- The locations `findReferences` collects, in collection order (before sortAndDedup). -/
def referenceHits (lns : List Txt) (j : Journal) (t : Hit) (decl : Bool) : List Hit :=
  match t.kind with
  | .account =>
    (if decl then j.directives.filterMap (fun d => match d with
        | .account a _ _ _ _ => if a.name == t.name then some ⟨.account, t.name, accountNameRange a, true⟩ else none
        | _ => none) else []) ++
    j.transactions.flatMap fun tx =>
      (tx.postings.filter (fun p => p.account.name == t.name)).map fun p =>
        ⟨.account, t.name, accountNameRange p.account, true⟩
  | .commodity =>
    j.directives.flatMap (commodityRefDirective t.name decl) ++
    j.transactions.flatMap fun tx =>
      tx.postings.flatMap fun p =>
        ((postingCommodities p).filter (fun cm => cm.symbol == t.name)).map fun cm =>
          (⟨.commodity, t.name, cm.range, false⟩ : Hit)
  | .payee =>
    (j.transactions.filter (fun tx => payeeOf tx == t.name)).map fun tx =>
      ⟨.payee, t.name, payeeRange lns tx t.name, true⟩
  | _ => []

/-- The order of `sortAndDedup` (one URI): start line, then start character, as `uint32`. -/
def startLe {α} (a b : α × LRange) : Bool :=
  a.2.sl < b.2.sl || (a.2.sl == b.2.sl && a.2.sc ≤ b.2.sc)

/-- The dedup loop of `sortAndDedup`: keep a location unless it equals the one before it. -/
def dedupFrom {α} (prev : α × LRange) : List (α × LRange) → List (α × LRange)
  | [] => [prev]
  | y :: rest => if prev.2 == y.2 then dedupFrom prev rest else prev :: dedupFrom y rest

def dedupAdj {α} : List (α × LRange) → List (α × LRange)
  | [] => []
  | x :: rest => dedupFrom x rest

/-- Insert before the first element that is not smaller (stable when used from the right). -/
def insertLe {α} (x : α × LRange) : List (α × LRange) → List (α × LRange)
  | [] => [x]
  | y :: ys => if startLe x y then x :: y :: ys else y :: insertLe x ys

/-- `sort.Slice` with the `(line, character)` order of `sortAndDedup`, as the stable sort
    (locations that tie on the start are the same location after `dedupAdj` in every run seen;
    the correspondence check would show an order difference otherwise). -/
def sortStart {α} (l : List (α × LRange)) : List (α × LRange) := l.foldr insertLe []

/-- `sortAndDedup` (the first component is carried along: what the location is a location of). -/
def sortAndDedup {α} (l : List (α × LRange)) : List (α × LRange) :=
  dedupAdj (sortStart l)

/-- `References`. -/
def references (lns : List Txt) (j : Journal) (c : Cur) (decl : Bool) : List (Hit × LRange) :=
  match findDefinitionTarget lns j c with
  | none => []
  | some t => sortAndDedup ((referenceHits lns j t decl).map fun h => (h, astRangeToProtocol lns h.rng))

/-- `PrepareRename`. -/
def prepareRename (lns : List Txt) (j : Journal) (c : Cur) : Option (Hit × LRange) :=
  (findDefinitionTarget lns j c).map fun t => (t, astRangeToProtocol lns t.rng)

/-- `Rename`: the ranges of the text edits (one document). -/
def rename (lns : List Txt) (j : Journal) (c : Cur) : List (Hit × LRange) := references lns j c true

/-! ### Outline, workspace symbols, links -/

/-- `DocumentSymbol`: `Range` (= `SelectionRange`) of every symbol, in response order. -/
def documentSymbols (lns : List Txt) (j : Journal) : List LRange :=
  j.transactions.map (fun tx => astRangeToProtocol lns tx.range) ++
  j.directives.map (fun d => astRangeToProtocol lns d.range) ++
  j.includes.map (fun i => astRangeToProtocol lns i.range)

/-- The payee part of `extractSymbols` (`seen` keeps the first transaction of each payee). -/
def payeeSymbols (lns : List Txt) : List Bytes → List Transaction → List Hit
  | _, [] => []
  | seen, tx :: rest =>
    let p := payeeOf tx
    if p ≠ [] && !seen.contains p then
      ⟨.payee, p, payeeRange lns tx p, true⟩ :: payeeSymbols lns (p :: seen) rest
    else payeeSymbols lns seen rest

/-- `extractSymbols` with the empty query (fix-workspace-symbol-end.diff: the end of a declared
    name is derived from the name, as in references / rename). -/
def workspaceSymbolHits (lns : List Txt) (j : Journal) : List Hit :=
  j.directives.filterMap (fun d => match d with
    | .account a _ _ _ _ => some ⟨.account, a.name, accountNameRange a, true⟩
    | .commodity cm _ _ _ _ => some (directiveCommodityHit cm.symbol cm)
    | _ => none) ++
  payeeSymbols lns [] j.transactions

def workspaceSymbols (lns : List Txt) (j : Journal) : List (Hit × LRange) :=
  (workspaceSymbolHits lns j).map fun h => (h, astRangeToProtocol lns h.rng)

/-- As pinned: the ranges stored in the tree, which have no End. -/
def workspaceSymbolHitsPinned (lns : List Txt) (j : Journal) : List Hit :=
  j.directives.filterMap (fun d => match d with
    | .account a _ _ _ _ => some ⟨.account, a.name, a.range, false⟩
    | .commodity cm _ _ _ _ => some ⟨.commodity, cm.symbol, cm.range, false⟩
    | _ => none) ++
  payeeSymbols lns [] j.transactions

/-- UTF-8 decoding of a Go string of the tree (valid UTF-8: it is a piece of the document). -/
def decodeUtf8 : Bytes → Txt
  | [] => []
  | b :: rest =>
    if b < 0x80 then Char.ofNat b.toNat :: decodeUtf8 rest
    else if b < 0xE0 then match rest with
      | c1 :: r => Char.ofNat ((b.toNat % 32) * 64 + c1.toNat % 64) :: decodeUtf8 r
      | _ => []
    else if b < 0xF0 then match rest with
      | c1 :: c2 :: r => Char.ofNat ((b.toNat % 16) * 4096 + (c1.toNat % 64) * 64 + c2.toNat % 64) :: decodeUtf8 r
      | _ => []
    else match rest with
      | c1 :: c2 :: c3 :: r =>
        Char.ofNat ((b.toNat % 8) * 262144 + (c1.toNat % 64) * 4096 + (c2.toNat % 64) * 64 + c3.toNat % 64) :: decodeUtf8 r
      | _ => []

/-- `strings.Index(s, pat)` plus an offset `i` (index of the head of `s`). -/
def indexOf (pat : Txt) : Txt → Nat → Option Nat
  | [], i => if pat.isEmpty then some i else none
  | c :: r, i => if pat.isPrefixOf (c :: r) then some i else indexOf pat r (i + 1)

/-- `includePathRange` (fix-link-range.diff): the path's own text on the directive's line. -/
def includePathRange (doc : Txt) (inc : Include) : LRange :=
  let whole := astRangeToProtocol (lines doc) inc.range
  if inc.range.start.line = 0 then whole else
  match (lines doc)[inc.range.start.line - 1]? with
  | none => whole
  | some line =>
    match indexOf "include".toList line 0 with
    | none => whole
    | some kw =>
      let path := decodeUtf8 inc.path
      match indexOf path (line.drop (kw + 7)) (kw + 7) with
      | none => whole
      | some p =>
        let st := u16len (line.take p)
        ⟨UInt32.ofNat (inc.range.start.line - 1), UInt32.ofNat st,
         UInt32.ofNat (inc.range.start.line - 1), UInt32.ofNat (st + u16len path)⟩

/-- `DocumentLink` ranges. -/
def documentLinks (fx : Fixes) (doc : Txt) (j : Journal) : List LRange :=
  if doc = [] then [] else
  j.includes.map fun i => if fx.link then includePathRange doc i else astRangeToProtocol (lines doc) i.range

/-! ### Diagnostics -/

/-- The three loops of analyze / publishDiagnostics, in publication order:
    parse errors (a point), analyzer diagnostics, load errors. -/
def diagnostics (lns : List Txt) (perrs : List ParseError) (analyzer : List Rng) (load : List Rng) : List LRange :=
  perrs.map (fun e => astRangeToProtocol lns ⟨e.pos, e.pos⟩) ++
  analyzer.map (astRangeToProtocol lns) ++
  -- `mapper.lineColumn(max(1, line), max(1, column))`
  load.map (fun r => astRangeToProtocol lns
    ⟨⟨max 1 r.start.line, max 1 r.start.col, 0⟩, ⟨max 1 r.stop.line, max 1 r.stop.col, 0⟩⟩)

/-! ### Folding -/

structure Fold where
  s : UInt32
  e : UInt32
  comment : Bool       -- Kind: comment / region
deriving Repr, DecidableEq, Inhabited, BEq

/-- `findTransactionFolds`. -/
def txFold (fx : Fixes) (tx : Transaction) : Option Fold :=
  if tx.postings.isEmpty then none
  else
    let s := m1 tx.range.start.line
    let e := m1 tx.range.stop.line
    -- fix-fold-ranges.diff: the token after the transaction starts a line of its own
    let e := if fx.fold && tx.range.stop.col == 1 && e > s then e - 1 else e
    if e > s then some ⟨s, e, false⟩ else none

def transactionFolds (fx : Fixes) (j : Journal) : List Fold := j.transactions.filterMap (txFold fx)

/-- `unicode.IsSpace`. -/
def isSpaceGo (c : Char) : Bool :=
  let n := c.val.toNat
  (9 ≤ n && n ≤ 13) || n == 0x20 || n == 0x85 || n == 0xA0 || n == 0x1680 ||
  (0x2000 ≤ n && n ≤ 0x200A) || n == 0x2028 || n == 0x2029 || n == 0x202F || n == 0x205F || n == 0x3000

/-- `strings.TrimSpace`. -/
def trimSpace (l : Txt) : Txt := ((l.dropWhile isSpaceGo).reverse.dropWhile isSpaceGo).reverse

def isBlankTab (c : Char) : Bool := c == ' ' || c == '\t'

def directivePrefixes : List Txt :=
  ["account ", "commodity ", "decimal-mark ", "include ", "alias ", "payee ", "P ", "D ", "Y ", "tag "].map String.toList

/-- `isDirectiveLine`. -/
def isDirectiveLine (l : Txt) : Bool :=
  let t := l.dropWhile isBlankTab
  directivePrefixes.any (fun p => p.isPrefixOf t)

/-- The inner loop of `findDirectiveFolds`: `j` is the index of the head of `rest`. -/
def indentedEnd : List Txt → Nat → Nat → Nat
  | [], _, e => e
  | n :: rest, j, e =>
    if n.head? == some ' ' || n.head? == some '\t' then
      indentedEnd rest (j + 1) (if trimSpace n ≠ [] then j else e)
    else e

def isIndentedLine (l : Txt) : Bool := l.head? == some ' ' || l.head? == some '\t'

def directiveFoldsFrom (fx : Fixes) : List Txt → Nat → List Fold
  | [], _ => []
  | l :: rest, i =>
    -- fix-fold-ranges.diff: an indented line never starts a directive fold
    (if isDirectiveLine l && !(fx.fold && isIndentedLine l) then
      let e := indentedEnd rest (i + 1) i
      if e > i then [⟨UInt32.ofNat i, UInt32.ofNat e, false⟩] else []
     else []) ++ directiveFoldsFrom fx rest (i + 1)

/-- `findDirectiveFolds`. -/
def directiveFolds (fx : Fixes) (doc : Txt) : List Fold := directiveFoldsFrom fx (lines doc) 0

def isCommentLine (l : Txt) : Bool :=
  let t := trimSpace l
  t.head? == some ';' || t.head? == some '#'

def closeBlock (start : Option (Nat × Bool)) (i : Nat) : List Fold :=
  match start with
  | some (s, _) => if i - 1 > s then [⟨UInt32.ofNat s, UInt32.ofNat (i - 1), true⟩] else []
  | none => []

/-- `findCommentBlockFolds`: maximal runs of comment lines, reported when longer than one line.
    `start` = first line of the run being read and whether that line is indented; with
    fix-fold-ranges.diff a run never mixes indented and top-level comment lines. -/
def commentFoldsFrom (fx : Fixes) : List Txt → Nat → Option (Nat × Bool) → List Fold
  | [], i, start => closeBlock start i
  | l :: rest, i, start =>
    if isCommentLine l then
      match start with
      | none => commentFoldsFrom fx rest (i + 1) (some (i, isIndentedLine l))
      | some (s, cls) =>
        if fx.fold && cls != isIndentedLine l then
          closeBlock start i ++ commentFoldsFrom fx rest (i + 1) (some (i, isIndentedLine l))
        else commentFoldsFrom fx rest (i + 1) (some (s, cls))
    else closeBlock start i ++ commentFoldsFrom fx rest (i + 1) none

def commentFolds (fx : Fixes) (doc : Txt) : List Fold := commentFoldsFrom fx (lines doc) 0 none

/-- `FoldingRanges`. -/
def foldingRanges (fx : Fixes) (doc : Txt) (j : Journal) : List Fold :=
  if doc = [] then [] else transactionFolds fx j ++ directiveFolds fx doc ++ commentFolds fx doc

/-! ### Completion edit range -/

def isDigitC (c : Char) : Bool := '0' ≤ c && c ≤ '9'

/-- `CompletionContextType` as sent by the harness (1 account, 2 payee, 3 commodity, 4 tag name). -/
def ctxOf : Nat → HL.Completion.Ctx
  | 1 => .account
  | 2 => .payee
  | 3 => .commodity
  | 4 => .tagName
  | _ => .unknown

/-- `calculateTextEditRange` (as repaired: it looks at the text before the cursor only and cuts
    where `extractQueryText` cuts).  The line-level function is the completion builder's
    transcription `HL.Completion.editRange` (HL/Model/Completion.lean); here it is placed on the
    cursor's line and converted to `uint32`. -/
def textEditRange (doc : Txt) (c : Cur) (ctx : Nat) : Option LRange :=
  match (lines doc)[c.line]? with
  | none => none
  | some line =>
    (HL.Completion.editRange (ctxOf ctx) line c.char).map fun se =>
      ⟨UInt32.ofNat c.line, UInt32.ofNat se.1, UInt32.ofNat c.line, UInt32.ofNat c.char⟩

/-- `Completion`: the edit range carried by the items (none when there are no items). -/
def completionEdits (doc : Txt) (c : Cur) (ctx nitems : Nat) : List LRange :=
  if nitems = 0 then [] else (textEditRange doc c ctx).toList

/-- `InlineCompletion`: the item's range. -/
def inlineEdits (c : Cur) (nitems : Nat) : List LRange :=
  if nitems = 0 then [] else [⟨UInt32.ofNat c.line, 0, UInt32.ofNat c.line, UInt32.ofNat c.char⟩]

end HL.Ranges
