/-
  Model of the lookup of a transaction's description on its header line
  (repo_patches/fix-payee-range.diff):

    internal/server/hover.go   descriptionColumn, isDateRune, and the part of
                               (*columnMapper).payeeRange that picks the header line

  The syntax tree has no position for the description; the server reads the header line of the
  text the tree was parsed from the way the parser reads a header: from the end of the date over
  blanks or tabs, an optional `=DATE`, an optional status mark, an optional `(code)`, to the
  first character of the description (a trimmed token: the white space in front of it is not
  part of it).  A line is a `List Char` (documents are valid UTF-8; `[]rune(line)`), columns
  count runes from 1 like the columns of the tree.

  The three server models (HL/Model/Ranges.lean, Refs.lean, Hover.lean) build their
  `payeeRange` on `payeeStart`; without a text for the line (`none`) they fall back to
  `estimatePayeeRange`, the behaviour of the tree as pinned.
-/
import HL.Model.Text
namespace HL.PayeeRange
open HL HL.Text

/-- `runes[i] == ' ' || runes[i] == '\t'` (the lexer's `skipSpaces`). -/
def isBlank (c : Char) : Bool := c == ' ' || c == '\t'

/-- `'0' <= r && r <= '9'`. -/
def isDigit (c : Char) : Bool := decide ('0' ≤ c) && decide (c ≤ '9')

/-- `isDateRune`: what the lexer's `scanDate` consumes. -/
def isDateRune (c : Char) : Bool := isDigit c || c == '-' || c == '/' || c == '.'

/-- `unicode.IsSpace`. -/
def isSpace (c : Char) : Bool :=
  let n := c.val.toNat
  (9 ≤ n && n ≤ 13) || n == 0x20 || n == 0x85 || n == 0xA0 || n == 0x1680 ||
  (0x2000 ≤ n && n ≤ 0x200A) || n == 0x2028 || n == 0x2029 || n == 0x202F || n == 0x205F || n == 0x3000

/-- The closure `skipBlanks` of `descriptionColumn`; a stage works on the rest of the line
    (`runes[i:]`). -/
def skipBlanks (s : Txt) : Txt := s.dropWhile isBlank

/-- Blanks, then an optional `=` with an optional secondary date: the date is consumed only when
    a digit follows the blanks after `=` (anything else is left for the next stages, as the
    parser goes on after a failed `parseDate`). -/
def afterDate2 (s : Txt) : Txt :=
  match skipBlanks s with
  | [] => []
  | c :: r =>
    if c == '=' then
      match skipBlanks r with
      | [] => []
      | d :: r' => if isDigit d then (d :: r').dropWhile isDateRune else d :: r'
    else c :: r

/-- Blanks, then an optional status mark. -/
def afterStatus (s : Txt) : Txt :=
  match skipBlanks s with
  | [] => []
  | c :: r => if c == '*' || c == '!' then r else c :: r

/-- Blanks, then an optional code: everything up to and including the closing parenthesis;
    `none` when the line ends first (the code token runs to the end of the line and there is no
    description). -/
def afterCode (s : Txt) : Option Txt :=
  match skipBlanks s with
  | [] => some []
  | c :: r =>
    if c == '(' then
      match r.dropWhile (fun x => x != ')') with
      | [] => none
      | _ :: r' => some r'
    else some (c :: r)

/-- The rest of the line from the first character of the description on, given the rest of the
    line after the date; `none`: the line ends before a description. -/
def descriptionRest (s : Txt) : Option Txt :=
  match afterCode (afterStatus (afterDate2 s)) with
  | none => none
  | some r =>
    match r.dropWhile isSpace with
    | [] => none
    | c :: r' => some (c :: r')

/-- `descriptionColumn(line, dateEnd)`: `dateEnd` is the column just past the date. -/
def descriptionColumn (ln : Txt) (dateEnd : Nat) : Option Nat :=
  if dateEnd = 0 then none
  else if ln.length < dateEnd - 1 then none
  else (descriptionRest (ln.drop (dateEnd - 1))).map fun r => ln.length - r.length + 1

/-- The line lookup of `(*columnMapper).payeeRange`: the column where the description starts on
    line `line` (1-based) of the mapper's text; `none` = fall back to the estimate. -/
def payeeStart (lns : List Txt) (line dateEnd : Nat) : Option Nat :=
  if line = 0 then none else
  match lns[line - 1]? with
  | some ln => descriptionColumn ln dateEnd
  | none => none

end HL.PayeeRange
