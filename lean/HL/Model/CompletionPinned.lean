/-
  internal/server/completion.go BEFORE the completion repairs — kept only for the kernel-checked
  `pinned_*_counterexample` theorems of HL/Props/C16.lean and HL/Props/C08.lean.  Nothing here is
  compared with the code any more (the code it transcribes is gone); the definitions are the
  former contents of HL/Model/Completion.lean, verbatim, and reuse its helpers (of these
  `commodityQuery` / `findCommodityStart` now skip a status mark with the indent; no witness has
  one in front of an amount).

  `fx : Bool`: `false` = the tree as pinned, `true` = with the first repair (upstream a42bf24,
  range-query-mismatch: `calculateTextEditRange` looks at the text before the cursor only, a
  header line without a blank gets an empty range, the payee query skips status marks).
  All other repairs are absent in both:
  * `determineContext`        a posting line needs four blanks or a tab        (short-indent)
  * `extractAccountPrefix`    cut at the last blank; `accountsForPrefix` looks it up in the
                              case-sensitive by-prefix index                     (byprefix-narrowing)
  * `extractQuery`/`editStart` everything after the indent / the date            (fragment-includes-mark)
                              nothing in tag context                             (tag-fragment-ignored)
  * `fuzzyItemScore`          trailing colon dropped, every segment considered   (segment-colon)
  * `parsePosting`            the separator is sought right after the indent      (status-mark-separator)
  * ranking                   `sort.Slice`, any sorted permutation (`IsRanking`) (limit-prefix-tie-order)
-/
import HL.Model.Completion
namespace HL.Completion.Pinned
open HL.Text HL.Completion

/-- `parsePosting` as pinned: only the indent is skipped before the separator is sought. -/
def parsePosting (line : Str) : Parts :=
  let trimmed := trimLeftP isBlankTab line
  let indent := line.length - trimmed.length
  match findDoublespace trimmed with
  | none => ⟨indent, none, 0, 0⟩
  | some k =>
    let afterSep := trimmed.drop k
    let afterAccount := trimLeftP isBlank afterSep
    ⟨indent, some k, afterSep.length - afterAccount.length, findAmountEnd afterAccount⟩

/-- `determinePostingContext` as pinned. -/
def determinePostingContext (line : Str) (col : Nat) : Ctx :=
  let p := parsePosting line
  let posInContent : Int := (col : Int) - p.indent
  if posInContent < 0 then .account else
  match p.sep with
  | none => .account
  | some k =>
    if posInContent ≤ k then .account else
    let rel : Int := posInContent - k - p.skip
    if rel ≤ p.amountEnd then .account else .commodity

/-- `determineCompletionContext` as pinned. -/
def determineContext (line : Str) (ch : Nat) (trig : Str) : Ctx :=
  let col := takeU16 line ch
  let t := determineTagContext line col
  if t ≠ .unknown then t else
  if trig = [':'] then .account else
  if trig = ['@'] ∨ trig = ['='] then .commodity else
  if line = [] then .date else
  if hasPrefix line directiveAccount then .account else
  if hasPrefix line directiveCommodity then .commodity else
  if hasPrefix line directiveApplyAccount then .account else
  if hasPrefix line fourBlanks || hasPrefix line ['\t'] then determinePostingContext line col else
  match line with
  | c :: _ => if isDigit c then .payee else .date
  | [] => .date

/-- `extractAccountPrefix` as pinned. -/
def extractAccountPrefix (line : Str) (col : Nat) : Str :=
  let before := trimSpace (line.take col)
  match lastIndexP (· == ':') before with
  | none => []
  | some lastColon =>
    match lastIndexP isBlankTab (before.take lastColon) with
    | none => before.take (lastColon + 1)
    | some start => (before.take (lastColon + 1)).drop (start + 1)

/-- `getAccountsForPrefix` as pinned. -/
def accountsForPrefix (t : Table) (pre : Str) : List Str :=
  if pre = [] then t.accounts else
  match t.byPrefix.lookup pre with
  | some l => l
  | none => t.accounts

def labelsFor (t : Table) (c : Ctx) (line : Str) (col : Nat) : List Str :=
  match c with
  | .account => accountsForPrefix t (extractAccountPrefix line col)
  | .payee => t.payees
  | .commodity => t.commodities
  | .tagName => t.tags
  | .tagValue => (t.tagValues.lookup (extractCurrentTagName line col)).getD []
  | .date => []
  | .unknown => t.accounts

/-- `extractQueryText` as pinned. -/
def extractQuery (fx : Bool) (c : Ctx) (line : Str) (col : Nat) : Str :=
  let before := line.take col
  match c with
  | .account =>
    match cutPrefix before directiveAccount with
    | some a => a
    | none => match cutPrefix before directiveApplyAccount with
      | some a => a
      | none => trimLeftP isBlankTab before
  | .payee =>
    match indexOf ' ' before with
    | none => []
    | some k => trimLeftP (if fx then isPayeeSkip else isBlank) (before.drop (k + 1))
  | .commodity =>
    match cutPrefix before directiveCommodity with
    | some a => a
    | none => commodityQuery before
  | _ => []

/-- Start of the range of `calculateTextEditRange` as pinned. -/
def editStart (fx : Bool) (c : Ctx) (line : Str) (col : Nat) : Option Nat :=
  let before := line.take col
  let ref := if fx then before else line
  match c with
  | .account =>
    if hasPrefix ref directiveAccount then some directiveAccount.length
    else if hasPrefix ref directiveApplyAccount then some directiveApplyAccount.length
    else some (col - (trimLeftP isBlankTab before).length)
  | .commodity =>
    if hasPrefix ref directiveCommodity then some directiveCommodity.length
    else some (findCommodityStart ref col)
  | .payee =>
    match indexOf ' ' before with
    | none => some (if fx then col else 0)
    | some k => some (k + 1 + ((before.drop (k + 1)).takeWhile isPayeeSkip).length)
  | _ => none

def editRange (fx : Bool) (c : Ctx) (line : Str) (ch : Nat) : Option (Nat × Nat) :=
  (editStart fx c line (takeU16 line ch)).map fun s => (u16len (line.take s), ch)

/-- The fuzzy branch of `filterAndScoreFuzzyMatch` as pinned. -/
def fuzzyItemScore (lower : Char → Char) (q : Str) (l : Str) : Nat :=
  let s1 := if ':' ∈ l then fuzzyScoreBySegments lower l (trimColon q) else 0
  if s1 > 0 then s1 else fuzzyScore lower l q

def filterAndScore (lower : Char → Char) (items : List Str) (q : Str) (fuzzy : Bool) : List Scored :=
  if q = [] then items.map fun l => ⟨l, fuzzyScoreEmptyPattern⟩
  else if !fuzzy then filterByPrefix lower items q
  else items.filterMap fun l =>
    let s := fuzzyItemScore lower q l
    if s > 0 then some ⟨l, s⟩ else none

def scoredFor (lower : Char → Char) (fx : Bool) (t : Table) (st : Settings) (line : Str) (ch : Nat) (trig : Str) : List Scored :=
  let c := determineContext line ch trig
  let col := takeU16 line ch
  filterAndScore lower (labelsFor t c line col) (extractQuery fx c line col) st.fuzzy

def finish (fx : Bool) (st : Settings) (line : Str) (ch : Nat) (trig : Str) (ranked : List Scored) : Result :=
  let c := determineContext line ch trig
  { ctx := c, query := extractQuery fx c line (takeU16 line ch), range := editRange fx c line ch,
    items := truncate (normMax st.maxRaw) ranked }

def complete (lower : Char → Char) (fx : Bool) (t : Table) (st : Settings) (line : Str) (ch : Nat) (trig : Str) : Result :=
  let c := determineContext line ch trig
  finish fx st line ch trig (rankExec (countsFor t c) (scoredFor lower fx t st line ch trig))

end HL.Completion.Pinned
