/-
  Model of the second derived cache of internal/server: `Server.payeeTemplatesCache`
  (inline_completion.go getPayeeTemplates; server.go nextDocVersion / dropDocVersion →
  dropDocCaches; DidSave).  All accesses are on the handler thread (serial dispatch), so there
  are no background steps: a state machine over notifications and inline-completion requests.

  `templates : Text → Tpl` is a parameter (what the analyzer computes from the text that the
  request reads: the document's current text, possibly through a fresh include tree).
  Core Lean only.
-/
namespace HL.Derived

def upd {α : Type} (f : Nat → α) (u : Nat) (v : α) : Nat → α := fun x => if x = u then v else f x

structure St (Text Tpl : Type) where
  /-- Server.documents -/
  docs : Nat → Option Text
  /-- Server.payeeTemplatesCache -/
  cache : Nat → Option Tpl

inductive Ev (Text : Type)
  /-- didOpen / didChange: store the text; nextDocVersion → dropDocCaches deletes the entry
      (`dropOnChange = false` is the pinned code, which kept it until the next save) -/
  | change (u : Nat) (t : Text)
  /-- didClose: dropDocVersion → dropDocCaches -/
  | close (u : Nat)
  /-- didSave -/
  | save (u : Nat)
  /-- textDocument/inlineCompletion on `u`: getPayeeTemplates fills the cache if empty -/
  | inline (u : Nat)

variable {Text Tpl : Type}

def St.init : St Text Tpl := ⟨fun _ => none, fun _ => none⟩

def step (templates : Text → Tpl) (dropOnChange : Bool) (σ : St Text Tpl) : Ev Text → St Text Tpl
  | .change u t => { docs := upd σ.docs u (some t),
                     cache := if dropOnChange then upd σ.cache u none else σ.cache }
  | .close u => { docs := upd σ.docs u none,
                  cache := if dropOnChange then upd σ.cache u none else σ.cache }
  | .save u => { σ with cache := upd σ.cache u none }
  | .inline u =>
    match σ.docs u, σ.cache u with
    | some t, none => { σ with cache := upd σ.cache u (some (templates t)) }
    | _, _ => σ

def run (templates : Text → Tpl) (dropOnChange : Bool) (es : List (Ev Text)) : St Text Tpl :=
  es.foldl (step templates dropOnChange) St.init

/-- The templates an inline-completion request on `u` works with in state `σ`
    (after the request's own `getPayeeTemplates`). -/
def served (templates : Text → Tpl) (σ : St Text Tpl) (u : Nat) : Option Tpl :=
  match σ.docs u, σ.cache u with
  | some t, none => some (templates t)
  | some _, some c => some c
  | none, _ => none

end HL.Derived
