import HL.Model.Ast
import HL.Model.Utf8
import HL.Model.Classes
/-!
  Executable model of `internal/parser/lexer.go` (all of it) — DESIGN 3.6, 7.C03 L1–L3, 7.C06.

  The Go `Lexer{input, pos, line, column, atStart}` is the zipper `Z`:
    `before` = `input[:pos]` **reversed** (head = `input[pos-1]`; look-behind such as
               `followsAmountNumber` reads it), `after` = `input[pos:]`, `pos = before.length`.
  Every Go `for` loop that moves `l.pos` is structural recursion on an explicit fuel argument
  (`advWhileF`, `scanAccountF`, `scanNumberF`, `looksLikeAccountF`, `lexF`) wrapped with
  fuel = number of remaining bytes; pure byte look-aheads are structural recursion on `after`.
  That the fuel is never exhausted is proved in `HL/Lemmas/Lexer.lean` (`*_fuel`), not assumed.

  Every scan function but two returns `mkTok ty value s e`: the token with `Pos = s.position`,
  `End = e.position`, and the new lexer state `e` — in lexer.go every such token is built from a
  `startPos := l.position()` taken at some state and `End: l.position()` of the final state.
  `scanAccount` and `scanText` return `mkTokAt ty value s stop e`: their `End` is the position
  right behind the last character of the lexeme (`stop`), which may lie before the state `e` the
  lexer is left in (the scan goes on over a single blank behind an account name, and over the
  white space behind a text, exactly as before the `fix:` commit for trailing blanks in ranges;
  the old token ends are kept in HL/Model/LexerPinned.lean, `HL.Lex.PinnedTrail`).

  Line ends: `atEol` = `(*Lexer).atLineEnd` — a line feed, or a carriage return directly followed
  by a line feed; the loops that run to the end of the line are `advLineF` (they stop there), and
  `scanNewline` takes `"\r\n"` as one token.  A carriage return not followed by a line feed is an
  ordinary byte.  (Before the `fix:` commit for CRLF line ends only LF ended a line: that lexer is
  kept, as far as it differs, in HL/Model/LexerPinned.lean.)

  Transcribed, not repaired: `scanDirectiveOrAccount` / `scanCommodityOrText` rewind `pos` and
  `column`; `scanText` reports the `Pos` where the scan started although its value is trimmed on
  the left too (only white space other than blank and tab can stand there: `skipSpaces` ran).

  Correspondence: op `lex.tokens` (whole token streams: type, value, Pos, End).
-/
namespace HL.Lex
open HL HL.Utf8

/-- ASCII literal as bytes; reduces in the kernel (unlike `String.toUTF8`). -/
def asc (s : String) : Bytes := s.toList.map fun c => UInt8.ofNat c.toNat

structure Z where
  before : Bytes      -- input[:pos], reversed
  after : Bytes       -- input[pos:]
  line : Nat
  col : Nat
  atStart : Bool
deriving Repr, DecidableEq, Inhabited

namespace Z
/-- `NewLexer`. -/
def init (input : Bytes) : Z := ⟨[], input, 1, 1, true⟩
/-- `l.pos`. -/
@[inline] def off (z : Z) : Nat := z.before.length
/-- `l.position()`. -/
@[inline] def position (z : Z) : Pos := ⟨z.line, z.col, z.before.length⟩
/-- `l.input`. -/
def input (z : Z) : Bytes := z.before.reverse ++ z.after
/-- `l.pos += w; l.column++`. -/
def bump (z : Z) (w : Nat) : Z :=
  { z with before := (z.after.take w).reverse ++ z.before, after := z.after.drop w, col := z.col + 1 }
end Z

/-- `l.peek()`: 0 at end of input. -/
@[inline] def peek (z : Z) : UInt8 := z.after.headD 0

/-- `l.peekRune()`. -/
def peekRune (z : Z) : Nat :=
  match z.after with
  | [] => 0
  | b :: t => (decodeRune (b :: t)).1

/-- `l.advance()`: one rune (an invalid byte counts as one rune of width 1). -/
def advance (z : Z) : Z :=
  match z.after with
  | [] => z
  | b :: t => z.bump (decodeRune (b :: t)).2

/-- `l.input[s.pos:e.pos]` for a state `e` reached from `s`. -/
def between (s e : Z) : Bytes := (e.before.take (e.before.length - s.before.length)).reverse

def mkTok (ty : TokType) (val : Bytes) (s e : Z) : Token × Z :=
  (⟨ty, val, s.position, e.position⟩, e)

/-- A token whose `End` is `stop`, a position at or before the state `e` the lexer is left in. -/
def mkTokAt (ty : TokType) (val : Bytes) (s : Z) (stop : Pos) (e : Z) : Token × Z :=
  (⟨ty, val, s.position, stop⟩, e)

/-! ### byte classes -/
@[inline] def isWhitespace (ch : UInt8) : Bool := ch == 0x20 || ch == 0x09 || ch == 0x0A || ch == 0x0D
@[inline] def isDigit (ch : UInt8) : Bool := 0x30 ≤ ch && ch ≤ 0x39
@[inline] def isLetter (ch : UInt8) : Bool := (0x61 ≤ ch && ch ≤ 0x7A) || (0x41 ≤ ch && ch ≤ 0x5A)
/-- `$ € £ ¥ ₽ ₴` -/
def isCurrencySymbol (r : Nat) : Bool :=
  r == 0x24 || r == 0x20AC || r == 0xA3 || r == 0xA5 || r == 0x20BD || r == 0x20B4
/-- `\t \n \r ; @ = ( ) [ ]` -/
def isAccountTerminator (r : Nat) : Bool :=
  r == 0x09 || r == 0x0A || r == 0x0D || r == 0x3B || r == 0x40 || r == 0x3D ||
  r == 0x28 || r == 0x29 || r == 0x5B || r == 0x5D

def directives : List Bytes := [
  asc "account", asc "alias", asc "apply", asc "assert", asc "bucket", asc "capture",
  asc "check", asc "comment", asc "commodity", asc "D", asc "decimal-mark", asc "def",
  asc "define", asc "end", asc "eval", asc "expr", asc "include", asc "payee", asc "P",
  asc "tag", asc "test", asc "Y", asc "year"]
def isDirective (w : Bytes) : Bool := directives.contains w

/-! ### `strings.TrimSpace` (Go 1.24 source, transcribed on bytes) -/
@[inline] def asciiSpace (c : UInt8) : Bool :=
  c == 0x09 || c == 0x0A || c == 0x0B || c == 0x0C || c == 0x0D || c == 0x20

/-- `strings.TrimLeftFunc(s, unicode.IsSpace)`: `indexFunc` ranges over runes (an invalid byte is
    U+FFFD of width 1, not a space). -/
def trimLeftFuncF : Nat → Bytes → Bytes
  | 0, s => s
  | _, [] => []
  | n+1, b :: t =>
    let (r, w) := decodeRune (b :: t)
    if isSpaceRune r then trimLeftFuncF n ((b :: t).drop w) else b :: t

/-- `lastIndexFunc(s, unicode.IsSpace, false)` on the reversed string; `none` = -1. -/
def lastIndexNotSpaceF : Nat → Bytes → Option Nat
  | 0, _ => none
  | _, [] => none
  | n+1, b :: t =>
    let (r, size) := decodeLastRuneRev (b :: t)
    let rest := (b :: t).drop size
    if !isSpaceRune r then some rest.length else lastIndexNotSpaceF n rest

/-- `strings.TrimRightFunc(s, unicode.IsSpace)`. -/
def trimRightFunc (s : Bytes) : Bytes :=
  match lastIndexNotSpaceF s.length s.reverse with
  | none => s.take 0                    -- i = -1, i++ → s[0:0]
  | some i =>
    if s.getD i 0 ≥ 0x80 then s.take (i + (decodeRune (s.drop i)).2) else s.take (i + 1)

/-- Second loop of TrimSpace, on the reversed `s[start:]` (`rs`): strips ASCII blanks from the
    end; at a non-ASCII byte hands `s[start:stop]` to `TrimRightFunc`. -/
def trimSpaceRight : Bytes → Bytes
  | [] => []
  | c :: t =>
    if c ≥ 0x80 then trimRightFunc (c :: t).reverse
    else if asciiSpace c then trimSpaceRight t
    else (c :: t).reverse

def trimSpace : Bytes → Bytes
  | [] => []
  | c :: t =>
    if c ≥ 0x80 then trimRightFunc (trimLeftFuncF (c :: t).length (c :: t))
    else if asciiSpace c then trimSpace t
    else trimSpaceRight (c :: t).reverse

/-! ### loops -/

/-- `for l.pos < len(l.input) && p(l.peek()) { l.advance() }` -/
def advWhileF (p : UInt8 → Bool) : Nat → Z → Z
  | 0, z => z
  | n+1, z =>
    match z.after with
    | [] => z
    | b :: _ => if p b then advWhileF p n (advance z) else z
def advWhile (p : UInt8 → Bool) (z : Z) : Z := advWhileF p z.after.length z

/-- blank or tab: what `skipSpaces` steps over between the tokens of a line -/
@[inline] def isBlank (c : UInt8) : Bool := c == 0x20 || c == 0x09

/-- `l.skipSpaces()` -/
def skipSpaces (z : Z) : Z := advWhile isBlank z

/-- `if l.pos < len(l.input) && p(l.peek()) { l.advance() }` -/
def advIf (p : UInt8 → Bool) (z : Z) : Z :=
  match z.after with
  | [] => z
  | c :: _ => if p c then advance z else z

/-! ### look-ahead / look-behind predicates (pure) -/

/-- `i < len(l.input) && l.isDigit(l.input[i])` for the first byte of `a = l.input[i:]` -/
def headIsDigit : Bytes → Bool
  | [] => false
  | d :: _ => isDigit d

/-- `i < len(l.input) && l.input[i] == c` for the first byte of `a = l.input[i:]` -/
def headIs (c : UInt8) : Bytes → Bool
  | [] => false
  | x :: _ => x == c

@[inline] def isSign (c : UInt8) : Bool := c == 0x2B || c == 0x2D

/-- `l.atLineEnd()` on `l.input[l.pos:]`: a line feed, or a carriage return directly followed
    by a line feed (a carriage return not followed by a line feed is an ordinary byte). -/
def atEol (a : Bytes) : Bool :=
  match a with
  | [] => false
  | c :: t => c == 0x0A || (c == 0x0D && headIs 0x0A t)

/-- `for l.pos < len(l.input) && p(l.peek()) && !l.atLineEnd() { l.advance() }`: the loops that
    run to the end of the line (`scanComment`, `scanCode`, `scanIndent`, `scanQuotedCommodity`,
    `scanText`). -/
def advLineF (p : UInt8 → Bool) : Nat → Z → Z
  | 0, z => z
  | n+1, z =>
    match z.after with
    | [] => z
    | b :: t => if p b && !atEol (b :: t) then advLineF p n (advance z) else z
def advLine (p : UInt8 → Bool) (z : Z) : Z := advLineF p z.after.length z


/-- exponent look-ahead of `scanNumber` on `l.input[l.pos+1:]`: `nextPos` steps over one sign,
    then a digit must follow. -/
def expAhead : Bytes → Bool
  | [] => false
  | s :: r2 => if isSign s then headIsDigit r2 else isDigit s

/-- `l.looksLikeAccount()` on `l.input[l.pos:]`. -/
def looksLikeAccountF : Nat → Bytes → Bool → Bool
  | 0, _, hasColon => hasColon
  | _, [], hasColon => hasColon
  | n+1, b :: t, hasColon =>
    let (r, size) := decodeRune (b :: t)
    if r == 0x3A then looksLikeAccountF n ((b :: t).drop size) true
    else if r == 0x20 then
      if headIs 0x20 t then hasColon else looksLikeAccountF n ((b :: t).drop size) hasColon
    else if isAccountTerminator r then hasColon
    else looksLikeAccountF n ((b :: t).drop size) hasColon
def looksLikeAccount (a : Bytes) : Bool := looksLikeAccountF a.length a false

/-- loop of `looksLikeVirtualAccount` from `l.pos+1`. -/
def lvaGo : Bytes → Bool
  | [] => false
  | c :: t => if c == 0x29 || c == 0x0A then false else if c == 0x3A then true else lvaGo t
def looksLikeVirtualAccount (a : Bytes) : Bool := lvaGo (a.drop 1)

/-- `l.looksLikeDate()`.  After the guard `l.pos+8 > len(l.input)` every index the Go code
    reads (`pos+0 … pos+7`) is in range, so no read can panic (`looksLikeDateChk` below is the
    same function with checked reads); with eight bytes available the tests `l.pos+6 < len` and
    `l.pos+secondSepPos >= len` are constant.  `a.getD i 0` = `l.input[l.pos+i]`. -/
def looksLikeDateCore (a : Bytes) : Bool :=
  isDigit (a.getD 0 0) && isDigit (a.getD 1 0) && isDigit (a.getD 2 0) && isDigit (a.getD 3 0) &&
  (a.getD 4 0 == 0x2D || a.getD 4 0 == 0x2F || a.getD 4 0 == 0x2E) &&
  isDigit (a.getD 5 0) &&
  (if isDigit (a.getD 6 0) then a.getD 7 0 == a.getD 4 0 else a.getD 6 0 == a.getD 4 0)

def looksLikeDate (a : Bytes) : Bool :=
  if a.length < 8 then false else looksLikeDateCore a

/-- The same function with every index read checked (`none` = index out of range = Go panic);
    `HL.Lex.looksLikeDateChk_eq` proves it never is. -/
def looksLikeDateChk (a : Bytes) : Option Bool :=
  if a.length < 8 then some false else
  match a[0]?, a[1]?, a[2]?, a[3]? with
  | some d0, some d1, some d2, some d3 =>
    if !(isDigit d0 && isDigit d1 && isDigit d2 && isDigit d3) then some false else
    match a[4]? with
    | none => none
    | some sep =>
      if sep != 0x2D && sep != 0x2F && sep != 0x2E then some false else
      match a[5]? with
      | none => none
      | some m =>
        if !isDigit m then some false else
        let second : Option Nat :=
          if 6 < a.length then (match a[6]? with | some x => some (if isDigit x then 7 else 6) | none => none)
          else some 6
        match second with
        | none => none
        | some sp =>
          if sp ≥ a.length then some false else
          match a[sp]? with
          | some c => some (c == sep)
          | none => none
  | _, _, _, _ => none

def nextIsCurrencySymbol (a : Bytes) : Bool :=
  match a.drop 1 with
  | [] => false
  | b :: t => isCurrencySymbol (decodeRune (b :: t)).1

def nextIsDigit (a : Bytes) : Bool := headIsDigit (a.drop 1)

/-- tail of `nextIsLetterCommodity` / `scanCommodityOrText`: a digit, or a sign followed by a digit. -/
def digitOrSignedDigit : Bytes → Bool
  | [] => false
  | ch :: r => isDigit ch || ((ch == 0x2D || ch == 0x2B) && headIsDigit r)

def nextIsLetterCommodity (a : Bytes) : Bool :=
  match a.drop 1 with
  | [] => false
  | c :: t => if !isLetter c then false else digitOrSignedDigit ((c :: t).dropWhile isLetter)

/-- `l.followsAmountNumber(l.pos)`: walks back over blanks. -/
def followsAmountNumber (z : Z) : Bool :=
  match z.before.dropWhile (· == 0x20) with
  | [] => false
  | b :: _ => isDigit b

def isAllUppercase (s : Bytes) : Bool := s.all (fun ch => 0x41 ≤ ch && ch ≤ 0x5A) && !s.isEmpty

def looksLikeCommodity (C : Classes) (value : Bytes) : Bool :=
  !value.isEmpty && (runes value).all fun r => C.isUpper r || C.isDigit r

/-! ### scan functions -/

def scanDate (z : Z) : Token × Z :=
  let e := advWhile (fun ch => isDigit ch || ch == 0x2D || ch == 0x2F || ch == 0x2E) z
  mkTok .date (between z e) z e

def scanStatus (z : Z) : Token × Z :=
  mkTok .status (encodeRune (peek z).toNat) z (advance z)

def scanCode (z : Z) : Token × Z :=
  let z1 := advance z
  let z2 := advLine (fun c => c != 0x29) z1
  let e := advIf (· == 0x29) z2
  mkTok .code (between z1 z2) z e

def scanComment (z : Z) : Token × Z :=
  let z1 := advance z
  let e := advLine (fun _ => true) z1
  mkTok .comment (between z1 e) z e

def scanIndent (z : Z) : Token × Z :=
  let e := advLine isWhitespace z
  mkTok .indent (between z e) z e

/-- `scanNewline`: `"\n"` or `"\r\n"` is ONE token (Pos at the CR, End behind the LF, value `"\n"`). -/
def scanNewline (z : Z) : Token × Z :=
  let z1 := advance (advIf (· == 0x0D) z)
  mkTok .newline [0x0A] z { z1 with line := z1.line + 1, col := 1, atStart := true }

/-- loop of `scanAccount`: current state and the state at `lastNonSpace`. -/
def scanAccountF : Nat → Z → Z → Z × Z
  | 0, z, l => (z, l)
  | n+1, z, l =>
    match z.after with
    | [] => (z, l)
    | b :: t =>
      let (r, size) := decodeRune (b :: t)
      if r == 0x20 then
        if headIs 0x20 t then (z, l) else scanAccountF n (z.bump size) l
      else if isAccountTerminator r then (z, l)
      else scanAccountF n (z.bump size) (z.bump size)

/-- `scanAccount`: value and `End` at the state `l` behind the last rune that is not a blank
    (`end = l.position()` in the loop); the lexer is left at `e`, possibly one blank further. -/
def scanAccount (z : Z) : Token × Z :=
  let (e, l) := scanAccountF z.after.length z z
  mkTokAt .account (between z l) z l.position e

/-- loop of `scanNumber` with `hasDigits`. -/
def scanNumberF : Nat → Z → Bool → Z
  | 0, z, _ => z
  | n+1, z, hasDigits =>
    match z.after with
    | [] => z
    | ch :: rest =>
      if isDigit ch then scanNumberF n (advance z) true
      else if ch == 0x2E || ch == 0x2C then scanNumberF n (advance z) hasDigits
      else if ch == 0x20 && headIsDigit rest then scanNumberF n (advance z) hasDigits
      else if (ch == 0x45 || ch == 0x65) && hasDigits then
        if expAhead rest then scanNumberF n (advIf isSign (advance z)) hasDigits else z
      else z

def scanNumber (z : Z) : Token × Z :=
  let e := scanNumberF z.after.length z false
  mkTok .number (between z e) z e

def scanCurrencySymbol (z : Z) : Token × Z :=
  let (r, size) := decodeRune z.after
  mkTok .commodity (encodeRune r) z (z.bump size)

def scanQuotedCommodity (z : Z) : Token × Z :=
  let z1 := advance z
  let z2 := advLine (fun c => c != 0x22) z1
  let e := advIf (· == 0x22) z2
  mkTok .commodity (between z1 z2) z e

def scanAt (z : Z) : Token × Z :=
  let z1 := advance z
  if headIs 0x40 z1.after then mkTok .atAt [0x40, 0x40] z (advance z1) else mkTok .at [0x40] z z1

def scanEquals (z : Z) : Token × Z :=
  let z1 := advance z
  if headIs 0x3D z1.after then mkTok .doubleEquals [0x3D, 0x3D] z (advance z1) else mkTok .equals [0x3D] z z1

def scanSign (z : Z) : Token × Z :=
  mkTok .sign (encodeRune (peek z).toNat) z (advance z)

/-- `End` of a text token scanned from `z` to `e`: right behind the last character of
    `lexeme = strings.TrimRightFunc(scanned, unicode.IsSpace)`, on the line of `z`, columns
    counted with `utf8.RuneCountInString`; where `scanned` is white space only (no lexeme) the
    token keeps what was scanned. -/
def textStop (z e : Z) : Pos :=
  let lexeme := trimRightFunc (between z e)
  if lexeme = [] then e.position
  else ⟨z.line, z.col + (runes lexeme).length, z.before.length + lexeme.length⟩

def scanText (z : Z) : Token × Z :=
  let e := advLine (fun ch => !(ch == 0x3B || ch == 0x7C)) z
  mkTokAt .text (trimSpace (between z e)) z (textStop z e) e

def scanDirectiveOrAccount (z : Z) : Token × Z :=
  let z1 := advWhile isLetter z
  let word := between z z1
  if isDirective word then mkTok .directive word z z1
  else
    -- the Go code goes on over digits and then rewinds `pos` and `column` to the start:
    -- the lexer state is `z` again
    if looksLikeAccount z.after then scanAccount z else scanText z

def scanCommodityOrText (C : Classes) (z : Z) : Token × Z :=
  let followsAmount := followsAmountNumber z
  let z1 := advWhile isLetter z
  let early : Bool :=
    z.before.length < z1.before.length && !z1.after.isEmpty && !followsAmount &&
    isAllUppercase (between z z1) && digitOrSignedDigit z1.after
  if early then mkTok .commodity (between z z1) z z1
  else
    let z2 := advWhile (fun c => isLetter c || isDigit c) z1
    let value := between z z2
    if looksLikeCommodity C value then mkTok .commodity value z z2
    else scanText z          -- `l.pos = start; l.column = startPos.Column`

/-- `l.scanPunct(ty, v)`: a one-character token `( ) [ ] |` that covers its character. -/
def punct (ty : TokType) (val : Bytes) (z : Z) : Token × Z :=
  mkTok ty val z (advance z)

/-- `scanInLine` behind `l.skipSpaces()`. -/
def scanInLineAt (C : Classes) (z : Z) : Token × Z :=
  match z.after with
  | [] => mkTok .eof [] z z
  | ch :: t =>
    let r := peekRune z
    if atEol (ch :: t) then scanNewline z
    else if ch == 0x3B then scanComment z
    else if ch == 0x28 then
      if looksLikeVirtualAccount z.after then punct .lparen [0x28] z else scanCode z
    else if ch == 0x29 then punct .rparen [0x29] z
    else if ch == 0x5B then punct .lbracket [0x5B] z
    else if ch == 0x5D then punct .rbracket [0x5D] z
    else if ch == 0x7C then punct .pipe [0x7C] z
    else if ch == 0x40 then scanAt z
    else if ch == 0x3D then scanEquals z
    else if ch == 0x2A || ch == 0x21 then scanStatus z
    else if isCurrencySymbol r then scanCurrencySymbol z
    else if ch == 0x22 then scanQuotedCommodity z
    else if ch == 0x2D || ch == 0x2B then
      if nextIsCurrencySymbol z.after || nextIsLetterCommodity z.after || nextIsDigit z.after then scanSign z
      else scanText z
    else if isDigit ch then
      if looksLikeDate z.after then scanDate z else scanNumber z
    else if isLetter ch || C.isLetter r then
      if looksLikeAccount z.after then scanAccount z else scanCommodityOrText C z
    else scanText z

def scanInLine (C : Classes) (z0 : Z) : Token × Z := scanInLineAt C (skipSpaces z0)

/-- `scanLineStart` behind `l.atStart = false`. -/
def scanLineStartAt (C : Classes) (z : Z) : Token × Z :=
  let p := peek z
  if p == 0x3B then scanComment z
  else if isWhitespace p && !atEol z.after then scanIndent z
  else if isDigit p then scanDate z
  else if isLetter p then scanDirectiveOrAccount z
  else scanInLine C z

def scanLineStart (C : Classes) (z0 : Z) : Token × Z := scanLineStartAt C { z0 with atStart := false }

/-- `(*Lexer).Next`. -/
def next (C : Classes) (z : Z) : Token × Z :=
  match z.after with
  | [] => mkTok .eof [] z z
  | _ :: _ =>
    if z.atStart && z.col == 1 then scanLineStart C z else scanInLine C z

/-! ### position shifts (statement of line-locality, C07) -/
def shiftPos (dl doff : Nat) (p : Pos) : Pos := ⟨p.line + dl, p.col, p.off + doff⟩
/-- the same token `dl` lines and `doff` bytes further down -/
def shiftTok (dl doff : Nat) (t : Token) : Token :=
  { t with pos := shiftPos dl doff t.pos, stop := shiftPos dl doff t.stop }

/-- Repeated `Next` up to and including the first EOF token. -/
def lexF (C : Classes) : Nat → Z → List Token
  | 0, _ => []
  | n+1, z =>
    let r := next C z
    if r.1.ty == .eof then [r.1] else r.1 :: lexF C n r.2

/-- The whole token stream of an input (harness `lexAll`). -/
def lexAll (C : Classes) (input : Bytes) : List Token := lexF C (input.length + 2) (Z.init input)

end HL.Lex
