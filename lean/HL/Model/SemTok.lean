/-
  Model of internal/server/semantic.go (entire file) and of the one line of
  internal/server/server.go that touches it (`DidClose`: `tokenCache.delete`).

  Go function                          model
  -----------------------------------  ------------------------------------------
  GetSemanticTokensLegend              legendTypes, legendMods
  mapTokenType                         mapTokenType
  lsputil.UTF16Len                     u16lenB           (on a byte string)
  isValidTagName                       isValidTagName    (unicode.IsLetter/IsDigit = `Classes`)
  leadingSpace                         leadWs
  lexemeSpan                           plainSpan         (byte offset of the first character, length)
  utf16Columns.at                      colAt / colF      (see below)
  extractTagTokensFromComment          extractTags / extractSpans / extractStep
  tokenizeForSemantics                 tokenize / tokGo / stepTok   (INPUT: the text and the lexer's token list)
  SemanticTokenEncoder.Encode          encodeGo          (UInt32, wrap-around kept)
  encodeTokens                         encodeTokens
  filterTokensByRange                  filterByRange
  computeSemanticTokensEdits           computeEdits
  semanticTokensCache {get,set,delete} Srv.cache / Srv.next, cacheSet, Cache.erase
  SemanticTokensFull / Range / FullDelta   step (.full / .range / .delta)
  DidOpen / DidChange (result only) / DidClose   step (.setDoc / .close)

  The lexer (parser/lexer.go) is NOT modelled here: `tokenize` takes the document text and the
  list of lexer tokens (`HL.Token`, up to and including the EOF token) as its input.
  `utf16Columns` is a cursor over the text (`off`, `col`) that is moved forward by `at(off)` and
  starts again from the beginning when asked for an offset before `off`; whatever was asked
  before, `at(off)` returns the same value: decode the text rune by rune from its start, stop at
  the first rune that does not start before `off`, count the UTF-16 units of the runes seen since
  the last line feed.  `colAt text off` is that function (the cursor itself is not modelled).
  `content[a:b]` is `sliceB`, total here; Go panics when `a > b` or `b > len(content)`, which no
  lexer output does (`Pos.Offset ≤ End.Offset ≤ len`), and the position theorems assume it.
  Strings are byte lists; the few
  `strings.*` / `unicode/utf8` functions the file uses are transcribed below.  `uint32`
  arithmetic is Lean `UInt32` arithmetic, `uint64` (the result-id counter) is `UInt64`.
  `cachedSemanticTokens.tokens` is stored by the Go code but never read; it is not modelled.
  `tokenCache` is one package-level variable shared by every `Server` value of the process; the
  model has one `Srv` state per process, and the harness isolates histories (see harness/c17.go).
-/
import HL.Model.Ast

namespace HL.SemTok
open HL

/-! ### UTF-8 decoding (`unicode/utf8.DecodeRuneInString`, `for _, r := range s`) -/

def runeError : Nat := 0xFFFD

def isCont (b : UInt8) : Bool := 0x80 ≤ b && b ≤ 0xBF

/-- `utf8.DecodeRuneInString`: (rune, width).  Invalid or short sequences give `(U+FFFD, 1)`,
    the empty string `(U+FFFD, 0)`. -/
def decodeRune : Bytes → Nat × Nat
  | [] => (runeError, 0)
  | b0 :: rest =>
    if b0 < 0x80 then (b0.toNat, 1)
    else if 0xC2 ≤ b0 && b0 ≤ 0xDF then
      match rest with
      | b1 :: _ =>
        if isCont b1 then ((b0.toNat - 0xC0) * 64 + (b1.toNat - 0x80), 2) else (runeError, 1)
      | _ => (runeError, 1)
    else if 0xE0 ≤ b0 && b0 ≤ 0xEF then
      match rest with
      | b1 :: b2 :: _ =>
        let lo : UInt8 := if b0 = 0xE0 then 0xA0 else 0x80
        let hi : UInt8 := if b0 = 0xED then 0x9F else 0xBF
        if lo ≤ b1 && b1 ≤ hi && isCont b2 then
          ((b0.toNat - 0xE0) * 4096 + (b1.toNat - 0x80) * 64 + (b2.toNat - 0x80), 3)
        else (runeError, 1)
      | _ => (runeError, 1)
    else if 0xF0 ≤ b0 && b0 ≤ 0xF4 then
      match rest with
      | b1 :: b2 :: b3 :: _ =>
        let lo : UInt8 := if b0 = 0xF0 then 0x90 else 0x80
        let hi : UInt8 := if b0 = 0xF4 then 0x8F else 0xBF
        if lo ≤ b1 && b1 ≤ hi && isCont b2 && isCont b3 then
          ((b0.toNat - 0xF0) * 262144 + (b1.toNat - 0x80) * 4096 + (b2.toNat - 0x80) * 64
            + (b3.toNat - 0x80), 4)
        else (runeError, 1)
      | _ => (runeError, 1)
    else (runeError, 1)

/-- The runes of a string with the bytes each one was decoded from (`for i, r := range s`). -/
def chunksF : Nat → Bytes → List (Nat × Bytes)
  | 0, _ => []
  | _, [] => []
  | f+1, s@(_ :: _) =>
    let (r, k) := decodeRune s
    (r, s.take k) :: chunksF f (s.drop k)

def chunks (s : Bytes) : List (Nat × Bytes) := chunksF s.length s

def runes (s : Bytes) : List Nat := (chunks s).map (·.1)

/-- UTF-16 width of a code point (`r >= 0x10000` in `lsputil.UTF16Len`). -/
def u16w (r : Nat) : Nat := if r ≥ 0x10000 then 2 else 1

def u16sum : List Nat → Nat
  | [] => 0
  | r :: rs => u16w r + u16sum rs

/-- `lsputil.UTF16Len` on a Go string. -/
def u16lenB (s : Bytes) : Nat := u16sum (runes s)

/-! ### `strings` functions used by semantic.go -/

/-- `unicode.IsSpace` (the White_Space property). -/
def isSpaceRune (r : Nat) : Bool :=
  (0x09 ≤ r && r ≤ 0x0D) || r == 0x20 || r == 0x85 || r == 0xA0 || r == 0x1680 ||
  (0x2000 ≤ r && r ≤ 0x200A) || r == 0x2028 || r == 0x2029 || r == 0x202F || r == 0x205F ||
  r == 0x3000

def unchunk (l : List (Nat × Bytes)) : Bytes := l.flatMap (·.2)

/-- `strings.TrimSpace`. -/
def trimSpace (s : Bytes) : Bytes :=
  let l := (chunks s).dropWhile (fun c => isSpaceRune c.1)
  let l := (l.reverse.dropWhile (fun c => isSpaceRune c.1)).reverse
  unchunk l

/-- `strings.Split(s, string(sep))` for a one-byte separator. -/
def splitOn (sep : UInt8) : Bytes → List Bytes
  | [] => [[]]
  | b :: bs =>
    if b = sep then [] :: splitOn sep bs
    else match splitOn sep bs with
      | p :: ps => (b :: p) :: ps
      | [] => [[b]]

/-- `strings.Index(s, pat)` (`none` for -1). -/
def indexOf (pat : Bytes) : Bytes → Option Nat
  | [] => if pat.isEmpty then some 0 else none
  | b :: bs =>
    if pat.isPrefixOf (b :: bs) then some 0
    else (indexOf pat bs).map (· + 1)

def colon : UInt8 := 0x3A
def comma : UInt8 := 0x2C

/-- `content[a:b]` for `a ≤ b ≤ len(content)`. -/
def sliceB (text : Bytes) (a b : Nat) : Bytes := (text.drop a).take (b - a)

/-- `leadingSpace`: `len(s) - len(strings.TrimLeftFunc(s, unicode.IsSpace))`. -/
def leadWs (s : Bytes) : Nat := (unchunk ((chunks s).takeWhile (fun c => isSpaceRune c.1))).length

/-- The loop of `utf16Columns.at` started at the beginning of the text: `s` = the text from
    byte `pos` on, `col` = UTF-16 units since the last line feed before `pos`. -/
def colF : Nat → Bytes → Nat → Nat → Nat → Nat
  | 0, _, _, col, _ => col
  | _, [], _, col, _ => col
  | f+1, s@(_ :: _), pos, col, off =>
    if pos < off then
      let (r, k) := decodeRune s
      colF f (s.drop k) (pos + k) (if r == 0x0A then 0 else col + u16w r) off
    else col

/-- `utf16Columns.at(off)`: the UTF-16 column of byte offset `off` (before the `uint32`
    conversion). -/
def colAt (text : Bytes) (off : Nat) : Nat := colF text.length text 0 0 off

/-! ### Unicode classes (parameters: `unicode.IsLetter`, `unicode.IsDigit`) -/

structure Classes where
  isLetter : Nat → Bool
  isDigit : Nat → Bool

/-- ASCII-only instance (used for closed examples; the driver uses tables sent by the harness,
    which takes them from the Go toolchain's `unicode` package). -/
def Classes.ascii : Classes where
  isLetter r := (0x41 ≤ r && r ≤ 0x5A) || (0x61 ≤ r && r ≤ 0x7A)
  isDigit r := 0x30 ≤ r && r ≤ 0x39

/-- `isValidTagName`. -/
def isValidTagName (cls : Classes) (name : Bytes) : Bool :=
  !name.isEmpty &&
  (runes name).all fun r => cls.isLetter r || cls.isDigit r || r == 0x5F || r == 0x2D

/-! ### Semantic tokens -/

structure SemToken where
  line : UInt32
  col : UInt32
  len : UInt32
  ty : UInt32
  mods : UInt32
deriving Repr, DecidableEq, Inhabited, BEq

def tyAccount : UInt32 := 0
def tyCommodity : UInt32 := 1
def tyPayee : UInt32 := 2
def tyDate : UInt32 := 3
def tyAmount : UInt32 := 4
def tyTag : UInt32 := 5
def tyDirective : UInt32 := 6
def tyCode : UInt32 := 7
def tyStatus : UInt32 := 8
def tyComment : UInt32 := 9
def tyString : UInt32 := 10
def tyOperator : UInt32 := 11
def tyTagValue : UInt32 := 12

/-- `GetSemanticTokensLegend().TokenTypes`. -/
def legendTypes : List String :=
  ["account", "commodity", "payee", "date", "amount", "tag", "directive", "code", "status",
   "comment", "string", "operator", "tagValue"]

/-- `GetSemanticTokensLegend().TokenModifiers`. -/
def legendMods : List String := ["declaration", "definition"]

/-- `mapTokenType`. -/
def mapTokenType : TokType → Option UInt32
  | .date => some tyDate
  | .account => some tyAccount
  | .number => some tyAmount
  | .commodity => some tyCommodity
  | .comment => some tyComment
  | .at | .atAt | .equals | .doubleEquals | .pipe => some tyOperator
  | .text => some tyString
  | .code => some tyCode
  | .status => some tyStatus
  | .directive => some tyDirective
  | .tag => some tyTag
  | _ => none

/-- `uint32(n)` for a non-negative Go `int`. -/
def u32 (n : Nat) : UInt32 := UInt32.ofNat n

/-- `uint32(n - 1)` for a Go `int` `n ≥ 0` (for `n = 0` this is `0xFFFFFFFF`, as in Go). -/
def u32pred (n : Nat) : UInt32 := UInt32.ofNat n - 1

/-- The place of a token in the text before it is given a line and a column: byte offset,
    byte length, length in UTF-16 units, token type.  For a tag or tag value the offset is
    relative to the comment text (the comment's value). -/
structure TagSpan where
  off : Nat
  len : Nat
  len16 : Nat
  ty : UInt32
deriving Repr, DecidableEq, Inhabited

/-- One iteration of the `for _, part := range strings.Split(commentText, ",")` loop of
    `extractTagTokensFromComment`.  State: `partStart` and the tokens appended so far (as
    spans: the Go code computes `col = columns.at(textOffset + off)`, `length = uint32(len16)`
    from exactly these numbers). -/
def extractStep (cls : Classes) (st : Nat × List TagSpan) (part : Bytes) : Nat × List TagSpan :=
  let tagStart := st.1 + leadWs part
  let next := st.1 + part.length + 1
  let trimmed := trimSpace part
  match indexOf [colon] trimmed with
  | none => (next, st.2)
  | some colonIdx =>
    let name := trimmed.take colonIdx
    if name.isEmpty || !isValidTagName cls name then (next, st.2) else
    let tagNameEnd := tagStart + name.length + 1
    let acc := st.2 ++ [{ off := tagStart, len := name.length + 1, len16 := u16lenB name + 1, ty := tyTag }]
    let rest := trimmed.drop (colonIdx + 1)
    let value := trimSpace rest
    if value.isEmpty then (next, acc) else
    (next, acc ++ [{ off := tagNameEnd + leadWs rest, len := value.length, len16 := u16lenB value,
                     ty := tyTagValue }])

/-- The spans `extractTagTokensFromComment` finds in a comment text. -/
def extractSpans (cls : Classes) (comment : Bytes) : List TagSpan :=
  if !comment.contains colon then [] else
  ((splitOn comma comment).foldl (extractStep cls) (0, [])).2

/-- `semanticToken{line: baseLine, col: columns.at(textOffset + off), length: uint32(len16), …}`
    with `textOffset = tok.Pos.Offset + 1`. -/
def tagToken (text : Bytes) (t : Token) (sp : TagSpan) : SemToken :=
  { line := u32pred t.pos.line, col := u32 (colAt text (t.pos.off + 1 + sp.off)), len := u32 sp.len16,
    ty := sp.ty, mods := 0 }

/-- `extractTagTokensFromComment` (`[]` for nil). -/
def extractTags (cls : Classes) (text : Bytes) (t : Token) : List SemToken :=
  (extractSpans cls t.val).map (tagToken text t)

/-- The loop-carried variables of `tokenizeForSemantics`. -/
structure Ctx where
  inDirective : Bool := false
  directiveType : Bytes := []
  isPayee : Bool := false
  currentLine : Int := -1
deriving Repr, DecidableEq, Inhabited

def kwAccount : Bytes := [0x61, 0x63, 0x63, 0x6F, 0x75, 0x6E, 0x74]
def kwCommodity : Bytes := [0x63, 0x6F, 0x6D, 0x6D, 0x6F, 0x64, 0x69, 0x74, 0x79]

/-- The `if tok.Pos.Line != currentLine { … }` block. -/
def lineStart (c : Ctx) (t : Token) : Ctx :=
  if (t.pos.line : Int) != c.currentLine then
    let c := { c with currentLine := t.pos.line }
    if t.ty == .directive then { c with inDirective := true, directiveType := t.val }
    else if t.ty == .date then { c with inDirective := false, directiveType := [], isPayee := true }
    else if t.ty != .indent && t.ty != .newline then { c with inDirective := false, directiveType := [] }
    else c
  else c

/-- `lexemeSpan`: where the characters of a token start in the text (absolute byte offset),
    how many bytes and how many UTF-16 units they are.  A comment is measured by its value (+1
    for the semicolon), every other token by its source extent without surrounding white space. -/
def plainSpan (text : Bytes) (t : Token) (semType : UInt32) : TagSpan :=
  if t.ty == .comment then
    { off := t.pos.off, len := t.val.length + 1, len16 := u16lenB t.val + 1, ty := semType }
  else
    let source := sliceB text t.pos.off t.stop.off
    let lexeme := trimSpace source
    { off := t.pos.off + leadWs source, len := lexeme.length, len16 := u16lenB lexeme, ty := semType }

/-- The token appended at the end of the loop body. -/
def plainToken (text : Bytes) (t : Token) (semType mods : UInt32) : SemToken :=
  let sp := plainSpan text t semType
  { line := u32pred t.pos.line, col := u32 (colAt text sp.off), len := u32 sp.len16, ty := semType, mods := mods }

/-- One iteration of the loop of `tokenizeForSemantics` for a non-EOF token. -/
def stepTok (cls : Classes) (text : Bytes) (c : Ctx) (t : Token) : Ctx × List SemToken :=
  let c := lineStart c t
  match mapTokenType t.ty with
  | none => (c, [])
  | some semType =>
    let mods : UInt32 :=
      if c.inDirective && (c.directiveType == kwAccount || c.directiveType == kwCommodity)
          && (t.ty == .account || t.ty == .commodity || t.ty == .text) then 1 else 0
    let payee := t.ty == .text && c.isPayee
    let semType := if payee then tyPayee else semType
    let c := if payee then { c with isPayee := false } else c
    let tags := if t.ty == .comment then extractTags cls text t else []
    if !tags.isEmpty then (c, tags) else
    -- `if length == 0 { continue }`
    if u32 (plainSpan text t semType).len16 == 0 then (c, []) else (c, [plainToken text t semType mods])

def tokGo (cls : Classes) (text : Bytes) : Ctx → List Token → List SemToken
  | _, [] => []
  | c, t :: ts =>
    if t.ty == .eof then [] else
    let r := stepTok cls text c t
    r.2 ++ tokGo cls text r.1 ts

/-- `tokenizeForSemantics`, given the content and the lexer's output for it. -/
def tokenize (cls : Classes) (text : Bytes) (toks : List Token) : List SemToken := tokGo cls text {} toks

/-- `tokGo` together with, for every emitted token, the lexer token it was made from
    (provenance only; `(tokGoSrc …).map (·.1) = tokGo …`, lemma `tokGoSrc_fst`). -/
def tokGoSrc (cls : Classes) (text : Bytes) : Ctx → List Token → List (SemToken × Token)
  | _, [] => []
  | c, t :: ts =>
    if t.ty == .eof then [] else
    let r := stepTok cls text c t
    r.2.map (·, t) ++ tokGoSrc cls text r.1 ts

def tokenizeSrc (cls : Classes) (text : Bytes) (toks : List Token) : List (SemToken × Token) :=
  tokGoSrc cls text {} toks

/-! ### Encoding -/

abbrev Data := List UInt32

/-- `SemanticTokenEncoder.Encode` folded over the tokens; state = (lastLine, lastCol). -/
def encodeGo : UInt32 → UInt32 → List SemToken → Data
  | _, _, [] => []
  | lastLine, lastCol, t :: ts =>
    let deltaLine := t.line - lastLine
    let deltaCol := if deltaLine == 0 then t.col - lastCol else t.col
    deltaLine :: deltaCol :: t.len :: t.ty :: t.mods :: encodeGo t.line t.col ts

/-- `encodeTokens`. -/
def encodeTokens (ts : List SemToken) : Data := encodeGo 0 0 ts

/-- `filterTokensByRange` (only the lines of the range are used). -/
def filterByRange (lo hi : UInt32) (ts : List SemToken) : List SemToken :=
  ts.filter fun t => t.line ≥ lo && t.line ≤ hi

structure Edit where
  start : UInt32
  deleteCount : UInt32
  data : Data
deriving Repr, DecidableEq, Inhabited, BEq

/-- `computeSemanticTokensEdits`: nothing when the arrays are equal, otherwise one edit that
    replaces the whole old array. -/
def computeEdits (old new : Data) : List Edit :=
  if old == new then [] else [{ start := 0, deleteCount := u32 old.length, data := new }]

/-! ### The cache and the three requests -/

abbrev Uri := String

structure Cached where
  id : String
  data : Data
deriving Repr, DecidableEq, Inhabited

abbrev Cache := List (Uri × Cached)

def Cache.get (c : Cache) (u : Uri) : Option Cached := (c.find? (·.1 == u)).map (·.2)
def Cache.erase (c : Cache) (u : Uri) : Cache := c.filter (·.1 != u)
def Cache.set (c : Cache) (u : Uri) (v : Cached) : Cache := (u, v) :: c.erase u

/-- What the requests need to know about a document: is it `""`, and its semantic tokens
    (`tokenizeForSemantics(doc)`).  Theorems hold for every such pair of functions. -/
structure Cfg (δ : Type) where
  isEmpty : δ → Bool
  tok : δ → List SemToken

/-- Server state: `tokenCache.resultID`, `tokenCache.cache`, `Server.documents`. -/
structure Srv (δ : Type) where
  next : UInt64 := 0
  cache : Cache := []
  docs : List (Uri × δ) := []

def getDoc {δ} (docs : List (Uri × δ)) (u : Uri) : Option δ := (docs.find? (·.1 == u)).map (·.2)
def eraseDoc {δ} (docs : List (Uri × δ)) (u : Uri) : List (Uri × δ) := docs.filter (·.1 != u)
def setDoc {δ} (docs : List (Uri × δ)) (u : Uri) (d : δ) : List (Uri × δ) := (u, d) :: eraseDoc docs u

inductive Req (δ : Type) where
  | setDoc (u : Uri) (d : δ)        -- didOpen, or didChange whose result is `d`
  | close (u : Uri)                 -- didClose
  | full (u : Uri)                  -- textDocument/semanticTokens/full
  | delta (u : Uri) (prev : String) -- textDocument/semanticTokens/full/delta
  | range (u : Uri) (lo hi : UInt32) -- textDocument/semanticTokens/range (start.line, end.line)

/-- `*protocol.SemanticTokens{ResultID, Data}` (`id = ""` when absent) or
    `*protocol.SemanticTokensDelta{ResultID, Edits}`; `none` for notifications. -/
inductive Resp where
  | none
  | tokens (id : String) (data : Data)
  | delta (id : String) (edits : List Edit)
deriving Repr, DecidableEq, Inhabited

/-- `strconv.FormatUint(c.resultID, 10)`. -/
def fmtId (n : UInt64) : String := toString n.toNat

/-- `semanticTokensCache.set`. -/
def cacheSet {δ} (s : Srv δ) (u : Uri) (data : Data) : Srv δ × String :=
  let n := s.next + 1
  ({ s with next := n, cache := s.cache.set u ⟨fmtId n, data⟩ }, fmtId n)

/-- The document as the handlers see it: `none` when missing or `""`. -/
def liveDoc {δ} (cfg : Cfg δ) (s : Srv δ) (u : Uri) : Option δ :=
  match getDoc s.docs u with
  | some d => if cfg.isEmpty d then Option.none else some d
  | Option.none => Option.none

def step {δ} (cfg : Cfg δ) (s : Srv δ) : Req δ → Srv δ × Resp
  | .setDoc u d => ({ s with docs := setDoc s.docs u d }, .none)
  | .close u => ({ s with docs := eraseDoc s.docs u, cache := s.cache.erase u }, .none)
  | .full u =>
    match liveDoc cfg s u with
    | Option.none => (s, .tokens "" [])
    | some d =>
      let data := encodeTokens (cfg.tok d)
      let (s', id) := cacheSet s u data
      (s', .tokens id data)
  | .range u lo hi =>
    match liveDoc cfg s u with
    | Option.none => (s, .tokens "" [])
    | some d => (s, .tokens "" (encodeTokens (filterByRange lo hi (cfg.tok d))))
  | .delta u prev =>
    match liveDoc cfg s u with
    | Option.none => (s, .tokens "" [])
    | some d =>
      let newData := encodeTokens (cfg.tok d)
      match s.cache.get u with
      | some c =>
        if c.id != prev then
          let (s', id) := cacheSet s u newData
          (s', .tokens id newData)
        else
          let edits := computeEdits c.data newData
          let (s', id) := cacheSet s u newData
          (s', .delta id edits)
      | Option.none =>
        let (s', id) := cacheSet s u newData
        (s', .tokens id newData)

end HL.SemTok
