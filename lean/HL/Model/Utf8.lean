import HL.Model.Ast
/-!
  Go's `unicode/utf8` on byte lists (DESIGN 3.1).

  * `decodeRune`      = `utf8.DecodeRuneInString`  (code point, width); `(0xFFFD, 1)` on every
                        invalid prefix (stray continuation byte, overlong form, surrogate,
                        > U+10FFFF, truncated sequence), `(0xFFFD, 0)` on the empty string.
  * `decodeLastRune`  = `utf8.DecodeLastRuneInString`
  * `runeLen`         = `utf8.RuneLen` (as `Option Nat`; Go's -1 is `none`)
  * `encodeRune`      = `string(rune)` / `utf8.AppendRune` (U+FFFD for surrogates and > U+10FFFF)

  Correspondence: op `utf8.decode` (lean/HL/Driver/Lex.lean, harness/lex.go).
-/
namespace HL.Utf8

def runeError : Nat := 0xFFFD

/-- continuation byte `0x80..0xBF` (`locb..hicb`) -/
@[inline] def isCont (b : UInt8) : Bool := 0x80 ≤ b && b ≤ 0xBF

/-- `acceptRanges[first[b0] >> 4]`: the allowed range of the second byte. -/
def acceptLo (b0 : UInt8) : UInt8 :=
  if b0 == 0xE0 then 0xA0 else if b0 == 0xF0 then 0x90 else 0x80
def acceptHi (b0 : UInt8) : UInt8 :=
  if b0 == 0xED then 0x9F else if b0 == 0xF4 then 0x8F else 0xBF

def decodeRune : Bytes → Nat × Nat
  | [] => (runeError, 0)
  | b0 :: rest =>
    if b0 < 0x80 then (b0.toNat, 1)
    else if b0 < 0xC2 then (runeError, 1)          -- continuation bytes, C0, C1
    else if b0 < 0xE0 then                         -- two bytes
      match rest with
      | b1 :: _ =>
        if isCont b1 then ((b0.toNat % 32) * 64 + b1.toNat % 64, 2) else (runeError, 1)
      | [] => (runeError, 1)
    else if b0 < 0xF0 then                         -- three bytes
      match rest with
      | b1 :: b2 :: _ =>
        if acceptLo b0 ≤ b1 && b1 ≤ acceptHi b0 then
          if isCont b2 then ((b0.toNat % 16) * 4096 + (b1.toNat % 64) * 64 + b2.toNat % 64, 3)
          else (runeError, 1)
        else (runeError, 1)
      | _ => (runeError, 1)
    else if b0 < 0xF5 then                         -- four bytes
      match rest with
      | b1 :: b2 :: b3 :: _ =>
        if acceptLo b0 ≤ b1 && b1 ≤ acceptHi b0 then
          if isCont b2 then
            if isCont b3 then
              ((b0.toNat % 8) * 262144 + (b1.toNat % 64) * 4096 + (b2.toNat % 64) * 64 + b3.toNat % 64, 4)
            else (runeError, 1)
          else (runeError, 1)
        else (runeError, 1)
      | _ => (runeError, 1)
    else (runeError, 1)

/-- `utf8.RuneStart`. -/
@[inline] def runeStart (b : UInt8) : Bool := b &&& 0xC0 != 0x80

/-- `utf8.DecodeLastRuneInString s`, reading only the last five bytes of `s`, which are given
    in reverse order (`rs = s.reverse`; the lexer keeps consumed input reversed). -/
def decodeLastRuneRev (rs : Bytes) : Nat × Nat :=
  match rs with
  | [] => (runeError, 0)
  | last :: _ =>
    if last < 0x80 then (last.toNat, 1) else
    let n := min rs.length 5
    let tail := (rs.take 5).reverse          -- s[len-n:]
    -- `for start--; start >= lim; start--`: candidates end-2, end-3, end-4
    let start :=
      if 2 ≤ n && runeStart (tail.getD (n - 2) 0) then n - 2
      else if 3 ≤ n && runeStart (tail.getD (n - 3) 0) then n - 3
      else if 4 ≤ n && runeStart (tail.getD (n - 4) 0) then n - 4
      else n - 5
    let (r, size) := decodeRune (tail.drop start)
    if start + size != n then (runeError, 1) else (r, size)

def decodeLastRune (s : Bytes) : Nat × Nat := decodeLastRuneRev s.reverse

def runeLen (r : Nat) : Option Nat :=
  if r ≤ 0x7F then some 1
  else if r ≤ 0x7FF then some 2
  else if 0xD800 ≤ r && r ≤ 0xDFFF then none
  else if r ≤ 0xFFFF then some 3
  else if r ≤ 0x10FFFF then some 4
  else none

def encodeRune (r : Nat) : Bytes :=
  if r ≤ 0x7F then [UInt8.ofNat r]
  else if r ≤ 0x7FF then [UInt8.ofNat (0xC0 + r / 64), UInt8.ofNat (0x80 + r % 64)]
  else if r < 0xD800 || (0xDFFF < r && r ≤ 0xFFFF) then
    [UInt8.ofNat (0xE0 + r / 4096), UInt8.ofNat (0x80 + (r / 64) % 64), UInt8.ofNat (0x80 + r % 64)]
  else if 0xFFFF < r && r ≤ 0x10FFFF then
    [UInt8.ofNat (0xF0 + r / 262144), UInt8.ofNat (0x80 + (r / 4096) % 64),
     UInt8.ofNat (0x80 + (r / 64) % 64), UInt8.ofNat (0x80 + r % 64)]
  else [0xEF, 0xBF, 0xBD]

/-- `for _, r := range s` — the decoded runes with their widths. -/
def runesF : Nat → Bytes → List Nat
  | 0, _ => []
  | _, [] => []
  | n+1, b :: t =>
    let (r, w) := decodeRune (b :: t)
    r :: runesF n ((b :: t).drop w)
def runes (s : Bytes) : List Nat := runesF s.length s

end HL.Utf8
