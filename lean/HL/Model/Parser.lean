import HL.Model.Ast
import HL.Model.ParserStr
import HL.Model.ParserNum
/-
  Executable model of internal/parser/parser.go (every function, in the order of its tests).

  The Go parser only ever touches its lexer through `p.lexer.Next()`; the model is parametric
  in that token source (`TokSrc σ`), in the number layer (`NumDeps`, see ParserNum.lean) and in
  the two Unicode predicates `isValidCommodityText` uses (`Classes`).

    Parse / parseJournal            -> parse / parseJournalF (fuel)
    parseTransaction                -> parseTransaction (postings loop: postingsF)
    parseDate parseStatus           -> parseDate parseStatus
    parsePosting parseAmount parseCost parseBalanceAssertion -> same names
        (the longer functions are cut into consecutive pieces — parsePosting: postingOpen,
         postingTail = postingClosing, postingAmount, postingCost, postingAssertion, lineComment; parseTransaction: txHeader = txDate2, txStatus, txCode, txDescription,
         txComment; parseAmount: amountLeadSign, amountLeftCommodity, amountSecondSign,
         amountNumber, amountRightCommodity; parseAccountDirective: accountNameRest, lineComment;
         parseCommodityDirective: commodityInline — same statements in the same order)
    parseDirective + six directive parsers -> same names
    parseSubdirectives              -> parseSubdirectivesF (value loop: subValueF)
    parseComment parseTags isValidTagName -> same names
    advance skipToNextLine error errorAt -> advance skipToNextLine error errorAt
    isValidCommodityText            -> isValidCommodityText

  Loops are structural recursions on a fuel argument (`…F`); the wrapper of each loop supplies
  `fuelOf st = rem st.src + 1`, where `rem` is the token source's own bound on the number of
  tokens it can still deliver (bytes left for the lexer, list length for a token list).
  `HL.Lemmas.Parser` proves for every source whose `rem` strictly decreases on every non-EOF
  token that no loop reaches its `0` case with work left: the result is the same for every
  larger fuel (`…_fuel_suffices`, `parse_total`).  The `0` cases return the state unchanged.

  Go maps (`Subdirs`) are association lists with unique keys; insertion overwrites.
  `*T` results that may be nil are `Option T`.
-/
namespace HL.Parser
open HL HL.Ast HL.PStr

/-- The lexer as the parser sees it: `Next()`. -/
structure TokSrc (σ : Type) where
  next : σ → Token × σ
  /-- an upper bound on the number of non-EOF tokens still to come (used only as loop fuel) -/
  rem : σ → Nat

/-- `unicode.IsLetter`, `unicode.IsDigit` on code points. -/
structure Classes where
  isLetter : Nat → Bool
  isDigit : Nat → Bool

/-- Everything the parser is parametric in. -/
structure Env (σ : Type) where
  src : TokSrc σ
  num : NumDeps
  cls : Classes

/-- `parser.Parser` (without `inputLen`, which only sizes a slice). -/
structure PState (σ : Type) where
  src : σ
  current : Token
  errors : List ParseError
  defaultYear : Int

/-- The complete-token-stream source used by the correspondence: `Next` pops the head; once
    the list is exhausted it answers EOF forever (as `Lexer.Next` does at end of input). -/
def eofToken : Token := ⟨.eof, [], Pos.zero, Pos.zero⟩
def listSrc : TokSrc (List Token) where
  next
    | [] => (eofToken, [])
    | t :: r => (t, r)
  rem := List.length

section
variable {σ : Type} (E : Env σ)

/-! ### primitives -/

def advance (st : PState σ) : PState σ :=
  let r := E.src.next st.src
  { st with src := r.2, current := r.1 }

/-- `p.errorAt(pos, fmt, args...)` with the message already formatted. -/
def errorAt (st : PState σ) (pos : Pos) (msg : Bytes) : PState σ :=
  { st with errors := st.errors ++ [⟨msg, pos⟩] }

/-- `p.error(fmt, args...)`. -/
def error (st : PState σ) (msg : Bytes) : PState σ := errorAt st st.current.pos msg

/-- Fuel handed to every loop that starts in state `st`. -/
def fuelOf (st : PState σ) : Nat := E.src.rem st.src + 1

def isLineEnd (t : Token) : Bool := t.ty = .newline || t.ty = .eof

/-- The `for` loop of `skipToNextLine`. -/
def skipLoopF : Nat → PState σ → PState σ
  | 0, st => st
  | n+1, st => if isLineEnd st.current then st else skipLoopF n (advance E st)

def skipToNextLine (st : PState σ) : PState σ :=
  let st := skipLoopF E (fuelOf E st) st
  if st.current.ty = .newline then advance E st else st

def toRange (a b : Pos) : Rng := ⟨a, b⟩

/-! ### keywords (explicit byte lists, so that the kernel can evaluate the model on closed inputs) -/

def kwAccount : Bytes := [97, 99, 99, 111, 117, 110, 116]   -- 'account'
def kwCommodity : Bytes := [99, 111, 109, 109, 111, 100, 105, 116, 121]   -- 'commodity'
def kwInclude : Bytes := [105, 110, 99, 108, 117, 100, 101]   -- 'include'
def kwP : Bytes := [80]   -- 'P'
def kwY : Bytes := [89]   -- 'Y'
def kwYear : Bytes := [121, 101, 97, 114]   -- 'year'
def kwD : Bytes := [68]   -- 'D'
def kwFormat : Bytes := [102, 111, 114, 109, 97, 116]   -- 'format'
def kwNote : Bytes := [110, 111, 116, 101]   -- 'note'
def sepPipe : Bytes := [32, 124, 32]   -- ' | '

#guard kwAccount == HL.bs "account"
#guard kwCommodity == HL.bs "commodity"
#guard kwInclude == HL.bs "include"
#guard kwP == HL.bs "P"
#guard kwY == HL.bs "Y"
#guard kwYear == HL.bs "year"
#guard kwD == HL.bs "D"
#guard kwFormat == HL.bs "format"
#guard kwNote == HL.bs "note"
#guard sepPipe == HL.bs " | "

/-! ### messages (`fmt.Sprintf` with `%s` copies the bytes of a string argument) -/

def mExpectedDate : Bytes := bs "expected date"
def mPartialDate : Bytes := bs "partial date requires Y directive: "
def mInvalidMonth : Bytes := bs "invalid month: "
def mInvalidDay : Bytes := bs "invalid day: "
def mInvalidYear : Bytes := bs "invalid year: "
def mInvalidDateFormat : Bytes := bs "invalid date format: "
def mExpectedAccount : Bytes := bs "expected account name"
def mExpectedNumber : Bytes := bs "expected number"
def mInvalidNumber : Bytes := bs "invalid number: "
def mExponentRange : Bytes := bs "invalid number: exponent out of range: "
/-- `maxAmountExponent`. -/
def maxAmountExponent : Int := 1000
def mExpectedFilePath : Bytes := bs "expected file path"
def mExpectedCommodity : Bytes := bs "expected commodity"
def mExpectedYear : Bytes := bs "expected year"
def mUnexpectedToken : Bytes := bs "unexpected token: "

/-! ### tags -/

/-- `isValidTagName`: the Go loop ranges over runes and accepts only ASCII letters, digits,
    '-' and '_'; a byte ≥ 0x80 decodes to a rune ≥ 0x80 (or U+FFFD), never accepted, so the test
    is "every byte is one of these". -/
def isValidTagName (name : Bytes) : Bool :=
  name.all fun c =>
    (0x61 ≤ c.toNat && c.toNat ≤ 0x7A) || (0x41 ≤ c.toNat && c.toNat ≤ 0x5A) ||
    (0x30 ≤ c.toNat && c.toNat ≤ 0x39) || c = 0x2D || c = 0x5F

/-- One round of the `for _, part := range parts` loop of `parseTags`:
    `none` = `continue`, `some (tag, newSearchStart)`. -/
def parseTagPart (text : Bytes) (base : Pos) (searchStart : Nat) (part : Bytes) : Option (Tag × Nat) :=
  let trimmed := trimSpace part
  match indexOf trimmed [0x3A] with
  | none => none
  | some colonIdx =>
    let name := trimSpace (trimmed.take colonIdx)
    if name = [] ∨ !isValidTagName name then none else
    let value := if colonIdx + 1 < trimmed.length then trimSpace (trimmed.drop (colonIdx + 1)) else []
    match indexOf (text.drop searchStart) (name ++ [0x3A]) with
    | none => none
    | some ts =>
      let tagStart := ts + searchStart
      let tagEnd0 := tagStart + name.length + 1
      let tagEnd :=
        if value ≠ [] then
          match indexOf (text.drop tagEnd0) value with
          | some vs => tagEnd0 + vs + value.length
          | none => tagEnd0
        else tagEnd0
      -- columns count runes (`utf8.RuneCountInString(text[:tagStart])`), offsets bytes
      some (⟨name, value,
        ⟨⟨base.line, base.col + 1 + (runes (text.take tagStart)).length, base.off + 1 + tagStart⟩,
         ⟨base.line, base.col + 1 + (runes (text.take tagEnd)).length, base.off + 1 + tagEnd⟩⟩⟩, tagEnd)

def parseTagsLoop (text : Bytes) (base : Pos) : List Bytes → Nat → List Tag
  | [], _ => []
  | part :: rest, searchStart =>
    match parseTagPart text base searchStart part with
    | none => parseTagsLoop text base rest searchStart
    | some (tag, s') => tag :: parseTagsLoop text base rest s'

/-- `parseTags(text, basePos)`; Go's nil slice and empty slice are both `[]`. -/
def parseTags (text : Bytes) (base : Pos) : List Tag :=
  if !contains text [0x3A] then [] else parseTagsLoop text base (splitByte text 0x2C) 0

/-- `parseComment`. -/
def parseComment (st : PState σ) : Comment × PState σ :=
  (⟨st.current.val, parseTags st.current.val st.current.pos, toRange st.current.pos Pos.zero⟩,
   advance E st)

/-! ### dates, status -/

/-- First of '-', '/', '.' in the value; 0 when there is none (Go's zero `byte`). -/
def firstSep (v : Bytes) : UInt8 :=
  match v.find? (fun c => c = 0x2D || c = 0x2F || c = 0x2E) with
  | some c => c
  | none => 0

/-- `parseDate`. -/
def parseDate (st : PState σ) : Option Date × PState σ :=
  if st.current.ty ≠ .date then (none, error st mExpectedDate) else
  let value := st.current.val
  let pos := st.current.pos
  let stop := st.current.stop
  let st := advance E st
  match splitByte value (firstSep value) with
  | [p0, p1] =>
    if st.defaultYear = 0 then (none, errorAt st pos (mPartialDate ++ value)) else
    match atoi p0 with
    | none => (none, errorAt st pos (mInvalidMonth ++ p0))
    | some month =>
      match atoi p1 with
      | none => (none, errorAt st pos (mInvalidDay ++ p1))
      | some day => (some ⟨st.defaultYear, month, day, toRange pos stop⟩, st)
  | [p0, p1, p2] =>
    match atoi p0 with
    | none => (none, errorAt st pos (mInvalidYear ++ p0))
    | some year =>
      match atoi p1 with
      | none => (none, errorAt st pos (mInvalidMonth ++ p1))
      | some month =>
        match atoi p2 with
        | none => (none, errorAt st pos (mInvalidDay ++ p2))
        | some day => (some ⟨year, month, day, toRange pos stop⟩, st)
  | _ => (none, errorAt st pos (mInvalidDateFormat ++ value))

/-- `parseStatus`. -/
def parseStatus (st : PState σ) : Status × PState σ :=
  if st.current.ty = .status then
    ((if st.current.val = [0x2A] then .cleared else if st.current.val = [0x21] then .pending else .none),
     advance E st)
  else (.none, st)

/-! ### amounts -/

/-- `isValidCommodityText`. -/
def isValidCommodityText (value : Bytes) : Bool :=
  if value.length = 0 then false else
  let rs := runes value
  rs.all (fun r => E.cls.isLetter r || E.cls.isDigit r) && rs.any (fun r => E.cls.isLetter r)

def emptyCommodity : Commodity := ⟨[], .left, Rng.zero⟩

/-- `parseAmount`, lines 313-317: a sign in front of everything: `(sign, signBeforeCommodity)`. -/
def amountLeadSign (st : PState σ) : (Bytes × Bool) × PState σ :=
  if st.current.ty = .sign then ((st.current.val, true), advance E st) else (([], false), st)

/-- `parseAmount`, lines 319-332: a commodity on the left: `(commodity, SignBeforeCommodity)`. -/
def amountLeftCommodity (sign : Bytes) (signBefore : Bool) (st : PState σ) : (Commodity × Bool) × PState σ :=
  if st.current.ty = .commodity then
    ((⟨st.current.val, .left, toRange st.current.pos st.current.stop⟩,
      signBefore && (sign = [0x2D] || sign = [0x2B])), advance E st)
  else ((emptyCommodity, false), st)

/-- `parseAmount`, lines 334-339: a sign after the left commodity (kept only if there was none). -/
def amountSecondSign (sign : Bytes) (st : PState σ) : Bytes × PState σ :=
  if st.current.ty = .sign then ((if sign = [] then st.current.val else sign), advance E st)
  else (sign, st)

/-- `parseAmount`, lines 364-378: a commodity on the right, when there was none on the left;
    with it `end`, the End of the last token of the amount (`stop` = the End of the number). -/
def amountRightCommodity (com : Commodity) (stop : Pos) (st : PState σ) : (Commodity × Pos) × PState σ :=
  if com.symbol = [] then
    if st.current.ty = .commodity ∨ (st.current.ty = .text ∧ isValidCommodityText E st.current.val) then
      ((⟨st.current.val, .right, toRange st.current.pos st.current.stop⟩, st.current.stop), advance E st)
    else ((com, stop), st)
  else ((com, stop), st)

/-- `parseAmount`, lines 341-381: the number, and what follows it. -/
def amountNumber (start : Pos) (sign : Bytes) (com : Commodity) (sbc : Bool) (st : PState σ) :
    Option Amount × PState σ :=
  if st.current.ty ≠ .number then (none, error st mExpectedNumber) else
  let raw := if sign = [0x2D] ∧ !([0x2D] : Bytes).isPrefixOf st.current.val then 0x2D :: st.current.val
             else st.current.val
  let numberStr := E.num.normalize (dropBlanks raw)
  match E.num.decOfString numberStr with
  | none => (none, error st (mInvalidNumber ++ st.current.val))
  | some qty =>
    if qty.exp > maxAmountExponent ∨ qty.exp < -maxAmountExponent then
      (none, error st (mExponentRange ++ st.current.val)) else
    -- `Amount.Range` ends where the last token of the amount ends (the number, or the
    -- commodity behind it), not at the token that follows
    let ((com, stop), st) := amountRightCommodity E com st.current.stop (advance E st)
    (some ⟨qty, raw, com, sbc, toRange start stop⟩, st)

/-- `parseAmount`. -/
def parseAmount (st : PState σ) : Option Amount × PState σ :=
  let start := st.current.pos
  let ((sign, signBefore), st) := amountLeadSign E st
  let ((com, sbc), st) := amountLeftCommodity E sign signBefore st
  let (sign, st) := amountSecondSign E sign st
  amountNumber E start sign com sbc st

/-- `parseCost`. -/
def parseCost (st : PState σ) : Option Cost × PState σ :=
  let start := st.current.pos
  let isTotal : Bool := st.current.ty = .atAt
  let st := advance E st
  match parseAmount E st with
  | (none, st) => (none, st)
  | (some a, st) => (some ⟨a, isTotal, toRange start st.current.pos⟩, st)

/-- `parseBalanceAssertion`. -/
def parseBalanceAssertion (st : PState σ) : Option Assertion × PState σ :=
  let start := st.current.pos
  let isStrict : Bool := st.current.ty = .doubleEquals
  let st := advance E st
  match parseAmount E st with
  | (none, st) => (none, st)
  | (some a, st) => (some ⟨a, isStrict, false, toRange start st.current.pos⟩, st)

/-! ### postings and transactions -/

/-- `parsePosting`, lines 250-264: the optional status and the opening bracket of a virtual
    posting (`closingToken` is `none` for Go's zero value). -/
def postingOpen (st : PState σ) : (Status × Virtual × Option TokType) × PState σ :=
  let (status, st) : Status × PState σ :=
    if st.current.ty = .status then parseStatus E st else (.none, st)
  if st.current.ty = .lbracket then ((status, .balanced, some .rbracket), advance E st)
  else if st.current.ty = .lparen then ((status, .unbalanced, some .rparen), advance E st)
  else ((status, .none, none), st)

/-- A comment at the end of a directive or posting line: `(comment, tags)`. -/
def lineComment (st : PState σ) : (Bytes × List Tag) × PState σ :=
  if st.current.ty = .comment then
    ((st.current.val, parseTags st.current.val st.current.pos), advance E st)
  else (([], []), st)

/-- `parsePosting`, lines 278-280: the closing bracket of a virtual posting. -/
def postingClosing (closing : Option TokType) (st : PState σ) : PState σ :=
  if closing = some st.current.ty then advance E st else st

/-- `parsePosting`, lines 282-287. -/
def postingAmount (st : PState σ) : Option Amount × PState σ :=
  if st.current.ty = .commodity ∨ st.current.ty = .number ∨ st.current.ty = .sign then parseAmount E st
  else (none, st)

/-- `parsePosting`, lines 289-291. -/
def postingCost (st : PState σ) : Option Cost × PState σ :=
  if st.current.ty = .at ∨ st.current.ty = .atAt then parseCost E st else (none, st)

/-- `parsePosting`, lines 293-295. -/
def postingAssertion (st : PState σ) : Option Assertion × PState σ :=
  if st.current.ty = .equals ∨ st.current.ty = .doubleEquals then parseBalanceAssertion E st
  else (none, st)

/-- `parsePosting`, lines 278-301: everything after the account name. -/
def postingTail (closing : Option TokType) (st : PState σ) :
    (Option Amount × Option Cost × Option Assertion × Bytes × List Tag) × PState σ :=
  let st := postingClosing E closing st
  let (amount, st) := postingAmount E st
  let (cost, st) := postingCost E st
  let (assertion, st) := postingAssertion E st
  let ((comment, tags), st) := lineComment E st
  ((amount, cost, assertion, comment, tags), st)

/-- `parsePosting`. -/
def parsePosting (st : PState σ) : Option Posting × PState σ :=
  if st.current.ty ≠ .indent then (none, st) else
  let st := advance E st
  if st.current.ty = .comment then (none, (parseComment E st).2) else
  if st.current.ty = .newline ∨ st.current.ty = .eof then (none, st) else
  let start := st.current.pos
  let ((status, virt, closing), st) := postingOpen E st
  if st.current.ty ≠ .account then (none, skipToNextLine E (error st mExpectedAccount)) else
  let account : Account := ⟨st.current.val, toRange st.current.pos st.current.stop⟩
  let st := advance E st
  let ((amount, cost, assertion, comment, tags), st) := postingTail E closing st
  (some ⟨status, account, amount, assertion, cost, comment, tags, virt, toRange start st.current.pos⟩, st)

/-- The `for p.current.Type == TokenIndent` loop of `parseTransaction`. -/
def postingsF : Nat → PState σ → List Posting × PState σ
  | 0, st => ([], st)
  | n+1, st =>
    if st.current.ty ≠ .indent then ([], st) else
    let (p, st) := parsePosting E st
    let st := if st.current.ty = .newline then advance E st else st
    let (ps, st) := postingsF n st
    (match p with | some p => p :: ps | none => ps, st)

/-- `parseTransaction`, lines 105-123: description, or payee `|` note: `(description, payee, note)`. -/
def txDescription (st : PState σ) : (Bytes × Bytes × Bytes) × PState σ :=
  if st.current.ty = .text then
    let desc := st.current.val
    let st := advance E st
    if st.current.ty = .pipe then
      let payee := trimSpace desc
      let st := advance E st
      let (note, st) : Bytes × PState σ :=
        if st.current.ty = .text then (trimSpace st.current.val, advance E st) else ([], st)
      (((if note ≠ [] then payee ++ sepPipe ++ note else payee), payee, note), st)
    else ((desc, [], []), st)
  else (([], [], []), st)

/-- `parseTransaction`, lines 88-94: `=` and a secondary date. -/
def txDate2 (st : PState σ) : Option Date × PState σ :=
  if st.current.ty = .equals then parseDate E (advance E st) else (none, st)

/-- `parseTransaction`, lines 96-98. -/
def txStatus (st : PState σ) : Status × PState σ :=
  if st.current.ty = .status then parseStatus E st else (.none, st)

/-- `parseTransaction`, lines 100-103. -/
def txCode (st : PState σ) : Bytes × PState σ :=
  if st.current.ty = .code then (st.current.val, advance E st) else ([], st)

/-- `parseTransaction`, lines 125-127: the header-line comment. -/
def txComment (st : PState σ) : List Comment × PState σ :=
  if st.current.ty = .comment then ([(parseComment E st).1], (parseComment E st).2) else ([], st)

/-- `parseTransaction`, lines 88-131: the rest of the header line after the first date, up to
    and including its Newline: `(date2, status, code, (description, payee, note), comments)`. -/
def txHeader (st : PState σ) :
    (Option Date × Status × Bytes × (Bytes × Bytes × Bytes) × List Comment) × PState σ :=
  let (date2, st) := txDate2 E st
  let (status, st) := txStatus E st
  let (code, st) := txCode E st
  let (descr, st) := txDescription E st
  let (comments, st) := txComment E st
  let st := if st.current.ty = .newline then advance E st else st
  ((date2, status, code, descr, comments), st)

/-- `parseTransaction`. -/
def parseTransaction (st : PState σ) : Option Transaction × PState σ :=
  let start := st.current.pos
  match parseDate E st with
  | (none, st) => (none, skipToNextLine E st)
  | (some date, st) =>
    let ((date2, status, code, (desc, payee, note), comments), st) := txHeader E st
    let (postings, st) := postingsF E (fuelOf E st) st
    (some ⟨date, date2, status, code, desc, payee, note, postings, [], comments,
           toRange start st.current.pos⟩, st)

/-! ### directives -/

/-- Go `m[k] = v`. -/
def subInsert (m : Subdirs) (k v : Bytes) : Subdirs :=
  if m.any (fun e => e.1 = k) then m.map (fun e => if e.1 = k then (k, v) else e) else m ++ [(k, v)]

def subLookup (m : Subdirs) (k : Bytes) : Option Bytes :=
  (m.find? (fun e => e.1 = k)).map (·.2)

/-- The value-collecting loop of `parseSubdirectives`. -/
def subValueF : Nat → PState σ → Bytes → Bytes × PState σ
  | 0, st, acc => (acc, st)
  | n+1, st, acc =>
    if isLineEnd st.current ∨ st.current.ty = .comment then (acc, st) else
    let acc := acc ++ st.current.val
    let acc := if st.current.ty = .number ∨ st.current.ty = .commodity ∨ st.current.ty = .text
               then acc ++ [0x20] else acc
    subValueF n (advance E st) acc

/-- `parseSubdirectives`. -/
def parseSubdirectivesF : Nat → PState σ → Subdirs → Subdirs × PState σ
  | 0, st, m => (m, st)
  | n+1, st, m =>
    if st.current.ty ≠ .newline then (m, st) else
    let st := advance E st
    if st.current.ty ≠ .indent then (m, st) else
    let st := advance E st
    if st.current.ty = .comment then parseSubdirectivesF n (advance E st) m else
    if st.current.ty = .newline ∨ st.current.ty = .eof then parseSubdirectivesF n st m else
    if st.current.ty = .text then
      let line := st.current.val
      let st := advance E st
      let m := match indexOf line [0x20] with
        | some (i+1) => subInsert m (line.take (i+1)) (trimSpace (line.drop (i+2)))
        | _ => subInsert m line []
      parseSubdirectivesF n st m
    else if st.current.ty = .directive then
      let name := st.current.val
      let st := advance E st
      let (value, st) := subValueF E (fuelOf E st) st []
      parseSubdirectivesF n st (subInsert m name (trimSpace value))
    else parseSubdirectivesF n (skipToNextLine E st) m

def parseSubdirectives (st : PState σ) : Subdirs × PState σ :=
  parseSubdirectivesF E (fuelOf E st) st []

/-- `for p.current.Type != TokenNewline && p.current.Type != TokenEOF [&& != TokenComment] { advance }` -/
def skipUntilF (stopAtComment : Bool) : Nat → PState σ → PState σ
  | 0, st => st
  | n+1, st =>
    if isLineEnd st.current ∨ (stopAtComment ∧ st.current.ty = .comment) then st
    else skipUntilF stopAtComment n (advance E st)

/-- `parseAccountDirective`, lines 455-458: a second token of the account name. -/
def accountNameRest (name : Bytes) (st : PState σ) : Bytes × PState σ :=
  if st.current.ty = .text then (name ++ [0x20] ++ st.current.val, advance E st) else (name, st)

/-- `parseAccountDirective`. -/
def parseAccountDirective (startPos : Pos) (st : PState σ) : Option Directive × PState σ :=
  if st.current.ty ≠ .account ∧ st.current.ty ≠ .text then
    (none, skipToNextLine E (error st mExpectedAccount)) else
  let accountPos := st.current.pos
  let (name, st) := accountNameRest E st.current.val (advance E st)
  let ((comment, tags), st) := lineComment E st
  let st := skipUntilF E false (fuelOf E st) st
  let (subs, st) := parseSubdirectives E st
  (some (.account ⟨name, toRange accountPos Pos.zero⟩ tags comment subs (toRange startPos st.current.pos)), st)

/-- `Parser.directiveCommodity` (repo_patches/fix-quoted-commodity-directive.diff,
    fix-trailing-blank-ranges.diff): the commodity named by the token of a `commodity` / `P`
    directive.  The token — a commodity token or a text token — ends where its lexeme ends (a
    quoted symbol with its closing quote): its End is recorded, as `parseAmount` does. -/
def directiveCommodity (t : Token) : Commodity := ⟨t.val, .left, toRange t.pos t.stop⟩

/-- Before fix-trailing-blank-ranges.diff a text token ran on over the blanks that follow it:
    its End was not recorded (the server derives the end from the symbol). -/
def directiveCommodityPinnedTrail (t : Token) : Commodity :=
  ⟨t.val, .left, toRange t.pos (if t.ty = .commodity then t.stop else Pos.zero)⟩

/-- Before fix-quoted-commodity-directive.diff the End was never recorded. -/
def directiveCommodityPinned (t : Token) : Commodity := ⟨t.val, .left, toRange t.pos Pos.zero⟩

/-- `parseCommodityDirective`, the `switch` on the inline form: `(commodity, format)`. -/
def commodityInline (st : PState σ) : (Commodity × Bytes) × PState σ :=
  if st.current.ty = .commodity then
    let symbol := st.current.val
    let com : Commodity := directiveCommodity st.current
    let st := advance E st
    if st.current.ty = .number then ((com, symbol ++ st.current.val), advance E st) else ((com, []), st)
  else if st.current.ty = .number then
    let number := st.current.val
    let st := advance E st
    if st.current.ty = .commodity ∨ st.current.ty = .text then
      ((directiveCommodity st.current, number ++ [0x20] ++ st.current.val), advance E st)
    else ((emptyCommodity, []), st)
  else if st.current.ty = .text then
    ((directiveCommodity st.current, []), advance E st)
  else ((emptyCommodity, []), st)

/-- `parseCommodityDirective`. -/
def parseCommodityDirective (startPos : Pos) (st : PState σ) : Option Directive × PState σ :=
  let ((com, format), st) := commodityInline E st
  let st := skipUntilF E true (fuelOf E st) st
  let st := if st.current.ty = .comment then advance E st else st
  let (subs, st) := parseSubdirectives E st
  let format := match subLookup subs (kwFormat) with | some f => f | none => format
  let note := match subLookup subs (kwNote) with | some f => f | none => []
  (some (.commodity com format note subs (toRange startPos st.current.pos)), st)

/-- The path-collecting loop of `parseIncludeDirective`. -/
def includePathF : Nat → PState σ → Bytes → Bytes × PState σ
  | 0, st, acc => (acc, st)
  | n+1, st, acc =>
    if isLineEnd st.current ∨ st.current.ty = .comment then (acc, st)
    else includePathF n (advance E st) (acc ++ st.current.val)

/-- `parseIncludeDirective`. -/
def parseIncludeDirective (startPos : Pos) (st : PState σ) : Option Include × PState σ :=
  let (path, st) := includePathF E (fuelOf E st) st []
  let pathStr := trimSpace path
  if pathStr = [] then (none, skipToNextLine E (error st mExpectedFilePath)) else
  (some ⟨pathStr, toRange startPos st.current.pos⟩, skipToNextLine E st)

/-- `parsePriceDirective`. -/
def parsePriceDirective (startPos : Pos) (st : PState σ) : Option Directive × PState σ :=
  match parseDate E st with
  | (none, st) => (none, skipToNextLine E st)
  | (some date, st) =>
    if st.current.ty = .commodity ∨ st.current.ty = .text then
      let com : Commodity := directiveCommodity st.current
      let st := advance E st
      match parseAmount E st with
      | (none, st) => (none, skipToNextLine E st)
      | (some price, st) =>
        (some (.price date com price (toRange startPos st.current.pos)), skipToNextLine E st)
    else (none, skipToNextLine E (error st mExpectedCommodity))

/-- `parseDefaultCommodityDirective`. -/
def parseDefaultCommodityDirective (startPos : Pos) (st : PState σ) : Option Directive × PState σ :=
  let (symbol, format, st) : Bytes × Bytes × PState σ :=
    if st.current.ty = .commodity then
      let symbol := st.current.val
      let st := advance E st
      if st.current.ty = .number then (symbol, symbol ++ st.current.val, advance E st) else (symbol, [], st)
    else if st.current.ty = .number then
      let number := st.current.val
      let st := advance E st
      if st.current.ty = .commodity ∨ st.current.ty = .text then
        (st.current.val, number ++ [0x20] ++ st.current.val, advance E st)
      else ([], [], st)
    else ([], [], st)
  (some (.defaultCommodity symbol format (toRange startPos st.current.pos)), skipToNextLine E st)

/-- `parseYearDirective`. -/
def parseYearDirective (startPos : Pos) (st : PState σ) : Option Directive × PState σ :=
  if st.current.ty ≠ .number then (none, skipToNextLine E (error st mExpectedYear)) else
  match atoi st.current.val with
  | none => (none, skipToNextLine E (error st (mInvalidYear ++ st.current.val)))
  | some year =>
    if year < 1 ∨ year > 9999 then (none, skipToNextLine E (error st (mInvalidYear ++ st.current.val))) else
    let st := { st with defaultYear := year }
    let st := advance E st
    (some (.year year (toRange startPos st.current.pos)), skipToNextLine E st)

/-- What `parseDirective` hands back to `parseJournal`: nil, an `ast.Include`, or another directive. -/
inductive DirResult where
  | none
  | incl (i : Include)
  | dir (d : Directive)

def DirResult.ofDir : Option Directive → DirResult
  | some d => .dir d
  | Option.none => .none

/-- `parseDirective`. -/
def parseDirective (st : PState σ) : DirResult × PState σ :=
  let directive := st.current.val
  let pos := st.current.pos
  let st := advance E st
  if directive = kwAccount then
    let r := parseAccountDirective E pos st; (.ofDir r.1, r.2)
  else if directive = kwCommodity then
    let r := parseCommodityDirective E pos st; (.ofDir r.1, r.2)
  else if directive = kwInclude then
    match parseIncludeDirective E pos st with
    | (some i, st) => (.incl i, st)
    | (Option.none, st) => (.none, st)
  else if directive = kwP then
    let r := parsePriceDirective E pos st; (.ofDir r.1, r.2)
  else if directive = kwY ∨ directive = kwYear then
    let r := parseYearDirective E pos st; (.ofDir r.1, r.2)
  else if directive = kwD then
    let r := parseDefaultCommodityDirective E pos st; (.ofDir r.1, r.2)
  else (.none, skipToNextLine E st)

/-! ### the journal loop -/

/-- What one iteration of `parseJournal`'s loop appends to the journal. -/
inductive Item where
  | nothing
  | comment (c : Comment)
  | tx (t : Transaction)
  | incl (i : Include)
  | dir (d : Directive)

/-- One iteration of the `for p.current.Type != TokenEOF` loop body (the `switch`). -/
def journalStep (st : PState σ) : Item × PState σ :=
  if st.current.ty = .newline then (.nothing, advance E st)
  else if st.current.ty = .comment then
    let r := parseComment E st; (.comment r.1, r.2)
  else if st.current.ty = .date then
    match parseTransaction E st with
    | (some t, st) => (.tx t, st)
    | (none, st) => (.nothing, st)
  else if st.current.ty = .directive then
    match parseDirective E st with
    | (.none, st) => (.nothing, st)
    | (.incl i, st) => (.incl i, st)
    | (.dir d, st) => (.dir d, st)
  else
    (.nothing, skipToNextLine E (error st (mUnexpectedToken ++ bs st.current.ty.name)))

def jempty : Journal := ⟨[], [], [], []⟩

def jpush (j : Journal) : Item → Journal
  | .nothing => j
  | .comment c => { j with comments := c :: j.comments }
  | .tx t => { j with transactions := t :: j.transactions }
  | .incl i => { j with includes := i :: j.includes }
  | .dir d => { j with directives := d :: j.directives }

/-- `parseJournal`'s loop: the journal of everything parsed from `st` on. -/
def parseJournalF : Nat → PState σ → Journal × PState σ
  | 0, st => (jempty, st)
  | n+1, st =>
    if st.current.ty = .eof then (jempty, st) else
    let (item, st) := journalStep E st
    let (j, st) := parseJournalF n st
    (jpush j item, st)

/-- `Parse`: `p.advance()` then `parseJournal`; returns the journal and `p.errors`. -/
def parseJournal (st : PState σ) : Journal × PState σ := parseJournalF E (fuelOf E st) st

def parseWith (s : σ) : Journal × List ParseError :=
  let st : PState σ := advance E ⟨s, eofToken, [], 0⟩
  let (j, st) := parseJournal E st
  (j, st.errors)

end

/-- `Parse` on a complete token stream. -/
def parseTokens (num : NumDeps) (cls : Classes) (toks : List Token) : Journal × List ParseError :=
  parseWith ⟨listSrc, num, cls⟩ toks

end HL.Parser
