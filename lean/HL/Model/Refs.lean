/-
  Model of find-references / rename / prepare-rename:

    internal/server/references.go   References, findReferences, findAccountReferences,
                                    findCommodityReferences, findPayeeReferences, sortAndDedup,
                                    locationsEqual, nameRange, accountNameRange,
                                    directiveCommodityRange, postingCommodities
    internal/server/rename.go       PrepareRename, Rename
    internal/server/definition.go   findDefinitionTarget, commodityTarget, allJournalsWithPaths,
                                    sortedJournalPaths, pathToURI
    internal/server/hover.go        positionInRange, getPayeeOrDescription, (*columnMapper).payeeRange
                                    (the walk over the header line: HL/Model/PayeeRange.lean),
                                    estimatePayeeRange
    internal/server/position.go     columnMapper (lineColumn, toProtocol, runePosition), fileMappers
    internal/server/server.go       resolvedWithPrimaryPath, workspaceResolvedFor, GetResolved
    internal/workspace/workspace.go Workspace.Contains
    internal/include/types.go       ResolvedJournal (Primary, Files, FileOrder)
    internal/lsputil/mapper.go      RuneOffsetToUTF16, UTF16OffsetToRuneOffset (on the lines of a
                                    text, valid UTF-8: `List Char`); utf8.RuneCountInString

  as repaired by repo_patches/fix-references-rename.diff (primary journal labelled with its own
  path; commodities of costs, assertions and price directives searched; name ranges derived from
  the name; cursor accepted on directives), by repo_patches/fix-quoted-commodity-directive.diff
  (the commodity of a `commodity` / `P` directive is located by the range the parser recorded,
  when it recorded an End) and by repo_patches/fix-utf16-positions.diff (the rune
  columns of the trees are converted to UTF-16 characters with the lines of each file's text, the
  cursor to a rune column; name lengths count runes).  The lexer, parser and include loader are
  NOT modelled here: the input is the resolved structure with real syntax trees, plus the text
  the `fileMappers` of `resolvedWithPrimaryPath` pick for every path (workspace view: the buffer
  of an open document, else the file on disk; per-document view: the requesting document's
  buffer, every other file from disk; no lines at all when there is no text — then columns are
  passed on unchanged, which is also exactly what the code as pinned did for every file).

  Conventions.  Paths are strings; `pathToURI` (uri.File) and `uriToPath` are the identity on
  the path shapes of DESIGN 4.4 (the harness reports URIs as paths), so a location is
  `(path, range)`.  `map[string]*ast.Journal` is an association list with unique keys.
  Go `int → uint32` conversions are `toU32`.
-/
import HL.Model.Ast
import HL.Model.Text
import HL.Model.PayeeRange
namespace HL.Refs
open HL HL.Ast

/-- A `columnMapper`: the lines of the text (`strings.Split(content, "\n")`). -/
abbrev Lines := List HL.Text.Txt

abbrev Path := String

/-- LSP position: zero-based line and UTF-16 character, both `uint32`. -/
structure LPos where
  line : Nat
  char : Nat
deriving Repr, DecidableEq, Inhabited, BEq

structure LRange where
  start : LPos
  stop : LPos
deriving Repr, DecidableEq, Inhabited, BEq

/-- `protocol.Location` with the URI written as the file's path. -/
structure Loc where
  path : Path
  range : LRange
deriving Repr, DecidableEq, Inhabited, BEq

/-- `ast.Range` as used by the server: only line and column are read. -/
structure ARange where
  sl : Nat
  sc : Nat
  el : Nat
  ec : Nat
deriving Repr, DecidableEq, Inhabited, BEq

def ARange.ofRng (r : Rng) : ARange := ⟨r.start.line, r.start.col, r.stop.line, r.stop.col⟩

/-- `uint32(n - 1)` for a Go `int` `n ≥ 0`. -/
def u32pred (n : Nat) : Nat := if n = 0 then 4294967295 else (n - 1) % 4294967296

/-- `columnMapper.lineColumn`: the character is the UTF-16 length of the first `col − 1` runes
    of the line; without that line the column is passed on (`uint32(col − 1)`). -/
def convChar (lns : Lines) (line col : Nat) : Nat :=
  if line = 0 then u32pred col else
  match lns[line - 1]? with
  | some ln => HL.Text.u16len (ln.take (col - 1)) % 4294967296
  | none => u32pred col

/-- `columnMapper.toProtocol`. -/
def toLsp (lns : Lines) (r : ARange) : LRange :=
  ⟨⟨u32pred r.sl, convChar lns r.sl r.sc⟩, ⟨u32pred r.el, convChar lns r.el r.ec⟩⟩

/-- `columnMapper.runePosition`: the cursor with its character counted in runes. -/
def runePos (lns : Lines) (p : LPos) : LPos :=
  match lns[p.line]? with
  | some ln => ⟨p.line, HL.Text.takeU16 ln p.char⟩
  | none => p

/-- `positionInRange`: both ends inclusive; the cursor counts runes. -/
def positionInRange (p : LPos) (r : ARange) : Bool :=
  let line := p.line + 1
  let col := p.char + 1
  if line < r.sl || line > r.el then false
  else if line == r.sl && col < r.sc then false
  else if line == r.el && col > r.ec then false
  else true

/-- `utf8.RuneCountInString` on a valid UTF-8 string: every byte that is not a continuation byte
    (0x80..0xBF) starts a rune. -/
def runeLen : Bytes → Nat
  | [] => 0
  | b :: bs => (if b.toNat ≥ 0x80 && b.toNat < 0xC0 then 0 else 1) + runeLen bs

/-- `nameRange`. -/
def nameRange (start : Pos) (name : Bytes) : ARange :=
  ⟨start.line, start.col, start.line, start.col + runeLen name⟩

def accountNameRange (a : Account) : ARange := nameRange a.range.start a.name
/-- `directiveCommodityRange` (repo_patches/fix-quoted-commodity-directive.diff): the range the
    parser recorded for the commodity of a `commodity` / `P` directive when it has an End (the
    token's extent: a quoted symbol with its quotes, like a commodity written in a posting),
    otherwise derived from the symbol. -/
def directiveCommodityRange (c : Commodity) : ARange :=
  if c.range.stop != Pos.zero then ARange.ofRng c.range else nameRange c.range.start c.symbol

/-- `getPayeeOrDescription`. -/
def payeeOrDescription (tx : Transaction) : Bytes :=
  if tx.payee != [] then tx.payee else tx.description

/-- `estimatePayeeRange`: one column after the date, two more after a status mark (the whole
    answer of the tree as pinned; now the fallback when the mapper has no text for the line). -/
def estimatePayeeRange (tx : Transaction) (payee : Bytes) : ARange :=
  let startCol := tx.date.range.stop.col + 1 + (if tx.status != .none then 2 else 0)
  ⟨tx.date.range.start.line, startCol, tx.date.range.start.line, startCol + runeLen payee⟩

/-- `(*columnMapper).payeeRange` (repo_patches/fix-payee-range.diff): the description is looked
    up on the header line of the text the tree was parsed from (`lns`: the lines of the file's
    mapper); the payee is a trimmed prefix of the description.  Without that line, or when the
    line ends before a description: the estimate. -/
def payeeRange (lns : Lines) (tx : Transaction) (payee : Bytes) : ARange :=
  match HL.PayeeRange.payeeStart lns tx.date.range.start.line tx.date.range.stop.col with
  | some col => ⟨tx.date.range.start.line, col, tx.date.range.start.line, col + runeLen payee⟩
  | none => estimatePayeeRange tx payee

/-- `postingCommodities`: amount, cost, assertion, in that order. -/
def postingCommodities (p : Posting) : List Commodity :=
  (match p.amount with | some a => [a.commodity] | none => []) ++
  (match p.cost with | some c => [c.amount.commodity] | none => []) ++
  (match p.assertion with | some b => [b.amount.commodity] | none => [])

inductive Kind where | account | commodity | payee
deriving Repr, DecidableEq, Inhabited, BEq

/-- `definitionTarget` (context ≠ DefContextUnknown). -/
structure Target where
  kind : Kind
  name : Bytes
  range : LRange
deriving Repr, DecidableEq, Inhabited, BEq

/-! ### findDefinitionTarget -/

def targetInPostings (lns : Lines) (pos : LPos) : List Posting → Option Target
  | [] => none
  | p :: ps =>
    let ar := accountNameRange p.account
    if positionInRange pos ar then some ⟨.account, p.account.name, toLsp lns ar⟩
    else
      match (postingCommodities p).find? (fun c => c.symbol != [] && positionInRange pos (ARange.ofRng c.range)) with
      | some c => some ⟨.commodity, c.symbol, toLsp lns (ARange.ofRng c.range)⟩
      | none => targetInPostings lns pos ps

def targetInTxs (lns : Lines) (pos : LPos) : List Transaction → Option Target
  | [] => none
  | tx :: txs =>
    let payee := payeeOrDescription tx
    let pr := payeeRange lns tx payee
    if payee != [] && positionInRange pos pr then some ⟨.payee, payee, toLsp lns pr⟩
    else match targetInPostings lns pos tx.postings with
      | some t => some t
      | none => targetInTxs lns pos txs

def targetInDirective (lns : Lines) (pos : LPos) : Directive → Option Target
  | .account a _ _ _ _ =>
    let ar := accountNameRange a
    if positionInRange pos ar then some ⟨.account, a.name, toLsp lns ar⟩ else none
  | .commodity c _ _ _ _ =>
    let r := directiveCommodityRange c
    if c.symbol != [] && positionInRange pos r then some ⟨.commodity, c.symbol, toLsp lns r⟩ else none
  | .price _ c p _ =>
    let r := directiveCommodityRange c
    if c.symbol != [] && positionInRange pos r then some ⟨.commodity, c.symbol, toLsp lns r⟩
    else
      let pc := p.commodity
      if pc.symbol != [] && positionInRange pos (ARange.ofRng pc.range) then
        some ⟨.commodity, pc.symbol, toLsp lns (ARange.ofRng pc.range)⟩
      else none
  | _ => none

def targetInDirectives (lns : Lines) (pos : LPos) : List Directive → Option Target
  | [] => none
  | d :: ds => match targetInDirective lns pos d with
    | some t => some t
    | none => targetInDirectives lns pos ds

/-- The loops of `findDefinitionTarget` for a cursor that counts runes: transactions first
    (payee, then per posting account and commodities), then directives. -/
def findDefinitionTargetR (lns : Lines) (j : Journal) (pos : LPos) : Option Target :=
  match targetInTxs lns pos j.transactions with
  | some t => some t
  | none => targetInDirectives lns pos j.directives

/-- `findDefinitionTarget(journal, mapper, pos)`: `pos = mapper.runePosition(pos)` first. -/
def findDefinitionTarget (lns : Lines) (j : Journal) (pos : LPos) : Option Target :=
  findDefinitionTargetR lns j (runePos lns pos)

/-! ### The journal map -/

/-- `include.ResolvedJournal` (errors are not read here). -/
structure Resolved where
  primary : Option Journal
  files : List (Path × Journal)
  order : List Path
deriving Repr, Inhabited

abbrev JMap := List (Path × Journal)

def JMap.insert (m : JMap) (k : Path) (v : Journal) : JMap := (k, v) :: m.filter (·.1 != k)
def JMap.get (m : JMap) (k : Path) : Option Journal := (m.find? (·.1 == k)).map (·.2)
def JMap.keys (m : JMap) : List Path := m.map (·.1)

/-- `allJournalsWithPaths(resolved, primaryPath, currentJournal)`. -/
def journalsWithPaths (resolved : Option Resolved) (primaryPath : Path) (cur : Option Journal) : JMap :=
  match resolved with
  | some r =>
    let m : JMap := r.files.foldl (fun acc (kv : Path × Journal) => acc.insert kv.1 kv.2) []
    match r.primary with
    | some p => if primaryPath != "" then m.insert primaryPath p else m
    | none => m
  | none =>
    match cur with
    | some j => if primaryPath != "" then JMap.insert [] primaryPath j else []
    | none => []

/-- Insertion sort (kernel-reducible); `sort.Strings`. -/
def insSorted {α} (lt : α → α → Bool) (x : α) : List α → List α
  | [] => [x]
  | y :: ys => if lt x y then x :: y :: ys else y :: insSorted lt x ys

def isort {α} (lt : α → α → Bool) : List α → List α
  | [] => []
  | x :: xs => insSorted lt x (isort lt xs)

/-- `sortedJournalPaths`. -/
def sortedPaths (m : JMap) : List Path := isort (fun a b => decide (a < b)) m.keys

/-! ### The three searches -/

def accountLocs (lns : Lines) (name : Bytes) (incl : Bool) (path : Path) (j : Journal) : List Loc :=
  (if incl then
    j.directives.filterMap fun d => match d with
      | .account a _ _ _ _ => if a.name == name then some ⟨path, toLsp lns (accountNameRange a)⟩ else none
      | _ => none
   else []) ++
  j.transactions.flatMap fun tx =>
    tx.postings.filterMap fun p =>
      if p.account.name == name then some ⟨path, toLsp lns (accountNameRange p.account)⟩ else none

def directiveCommodityLocs (lns : Lines) (symbol : Bytes) (incl : Bool) (path : Path) : Directive → List Loc
  | .commodity c _ _ _ _ =>
    if incl && c.symbol == symbol then [⟨path, toLsp lns (directiveCommodityRange c)⟩] else []
  | .price _ c p _ =>
    (if c.symbol == symbol then [⟨path, toLsp lns (directiveCommodityRange c)⟩] else []) ++
    (if p.commodity.symbol == symbol then [⟨path, toLsp lns (ARange.ofRng p.commodity.range)⟩] else [])
  | _ => []

def commodityLocs (lns : Lines) (symbol : Bytes) (incl : Bool) (path : Path) (j : Journal) : List Loc :=
  j.directives.flatMap (directiveCommodityLocs lns symbol incl path) ++
  j.transactions.flatMap fun tx =>
    tx.postings.flatMap fun p =>
      (postingCommodities p).filterMap fun c =>
        if c.symbol == symbol then some ⟨path, toLsp lns (ARange.ofRng c.range)⟩ else none

def payeeLocs (lns : Lines) (payee : Bytes) (path : Path) (j : Journal) : List Loc :=
  j.transactions.filterMap fun tx =>
    if payeeOrDescription tx == payee then some ⟨path, toLsp lns (payeeRange lns tx payee)⟩ else none

/-- The `less` of `sortAndDedup`: URI, then start line, then start character. -/
def locLt (a b : Loc) : Bool :=
  if a.path != b.path then decide (a.path < b.path)
  else if a.range.start.line != b.range.start.line then decide (a.range.start.line < b.range.start.line)
  else decide (a.range.start.char < b.range.start.char)

/-- Removal of adjacent equal locations (`locationsEqual` compares all five fields). -/
def dedupAdj : List Loc → List Loc
  | [] => []
  | [a] => [a]
  | a :: b :: rest => if a = b then dedupAdj (b :: rest) else a :: dedupAdj (b :: rest)

/-- `sortAndDedup` (`nil` and the empty slice are not distinguished).  `sort.Slice` is not
    stable; the model uses a stable sort, the theorems only use that it is a sorted permutation. -/
def sortAndDedup (ls : List Loc) : List Loc := dedupAdj (isort locLt ls)

def collect (m : JMap) (f : Path → Journal → List Loc) : List Loc :=
  (sortedPaths m).flatMap fun p => match m.get p with
    | some j => f p j
    | none => []

/-- `fileMappers`: the lines of the text of every path (`[]`: no text to be had). -/
abbrev Texts := Path → Lines

/-- The mapper that has no text for any file: columns are passed on unchanged, as the code as
    pinned did. -/
def noTexts : Texts := fun _ => []

/-- `findReferences`; every file's locations are converted with `mappers.get(filePath)`. -/
def findReferences (texts : Texts) (kind : Kind) (name : Bytes) (resolved : Option Resolved) (primaryPath : Path)
    (cur : Option Journal) (incl : Bool) : List Loc :=
  let m := journalsWithPaths resolved primaryPath cur
  match kind with
  | .account => sortAndDedup (collect m (fun p j => accountLocs (texts p) name incl p j))
  | .commodity => sortAndDedup (collect m (fun p j => commodityLocs (texts p) name incl p j))
  | .payee => sortAndDedup (collect m (fun p j => payeeLocs (texts p) name p j))

/-! ### Handlers -/

/-- What the handlers read from the server: the open document's syntax tree (the harness parses
    the stored text with the real parser), the resolved journal chosen by
    `resolvedWithPrimaryPath` and the path of its primary journal. -/
structure Request where
  curJournal : Journal
  resolved : Option Resolved
  primaryPath : Path
  pos : LPos
  /-- the lines of the requesting document's buffer (`newColumnMapper(doc)`) -/
  curLines : Lines := []
  /-- the `fileMappers` returned by `resolvedWithPrimaryPath` -/
  texts : Texts := noTexts

/-- `Workspace.Contains`: the path is the root journal or a key of `resolved.Files`. -/
def wsContains (r : Resolved) (root : Path) (path : Path) : Bool :=
  path != "" && (path == root || r.files.any (·.1 == path))

/-- `Server.resolvedWithPrimaryPath` (with `workspaceResolvedFor`, as repaired by
    fix-orphan-journal-own-tree.diff): the workspace's resolved journal, labelled with the root
    journal's path, when the document is the root journal or a file of its include tree;
    otherwise (a journal outside that tree, no workspace, a workspace without a root journal:
    `ws = none`) the journal resolved for the document itself, labelled with its own path. -/
def resolvedWithPrimaryPath (ws : Option (Resolved × Path)) (own : Option Resolved) (docPath : Path) :
    Option Resolved × Path :=
  match ws with
  | some (r, root) => if wsContains r root docPath then (some r, root) else (own, docPath)
  | none => (own, docPath)

/-- the same before that repair: the workspace's journal whenever there is one. -/
def pinnedResolvedWithPrimaryPath (ws : Option (Resolved × Path)) (own : Option Resolved) (docPath : Path) :
    Option Resolved × Path :=
  match ws with
  | some (r, root) => (some r, root)
  | none => (own, docPath)

/-- `Server.References`. -/
def references (q : Request) (incl : Bool) : List Loc :=
  match findDefinitionTarget q.curLines q.curJournal q.pos with
  | none => []
  | some t => findReferences q.texts t.kind t.name q.resolved q.primaryPath (some q.curJournal) incl

/-- `Server.PrepareRename`. -/
def prepareRename (q : Request) : Option LRange :=
  (findDefinitionTarget q.curLines q.curJournal q.pos).map (·.range)

structure TextEdit where
  range : LRange
  newText : Bytes
deriving Repr, DecidableEq, Inhabited, BEq

/-- `WorkspaceEdit.Changes`: URI ↦ edits, in the order the locations were appended. -/
abbrev Changes := List (Path × List TextEdit)

def Changes.add (c : Changes) (p : Path) (e : TextEdit) : Changes :=
  match c with
  | [] => [(p, [e])]
  | (q, es) :: rest => if q == p then (q, es ++ [e]) :: rest else (q, es) :: Changes.add rest p e

/-- `Server.Rename`: `none` is the nil result. -/
def rename (q : Request) (newName : Bytes) : Option Changes :=
  match findDefinitionTarget q.curLines q.curJournal q.pos with
  | none => none
  | some t =>
    let locs := findReferences q.texts t.kind t.name q.resolved q.primaryPath (some q.curJournal) true
    if locs.isEmpty then none
    else some (locs.foldl (fun c l => c.add l.path ⟨l.range, newName⟩) [])

end HL.Refs
