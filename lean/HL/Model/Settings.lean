/-
  Executable model of the configuration code of hledger-lsp (property C19).

  Go code transcribed (internal/server):
    settings.go  featureSettings … serverSettings, defaultServerSettings, maxIndentSize,
                 maxMinAlignmentColumn, normalizeServerSettings, setSettings, getSettings,
                 nextRefresh, isNewestRefresh, applyConfiguration, refreshConfiguration,
                 DidChangeConfiguration, parseSettingsFromRaw, applySettingsMap, toInt, toInt64,
                 toBool, toString
    server.go    NewServer (initial settings), Initialize (initializationOptions, capability
                 gating, supportsConfiguration), Initialized (spawns a refresh),
                 shouldIncludeDiagnostic, the places where a setting is read
    feature_gate.go  requestFeature, FeatureGate (chained in cmd/hledger-lsp/main.go)
    include/loader.go  DefaultLimits, normalizeLimits, SetLimits (the cache is emptied when the
                 limits change), the size check of loadSingleInclude on the probe's chain

  The model describes the tree AFTER the `fix:` commits for the findings
  wrapper-shadows-siblings, unbounded-width-panics, limits-skip-cached-includes,
  refresh-out-of-order, push-ignored and feature-switch-after-init; the pinned behaviour is
  kept in the definitions marked PINNED (`normalizePinned`, `parseSettingsFromRawPinned`,
  `SrvP`/`stepP`, `respondPinned`) for the
  `pinned_*_counterexample` theorems of HL.Props.C19.

  JSON values are modelled *as the Go code sees them*: the payload has already been decoded by
  encoding/json (segmentio) into `interface{}`; every JSON number is a float64.  A float64 is
  the dyadic rational `m * 2^e`, exactly, and `Json.num m e` carries that pair.  (Decoding the
  decimal text of a number to the nearest float64 is the JSON library's job and is outside the
  model; a number whose magnitude exceeds the float64 range makes the *whole message* fail to
  decode, before any code modelled here runs.)  JSON strings arrive as valid UTF-8 (the decoder
  substitutes U+FFFD), hence `String`.  A JSON object is a Go map: an association list, looked
  up by first match (the harness sends unique, sorted keys).

  Go `int` is 64 bit on the platforms the check runs on.  `int(f)` for a float64 outside
  [-2^63, 2^63) is implementation-defined in Go; on amd64 (CVTTSD2SI) it yields -2^63, which is
  what `f64ToInt` does — the harness only emits such numbers on amd64 and the property
  theorems exclude them through `Spec` guards.
-/
namespace HL.Settings

/-! ## JSON as seen by the Go code -/

inductive Json where
  | null
  | bool (b : Bool)
  | num (m : Int) (e : Int)          -- the float64 value m * 2^e
  | str (s : String)
  | arr (l : List Json)
  | obj (kvs : List (String × Json))
  deriving Repr, Inhabited

/-- `m[k]` on a Go `map[string]interface{}`: the value, or nil (= `null`) when absent. -/
def lookup (k : String) : List (String × Json) → Option Json
  | [] => none
  | (a, v) :: r => if a = k then some v else lookup k r

def getKey (k : String) (kvs : List (String × Json)) : Json := (lookup k kvs).getD .null

/-! ## Coercions -/

def pow63 : Int := 9223372036854775808
def minInt64 : Int := -pow63
def inInt64 (x : Int) : Bool := decide (minInt64 ≤ x) && decide (x < pow63)

/-- two's complement wrap-around of int64 arithmetic -/
def wrap64 (x : Int) : Int := (x + pow63) % (2 * pow63) - pow63

/-- truncation toward zero of the float64 `m * 2^e` -/
def truncNum (m e : Int) : Int :=
  if 0 ≤ e then m * 2 ^ e.toNat else Int.tdiv m (2 ^ (-e).toNat)

/-- Go `int(v)` / `int64(v)` for `v float64` (amd64 for the out-of-range case). -/
def f64ToInt (m e : Int) : Int :=
  let t := truncNum m e
  if inInt64 t then t else minInt64

/-- `unicode.IsSpace` (the White_Space property as tabulated by Go; checked against the
    toolchain by the op `c19.facts`). -/
def isSpace (c : Char) : Bool :=
  let n := c.toNat
  (9 ≤ n && n ≤ 13) || n == 0x20 || n == 0x85 || n == 0xA0 || n == 0x1680 ||
  (0x2000 ≤ n && n ≤ 0x200A) || n == 0x2028 || n == 0x2029 || n == 0x202F || n == 0x205F ||
  n == 0x3000

def dropTrailing (p : Char → Bool) (l : List Char) : List Char := (l.reverse.dropWhile p).reverse

/-- `strings.TrimSpace` -/
def trimSpace (l : List Char) : List Char := dropTrailing isSpace (l.dropWhile isSpace)

/-- What `toBool` needs of `strings.ToLower`: the only runes whose `unicode.ToLower` is one of
    the letters of "true"/"false" are those letters and their ASCII capitals, no rune becomes
    or ceases to be white space (checked exhaustively against the toolchain by `c19.facts`);
    so comparing the ASCII-lowered text gives the same verdict. -/
def lowerAscii (c : Char) : Char :=
  if 65 ≤ c.toNat && c.toNat ≤ 90 then Char.ofNat (c.toNat + 32) else c

def isDigit (c : Char) : Bool := 48 ≤ c.toNat && c.toNat ≤ 57

/-- decimal digits, at least one -/
def digitsVal : List Char → Nat → Option Nat
  | [], _ => none
  | [c], acc => if isDigit c then some (acc * 10 + (c.toNat - 48)) else none
  | c :: r, acc => if isDigit c then digitsVal r (acc * 10 + (c.toNat - 48)) else none

/-- `strconv.Atoi` / `strconv.ParseInt(s, 10, 64)` on a 64-bit platform: optional sign, one or
    more ASCII digits, value inside int64; anything else is an error. -/
def atoi (l : List Char) : Option Int :=
  match l with
  | '+' :: r => (digitsVal r 0).bind fun n => if n < pow63.toNat then some (n : Int) else none
  | '-' :: r => (digitsVal r 0).bind fun n => if n ≤ pow63.toNat then some (-(n : Int)) else none
  | r => (digitsVal r 0).bind fun n => if n < pow63.toNat then some (n : Int) else none

/-- `toInt` (the cases int/int32/int64/float32 cannot come out of a JSON decoder) -/
def toInt : Json → Option Int
  | .num m e => some (f64ToInt m e)
  | .str s =>
    let v := trimSpace s.toList
    if v.isEmpty then none else atoi v
  | _ => none

/-- `toInt64`: the same code with `ParseInt(v, 10, 64)` for `Atoi` -/
def toInt64 : Json → Option Int
  | .num m e => some (f64ToInt m e)
  | .str s =>
    let v := trimSpace s.toList
    if v.isEmpty then none else atoi v
  | _ => none

def toBool : Json → Option Bool
  | .bool b => some b
  | .str s =>
    let v := trimSpace (s.toList.map lowerAscii)
    if v = "true".toList then some true
    else if v = "false".toList then some false
    else none
  | _ => none

def toStr : Json → Option String
  | .str s => some s
  | _ => none

/-! ## The settings record (mirrors `serverSettings` field by field) -/

structure Features where
  hover : Bool
  completion : Bool
  formatting : Bool
  diagnostics : Bool
  semanticTokens : Bool
  codeActions : Bool
  foldingRanges : Bool
  documentLinks : Bool
  workspaceSymbol : Bool
  inlineCompletion : Bool
  deriving DecidableEq, Repr

structure Completion where
  maxResults : Int
  fuzzyMatching : Bool
  showCounts : Bool
  deriving DecidableEq, Repr

structure Diagnostics where
  undeclaredAccounts : Bool
  undeclaredCommodities : Bool
  unbalancedTransactions : Bool
  deriving DecidableEq, Repr

structure Formatting where
  indentSize : Int
  alignAmounts : Bool
  minAlignmentColumn : Int
  deriving DecidableEq, Repr

structure CLI where
  enabled : Bool
  path : String
  timeout : Int            -- time.Duration: int64 nanoseconds
  deriving DecidableEq, Repr

structure Limits where
  maxFileSizeBytes : Int   -- int64
  maxIncludeDepth : Int
  deriving DecidableEq, Repr

structure Settings where
  features : Features
  completion : Completion
  diagnostics : Diagnostics
  formatting : Formatting
  cli : CLI
  limits : Limits
  deriving DecidableEq, Repr

def millisecond : Int := 1000000
def defaultLimits : Limits := ⟨10 * 1024 * 1024, 50⟩

def defaults : Settings where
  features := ⟨true, true, true, true, true, true, true, true, true, true⟩
  completion := ⟨50, true, true⟩
  diagnostics := ⟨true, true, true⟩
  formatting := ⟨4, true, 0⟩
  cli := ⟨true, "hledger", 30 * 1000 * millisecond⟩
  limits := defaultLimits

/-! ## The key tree -/

/-- One constructor per field of `serverSettings`. -/
inductive Leaf where
  | fHover | fCompletion | fFormatting | fDiagnostics | fSemanticTokens | fCodeActions
  | fFoldingRanges | fDocumentLinks | fWorkspaceSymbol | fInlineCompletion
  | cMaxResults | cFuzzyMatching | cShowCounts
  | dUndeclaredAccounts | dUndeclaredCommodities | dUnbalancedTransactions
  | oIndentSize | oAlignAmounts | oMinAlignmentColumn
  | xEnabled | xPath | xTimeout
  | lMaxFileSizeBytes | lMaxIncludeDepth
  deriving DecidableEq, Repr

def Leaf.all : List Leaf := [
  .fHover, .fCompletion, .fFormatting, .fDiagnostics, .fSemanticTokens, .fCodeActions,
  .fFoldingRanges, .fDocumentLinks, .fWorkspaceSymbol, .fInlineCompletion,
  .cMaxResults, .cFuzzyMatching, .cShowCounts,
  .dUndeclaredAccounts, .dUndeclaredCommodities, .dUnbalancedTransactions,
  .oIndentSize, .oAlignAmounts, .oMinAlignmentColumn,
  .xEnabled, .xPath, .xTimeout,
  .lMaxFileSizeBytes, .lMaxIncludeDepth]

/-- Go field path, as printed by the harness's reflection walk. -/
def Leaf.goName : Leaf → String
  | .fHover => "Features.Hover" | .fCompletion => "Features.Completion"
  | .fFormatting => "Features.Formatting" | .fDiagnostics => "Features.Diagnostics"
  | .fSemanticTokens => "Features.SemanticTokens" | .fCodeActions => "Features.CodeActions"
  | .fFoldingRanges => "Features.FoldingRanges" | .fDocumentLinks => "Features.DocumentLinks"
  | .fWorkspaceSymbol => "Features.WorkspaceSymbol" | .fInlineCompletion => "Features.InlineCompletion"
  | .cMaxResults => "Completion.MaxResults" | .cFuzzyMatching => "Completion.FuzzyMatching"
  | .cShowCounts => "Completion.ShowCounts"
  | .dUndeclaredAccounts => "Diagnostics.UndeclaredAccounts"
  | .dUndeclaredCommodities => "Diagnostics.UndeclaredCommodities"
  | .dUnbalancedTransactions => "Diagnostics.UnbalancedTransactions"
  | .oIndentSize => "Formatting.IndentSize" | .oAlignAmounts => "Formatting.AlignAmounts"
  | .oMinAlignmentColumn => "Formatting.MinAlignmentColumn"
  | .xEnabled => "CLI.Enabled" | .xPath => "CLI.Path" | .xTimeout => "CLI.Timeout"
  | .lMaxFileSizeBytes => "Limits.MaxFileSizeBytes" | .lMaxIncludeDepth => "Limits.MaxIncludeDepth"

inductive Val where
  | b (v : Bool)
  | i (v : Int)
  | s (v : String)
  deriving DecidableEq, Repr

def get (s : Settings) : Leaf → Val
  | .fHover => .b s.features.hover | .fCompletion => .b s.features.completion
  | .fFormatting => .b s.features.formatting | .fDiagnostics => .b s.features.diagnostics
  | .fSemanticTokens => .b s.features.semanticTokens | .fCodeActions => .b s.features.codeActions
  | .fFoldingRanges => .b s.features.foldingRanges | .fDocumentLinks => .b s.features.documentLinks
  | .fWorkspaceSymbol => .b s.features.workspaceSymbol
  | .fInlineCompletion => .b s.features.inlineCompletion
  | .cMaxResults => .i s.completion.maxResults | .cFuzzyMatching => .b s.completion.fuzzyMatching
  | .cShowCounts => .b s.completion.showCounts
  | .dUndeclaredAccounts => .b s.diagnostics.undeclaredAccounts
  | .dUndeclaredCommodities => .b s.diagnostics.undeclaredCommodities
  | .dUnbalancedTransactions => .b s.diagnostics.unbalancedTransactions
  | .oIndentSize => .i s.formatting.indentSize | .oAlignAmounts => .b s.formatting.alignAmounts
  | .oMinAlignmentColumn => .i s.formatting.minAlignmentColumn
  | .xEnabled => .b s.cli.enabled | .xPath => .s s.cli.path | .xTimeout => .i s.cli.timeout
  | .lMaxFileSizeBytes => .i s.limits.maxFileSizeBytes
  | .lMaxIncludeDepth => .i s.limits.maxIncludeDepth

/-- Assignment `settings.X.Y = value`; a value of the wrong Go type cannot be assigned (it is
    a compile error in Go), modelled as no change. -/
def set (s : Settings) : Leaf → Val → Settings
  | .fHover, .b v => { s with features := { s.features with hover := v } }
  | .fCompletion, .b v => { s with features := { s.features with completion := v } }
  | .fFormatting, .b v => { s with features := { s.features with formatting := v } }
  | .fDiagnostics, .b v => { s with features := { s.features with diagnostics := v } }
  | .fSemanticTokens, .b v => { s with features := { s.features with semanticTokens := v } }
  | .fCodeActions, .b v => { s with features := { s.features with codeActions := v } }
  | .fFoldingRanges, .b v => { s with features := { s.features with foldingRanges := v } }
  | .fDocumentLinks, .b v => { s with features := { s.features with documentLinks := v } }
  | .fWorkspaceSymbol, .b v => { s with features := { s.features with workspaceSymbol := v } }
  | .fInlineCompletion, .b v => { s with features := { s.features with inlineCompletion := v } }
  | .cMaxResults, .i v => { s with completion := { s.completion with maxResults := v } }
  | .cFuzzyMatching, .b v => { s with completion := { s.completion with fuzzyMatching := v } }
  | .cShowCounts, .b v => { s with completion := { s.completion with showCounts := v } }
  | .dUndeclaredAccounts, .b v => { s with diagnostics := { s.diagnostics with undeclaredAccounts := v } }
  | .dUndeclaredCommodities, .b v => { s with diagnostics := { s.diagnostics with undeclaredCommodities := v } }
  | .dUnbalancedTransactions, .b v => { s with diagnostics := { s.diagnostics with unbalancedTransactions := v } }
  | .oIndentSize, .i v => { s with formatting := { s.formatting with indentSize := v } }
  | .oAlignAmounts, .b v => { s with formatting := { s.formatting with alignAmounts := v } }
  | .oMinAlignmentColumn, .i v => { s with formatting := { s.formatting with minAlignmentColumn := v } }
  | .xEnabled, .b v => { s with cli := { s.cli with enabled := v } }
  | .xPath, .s v => { s with cli := { s.cli with path := v } }
  | .xTimeout, .i v => { s with cli := { s.cli with timeout := v } }
  | .lMaxFileSizeBytes, .i v => { s with limits := { s.limits with maxFileSizeBytes := v } }
  | .lMaxIncludeDepth, .i v => { s with limits := { s.limits with maxIncludeDepth := v } }
  | _, _ => s

/-- Which helper reads the raw value of a leaf. -/
inductive Coerce where
  | toBool | toInt | toInt64 | toString
  deriving DecidableEq, Repr

def Coerce.name : Coerce → String
  | .toBool => "toBool" | .toInt => "toInt" | .toInt64 => "toInt64" | .toString => "toString"

def Leaf.coerce : Leaf → Coerce
  | .cMaxResults | .oIndentSize | .oMinAlignmentColumn | .xTimeout | .lMaxIncludeDepth => .toInt
  | .lMaxFileSizeBytes => .toInt64
  | .xPath => .toString
  | _ => .toBool

/-- The right-hand side of the assignment: `value`, except
    `time.Duration(value) * time.Millisecond` (int64 multiplication, wraps) for cli.timeout. -/
def Leaf.xform : Leaf → String
  | .xTimeout => "time.Duration(value) * time.Millisecond"
  | _ => "value"

/-- coerce the raw value and compute the assigned value -/
def coerceLeaf (l : Leaf) (v : Json) : Option Val :=
  match l.coerce with
  | .toBool => (toBool v).map .b
  | .toInt => (toInt v).map fun n => .i (if l = .xTimeout then wrap64 (n * millisecond) else n)
  | .toInt64 => (toInt64 v).map .i
  | .toString => (toStr v).map .s

/-- The statements of `normalizeServerSettings`, in source order:
    `if settings.F <cond> { settings.F = <to> }`. -/
inductive NormCond where
  | nonPositive     -- `<= 0`
  | negative        -- `< 0`
  | emptyString     -- `== ""`
  | above (m : Int) -- `> m`
  deriving DecidableEq, Repr

def NormCond.src : NormCond → String
  | .nonPositive => "<= 0"
  | .negative => "< 0"
  | .emptyString => "== \"\""
  | .above m => s!"> {m}"

/-- what the statement assigns: the field's default, or a constant (the upper bound) -/
inductive NormTo where
  | default
  | const (v : Int)
  deriving DecidableEq, Repr

structure NormRule where
  leaf : Leaf
  cond : NormCond
  to : NormTo
  deriving DecidableEq, Repr

/-- `maxIndentSize`, `maxMinAlignmentColumn` (settings.go; compared with the source by `c19.keys`) -/
def maxIndentSize : Int := 32
def maxMinAlignmentColumn : Int := 500

def normRules : List NormRule := [
  ⟨.cMaxResults, .nonPositive, .default⟩,
  ⟨.oIndentSize, .nonPositive, .default⟩,
  ⟨.oIndentSize, .above maxIndentSize, .const maxIndentSize⟩,
  ⟨.oMinAlignmentColumn, .negative, .default⟩,
  ⟨.oMinAlignmentColumn, .above maxMinAlignmentColumn, .const maxMinAlignmentColumn⟩,
  ⟨.xPath, .emptyString, .default⟩,
  ⟨.xTimeout, .nonPositive, .default⟩,
  ⟨.lMaxFileSizeBytes, .nonPositive, .default⟩,
  ⟨.lMaxIncludeDepth, .nonPositive, .default⟩]

/-- The normalisation of the pinned tree (before the widths were bounded): the six
    "non-positive / empty gives the default" statements only. -/
def normRulesPinned : List NormRule := [
  ⟨.cMaxResults, .nonPositive, .default⟩, ⟨.oIndentSize, .nonPositive, .default⟩,
  ⟨.xPath, .emptyString, .default⟩, ⟨.xTimeout, .nonPositive, .default⟩,
  ⟨.lMaxFileSizeBytes, .nonPositive, .default⟩, ⟨.lMaxIncludeDepth, .nonPositive, .default⟩]

def NormCond.holds : NormCond → Val → Bool
  | .nonPositive, .i v => decide (v ≤ 0)
  | .negative, .i v => decide (v < 0)
  | .emptyString, .s v => decide (v = "")
  | .above m, .i v => decide (v > m)
  | _, _ => false

def NormRule.value (r : NormRule) : Val :=
  match r.to with
  | .default => get defaults r.leaf
  | .const v => .i v

/-- one statement applied to the value of its field -/
def stepVal (v : Val) (r : NormRule) : Val := if r.cond.holds v then r.value else v

/-- what normalisation does to one field (proved equal to `normalize` field by field in
    `HL.Lemmas.Settings.get_normalize`): the statements about that field, in order -/
def normLeaf (l : Leaf) (v : Val) : Val :=
  (normRules.filter fun r => r.leaf = l).foldl stepVal v

/-- one statement of `normalizeServerSettings`:
    `if settings.F <cond> { settings.F = <to> }` -/
def resetIf (s : Settings) (r : NormRule) : Settings :=
  if r.cond.holds (get s r.leaf) then set s r.leaf r.value else s

/-- `normalizeServerSettings`: its statements, in order (`normRules` is compared with the
    source by the op `c19.keys`). -/
def normalize (s : Settings) : Settings := normRules.foldl resetIf s

/-- `normalizeServerSettings` of the pinned tree -/
def normalizePinned (s : Settings) : Settings := normRulesPinned.foldl resetIf s

/-- One `if value, ok := toX(m["key"]); ok { settings.F = … }` statement of `applySettingsMap`.
    `group = some g`: the statement sits inside `if gRaw, ok := raw[g].(map[string]interface{}); ok`
    and reads `gRaw[key]`; `group = none`: it reads `raw[key]` (the dotted form). -/
structure Entry where
  group : Option String
  key : String
  leaf : Leaf
  deriving Repr, DecidableEq

/-- the sections of `applySettingsMap`, in source order -/
def sections : List (String × List (String × Leaf)) := [
  ("features", [("hover", .fHover), ("completion", .fCompletion), ("formatting", .fFormatting),
    ("diagnostics", .fDiagnostics), ("semanticTokens", .fSemanticTokens),
    ("codeActions", .fCodeActions), ("foldingRanges", .fFoldingRanges),
    ("documentLinks", .fDocumentLinks), ("workspaceSymbol", .fWorkspaceSymbol),
    ("inlineCompletion", .fInlineCompletion)]),
  ("completion", [("maxResults", .cMaxResults), ("fuzzyMatching", .cFuzzyMatching),
    ("showCounts", .cShowCounts)]),
  ("diagnostics", [("undeclaredAccounts", .dUndeclaredAccounts),
    ("undeclaredCommodities", .dUndeclaredCommodities),
    ("unbalancedTransactions", .dUnbalancedTransactions)]),
  ("formatting", [("indentSize", .oIndentSize), ("alignAmounts", .oAlignAmounts),
    ("minAlignmentColumn", .oMinAlignmentColumn)]),
  ("cli", [("enabled", .xEnabled), ("path", .xPath), ("timeout", .xTimeout)]),
  ("limits", [("maxFileSizeBytes", .lMaxFileSizeBytes), ("maxFileSize", .lMaxFileSizeBytes),
    ("maxIncludeDepth", .lMaxIncludeDepth)])]

/-- every statement of `applySettingsMap`, in source order: per section first the nested block,
    then the dotted keys -/
def keyTable : List Entry :=
  sections.flatMap fun (g, ks) =>
    ks.map (fun (k, l) => ⟨some g, k, l⟩) ++ ks.map (fun (k, l) => ⟨none, g ++ "." ++ k, l⟩)

/-- the raw value an entry reads (`nil` = `null` when the key, or the group object, is absent) -/
def entryRaw (raw : List (String × Json)) (e : Entry) : Json :=
  match e.group with
  | none => getKey e.key raw
  | some g =>
    match getKey g raw with
    | .obj m => getKey e.key m
    | _ => .null

def applyEntry (raw : List (String × Json)) (s : Settings) (e : Entry) : Settings :=
  match coerceLeaf e.leaf (entryRaw raw e) with
  | some v => set s e.leaf v
  | none => s

/-- `applySettingsMap` -/
def applySettingsMap (s : Settings) (raw : List (String × Json)) : Settings :=
  keyTable.foldl (applyEntry raw) s

/-! ## parseSettingsFromRaw -/

mutual
/-- `parseSettingsFromRaw(base, raw)`; structural recursion on the JSON value (the Go function
    recurses on `rawMap["hledger"]`, a strict sub-value).  The members of the object are applied
    first, the `hledger` section — if it is an object — on top of them; one normalisation at
    the end of the chain. -/
def parseSettingsFromRaw (base : Settings) : Json → Settings
  | .obj kvs =>
    let s := applySettingsMap base kvs
    match parseNested s kvs with
    | some r => r
    | none => normalize s
  | _ => normalize base
/-- `if nested, ok := rawMap["hledger"].(map[string]interface{}); ok { return parseSettingsFromRaw(settings, nested) }`
    (`rawMap[...]` finds the one member with that key; a member that is not an object fails the
    type assertion) -/
def parseNested (base : Settings) : List (String × Json) → Option Settings
  | [] => none
  | (k, v) :: r =>
    if k = "hledger" then
      match v with
      | .obj _ => some (parseSettingsFromRaw base v)
      | _ => none
    else parseNested base r
end

mutual
/-- `parseSettingsFromRaw` of the PINNED tree: returns as soon as the object has a member
    `hledger`, of whatever type, and never reads the other members (finding
    `wrapper-shadows-siblings`, repaired); normalisation without upper bounds. -/
def parseSettingsFromRawPinned (base : Settings) : Json → Settings
  | .obj kvs =>
    match parseNestedPinned base kvs with
    | some r => r
    | none => normalizePinned (applySettingsMap base kvs)
  | _ => normalizePinned base
def parseNestedPinned (base : Settings) : List (String × Json) → Option Settings
  | [] => none
  | (k, v) :: r => if k = "hledger" then some (parseSettingsFromRawPinned base v) else parseNestedPinned base r
end

/-! ## The include cache, as far as the limits are concerned

  The loader checks an included file against `limits.maxFileSizeBytes` when it reads it; a
  cached file is not read again (only the depth limit is checked on every load, and the cached
  file's own includes are followed).  `Loader.SetLimits` empties the cache when the limits
  change.  The behaviour probe of the harness is the chain `main` (25 bytes) → `a` (72) → `b`
  (22) → `c` (4); files are numbered a = 1, b = 2, c = 3 and `cache` lists the cached ones. -/

def includeMainBytes : Int := 25

def includeSize : Nat → Int
  | 1 => 72 | 2 => 22 | _ => 4

/-- `loadSingleInclude` along the chain, from file `k` on: depth-limit diagnostic, too-large
    diagnostic, cache afterwards.  A file is cached as soon as it has been parsed, before the
    depth test. -/
def includeFrom (L D : Int) : Nat → Nat → List Nat → Bool × Bool × List Nat
  | 0, _, cache => (false, false, cache)
  | fuel + 1, k, cache =>
    if k > 3 then (false, false, cache)
    else
      let cached := cache.contains k
      if !cached && includeSize k > L then (false, true, cache)
      else
        let cache1 := if cached then cache else k :: cache
        if D ≤ (k : Int) then (true, false, cache1)
        else includeFrom L D fuel (k + 1) cache1

/-- `Loader.LoadFromContent` of `main` with limits (L, D) and the given cache -/
def includeProbe (cache : List Nat) (L D : Int) : Bool × Bool × List Nat :=
  if L < includeMainBytes then (false, true, cache) else includeFrom L D 4 1 cache

/-! ## The server: Initialize, refresh tasks -/

/-- Runtime failures the Go code could hit in this area. -/
inductive Panic where
  | nilDeref          -- `params.WorkspaceFolders` with `params == nil` in Initialize
  | indexOutOfRange   -- `result[0]`
  deriving DecidableEq, Repr

/-- What Initialize reads of its parameters. -/
structure InitParams where
  /-- `params.Capabilities.Workspace`: none = nil pointer, some b = `.Configuration` -/
  workspaceCfg : Option Bool
  options : Json
  deriving Repr

/-- The capabilities that depend on settings. -/
structure Caps where
  completionProvider : Bool
  hoverProvider : Bool
  documentFormattingProvider : Bool
  semanticTokensProvider : Bool
  foldingRangeProvider : Bool
  documentLinkProvider : Bool
  workspaceSymbolProvider : Bool
  codeActionProvider : Bool
  executeCommandProvider : Bool
  inlineCompletionProvider : Bool
  deriving DecidableEq, Repr

def capsOf (s : Settings) : Caps where
  completionProvider := s.features.completion
  hoverProvider := s.features.hover
  documentFormattingProvider := s.features.formatting
  semanticTokensProvider := s.features.semanticTokens
  foldingRangeProvider := s.features.foldingRanges
  documentLinkProvider := s.features.documentLinks
  workspaceSymbolProvider := s.features.workspaceSymbol
  codeActionProvider := s.features.codeActions
  executeCommandProvider := s.features.codeActions
  inlineCompletionProvider := s.features.inlineCompletion

/-- Answer of the client to `workspace/configuration`. -/
inductive Pull where
  | err
  | items (l : List Json)
  deriving Repr

/-- Program counter of one `refreshConfiguration` goroutine. -/
inductive Pc where
  | start                       -- spawned, nothing done
  | asked                       -- request sent, waiting for the client
  | answered (r : Pull)         -- reply received
  | done
  deriving Repr

/-- One `refreshConfiguration` goroutine: the number it took from `nextRefresh` on the handler
    thread, and where it stands. -/
structure Task where
  seq : Nat
  pc : Pc
  deriving Repr

/-- The server as far as configuration goes.  `refreshSeq` is `Server.refreshSeq`; `cache`
    lists the probe's include files held by the loader (see above). -/
structure Srv where
  settings : Settings
  supportsCfg : Bool
  hasClient : Bool
  tasks : List Task
  refreshSeq : Nat
  cache : List Nat
  deriving Repr

/-- `NewServer()` (+ `SetClient`): `setSettings(defaults)` stores the normalised defaults; the
    loader starts with the default limits and an empty cache. -/
def newServer (hasClient : Bool) : Srv := ⟨normalize defaults, false, hasClient, [], 0, []⟩

/-- `setSettings`: the settings are normalised and stored; the loader receives
    `settings.Limits` and `Loader.SetLimits` empties its cache when they differ from the ones
    it has (which are the stored ones: every store goes through here, and `normalizeLimits`
    changes nothing on normalised settings); the CLI client is rebuilt when path or timeout
    changed (not modelled). -/
def setSettings (σ : Srv) (s : Settings) : Srv :=
  let n := normalize s
  { σ with settings := n, cache := if n.limits = σ.settings.limits then σ.cache else [] }

/-- `Initialize`.  `none` is the Go call with `params == nil`, which dereferences nil at
    `params.WorkspaceFolders` (the JSON-RPC dispatcher always passes a non-nil pointer). -/
def initializeSrv (σ : Srv) : Option InitParams → Except Panic (Srv × Caps)
  | none => .error .nilDeref
  | some p =>
    let σ := match p.workspaceCfg with
      | some b => { σ with supportsCfg := b }
      | none => σ
    let σ := setSettings σ (parseSettingsFromRaw σ.settings p.options)
    .ok (σ, capsOf σ.settings)

/-- `nextRefresh()` on the handler thread -/
def nextRefresh (σ : Srv) : Srv := { σ with refreshSeq := σ.refreshSeq + 1 }

/-- `go s.refreshConfiguration(ctx, s.nextRefresh())` -/
def spawnRefresh (σ : Srv) : Srv :=
  let σ := nextRefresh σ
  { σ with tasks := σ.tasks ++ [⟨σ.refreshSeq, .start⟩] }

/-- `applyConfiguration(seq, raw)`: under `refreshMu`, if `seq` is still the newest refresh
    requested, the settings in `raw` are parsed on top of the current settings and stored.
    One atomic step: `refreshMu` excludes every other `applyConfiguration`; the only actor it
    does not exclude is the handler thread taking the next number, and an increment of
    `refreshSeq` between the check and the store leads to the same state as the same increment
    right after the store. -/
def applyConfiguration (σ : Srv) (seq : Nat) (raw : Json) : Srv :=
  if seq = σ.refreshSeq then setSettings σ (parseSettingsFromRaw σ.settings raw) else σ

def setPc (σ : Srv) (i : Nat) (pc : Pc) : Srv :=
  { σ with tasks := σ.tasks.modify i fun t => { t with pc := pc } }

/-- checked `result[0]` -/
def index0 : List Json → Except Panic Json
  | [] => .error .indexOutOfRange
  | x :: _ => .ok x

/-- One atomic step of task `i`.  `reply` is consulted only by a task that is waiting. -/
def stepTask (σ : Srv) (i : Nat) (reply : Pull) : Except Panic Srv :=
  match σ.tasks[i]? with
  | none => .ok σ
  | some ⟨_, .start⟩ =>
    if !σ.hasClient || !σ.supportsCfg then .ok (setPc σ i .done) else .ok (setPc σ i .asked)
  | some ⟨_, .asked⟩ => .ok (setPc σ i (.answered reply))
  | some ⟨_, .answered .err⟩ => .ok (setPc σ i .done)
  | some ⟨seq, .answered (.items l)⟩ =>
    if l.length = 0 then .ok (setPc σ i .done)
    else do
      let r ← index0 l
      .ok (setPc (applyConfiguration σ seq r) i .done)
  | some ⟨_, .done⟩ => .ok σ

/-- a task run without interleaving: start, ask, answer, apply -/
def runTask (σ : Srv) (i : Nat) (reply : Pull) : Except Panic Srv := do
  let σ ← stepTask σ i reply
  let σ ← stepTask σ i reply
  let σ ← stepTask σ i reply
  stepTask σ i reply

/-- `DidChangeConfiguration(params)`: a client that can be asked is asked (the notification's
    own payload is then not looked at); otherwise the pushed settings, if any (`null` is Go's
    nil), are applied on the handler thread. -/
def didChangeConfiguration (σ : Srv) (pushed : Json) : Srv :=
  if σ.hasClient && σ.supportsCfg then spawnRefresh σ
  else
    let σ := nextRefresh σ
    match pushed with
    | .null => σ
    | p => applyConfiguration σ σ.refreshSeq p

/-- The diagnostics load of the behaviour probe's `main` file (a fresh directory has nothing
    in the cache): happens when there is a client to publish to and diagnostics are on. -/
def probeLoad (σ : Srv) (fresh : Bool) : Srv :=
  let cache := if fresh then [] else σ.cache
  if σ.hasClient && σ.settings.features.diagnostics then
    { σ with cache := (includeProbe cache σ.settings.limits.maxFileSizeBytes σ.settings.limits.maxIncludeDepth).2.2 }
  else { σ with cache := cache }

/-- What can happen to the server, as far as configuration goes.  Client messages are handled
    one at a time by the read loop; every `task` event is one atomic step of one background
    goroutine, so a list of events is an arbitrary interleaving. -/
inductive Event where
  | init (p : Option InitParams)
  | initialized
  | didChangeConfiguration (settings : Json)     -- the notification's own payload
  | task (i : Nat) (reply : Pull)
  | probe (fresh : Bool)                         -- a document with includes is opened
  deriving Repr

def step (σ : Srv) : Event → Except Panic Srv
  | .init p => (initializeSrv σ p).map (·.1)
  | .initialized => .ok (spawnRefresh σ)
  | .didChangeConfiguration p => .ok (didChangeConfiguration σ p)
  | .task i r => stepTask σ i r
  | .probe fresh => .ok (probeLoad σ fresh)

def run (σ : Srv) : List Event → Except Panic Srv
  | [] => .ok σ
  | e :: es =>
    match step σ e with
    | .ok σ' => run σ' es
    | .error p => .error p

/-- the events of one configuration change handled without interleaving: the notification,
    then the four steps of the task it spawned (which has index `n`), the client answering
    with `reply` -/
def changeEvents (n : Nat) (pushed : Json) (reply : Pull) : List Event :=
  [.didChangeConfiguration pushed, .task n reply, .task n reply, .task n reply, .task n reply]

/-! ### The refresh tasks of the PINNED tree

  No numbering: every task parses its answer on top of the settings it reads and stores the
  result, in two separate steps (findings `refresh-out-of-order`, lost update); the
  notification's own payload is never looked at (finding `push-ignored`); `SetLimits` keeps
  the cache (finding `limits-skip-cached-includes`). -/

inductive PcP where
  | start | asked | answered (r : Pull) | parsed (s : Settings) | done
  deriving Repr

structure SrvP where
  settings : Settings
  supportsCfg : Bool
  hasClient : Bool
  tasks : List PcP
  deriving Repr

inductive EventP where
  | didChangeConfiguration (settings : Json)
  | task (i : Nat) (reply : Pull)
  deriving Repr

def stepP (σ : SrvP) : EventP → SrvP
  | .didChangeConfiguration _ => { σ with tasks := σ.tasks ++ [.start] }
  | .task i reply =>
    let setT (pc : PcP) : SrvP := { σ with tasks := σ.tasks.set i pc }
    match σ.tasks[i]? with
    | none => σ
    | some .start => if !σ.hasClient || !σ.supportsCfg then setT .done else setT .asked
    | some .asked => setT (.answered reply)
    | some (.answered .err) => setT .done
    | some (.answered (.items [])) => setT .done
    | some (.answered (.items (r :: _))) => setT (.parsed (parseSettingsFromRawPinned σ.settings r))
    | some (.parsed s) => { σ with settings := normalizePinned s, tasks := σ.tasks.set i .done }
    | some .done => σ

def runP (σ : SrvP) (es : List EventP) : SrvP := es.foldl stepP σ

/-- `shouldIncludeDiagnostic` -/
def shouldIncludeDiagnostic (code : String) (d : Diagnostics) : Bool :=
  if code = "UNDECLARED_ACCOUNT" then d.undeclaredAccounts
  else if code = "UNDECLARED_COMMODITY" then d.undeclaredCommodities
  else if code = "UNBALANCED" || code = "MULTIPLE_INFERRED" then d.unbalancedTransactions
  else true

/-! ## The feature switches and the requests they govern

  Every switch of `featureSettings` governs one family of requests (diagnostics: the
  publication that follows a change of a document).  Eight of them are enforced where the
  requests enter the server: `Server.FeatureGate` (feature_gate.go), the jsonrpc2 middleware
  that cmd/hledger-lsp/main.go chains in front of the protocol dispatcher (regenerated facts
  `handlerChain`, `featureGateTable`; expectations in HL/Generated/Expect/FeatureGate.lean).
  It looks the request's method up in `requestFeature` and, when the switch is off in the
  settings stored AT THE TIME OF THE REQUEST (`s.getSettings().Features`), replies `null`
  without calling the handler; everything else is handed on.  The two remaining switches are
  read by the code they govern: `publishDiagnosticsVersion` publishes the empty list,
  `InlineCompletion` returns the empty list.  What `Initialize` advertised plays no part. -/

inductive Feature where
  | hover | completion | formatting | diagnostics | semanticTokens | codeActions
  | foldingRanges | documentLinks | workspaceSymbol | inlineCompletion
  deriving DecidableEq, Repr

def Feature.all : List Feature :=
  [.hover, .completion, .formatting, .diagnostics, .semanticTokens, .codeActions,
   .foldingRanges, .documentLinks, .workspaceSymbol, .inlineCompletion]

/-- the field of `serverSettings.Features` that holds the switch -/
def Feature.leaf : Feature → Leaf
  | .hover => .fHover | .completion => .fCompletion | .formatting => .fFormatting
  | .diagnostics => .fDiagnostics | .semanticTokens => .fSemanticTokens
  | .codeActions => .fCodeActions | .foldingRanges => .fFoldingRanges
  | .documentLinks => .fDocumentLinks | .workspaceSymbol => .fWorkspaceSymbol
  | .inlineCompletion => .fInlineCompletion

/-- name of the Go field of `featureSettings` -/
def Feature.goField : Feature → String
  | .hover => "Hover" | .completion => "Completion" | .formatting => "Formatting"
  | .diagnostics => "Diagnostics" | .semanticTokens => "SemanticTokens"
  | .codeActions => "CodeActions" | .foldingRanges => "FoldingRanges"
  | .documentLinks => "DocumentLinks" | .workspaceSymbol => "WorkspaceSymbol"
  | .inlineCompletion => "InlineCompletion"

/-- `settings.Features.X` -/
def featureOn (s : Settings) : Feature → Bool
  | .hover => s.features.hover | .completion => s.features.completion
  | .formatting => s.features.formatting | .diagnostics => s.features.diagnostics
  | .semanticTokens => s.features.semanticTokens | .codeActions => s.features.codeActions
  | .foldingRanges => s.features.foldingRanges | .documentLinks => s.features.documentLinks
  | .workspaceSymbol => s.features.workspaceSymbol
  | .inlineCompletion => s.features.inlineCompletion

/-- `requestFeature` (feature_gate.go), in source order: request method ↦ the switch that
    governs it.  Compared with the source through the regenerated fact `featureGateTable`. -/
def requestFeature : List (String × Feature) := [
  ("textDocument/hover", .hover), ("textDocument/completion", .completion),
  ("textDocument/formatting", .formatting),
  ("textDocument/semanticTokens/full", .semanticTokens),
  ("textDocument/semanticTokens/full/delta", .semanticTokens),
  ("textDocument/semanticTokens/range", .semanticTokens),
  ("textDocument/codeAction", .codeActions), ("textDocument/foldingRange", .foldingRanges),
  ("textDocument/documentLink", .documentLinks), ("workspace/symbol", .workspaceSymbol)]

/-- `requestFeature[req.Method()]` -/
def featureOfMethod (method : String) : List (String × Feature) → Option Feature
  | [] => none
  | (m, f) :: r => if m = method then some f else featureOfMethod method r

/-- `Server.FeatureGate`: is the request handed to `next`? -/
def gatePasses (σ : Srv) (method : String) : Bool :=
  match featureOfMethod method requestFeature with
  | some f => featureOn σ.settings f
  | none => true

/-- What the client receives for the request `method` when the handler behind the gate would
    answer `full`: `none` is the `null` the gate replies itself. -/
def dispatch {α : Type} (σ : Srv) (method : String) (full : α) : Option α :=
  if gatePasses σ method then some full else none

/-- The answer to a request of feature `f` in state `σ`, for all ten features alike: the
    switch as stored now decides between what the handler computes (`full` — the subject of
    the other properties, uninterpreted here) and the empty answer of that family (`empty`:
    `null` from the gate, the empty publication, the empty list of inline completions). -/
def respond {α : Type} (σ : Srv) (f : Feature) (full empty : α) : α :=
  if featureOn σ.settings f then full else empty

/-- PINNED tree (finding `feature-switch-after-init`, repaired): no gate; only the diagnostics
    task and the inline-completion handler look at their switch, every other request is
    answered whatever the settings say — `Initialize` alone read those switches, for the
    capabilities. -/
def respondPinned {α : Type} (σ : Srv) (f : Feature) (full empty : α) : α :=
  match f with
  | .diagnostics | .inlineCompletion => if featureOn σ.settings f then full else empty
  | _ => full

/-- what `Initialize` advertised for a feature (diagnostics have no capability) -/
def Caps.advertises (c : Caps) : Feature → Option Bool
  | .hover => some c.hoverProvider | .completion => some c.completionProvider
  | .formatting => some c.documentFormattingProvider | .diagnostics => none
  | .semanticTokens => some c.semanticTokensProvider | .codeActions => some c.codeActionProvider
  | .foldingRanges => some c.foldingRangeProvider | .documentLinks => some c.documentLinkProvider
  | .workspaceSymbol => some c.workspaceSymbolProvider
  | .inlineCompletion => some c.inlineCompletionProvider

/-- `include.normalizeLimits`, applied by `Loader.SetLimits` -/
def normalizeLimits (l : Limits) : Limits :=
  let l := if l.maxFileSizeBytes ≤ 0 then { l with maxFileSizeBytes := defaultLimits.maxFileSizeBytes } else l
  if l.maxIncludeDepth ≤ 0 then { l with maxIncludeDepth := defaultLimits.maxIncludeDepth } else l

end HL.Settings
