/-
  Model of internal/formatter/number_format.go (ParseNumberFormat, extractNumberPart,
  FormatNumber, formatIsFaithful) and internal/formatter/formatter.go
  (FormatDocumentWithOptions, trimTrailingSpacesEdits, extractCommodityFormats,
  formatTransactionWithOpts, calculateAccountDisplayLength, CalculateAlignmentColumn,
  calculateGlobalAlignmentColumnWithIndent, calculateAlignmentWithGlobal,
  calculateAmountCostLen, formatPostingWithOpts, writeAmountWithSign, commodityText,
  formatAmountQuantity), of server.formatText (the part of Server.Format after the document,
  the workspace formats and the settings have been looked up), of the shopspring/decimal
  methods they call (Round, StringFixed, String, Equal, Truncate) and of
  lsputil.PositionMapper.LineUTF16Len.

  The code modelled is the REPAIRED formatter (repo_patches/fix-format-1..5):
    1 a posting comment is written back as "  ;" ++ comment (no blank added per run);
    2 a commodity format is used only if formatIsFaithful (no rounding, no number the parser's
      single-mark rule would misread), otherwise the original spelling is kept;
    3 lines on which the parser reported an error are neither rebuilt nor trimmed
      (Options.SkipLines, filled by server.formatText);
    4 a commodity that stood in double quotes in the source is written in double quotes;
    5 LineUTF16Len does not count the CR of a CRLF terminator.

  Input of the model: the syntax tree and the parse errors the real parser produced
  (`HL.Ast.Journal`, `ParseError`), the text (bytes), the commodity formats (Go: nil map or a
  map) and the options.

  Conventions: Go strings are `Bytes`; Go `int`s that are provably non-negative in the code
  (columns, lengths) are `Nat`; `NumberFormat.DecimalPlaces` is a `Nat` (the only producer,
  ParseNumberFormat, yields a byte count); Go maps are association lists with unique keys
  (`Formats.insert` overwrites).
-/
import HL.Model.Ast
import HL.Model.FmtText
namespace HL.Fmt
open HL HL.Ast HL.FmtText

/-! ### shopspring/decimal -/

/-- Decimal digits of a natural number (`big.Int.String` of a non-negative value). -/
def digitsAux : Nat → Nat → Bytes → Bytes
  | 0, _, acc => acc
  | f+1, n, acc =>
    let acc' := UInt8.ofNat (48 + n % 10) :: acc
    if n / 10 = 0 then acc' else digitsAux f (n / 10) acc'

def natStr (n : Nat) : Bytes := digitsAux (n + 1) n []

/-- `big.Int.String`. -/
def intStr (i : Int) : Bytes := if i < 0 then 45 :: natStr i.natAbs else natStr i.natAbs

/-- `Decimal.rescale`: `Quo` truncates towards zero. -/
def rescale (d : Dec) (e : Int) : Dec :=
  if d.exp = e then d
  else
    let diff := (e - d.exp).natAbs
    if e > d.exp then ⟨Int.tdiv d.coef (10 ^ diff), e⟩ else ⟨d.coef * 10 ^ diff, e⟩

/-- `Decimal.Round(places)`: half away from zero. -/
def round (d : Dec) (places : Int) : Dec :=
  if d.exp = -places then d
  else
    let ret := rescale d (-places - 1)
    let v := if ret.coef < 0 then ret.coef - 5 else ret.coef + 5
    -- `DivMod` is Euclidean: 0 ≤ m < 10
    let q := v / 10
    let m := v % 10
    let q := if q < 0 && m != 0 then q + 1 else q
    ⟨q, -places⟩

/-- `strings.Repeat("0", n)`. -/
def zeros (n : Nat) : Bytes := List.replicate n 48

/-- Drop trailing `'0'` bytes. -/
def trimZeros (s : Bytes) : Bytes := (s.reverse.dropWhile (· == 48)).reverse

/-- `Decimal.string(trimTrailingZeros)`. -/
def decString (d : Dec) (trim : Bool) : Bytes :=
  if d.exp ≥ 0 then intStr (rescale d 0).coef
  else
    let str := natStr d.coef.natAbs
    let k := (-d.exp).toNat
    let ip := if str.length > k then str.take (str.length - k) else [48]
    let fp := if str.length > k then str.drop (str.length - k) else zeros (k - str.length) ++ str
    let fp := if trim then trimZeros fp else fp
    let number := if fp.length > 0 then ip ++ [46] ++ fp else ip
    if d.coef < 0 then 45 :: number else number

/-- `Decimal.StringFixed(places)`. -/
def stringFixed (d : Dec) (places : Nat) : Bytes := decString (round d places) false

/-- `Decimal.Equal` (`Cmp` after rescaling both to the smaller exponent). -/
def decEqual (a b : Dec) : Bool :=
  let m := min a.exp b.exp
  (rescale a m).coef == (rescale b m).coef

/-! ### number_format.go -/

structure NumberFormat where
  mark : Nat          -- DecimalMark (rune)
  sep : Bytes         -- ThousandsSep
  places : Nat        -- DecimalPlaces
  hasDecimal : Bool
deriving Repr, DecidableEq, Inhabited, BEq

structure ExSt where
  start : Nat
  stop : Nat
  inNumber : Bool
  lastDigit : Int
deriving Repr, DecidableEq, Inhabited

/-- The `for i, r := range formatStr` loop of extractNumberPart (`i` = byte offset). -/
def exLoop : List (Nat × Nat) → Nat → ExSt → ExSt
  | [], _, st => st
  | (r, sz) :: rs, i, st =>
    if isDigitRune r || r == 46 || r == 44 || r == 32 then
      let st := if !st.inNumber then { st with start := i, inNumber := true } else st
      let st := if isDigitRune r then { st with lastDigit := (i : Int) } else st
      exLoop rs (i + sz) { st with stop := i + runeLen r }
    else if st.inNumber then st
    else exLoop rs (i + sz) st

def extractNumberPart (s : Bytes) : Bytes :=
  let st := exLoop (runes s) 0 ⟨0, 0, false, -1⟩
  if !st.inNumber || st.lastDigit < 0 then []
  else trimSp ((s.drop st.start).take (st.stop - st.start))

def parseNumberFormat (s : Bytes) : NumberFormat :=
  let np := extractNumberPart s
  if np.isEmpty then ⟨46, [], 0, false⟩
  else
    let lastDot := lastIndex np 46
    let lastComma := lastIndex np 44
    if lastDot > lastComma then
      let sep : Bytes := if lastComma ≥ 0 then [44]
        else if (np.take lastDot.toNat).contains 32 then [32] else []
      ⟨46, sep, np.length - lastDot.toNat - 1, true⟩
    else if lastComma > lastDot then
      let sep : Bytes := if lastDot ≥ 0 then [46]
        else if (np.take lastComma.toNat).contains 32 then [32] else []
      ⟨44, sep, np.length - lastComma.toNat - 1, true⟩
    else
      ⟨46, if np.contains 32 then [32] else [], 0, false⟩

/-- The grouping loop of FormatNumber: split off three bytes from the right while more than
    three remain. -/
def groupLoop : Nat → Bytes → List Bytes → Bytes × List Bytes
  | 0, s, g => (s, g)
  | f+1, s, g =>
    if s.length > 3 then groupLoop f (s.take (s.length - 3)) (s.drop (s.length - 3) :: g)
    else (s, g)

/-- `strings.Join`. -/
def join (sep : Bytes) : List Bytes → Bytes
  | [] => []
  | [a] => a
  | a :: rest => a ++ sep ++ join sep rest

def groupInt (ip sep : Bytes) : Bytes :=
  if !sep.isEmpty && ip.length > 3 then
    let (rest, groups) := groupLoop ip.length ip []
    let groups := if rest.length > 0 then rest :: groups else groups
    join sep groups
  else ip

/-- `formatIsFaithful`: no rounding, and not the shape "one mark, three digits after a non-zero
    integer part" that the parser reads as a grouped integer.
    (`rounded.Truncate(0)` of a value with exponent −3 is `coef quo 1000`.) -/
def formatIsFaithful (q : Dec) (f : NumberFormat) : Bool :=
  let places : Nat := if f.hasDecimal then f.places else 0
  let rounded := round q places
  if !decEqual rounded q then false
  else if places == 3 then
    let ip := (rescale rounded 0).coef
    let grouped := (f.sep == [44] || f.sep == [46]) && ip.natAbs ≥ 1000
    !(ip != 0 && !grouped)
  else true

def formatNumber (q : Dec) (f : NumberFormat) : Bytes :=
  let str := if f.hasDecimal then stringFixed q f.places else decString (round q 0) true
  -- strings.Split(str, "."): parts[0] and, if present, parts[1]
  let ip := str.takeWhile (· != 46)
  let dp := (str.drop (ip.length + 1)).takeWhile (· != 46)
  let negative := ip.head? == some 45
  let ip := if negative then ip.drop 1 else ip
  let ip := groupInt ip f.sep
  let res := (if negative then [45] else []) ++ ip
  if f.hasDecimal && f.places > 0 then res ++ encodeRune f.mark ++ dp else res

/-! ### formatter.go -/

/-- `map[string]NumberFormat`. -/
abbrev Formats := List (Bytes × NumberFormat)

def Formats.get (m : Formats) (k : Bytes) : Option NumberFormat := (m.find? (·.1 == k)).map (·.2)
def Formats.insert (m : Formats) (k : Bytes) (v : NumberFormat) : Formats :=
  (k, v) :: m.filter (·.1 != k)

structure Options where
  indentSize : Int
  alignAmounts : Bool
  minCol : Int
deriving Repr, DecidableEq, Inhabited

structure AlignmentInfo where
  accountCol : Nat
  baCol : Nat
deriving Repr, DecidableEq, Inhabited

/-- `protocol.TextEdit` (line/character are `uint32`). -/
structure Edit where
  sl : UInt32
  sc : UInt32
  el : UInt32
  ec : UInt32
  newText : Bytes
deriving Repr, DecidableEq, Inhabited

def minSpaces : Nat := 2
def defaultIndentSize : Nat := 4

/-- `extractCommodityFormats`: returns the map and is never nil. -/
def extractLoop : List Directive → Formats → Option NumberFormat → Formats × Option NumberFormat
  | [], m, d => (m, d)
  | .commodity c fmt _ _ _ :: ds, m, d =>
    if !fmt.isEmpty then extractLoop ds (m.insert c.symbol (parseNumberFormat fmt)) d
    else extractLoop ds m d
  | .defaultCommodity sym fmt _ :: ds, m, d =>
    if !fmt.isEmpty then
      let nf := parseNumberFormat fmt
      extractLoop ds (if !sym.isEmpty then m.insert sym nf else m) (some nf)
    else extractLoop ds m d
  | _ :: ds, m, d => extractLoop ds m d

def extractCommodityFormats (j : Journal) : Formats :=
  match extractLoop j.directives [] none with
  | (m, some d) => m.insert [] d
  | (m, none) => m

/-- `formatAmountQuantity` (for a non-nil amount). -/
def formatAmountQuantity (a : Amount) (formats : Option Formats) : Bytes :=
  let fmt : Option NumberFormat := match formats with
    | some m => match m.get a.commodity.symbol with
      | some f => some f
      | none => m.get []
    | none => none
  let viaFormat : Option Bytes := match fmt with
    | some f => if a.raw.isEmpty || formatIsFaithful a.quantity f then some (formatNumber a.quantity f) else none
    | none => none
  match viaFormat with
  | some s => s
  | none => if !a.raw.isEmpty then a.raw else decString a.quantity true

/-- `commodityText`: the symbol, in double quotes if it stood in double quotes in the source
    (`content[c.Range.Start.Offset] == '"'`); an empty symbol too when a commodity token was
    really there (`""`, or a lone `"` at the end of a line) — fix "an empty quoted commodity keeps
    its quotes"; a commodity-less amount has the zero range. -/
def commodityText (c : Commodity) (content : Bytes) : Bytes :=
  if content[c.range.start.off]? == some 34 && (!c.symbol.isEmpty || c.range.stop.off > c.range.start.off)
  then [34] ++ c.symbol ++ [34]
  else c.symbol

/-- `writeAmountWithSign`: the bytes appended to the builder. -/
def writeAmountWithSign (a : Amount) (formats : Option Formats) (content : Bytes) : Bytes :=
  let qty := formatAmountQuantity a formats
  let symbol := commodityText a.commodity content
  if a.commodity.side == .left then
    match qty with
    | c :: rest =>
      if a.signBeforeCommodity && (c == 45 || c == 43) then c :: (symbol ++ rest)
      else symbol ++ qty
    | [] => symbol ++ qty
  else
    qty ++ (if !symbol.isEmpty then 32 :: symbol else [])

def statusMark : Status → Bytes
  | .cleared => [42, 32]
  | .pending => [33, 32]
  | .none => []

def openMark : Virtual → Bytes
  | .unbalanced => [40]
  | .balanced => [91]
  | .none => []

def closeMark : Virtual → Bytes
  | .unbalanced => [41]
  | .balanced => [93]
  | .none => []

/-- The text written before the amount: indent, status mark, account in its brackets. -/
def postingHead (p : Posting) (indent : Bytes) : Bytes :=
  indent ++ statusMark p.status ++ openMark p.virt ++ p.account.name ++ closeMark p.virt

def amountGap (p : Posting) (al : AlignmentInfo) (indent : Bytes) (align : Bool) : Nat :=
  if align && al.accountCol > 0 then
    max (al.accountCol - runeCount (postingHead p indent)) minSpaces
  else minSpaces

/-- `" @@ "` or `" @ "`, then the cost amount. -/
def costText (c : Cost) (formats : Option Formats) (content : Bytes) : Bytes :=
  (if c.isTotal then [32, 64, 64, 32] else [32, 64, 32]) ++ writeAmountWithSign c.amount formats content

/-- Head, gap, amount and cost: everything written before the balance assertion. -/
def postingUpToCost (p : Posting) (al : AlignmentInfo) (formats : Option Formats) (indent : Bytes)
    (align : Bool) (content : Bytes) : Bytes :=
  postingHead p indent
    ++ (match p.amount with
        | some a => spaces (amountGap p al indent align) ++ writeAmountWithSign a formats content
        | none => [])
    ++ (match p.cost with
        | some c => costText c formats content
        | none => [])

def isBlankOrCR (b : UInt8) : Bool := b == 32 || b == 9 || b == 13

/-- `strings.TrimRight(s, " \t\r")`. -/
def trimRightCR : Bytes → Bytes
  | [] => []
  | b :: bs =>
    let t := trimRightCR bs
    if t.isEmpty && isBlankOrCR b then [] else b :: t

/-- `"  ;"` and the comment without trailing blanks/CR. -/
def commentText (c : Bytes) : Bytes :=
  let t := trimRightCR c
  if !t.isEmpty then [32, 32, 59] ++ t else []

/-- `formatPostingWithOpts`. -/
def formatPostingWithOpts (p : Posting) (al : AlignmentInfo) (formats : Option Formats)
    (indent : Bytes) (align : Bool) (content : Bytes) : Bytes :=
  let pre := postingUpToCost p al formats indent align content
  let withBa := match p.assertion with
    | some ba =>
      let gap := if align && al.baCol > 0 then max (al.baCol - runeCount pre) minSpaces else minSpaces
      pre ++ spaces gap ++ (if ba.isStrict then [61, 61, 32] else [61, 32]) ++ writeAmountWithSign ba.amount formats content
    | none => pre
  withBa ++ commentText p.comment

/-- `calculateAccountDisplayLength`. -/
def accountDisplayLength (p : Posting) : Nat :=
  runeCount p.account.name + (match p.virt with | .none => 0 | _ => 2)

def maxAccountLen (ps : List Posting) (acc : Nat) : Nat :=
  ps.foldl (fun m p => if accountDisplayLength p > m then accountDisplayLength p else m) acc

/-- `CalculateAlignmentColumn` (fixed default indent of four). -/
def calculateAlignmentColumn (ps : List Posting) : Nat :=
  defaultIndentSize + maxAccountLen ps 0 + minSpaces

def maxAccountLenTxs (txs : List Transaction) : Nat :=
  txs.foldl (fun m t => maxAccountLen t.postings m) 0

/-- `calculateGlobalAlignmentColumnWithIndent`. -/
def globalAlignmentColumn (txs : List Transaction) (indentSize : Nat) : Nat :=
  indentSize + maxAccountLenTxs txs + minSpaces

def amountLen (a : Amount) (formats : Option Formats) (content : Bytes) : Nat :=
  (if a.commodity.side == .left then runeCount (commodityText a.commodity content) else 0)
    + runeCount (formatAmountQuantity a formats)
    + (if a.commodity.side == .right then 1 + runeCount (commodityText a.commodity content) else 0)

/-- `calculateAmountCostLen`. -/
def amountCostLen (p : Posting) (formats : Option Formats) (content : Bytes) : Nat :=
  match p.amount with
  | none => 0
  | some a =>
    amountLen a formats content + (match p.cost with
      | some c => (if c.isTotal then 4 else 3) + amountLen c.amount formats content
      | none => 0)

/-- `CalculateAlignmentWithGlobal`. -/
def alignmentWithGlobal (ps : List Posting) (formats : Option Formats) (accountCol : Nat)
    (content : Bytes) : AlignmentInfo :=
  let hasBa := ps.any (fun p => p.assertion.isSome)
  let maxLen := ps.foldl (fun m p => if p.amount.isSome then max m (amountCostLen p formats content) else m) 0
  if !hasBa then ⟨accountCol, 0⟩ else ⟨accountCol, accountCol + maxLen + minSpaces⟩

/-- `strings.TrimSuffix(l, "\r")`. -/
def trimCR (l : Bytes) : Bytes := if l.getLast? = some 13 then l.dropLast else l

/-- `PositionMapper.LineUTF16Len` (the CR of a CRLF terminator is not part of the line). -/
def lineU16 (lines : List Bytes) (line : Int) : Nat :=
  if line < 0 || line ≥ lines.length then 0 else u16len (trimCR (lines.getD line.toNat []))

/-- The 0-based line of a posting as the formatter computes it (`Range.Start.Line - 1`). -/
def postingLine (p : Posting) : Int := (p.range.start.line : Int) - 1

def postingEdit (lines : List Bytes) (p : Posting) (text : Bytes) : Edit :=
  let line := postingLine p
  ⟨u32 line, 0, u32 line, UInt32.ofNat (lineU16 lines line), text⟩

/-- `formatTransactionWithOpts`. -/
def formatTransaction (tx : Transaction) (content : Bytes) (lines : List Bytes) (formats : Option Formats)
    (globalCol : Nat) (indentSize : Nat) (align : Bool) (skip : List Int) : List Edit :=
  let indent := spaces indentSize
  let al : AlignmentInfo := if align then alignmentWithGlobal tx.postings formats globalCol content else ⟨0, 0⟩
  (tx.postings.filter fun p => !skip.contains (postingLine p)).map fun p =>
    postingEdit lines p (formatPostingWithOpts p al formats indent align content)

/-- One round of the loop of `trimTrailingSpacesEdits`. -/
def trimEdit (lines : List Bytes) (lineNum : Nat) (line : Bytes) : Option Edit :=
  let trimmed := trimRight line
  if trimmed.length == line.length then none
  else some ⟨UInt32.ofNat lineNum, UInt32.ofNat (u16len trimmed),
             UInt32.ofNat lineNum, UInt32.ofNat (lineU16 lines lineNum), []⟩

/-- The loop of `trimTrailingSpacesEdits`; `exempt` = posting lines and skipped lines. -/
def trimLoop (all : List Bytes) (exempt : List Int) : List Bytes → Nat → List Edit
  | [], _ => []
  | l :: ls, n =>
    if exempt.contains (n : Int) then trimLoop all exempt ls (n + 1)
    else match trimEdit all n l with
      | some e => e :: trimLoop all exempt ls (n + 1)
      | none => trimLoop all exempt ls (n + 1)

/-- `trimTrailingSpacesEdits`. -/
def trimTrailingSpacesEdits (lines : List Bytes) (postingLines skipLines : List Int) : List Edit :=
  trimLoop lines (postingLines ++ skipLines) lines 0

def effIndent (o : Options) : Nat := if o.indentSize ≤ 0 then defaultIndentSize else o.indentSize.toNat

/-- The column all amounts are aligned to (0 = alignment off). -/
def effGlobalCol (j : Journal) (o : Options) : Nat :=
  if o.alignAmounts then
    let g := globalAlignmentColumn j.transactions (effIndent o)
    if o.minCol > 0 && (g : Int) < o.minCol then o.minCol.toNat else g
  else 0

def allPostings (j : Journal) : List Posting := j.transactions.flatMap (·.postings)

/-- `FormatDocumentWithOptions`; `formats = none` is Go's nil map, `skip` is
    `Options.SkipLines` (the lines that are not rewritten). -/
def formatDocument (j : Journal) (content : Bytes) (formats : Option Formats) (o : Options)
    (skip : List Int) : List Edit :=
  let formats : Formats := match formats with
    | some m => m
    | none => extractCommodityFormats j
  let lines := splitLines content
  let g := effGlobalCol j o
  let txEdits := j.transactions.flatMap fun tx =>
    formatTransaction tx content lines (some formats) g (effIndent o) o.alignAmounts skip
  let postingLines := (allPostings j).map postingLine
  txEdits ++ trimTrailingSpacesEdits lines postingLines skip

/-- `server.formatText` after parsing: the lines of the parse errors are skipped. -/
def formatText (j : Journal) (errs : List ParseError) (content : Bytes) (formats : Option Formats)
    (o : Options) : List Edit :=
  formatDocument j content formats o (errs.map fun e => (e.pos.line : Int) - 1)

end HL.Fmt
