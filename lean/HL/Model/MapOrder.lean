/-
  HL.Model.MapOrder — Go's randomised map iteration order made explicit (DESIGN 3.3; property C15).

  Every Go loop `for k, v := range m` (and `sync.Map.Range`) is a function of an EXPLICIT list `σ`
  of the map's entries, in the order the runtime happened to deliver them.  `σ` is a permutation
  of the entries; its keys are pairwise distinct (it came from a map).  The loop body is
  transcribed as the step function of a fold over `σ`; element payloads the property does not
  look into (posting templates, symbol records, decimal renderings) are abstract.

  For every site that is order-dependent on the pinned tree there are two definitions:
    `fooIn σ`  — the pinned code: the loop runs over `σ` as delivered;
    `foo σ`    — the repaired code (repo_patches/fix-determinism-*.diff): keys collected, sorted
                 with `sort.Strings`, visited in that order = `fooIn (sortedEntries σ)`.

  SURVEY of every `range` over a map / `sync.Map.Range` / `sort.Slice` in internal/{analyzer,
  server,workspace,include,formatter} and cmd/ (pinned tree; line numbers of the pinned files).
  D = result depends on iteration order, I = independent.

  | site (file:line)                                   | loop body                                   | sorted/dedup later? | verdict | model            |
  |----------------------------------------------------|---------------------------------------------|---------------------|---------|------------------|
  | analyzer.go:468 createBalanceDiagnostic            | msg += "; " + "<c> off by <d>"              | no                  | D (fix) | balanceMessage   |
  | analyzer.go:151 collectAccountsFromResolved        | append names not yet seen (All, ByPrefix)   | no                  | D (fix) | collectFromResolved |
  | analyzer.go:176 collectPayeesFromResolved          | append names not yet seen                   | no                  | D (fix) | collectFromResolved |
  | analyzer.go:201 collectCommoditiesFromResolved     | append names not yet seen                   | no                  | D (fix) | collectFromResolved |
  | analyzer.go:226 collectTagsFromResolved            | append names not yet seen                   | no                  | D (fix) | collectFromResolved |
  | analyzer.go:260 collectTagValuesFromResolved       | per tag: append values not yet seen         | no                  | D (fix) | collectFromResolved (per tag) |
  | analyzer.go:246 … inner `range CollectTagValues`   | per-tag lists, distinct keys                | —                   | I       | (distinct keys: putTemplate shape) |
  | analyzer.go:284 collectDatesFromResolved           | append dates not yet seen                   | reverse-sorted in generateDateCompletionItems, then re-ranked by the stable/unstable sort | D (fix) | collectFromResolved |
  | analyzer.go:301 mergeTemplates (inner range)       | result[payee] = postings, distinct keys     | —                   | I       | mergeTemplates   |
  | analyzer.go:306 collectPayeeTemplatesFromResolved  | ranges FileOrder (a slice), primary last    | —                   | I       | templatesFromResolved |
  | analyzer.go:322-378 collect*CountsFromResolved     | counts[k] += v (outer over Files, inner over per-file map) | —    | I       | mergeCounts      |
  | analyzer.go:42,47,387-392,496-501 declared sets    | declared[k] = true                          | —                   | I       | markAll          |
  | analyzer.go:434 isAccountDeclared                  | return true if any declared+":" is a prefix | —                   | I       | declaredByPrefix |
  | balance.go:29 CheckBalance                         | Differences[c] = |sum| for non-zero sums    | —                   | I       | (distinct keys)  |
  | indexer.go:180,201 CollectPayeeTemplates           | collect keys                                | sort.Strings        | I       | sortStrings      |
  | completion.go:99 rankCompletionItemsByScore        | sort.Slice on (score desc, count desc)      | unstable            | D (fix: SliceStable) | IsRanking / rankStable |
  | completion.go:489 generateDateCompletionItems      | sort.Sort(Reverse(StringSlice)) on strings  | total order         | I       | sortStrings      |
  | workspace_symbol.go:18 WorkspaceSymbol             | symbols = append(symbols, symbolsOf(doc)…)  | no                  | D (fix) | wsSymbols        |
  | code_action.go:84 ExecuteCommand                   | first document whose URI has a path; stop   | no                  | D (fix: smallest path) | firstWithPath / minPath |
  | references.go:51,88,125; definition.go:113-208     | range sortedJournalPaths(journals)          | sorted first        | I       | visitSorted      |
  | references.go:148 sortAndDedup                     | sort.Slice by (URI, start) then drop equal neighbours | key is injective on real input (one symbol per start position) | I | IsSortedPerm uniqueness |
  | definition.go:232 allJournalsWithPaths             | result[path] = journal, primary stored last | —                   | I       | (distinct keys)  |
  | definition.go:261 sortedJournalPaths               | collect keys                                | sort.Strings        | I       | sortStrings      |
  | hover.go:225, 447                                  | collect keys                                | sort.Strings        | I       | sortStrings      |
  | index.go:138-157 addFileIndex counts               | counts[k] += v                              | —                   | I       | mergeCounts      |
  | index.go:158 addFileIndex transactionsByKey        | byKey[k] = append(byKey[k], entry) per file | no                  | D via caller order | indexTxFiles |
  | index.go:164 addFileIndex payeeTemplates           | templates[payee] = postings (last file added wins) | no           | D via caller order | indexTemplatesIn |
  | index.go restorePayeeTemplate (upstream f525407)    | best = smallest path among files having the payee | min is order-free | I   | bestPath, indexTemplates |
  | index.go:172-201 removeFileIndex                   | decrement / delete                          | —                   | I       | (commutative; not exercised) |
  | index.go:238 buildTagValues, 260 sortedKeys        | collect keys                                | sort.Strings        | I       | sortStrings      |
  | index.go:286-345 clone*/copy*                      | clone[k] = copy(v)                          | —                   | I       | (distinct keys)  |
  | workspace.go:268 buildIndexFromResolvedLocked      | SetFileIndex(path) for each included file   | no                  | D (fix) | indexTemplatesIn, indexTxFiles |
  | workspace.go:342 removeUnreachableLocked           | collect unreachable paths, then remove each | removal commutes    | I       | (not modelled further) |
  | workspace.go:364 addMissingReachableLocked         | SetFileIndex + FileOrder = addString(FileOrder, path) | no        | D (fix) | addMissing, templatesAfterAdd |
  | loader.go:249 maps.Copy(result.Files, sub.Files)   | dst[k] = v                                  | —                   | I       | (distinct keys)  |
  | formatter/*, include/resolver.go, cmd/             | no map iteration                            | —                   | —       | —                |

  `sort.Slice` itself (pdqsort_func) is a deterministic algorithm in the pinned toolchain: the
  only SOURCE of run-to-run variation is map iteration.  It is nevertheless modelled only by its
  contract ("some sorted permutation"), so that nothing here depends on the sort's internals.
-/
namespace HL.MapOrder

/-! ## Generic pieces -/

/-- The entries of a Go map, in the order one `range` loop delivered them. -/
abbrev Entries (κ ν : Type) := List (κ × ν)

/-- `<=` on Go strings (byte-wise).  Lean compares strings by code point, which for valid UTF-8
    is the byte-wise order. -/
def strLe (a b : String) : Bool := decide (a ≤ b)

/-- `sort.Strings`. -/
def sortStrings (l : List String) : List String := l.mergeSort strLe

/-- "collect the keys, sort them, visit the map in that order" (the repair idiom; also
    `sortedJournalPaths`): the entries sorted by key. -/
def sortedEntries (σ : Entries String ν) : Entries String ν :=
  σ.mergeSort (fun a b => strLe a.1 b.1)

/-- `if !seen[x] { seen[x] = true; out = append(out, x) }` — `seen` is the set of `out`. -/
def appendNew (out : List String) (x : String) : List String :=
  if out.contains x then out else out ++ [x]

def collectInto (out : List String) (xs : List String) : List String := xs.foldl appendNew out

/-! ## createBalanceDiagnostic (analyzer.go:467-473) -/

/-- loop body: `if msg != "" { msg += "; " }; msg += fmt.Sprintf("%s off by %s", c, diff.String())`;
    the payload is the rendered decimal. -/
def balanceStep (msg : String) (e : String × String) : String :=
  (if msg != "" then msg ++ "; " else msg) ++ (e.1 ++ " off by " ++ e.2)

def balanceMessageIn (σ : Entries String String) : String :=
  "transaction does not balance: " ++ σ.foldl balanceStep ""

/-- repaired: commodities sorted before the message is built. -/
def balanceMessage (σ : Entries String String) : String := balanceMessageIn (sortedEntries σ)

/-! ## collect{Accounts,Payees,Commodities,Tags,TagValues[t],Dates}FromResolved (analyzer.go:138-289)

    `primary` = the collector applied to `resolved.Primary`, `σ` = `resolved.Files` with the
    collector applied to every journal (each a duplicate-free list in first-occurrence order).
    `AccountIndex.ByPrefix[p]` is `All` filtered by the prefix `p`, in `All` order, so `All`
    determines the whole index. -/
def collectFromResolvedIn (primary : List String) (σ : Entries String (List String)) : List String :=
  σ.foldl (fun out f => collectInto out f.2) (collectInto [] primary)

/-- repaired (`filesInPathOrder`). -/
def collectFromResolved (primary : List String) (σ : Entries String (List String)) : List String :=
  collectFromResolvedIn primary (sortedEntries σ)

/-! ## counts merges (analyzer.go:316-382, index.go:138-157): `counts[k] += v` -/

def bump (m : String → Nat) (e : String × Nat) : String → Nat :=
  fun k => if k = e.1 then m k + e.2 else m k

def mergeCounts (primary : Entries String Nat) (σ : Entries String (Entries String Nat)) : String → Nat :=
  σ.foldl (fun m f => f.2.foldl bump m) (primary.foldl bump (fun _ => 0))

/-! ## declared sets (analyzer.go:384-397, 493-506, 41-49): `declared[k] = true` -/

def mark (m : String → Bool) (k : String) : String → Bool := fun x => if x = k then true else m x

def markAll (primary : List String) (σ : Entries String (List String)) : String → Bool :=
  σ.foldl (fun m f => f.2.foldl mark m) (primary.foldl mark (fun _ => false))

/-- `isAccountDeclared`, the loop over the declared set: true iff some declared account followed
    by ":" is a prefix of the name. -/
def declaredByPrefix (σ : List String) (name : String) : Bool :=
  σ.any (fun d => (d ++ ":").toList.isPrefixOf name.toList)

/-! ## payee templates -/

/-- `result[payee] = postings`. -/
def putTemplate {τ : Type} (m : String → Option τ) (e : String × τ) : String → Option τ :=
  fun k => if k = e.1 then some e.2 else m k

/-- analyzer.go:297-304 `mergeTemplates`: the inner `range CollectPayeeTemplates(journal)`. -/
def mergeTemplates {τ : Type} (m : String → Option τ) (σ : Entries String τ) : String → Option τ :=
  σ.foldl putTemplate m

/-- analyzer.go:294-314 `collectPayeeTemplatesFromResolved`: files in `FileOrder` (a slice, not a
    map), the primary file last. -/
def templatesFromResolved {τ : Type} (order : List (Entries String τ)) (primary : Entries String τ) :
    String → Option τ :=
  mergeTemplates (order.foldl mergeTemplates (fun _ => none)) primary

/-- PINNED tree (before 96b0f57 / f525407): workspace.go:256-272 `buildIndexFromResolvedLocked` +
    index.go:164-166: the root file is indexed first, then every included file in map order; a
    later file overwrites ("last file added wins").  Kept for the counterexample and for the
    correspondence's set of outputs the pinned code can produce. -/
def indexTemplatesIn {τ : Type} (root : Entries String τ) (σ : Entries String (Entries String τ)) :
    String → Option τ :=
  σ.foldl (fun m f => mergeTemplates m f.2) (mergeTemplates (fun _ => none) root)

/-- Repaired tree, index.go `restorePayeeTemplate` (f525407), loop body
    `if _, ok := other.PayeeTemplates[payee]; ok && (best == "" || path < best) { best = path }`
    over `range idx.fileIndexes` (the root file is one of the indexed files, under its own path). -/
def bestPathStep {τ : Type} (payee : String) (best : String) (f : String × Entries String τ) : String :=
  if f.2.any (·.1 == payee) && (best == "" || decide (f.1 < best)) then f.1 else best

def bestPath {τ : Type} (σ : Entries String (Entries String τ)) (payee : String) : String :=
  σ.foldl (bestPathStep payee) ""

/-- `m[k]` on a map given by its entries -/
def lookup {ν : Type} (σ : Entries String ν) (k : String) : Option ν := (σ.find? (·.1 == k)).map (·.2)

/-- The payee templates of the workspace index once all files `σ` (= `idx.fileIndexes`, in
    whatever order the map is ranged over) are indexed: for every payee the template of the
    indexed file with the smallest path that has one.  (`addFileIndex` calls
    `restorePayeeTemplate` for each payee of the added file, `removeFileIndex` for each payee of
    the removed one, so after any sequence of adds/removes the stored template is this function
    of the set of indexed files.) -/
def indexTemplates {τ : Type} (σ : Entries String (Entries String τ)) (payee : String) : Option τ :=
  let best := bestPath σ payee
  if best == "" then none else (lookup σ best).bind (fun f => lookup f payee)

/-- index.go:158-160 `transactionsByKey[key] = append(…, entry)`: the files (by path) holding a
    transaction with this key, root first, then in the order the files were indexed. -/
def indexTxFilesIn (root : String × List String) (σ : Entries String (List String)) (key : String) :
    List String :=
  (root :: σ).flatMap (fun f => (f.2.filter (· == key)).map (fun _ => f.1))

def indexTxFiles (root : String × List String) (σ : Entries String (List String)) (key : String) :
    List String :=
  indexTxFilesIn root (sortedEntries σ) key

/-! ## WorkspaceSymbol (workspace_symbol.go:14-33): per-document symbols concatenated -/

def wsSymbolsIn {τ : Type} (σ : Entries String (List τ)) : List τ := σ.flatMap (·.2)

def wsSymbols {τ : Type} (σ : Entries String (List τ)) : List τ := wsSymbolsIn (sortedEntries σ)

/-! ## addMissingReachableLocked (workspace.go:362-382): `FileOrder = addString(FileOrder, path)` -/

def addMissingIn (fileOrder : List String) (missing : List String) : List String :=
  missing.foldl appendNew fileOrder

def addMissing (fileOrder : List String) (missing : List String) : List String :=
  addMissingIn fileOrder (sortStrings missing)

/-- the payee templates the server answers with after the files were added (inline completion):
    `kept` are the files already in `FileOrder`, `σ` the added ones in the order they were added. -/
def templatesAfterAddIn {τ : Type} (kept σ : Entries String (Entries String τ)) (primary : Entries String τ) :
    String → Option τ :=
  templatesFromResolved ((kept ++ σ).map (·.2)) primary

def templatesAfterAdd {τ : Type} (kept σ : Entries String (Entries String τ)) (primary : Entries String τ) :
    String → Option τ :=
  templatesAfterAddIn kept (sortedEntries σ) primary

/-! ## ExecuteCommand (code_action.go:83-92) -/

/-- pinned: the first document (in map order) whose URI has a file path. -/
def firstWithPath (σ : List String) : String := (σ.find? (· != "")).getD ""

/-- repaired: the smallest path. -/
def minPath (σ : List String) : String :=
  σ.foldl (fun best p => if p != "" && (best == "" || decide (p < best)) then p else best) ""

/-! ## references / definition (references.go, definition.go): `range sortedJournalPaths(journals)` -/

def visitSorted {ν β : Type} (σ : Entries String ν) (f : String × ν → List β) : List β :=
  (sortedEntries σ).flatMap f

/-! ## rankCompletionItemsByScore (completion.go:98-119) -/

structure Scored where
  label : String
  score : Nat
  count : Nat
deriving Repr, DecidableEq

/-- `!less(b, a)` for the comparison of `rankCompletionItemsByScore`
    (`less(i,j) = score_i > score_j || (score_i == score_j && count_i > count_j)`). -/
def rankLe (a b : Scored) : Bool :=
  decide (a.score > b.score) || (a.score == b.score && decide (a.count ≥ b.count))

/-- pinned: `sort.Slice` — all that is assumed is that the result is a sorted permutation. -/
def IsRanking (items out : List Scored) : Prop :=
  out.Perm items ∧ out.Pairwise (fun a b => rankLe a b = true)

/-- repaired: `sort.SliceStable` — the stable sort. -/
def rankStable (items : List Scored) : List Scored := items.mergeSort rankLe

/-- `filterAndScoreFuzzyMatch` (score 0 = dropped; the scores themselves are inputs here),
    `rankCompletionItemsByScore`, then `items[:MaxResults]`. -/
def scoredOf (cands : List String) (score count : String → Nat) : List Scored :=
  (cands.filter (fun l => score l > 0)).map (fun l => ⟨l, score l, count l⟩)

def completionLabels (cands : List String) (score count : String → Nat) (max : Nat) : List String :=
  ((rankStable (scoredOf cands score count)).map (·.label)).take max

/-! ## all iteration orders (used by the driver to enumerate the model's outputs) -/

def insertEverywhere {α : Type} (x : α) : List α → List (List α)
  | [] => [[x]]
  | y :: ys => (x :: y :: ys) :: (insertEverywhere x ys).map (y :: ·)

def perms {α : Type} : List α → List (List α)
  | [] => [[]]
  | x :: xs => (perms xs).flatMap (insertEverywhere x)

end HL.MapOrder
