/-
  Model of internal/workspace/workspace.go: NewWorkspace, Initialize, findRootJournal,
  findRootByIncludeGraph, buildIncludeGraph, buildIndexFromResolvedLocked, UpdateFile,
  updateResolvedLocked, updateIncludeEdgesLocked, refreshIncludeTreeLocked,
  computeReachableLocked, removeUnreachableLocked, addMissingReachableLocked,
  isWorkspaceFileLocked, clearCachesLocked, sameStringSlice, removeString, addString,
  GetCommodityFormats, GetDeclaredCommodities, GetDeclaredAccounts, IndexSnapshot;
  of include.Loader.Load / loadWithContent / loadParsed / loadSingleInclude on a FRESH
  loader (empty cache: within one Load every path is looked up in the cache at most once,
  before it is cached), and of include.ResolvedJournal.AllDirectives.

  Files are named by their path relative to the workspace directory; the file system is an
  association list `FS` from names to contributions (HL/Model/Index.lean); a name without
  an entry does not exist on disk.  Domain assumptions (met by the harness, documented in
  the evidence): every file of the directory has a journal extension and the directory walk
  visits them in sorted order; include directives are plain paths (no globs, no `~`), so
  that `filepath.Join+Clean` (buildIncludeGraph), `ResolvePathSafe` (Loader,
  resolveIncludePaths) agree on the target; the environment variables LEDGER_FILE /
  HLEDGER_JOURNAL are unset; no file exceeds the size limit.

  The code iterates Go maps in sorted key order wherever the order could matter
  (buildIndexFromResolvedLocked, addMissingReachableLocked); `removeUnreachableLocked`
  iterates `fileIndexes` in map order, modelled by the association list's order (the
  result does not depend on it: HL.Lemmas.Refresh.removeUnreachable_spec holds for it and
  determines the state up to the order of map entries).

  `Cfg.fixT` / `Cfg.fixG` select the pinned code (`false`) or the code repaired by
  repo_patches/fix-template-loss.diff / fix-stale-include-graph.diff (`true`);
  `Cfg.limit` is `Limits.MaxIncludeDepth` (50 by default).  `GetCommodityFormats` is modelled as
  repaired by repo_patches/fix-formats-path-order.diff (`computeFormats`; the pinned getter is
  `pinnedComputeFormats`).
-/
import HL.Model.Index
namespace HL.Workspace
open HL.Index

abbrev FS := AList Contrib

structure Cfg where
  fixT : Bool := false
  fixG : Bool := false
  limit : Nat := 50
  deriving DecidableEq, Repr, Inhabited

structure WS where
  root : String := ""                     -- rootJournalPath
  idx : WIndex := {}
  incG : AList (List String) := []        -- includeGraph
  revG : AList (List String) := []        -- reverseGraph
  hasResolved : Bool := false             -- resolved != nil
  primary : Option Contrib := none        -- resolved.Primary
  rfiles : AList Contrib := []            -- resolved.Files
  order : List String := []               -- resolved.FileOrder
  cFormats : Option (AList String) := none   -- cachedFormats
  cComms : Option (List String) := none      -- cachedCommodities (key set)
  cAccts : Option (List String) := none      -- cachedAccounts (key set)
  deriving DecidableEq, Repr, Inhabited

/-- `removeString`. -/
def removeString (vs : List String) (t : String) : List String := vs.filter (· ≠ t)

/-- `addString`. -/
def addString (vs : List String) (t : String) : List String := if t ∈ vs then vs else vs ++ [t]

/-! ### Root selection -/

/-- `findJournalFiles` (see the domain assumptions in the header). -/
def journalFiles (fs : FS) : List String := isort fs.keys

/-- `buildIncludeGraph`. -/
def buildIncludeGraph (fs : FS) (files : List String) (w : WS) : WS :=
  files.foldl (fun w file =>
    match fs.get file with
    | none => w
    | some c => c.incs.foldl (fun w inc =>
        { w with incG := w.incG.set file (w.incG.getD file [] ++ [inc])
                 revG := w.revG.set inc (w.revG.getD inc [] ++ [file]) }) w) w

/-- `findRootByIncludeGraph`. -/
def findRootByIncludeGraph (fs : FS) (w : WS) : String × WS :=
  let files := journalFiles fs
  match files with
  | [] => ("", w)
  | f0 :: _ =>
    let w := buildIncludeGraph fs files w
    let cands := files.filter fun f => (w.revG.getD f []).isEmpty
    match isort cands with
    | [] => (f0, w)
    | c :: _ => (c, w)

/-- `findRootJournal`. -/
def findRootJournal (fs : FS) (w : WS) : String × WS :=
  if (fs.get "main.journal").isSome then ("main.journal", w)
  else if (fs.get ".hledger.journal").isSome then (".hledger.journal", w)
  else findRootByIncludeGraph fs w

/-! ### Loader.Load on a fresh loader -/

structure LoadSt where
  visited : List String
  files : AList Contrib := []
  order : List String := []
  deriving Repr

/-- `loadParsed` / `loadSingleInclude` as a work list: `todo` holds the include targets still
    to be processed, depth first, each with the depth of the file that includes it (the
    number of include directives between the root and that file).  A target that has been
    seen (on the include stack: "cycle detected"; or loaded through another path) is not
    loaded again. -/
def loadF (limit : Nat) (fs : FS) : Nat → List (String × Nat) → LoadSt → LoadSt
  | 0, _, st => st
  | _+1, [], st => st
  | n+1, (p, d) :: rest, st =>
    if p ∈ st.visited then loadF limit fs n rest st            -- seen
    else match fs.get p with
      | none => loadF limit fs n rest st                         -- cannot read included file
      | some c =>
        if d + 1 ≥ limit then loadF limit fs n rest st           -- include depth limit exceeded
        else loadF limit fs n (c.incs.map (·, d + 1) ++ rest)
          { visited := st.visited ++ [p], files := st.files.set p c, order := st.order ++ [p] }

/-- every loop iteration either pops a target or visits a new file and pushes its targets -/
def loadFuel (fs : FS) (c : Contrib) : Nat :=
  c.incs.length + (fs.map fun e => e.2.incs.length + 1).sum + 1

def load (limit : Nat) (fs : FS) (root : String) (c : Contrib) : LoadSt :=
  loadF limit fs (loadFuel fs c) (c.incs.map (·, 0)) { visited := [root] }

/-! ### Include edges, resolved journal, caches -/

/-- `updateIncludeEdgesLocked`. -/
def updateIncludeEdges (w : WS) (path : String) (oldIncs newIncs : List String) : WS :=
  let rev := oldIncs.foldl (fun rev inc => rev.set inc (removeString (rev.getD inc []) path)) w.revG
  let rev := newIncs.foldl (fun rev inc => rev.set inc (addString (rev.getD inc []) path)) rev
  { w with incG := w.incG.set path newIncs, revG := rev }

/-- `updateResolvedLocked` (the journal is never nil: parser.Parse always returns one). -/
def updateResolved (w : WS) (path : String) (c : Contrib) : WS :=
  let w := { w with hasResolved := true }
  if path = w.root then { w with primary := some c }
  else { w with rfiles := w.rfiles.set path c, order := addString w.order path }

/-- `clearCachesLocked`. -/
def clearCaches (w : WS) : WS := { w with cFormats := none, cComms := none, cAccts := none }

/-- `isWorkspaceFileLocked`. -/
def isWorkspaceFile (w : WS) (path : String) : Bool :=
  path = w.root || (w.idx.files.get path).isSome || !(w.revG.getD path []).isEmpty

/-! ### Reachability -/

/-- the queue loop of `computeReachableLocked`; `r` is the set `reachable`. -/
def bfsF (g : AList (List String)) : Nat → List String → List String → List String
  | 0, _, r => r
  | _+1, [], r => r
  | n+1, p :: q, r =>
    if p ∈ r then bfsF g n q r
    else bfsF g n (q ++ (g.getD p []).filter (fun inc => inc ∉ p :: r)) (r ++ [p])

def bfsFuel (g : AList (List String)) : Nat := (g.map fun e => e.2.length + 1).sum + 2

/-- `computeReachableLocked`. -/
def computeReachable (w : WS) : List String :=
  if w.root = "" then [] else bfsF w.incG (bfsFuel w.incG) [w.root] []

/-- `removeUnreachableLocked`. -/
def removeUnreachable (cfg : Cfg) (w : WS) (reachable : List String) : WS :=
  let toRemove := w.idx.files.keys.filter (· ∉ reachable)
  toRemove.foldl (fun w path =>
    let w := match w.idx.files.get path with
      | some old => updateIncludeEdges w path old.includes []
      | none => w
    { w with idx := removeFile cfg.fixT w.idx path
             incG := w.incG.erase path
             revG := w.revG.erase path
             rfiles := if w.hasResolved then w.rfiles.erase path else w.rfiles
             order := if w.hasResolved then removeString w.order path else w.order }) w

/-- `addMissingReachableLocked`. -/
def addMissingReachable (cfg : Cfg) (fs : FS) (w : WS) (reachable : List String) : WS × Bool :=
  let missing := isort (reachable.filter fun p => (w.idx.files.get p).isNone)
  let r := missing.foldl (fun (wa : WS × Bool) path =>
    match fs.get path with
    | none => wa
    | some c =>
      let w := wa.1
      let fi := mkFileIdx path c
      let w := { w with idx := setFileIndex cfg.fixT w.idx path fi }
      let w := updateIncludeEdges w path [] fi.includes
      let w := updateResolved w path c
      (w, true)) (w, false)
  if r.2 then (clearCaches r.1, true) else r

/-- the loop of `refreshIncludeTreeLocked`. -/
def refreshF (cfg : Cfg) (fs : FS) : Nat → WS → WS
  | 0, w => w
  | n+1, w =>
    let reachable := computeReachable w
    let w := removeUnreachable cfg w reachable
    let r := addMissingReachable cfg fs w reachable
    if r.2 then refreshF cfg fs n r.1 else r.1

/-- `refreshIncludeTreeLocked`: every round but the last indexes at least one more file. -/
def refreshIncludeTree (cfg : Cfg) (fs : FS) (w : WS) : WS :=
  if w.root = "" then w else refreshF cfg fs (fs.length + 2) w

/-! ### UpdateFile, Initialize -/

/-- `UpdateFile(path, content)`; `fs` is the disk at the time of the call. -/
def updateFile (cfg : Cfg) (fs : FS) (w : WS) (path : String) (c : Contrib) : WS :=
  if path = "" then w else
  if w.root = "" then w else
  if !isWorkspaceFile w path then w else
  let oldIncs := match w.idx.files.get path with
    | some old => old.includes
    | none => []
  let fi := mkFileIdx path c
  let w := { w with idx := setFileIndex cfg.fixT w.idx path fi }
  let w := updateIncludeEdges w path oldIncs fi.includes
  let w := updateResolved w path c
  let w := clearCaches w
  if oldIncs ≠ fi.includes then refreshIncludeTree cfg fs w else w

/-- `buildIndexFromResolvedLocked`. -/
def buildIndexFromResolved (cfg : Cfg) (w : WS) : WS :=
  match w.primary with
  | none => w
  | some c =>
    let add := fun (w : WS) (path : String) (c : Contrib) =>
      let fi := mkFileIdx path c
      let w := { w with idx := setFileIndex cfg.fixT w.idx path fi }
      updateIncludeEdges w path [] fi.includes
    let w := add w w.root c
    (isort w.rfiles.keys).foldl (fun w path =>
      match w.rfiles.get path with
      | some c => add w path c
      | none => w) w

/-- `NewWorkspace` + `Initialize` with a fresh loader on the directory `fs`. -/
def init (cfg : Cfg) (fs : FS) : WS :=
  let (root, w) := findRootJournal fs {}
  let w := { w with root := root }
  let w := if cfg.fixG then { w with incG := [], revG := [] } else w
  if root = "" then w else
  match fs.get root with
  | none => w
  | some c =>
    let st := load cfg.limit fs root c
    buildIndexFromResolved cfg
      { w with hasResolved := true, primary := some c, rfiles := st.files, order := st.order }

/-! ### Getters -/

/-- `resolved.AllDirectives()` restricted to commodity directives. -/
def allCommDirs (w : WS) : List CommDir :=
  (match w.primary with | some c => c.cds | none => []) ++
    w.order.flatMap fun p => match w.rfiles.get p with | some c => c.cds | none => []

/-- `resolved.AllDirectives()` restricted to account directives. -/
def allAcctDirs (w : WS) : List String :=
  (match w.primary with | some c => c.declA | none => []) ++
    w.order.flatMap fun p => match w.rfiles.get p with | some c => c.declA | none => []

def addKey (s : List String) (k : String) : List String := if k ∈ s then s else s ++ [k]

/-- `directivesInPathOrderLocked` restricted to commodity directives: the root journal's, then
    those of the included files in path order (the keys of the Go map `resolved.Files`, sorted;
    `dedup` because a Go map has every key once whatever the association list looks like). -/
def pathCommDirs (w : WS) : List CommDir :=
  (match w.primary with | some c => c.cds | none => []) ++
    (isort (dedup w.rfiles.keys)).flatMap fun p => match w.rfiles.get p with | some c => c.cds | none => []

/-- the map `GetCommodityFormats` builds (code repaired by fix-formats-path-order.diff): the
    last directive with a format wins, in the order of `pathCommDirs`. -/
def computeFormats (w : WS) : AList String :=
  (pathCommDirs w).foldl (fun m cd => if cd.raw ≠ "" then m.set cd.sym cd.fmt else m) []

/-- the same as pinned: directives in the order of `resolved.AllDirectives()`, that is of
    `resolved.FileOrder`, which depends on the history of updates. -/
def pinnedComputeFormats (w : WS) : AList String :=
  (allCommDirs w).foldl (fun m cd => if cd.raw ≠ "" then m.set cd.sym cd.fmt else m) []

def computeComms (w : WS) : List String := (allCommDirs w).foldl (fun s cd => addKey s cd.sym) []

def computeAccts (w : WS) : List String := (allAcctDirs w).foldl addKey []

/-- `GetCommodityFormats`. -/
def getFormats (w : WS) : Option (AList String) × WS :=
  match w.cFormats with
  | some f => (some f, w)
  | none => if !w.hasResolved then (none, w) else
    let f := computeFormats w
    (some f, { w with cFormats := some f })

/-- `GetDeclaredCommodities`. -/
def getComms (w : WS) : Option (List String) × WS :=
  match w.cComms with
  | some f => (some f, w)
  | none => if !w.hasResolved then (none, w) else
    let f := computeComms w
    (some f, { w with cComms := some f })

/-- `GetDeclaredAccounts`. -/
def getAccts (w : WS) : Option (List String) × WS :=
  match w.cAccts with
  | some f => (some f, w)
  | none => if !w.hasResolved then (none, w) else
    let f := computeAccts w
    (some f, { w with cAccts := some f })

/-- Everything the property lists, as observed through IndexSnapshot, the members of the
    index and the three getters. -/
structure View where
  members : List String
  idx : WIndex
  formats : Option (AList String)
  comms : Option (List String)
  accts : Option (List String)
  deriving Repr

/-- observe the workspace (the getters fill the caches). -/
def observe (w : WS) : View × WS :=
  let (f, w) := getFormats w
  let (c, w) := getComms w
  let (a, w) := getAccts w
  ({ members := isort w.idx.files.keys, idx := w.idx, formats := f, comms := c, accts := a }, w)

/-! ### Histories: didChange + write to disk + didSave -/

structure Upd where
  path : String
  c : Contrib
  deriving Repr, Inhabited

structure St where
  fs : FS
  w : WS
  deriving Repr, Inhabited

/-- one edit as the server sees it: `DidChange` (UpdateFile with the new text while the disk
    still has the old one), the editor writes the file, `DidSave` (UpdateFile again).  The
    workspace is observed after each call, as diagnostics would. -/
def step (cfg : Cfg) (s : St) (u : Upd) : St :=
  let w := updateFile cfg s.fs s.w u.path u.c
  let w := (observe w).2
  let fs := s.fs.set u.path u.c
  let w := updateFile cfg fs w u.path u.c
  let w := (observe w).2
  { fs := fs, w := w }

def start (cfg : Cfg) (fs : FS) : St :=
  { fs := fs, w := (observe (init cfg fs)).2 }

def run (cfg : Cfg) (fs : FS) (us : List Upd) : St :=
  us.foldl (step cfg) (start cfg fs)

end HL.Workspace
