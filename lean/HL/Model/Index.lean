/-
  Model of internal/workspace/index.go (WorkspaceIndex: NewWorkspaceIndex, SetFileIndex,
  RemoveFile, addFileIndex, removeFileIndex, decrementBy, decrementTagValueBy,
  refreshDerived, buildTagValues, buildAccountIndex, sortedKeys, filterTransactions,
  Snapshot) and of the part of BuildFileIndexFromJournal / resolveIncludePaths that turns
  one file's analysis into its `FileIndex`.

  Abstraction.  What the parser and the analyzer's Collect* functions compute for ONE file
  is not modelled here: a file's content is represented by its *contribution* (`Contrib`):
  the count maps, transaction keys, dates, payee templates, the resolved include targets in
  directive order, and the account / commodity directives.  The correspondence harness
  computes contributions from real journals with the real parser and analyzer
  (BuildFileIndexFromContent) and feeds them to this model; everything the workspace does
  with them (aggregation, removal, include graph, caches) is modelled.

  Go maps are association lists (`AList`): `get` finds the first entry, `set` replaces the
  entry or appends, `erase` removes every entry of the key.  Observable results never
  depend on the order of the entries; canonical output sorts by key.
  `sort.Strings` is insertion sort `isort` on `String`'s order (code point order, which is
  byte order for UTF-8) — any correct sort returns the same list (`isort_unique`).
-/
namespace HL.Index

abbrev AList (α : Type) := List (String × α)

namespace AList
variable {α : Type}

def get : AList α → String → Option α
  | [], _ => none
  | (k', v) :: r, k => if k' = k then some v else get r k

def set : AList α → String → α → AList α
  | [], k, v => [(k, v)]
  | (k', v') :: r, k, v => if k' = k then (k, v) :: r else (k', v') :: set r k v

def erase (m : AList α) (k : String) : AList α := m.filter (fun e => e.1 ≠ k)

def keys (m : AList α) : List String := m.map (·.1)

def getD (m : AList α) (k : String) (d : α) : α := (m.get k).getD d

end AList

/-! ### sort.Strings -/

def ins (a : String) : List String → List String
  | [] => [a]
  | b :: r => if a ≤ b then a :: b :: r else b :: ins a r

/-- `sort.Strings`. -/
def isort (l : List String) : List String := l.foldr ins []

/-- `sortedKeys(counts)`. -/
def sortedKeys {α : Type} (m : AList α) : List String := isort m.keys

/-! ### Counters -/

/-- `counts[key]` for a `map[string]int` (0 when absent). -/
def cnt (m : AList Nat) (k : String) : Nat := (m.get k).getD 0

/-- `counts[name] += count`. -/
def addTo (m : AList Nat) (k : String) (n : Nat) : AList Nat := m.set k (cnt m k + n)

/-- `decrementBy`. -/
def decrementBy (m : AList Nat) (k : String) (a : Nat) : AList Nat :=
  if cnt m k ≤ a then m.erase k else m.set k (cnt m k - a)

def addAll (m : AList Nat) (l : AList Nat) : AList Nat :=
  l.foldl (fun m e => addTo m e.1 e.2) m

def subAll (m : AList Nat) (l : AList Nat) : AList Nat :=
  l.foldl (fun m e => decrementBy m e.1 e.2) m

/-- the loop body of addFileIndex for `TagValueCounts`. -/
def tvAdd (m : AList (AList Nat)) (tag : String) (vals : AList Nat) : AList (AList Nat) :=
  m.set tag (addAll (m.getD tag []) vals)

/-- `decrementTagValueBy`. -/
def tvDec (m : AList (AList Nat)) (tag value : String) (amount : Nat) : AList (AList Nat) :=
  match m.get tag with
  | none => m
  | some inner =>
    if cnt inner value ≤ amount then
      let inner' := inner.erase value
      if inner'.isEmpty then m.erase tag else m.set tag inner'
    else m.set tag (inner.set value (cnt inner value - amount))

def tvAddAll (m : AList (AList Nat)) (l : AList (AList Nat)) : AList (AList Nat) :=
  l.foldl (fun m e => tvAdd m e.1 e.2) m

def tvSubAll (m : AList (AList Nat)) (l : AList (AList Nat)) : AList (AList Nat) :=
  l.foldl (fun m e => e.2.foldl (fun m ve => tvDec m e.1 ve.1 ve.2) m) m

/-- count of (tag, value) in a nested counter. -/
def tvCnt (m : AList (AList Nat)) (tag value : String) : Nat := cnt (m.getD tag []) value

/-! ### File contributions -/

/-- `TransactionEntry`: `data` stands for Range, Date, Payee, Description. -/
structure Entry where
  key : String
  file : String
  data : String
  deriving DecidableEq, Repr, Inhabited

/-- A commodity directive: symbol, raw `Format` string, canonical rendering of
    `formatter.ParseNumberFormat(Format)` (computed by the real code). -/
structure CommDir where
  sym : String
  raw : String
  fmt : String
  deriving DecidableEq, Repr, Inhabited

/-- What one file's content contributes (see the header). -/
structure Contrib where
  ac : AList Nat := []            -- CollectAccountCounts
  pc : AList Nat := []            -- CollectPayeeCounts
  cc : AList Nat := []            -- CollectCommodityCounts
  tc : AList Nat := []            -- CollectTagCounts
  tvc : AList (AList Nat) := []   -- CollectTagValueCounts
  txs : List (String × String) := []  -- collectTransactions: key, data
  dates : List String := []       -- CollectDates
  pts : AList String := []        -- CollectPayeeTemplates (template rendered canonically)
  incs : List String := []        -- include directives, resolved, in directive order
  declA : List String := []       -- account directives, in order
  cds : List CommDir := []        -- commodity directives, in order
  deriving DecidableEq, Repr, Inhabited

/-- `FileIndex` (the fields the workspace reads). -/
structure FileIdx where
  c : Contrib
  includes : List String
  entries : List Entry
  deriving DecidableEq, Repr, Inhabited

/-- order-preserving removal of duplicates (the `seen` map of resolveIncludePaths). -/
def dedup : List String → List String
  | [] => []
  | a :: r => a :: (dedup r).filter (· ≠ a)

/-- `resolveIncludePaths` on already resolved targets: drop the file itself, drop
    duplicates, sort. -/
def resolveIncl (path : String) (incs : List String) : List String :=
  isort (dedup (incs.filter (· ≠ path)))

/-- `BuildFileIndexFromJournal`. -/
def mkFileIdx (path : String) (c : Contrib) : FileIdx :=
  { c := c, includes := resolveIncl path c.incs,
    entries := c.txs.map fun kd => { key := kd.1, file := path, data := kd.2 } }

/-! ### WorkspaceIndex -/

/-- `analyzer.AccountIndex`. -/
structure AccountIndex where
  all : List String := []
  byPrefix : AList (List String) := []
  deriving DecidableEq, Repr, Inhabited

structure WIndex where
  files : AList FileIdx := []          -- fileIndexes
  ac : AList Nat := []
  pc : AList Nat := []
  cc : AList Nat := []
  tc : AList Nat := []
  tvc : AList (AList Nat) := []
  txs : AList (List Entry) := []       -- transactionsByKey
  dc : AList Nat := []                 -- dateCounts
  pts : AList String := []             -- payeeTemplates
  accounts : AccountIndex := {}
  payees : List String := []
  commodities : List String := []
  tags : List String := []
  tagValues : AList (List String) := []
  dates : List String := []
  deriving DecidableEq, Repr, Inhabited

/-- `strings.Split(name, ":")` on characters. -/
def splitColon : List Char → List Char → List (List Char)
  | [], cur => [cur.reverse]
  | c :: r, cur => if c = ':' then cur.reverse :: splitColon r [] else splitColon r (c :: cur)

/-- the prefixes `parts[:i] joined + ":"`, `1 ≤ i < len(parts)`. -/
def prefixesOf (name : String) : List String :=
  let parts := splitColon name.toList []
  let rec go : List (List Char) → List Char → List String
    | [], _ => []
    | [_], _ => []
    | p :: q :: r, acc =>
      let acc' := acc ++ p ++ [':']
      String.ofList acc' :: go (q :: r) acc'
  go parts []

/-- the loop of `buildAccountIndex` over the sorted names. -/
def accountIndexOf (names : List String) : AccountIndex :=
  names.foldl (fun idx name =>
    { all := idx.all ++ [name],
      byPrefix := (prefixesOf name).foldl
        (fun bp p => bp.set p (bp.getD p [] ++ [name])) idx.byPrefix }) {}

/-- `buildAccountIndex`. -/
def buildAccountIndex (counts : AList Nat) : AccountIndex := accountIndexOf (sortedKeys counts)

/-- `buildTagValues`. -/
def buildTagValues (counts : AList (AList Nat)) : AList (List String) :=
  counts.foldl (fun r e => r.set e.1 (sortedKeys e.2)) []

/-- `refreshDerived`. -/
def refreshDerived (idx : WIndex) : WIndex :=
  { idx with
    accounts := buildAccountIndex idx.ac
    payees := sortedKeys idx.pc
    commodities := sortedKeys idx.cc
    tags := sortedKeys idx.tc
    tagValues := buildTagValues idx.tvc
    dates := sortedKeys idx.dc }

/-- the transaction loop of addFileIndex. -/
def txAdd (m : AList (List Entry)) (es : List Entry) : AList (List Entry) :=
  es.foldl (fun m e => m.set e.key (m.getD e.key [] ++ [e])) m

/-- the transaction loop of removeFileIndex (`filterTransactions`, delete when empty). -/
def txRemove (m : AList (List Entry)) (path : String) (es : List Entry) : AList (List Entry) :=
  es.foldl (fun m e =>
    let filtered := (m.getD e.key []).filter (fun x => x.file ≠ path)
    if filtered.isEmpty then m.erase e.key else m.set e.key filtered) m

/-- least element of a list of paths (`""` for the empty list). -/
def minPath : List String → String
  | [] => ""
  | a :: r => r.foldl (fun b x => if x < b then x else b) a

/-- `restorePayeeTemplate` of the repaired code (repo_patches/fix-template-loss.diff): the
    template of the indexed file with the smallest path that has one for the payee. -/
def ptRestore (files : AList FileIdx) (m : AList String) (payee : String) : AList String :=
  let having := (files.filter fun e => (e.2.c.pts.get payee).isSome).map (·.1)
  match having with
  | [] => m
  | _ => match (files.getD (minPath having) default).c.pts.get payee with
    | some t => m.set payee t
    | none => m

/-- the payee template loop of addFileIndex.  `fixT = false` is index.go as pinned
    (overwrite); `fixT = true` is the repaired code (take the template of the indexed file
    with the smallest path, the new file included). -/
def ptAdd (fixT : Bool) (files : AList FileIdx) (m : AList String) (l : AList String) :
    AList String :=
  l.foldl (fun m e => if fixT then ptRestore files m e.1 else m.set e.1 e.2) m

/-- the payee template loop of removeFileIndex.  `fixT = false` is index.go as pinned
    (delete by payee key); `fixT = true` is the repaired code (delete, then restore from the
    files still indexed). -/
def ptRemove (fixT : Bool) (files : AList FileIdx) (m : AList String) (l : AList String) :
    AList String :=
  l.foldl (fun m e =>
    let m := m.erase e.1
    if fixT then ptRestore files m e.1 else m) m

/-- `addFileIndex`. -/
def addFileIndex (fixT : Bool) (idx : WIndex) (path : String) (fi : FileIdx) : WIndex :=
  let files := idx.files.set path fi
  refreshDerived { idx with
    files := files
    ac := addAll idx.ac fi.c.ac
    pc := addAll idx.pc fi.c.pc
    cc := addAll idx.cc fi.c.cc
    tc := addAll idx.tc fi.c.tc
    tvc := tvAddAll idx.tvc fi.c.tvc
    txs := txAdd idx.txs fi.entries
    dc := addAll idx.dc (fi.c.dates.map fun d => (d, 1))
    pts := ptAdd fixT files idx.pts fi.c.pts }

/-- `removeFileIndex`. -/
def removeFileIndex (fixT : Bool) (idx : WIndex) (path : String) (fi : FileIdx) : WIndex :=
  let files := idx.files.erase path
  refreshDerived { idx with
    files := files
    ac := subAll idx.ac fi.c.ac
    pc := subAll idx.pc fi.c.pc
    cc := subAll idx.cc fi.c.cc
    tc := subAll idx.tc fi.c.tc
    tvc := tvSubAll idx.tvc fi.c.tvc
    txs := txRemove idx.txs path fi.entries
    dc := subAll idx.dc (fi.c.dates.map fun d => (d, 1))
    pts := ptRemove fixT files idx.pts fi.c.pts }

/-- `SetFileIndex` (the model never passes a nil index). -/
def setFileIndex (fixT : Bool) (idx : WIndex) (path : String) (fi : FileIdx) : WIndex :=
  if path = "" then idx else
  let idx := match idx.files.get path with
    | some existing => removeFileIndex fixT idx path existing
    | none => idx
  addFileIndex fixT idx path fi

/-- `RemoveFile`. -/
def removeFile (fixT : Bool) (idx : WIndex) (path : String) : WIndex :=
  match idx.files.get path with
  | some existing => removeFileIndex fixT idx path existing
  | none => idx

end HL.Index
