import HL.Model.Ast
/-
  Byte-string helpers used by the parser model (Go `strings`, `strconv`, `unicode/utf8` as far
  as internal/parser/parser.go uses them).  All on `Bytes = List UInt8`.

  strings.TrimSpace    -> trimSpace       (Unicode White_Space, invalid UTF-8 is never space)
  strings.Index        -> indexOf         (byte-wise substring search, Option Nat)
  strings.Contains     -> contains
  strings.Split s sep  -> splitByte / splitOn (single byte separators only: that is all the
                          parser ever passes: ",", and string(sep) for sep in {0,'-','/','.'})
  strings.HasPrefix    -> List.isPrefixOf
  strings.ReplaceAll s " " "" -> dropBlanks
  strconv.Atoi         -> atoi            (64-bit int)
  utf8.DecodeRuneInString -> decodeRune   (code point, width); (0xFFFD, 1) on invalid input
-/
namespace HL.PStr
open HL

/-- Go's `for i := range s` / `utf8.DecodeRuneInString`: `(rune, width)`; `(0xFFFD, 1)` for an
    invalid or truncated sequence; `(0xFFFD, 0)` for the empty string. -/
def decodeRune (b : Bytes) : Nat × Nat :=
  let cont (x : UInt8) : Bool := 0x80 ≤ x.toNat && x.toNat ≤ 0xBF
  match b with
  | [] => (0xFFFD, 0)
  | b0 :: r =>
    let n0 := b0.toNat
    if n0 < 0x80 then (n0, 1)
    else if n0 < 0xC2 then (0xFFFD, 1)
    else if n0 < 0xE0 then
      match r with
      | b1 :: _ => if cont b1 then ((n0 - 0xC0) * 64 + (b1.toNat - 0x80), 2) else (0xFFFD, 1)
      | _ => (0xFFFD, 1)
    else if n0 < 0xF0 then
      match r with
      | b1 :: b2 :: _ =>
        let lo := if n0 = 0xE0 then 0xA0 else 0x80
        let hi := if n0 = 0xED then 0x9F else 0xBF
        if lo ≤ b1.toNat && b1.toNat ≤ hi && cont b2 then
          ((n0 - 0xE0) * 4096 + (b1.toNat - 0x80) * 64 + (b2.toNat - 0x80), 3)
        else (0xFFFD, 1)
      | _ => (0xFFFD, 1)
    else if n0 < 0xF5 then
      match r with
      | b1 :: b2 :: b3 :: _ =>
        let lo := if n0 = 0xF0 then 0x90 else 0x80
        let hi := if n0 = 0xF4 then 0x8F else 0xBF
        if lo ≤ b1.toNat && b1.toNat ≤ hi && cont b2 && cont b3 then
          ((n0 - 0xF0) * 262144 + (b1.toNat - 0x80) * 4096 + (b2.toNat - 0x80) * 64 + (b3.toNat - 0x80), 4)
        else (0xFFFD, 1)
      | _ => (0xFFFD, 1)
    else (0xFFFD, 1)

/-- The runes of a Go string as `for _, r := range s` yields them (fuel = length). -/
def runesF : Nat → Bytes → List Nat
  | 0, _ => []
  | _, [] => []
  | n+1, b => let (r, w) := decodeRune b; r :: runesF n (b.drop (max w 1))

def runes (b : Bytes) : List Nat := runesF b.length b

/-- UTF-8 encodings of the code points for which `unicode.IsSpace` holds
    (U+0009..U+000D, U+0020, U+0085, U+00A0, U+1680, U+2000..U+200A, U+2028, U+2029, U+202F,
    U+205F, U+3000). -/
def spaceEncodings : List Bytes :=
  [[0x09], [0x0A], [0x0B], [0x0C], [0x0D], [0x20], [0xC2, 0x85], [0xC2, 0xA0], [0xE1, 0x9A, 0x80],
   [0xE2, 0x80, 0x80], [0xE2, 0x80, 0x81], [0xE2, 0x80, 0x82], [0xE2, 0x80, 0x83], [0xE2, 0x80, 0x84],
   [0xE2, 0x80, 0x85], [0xE2, 0x80, 0x86], [0xE2, 0x80, 0x87], [0xE2, 0x80, 0x88], [0xE2, 0x80, 0x89],
   [0xE2, 0x80, 0x8A], [0xE2, 0x80, 0xA8], [0xE2, 0x80, 0xA9], [0xE2, 0x80, 0xAF], [0xE2, 0x81, 0x9F],
   [0xE3, 0x80, 0x80]]

/-- Width of the white-space rune the string starts with (0 if it does not start with one).
    `DecodeRuneInString` yields a space rune exactly when the string starts with that rune's
    (unique, shortest-form) encoding. -/
def leadSpace (b : Bytes) : Nat :=
  match spaceEncodings.find? (fun e => e.isPrefixOf b) with
  | some e => e.length
  | none => 0

def trimLeftF : Nat → Bytes → Bytes
  | 0, b => b
  | n+1, b => match leadSpace b with
    | 0 => b
    | w => trimLeftF n (b.drop w)

def trimLeft (b : Bytes) : Bytes := trimLeftF b.length b

/-- Width of the white-space rune the *reversed* string ends with: `DecodeLastRuneInString`
    yields a space rune exactly when the string ends with that rune's encoding. -/
def trailSpace (rb : Bytes) : Nat :=
  match spaceEncodings.find? (fun e => e.reverse.isPrefixOf rb) with
  | some e => e.length
  | none => 0

def trimRightRevF : Nat → Bytes → Bytes
  | 0, rb => rb
  | n+1, rb => match trailSpace rb with
    | 0 => rb
    | w => trimRightRevF n (rb.drop w)

def trimRight (b : Bytes) : Bytes := (trimRightRevF b.length b.reverse).reverse

/-- `strings.TrimSpace`. -/
def trimSpace (b : Bytes) : Bytes := trimRight (trimLeft b)

/-- `strings.Index(s, sub)`: byte offset of the first occurrence (fuel = |s|+1). -/
def indexOfF (sub : Bytes) : Nat → Bytes → Nat → Option Nat
  | 0, _, _ => none
  | n+1, s, i =>
    if sub.isPrefixOf s then some i
    else match s with
      | [] => none
      | _ :: r => indexOfF sub n r (i+1)

def indexOf (s sub : Bytes) : Option Nat := indexOfF sub (s.length + 1) s 0

def contains (s sub : Bytes) : Bool := (indexOf s sub).isSome

/-- `strings.Split(s, string(sep))` for a one-byte separator. -/
def splitByte (s : Bytes) (sep : UInt8) : List Bytes :=
  let rec go : Bytes → Bytes → List Bytes
    | [], cur => [cur.reverse]
    | c :: r, cur => if c = sep then cur.reverse :: go r [] else go r (c :: cur)
  go s []

/-- `strings.ReplaceAll(s, " ", "")`. -/
def dropBlanks (s : Bytes) : Bytes := s.filter (· ≠ 0x20)

def isDigitByte (c : UInt8) : Bool := 0x30 ≤ c.toNat && c.toNat ≤ 0x39

def digitsVal (ds : Bytes) : Nat := ds.foldl (fun a c => a * 10 + (c.toNat - 0x30)) 0

/-- Optional sign followed by one or more ASCII digits (what `strconv.ParseInt(s, 10, _)`,
    `strconv.Atoi` and `big.Int.SetString(s, 10)` accept): the integer, unbounded. -/
def signedDigits (s : Bytes) : Option Int :=
  let (neg, ds) := match s with
    | 0x2D :: r => (true, r)
    | 0x2B :: r => (false, r)
    | r => (false, r)
  if ds.isEmpty || !ds.all isDigitByte then none
  else some (if neg then - (digitsVal ds : Int) else (digitsVal ds : Int))

/-- `strconv.ParseInt(s, 10, bits)`: syntax as `signedDigits`, range error outside the
    two's-complement range of `bits` bits. -/
def parseIntBits (bits : Nat) (s : Bytes) : Option Int :=
  match signedDigits s with
  | none => none
  | some v => if - (2 ^ (bits - 1) : Int) ≤ v && v ≤ (2 ^ (bits - 1) : Int) - 1 then some v else none

/-- `strconv.Atoi` on a 64-bit platform (both the fast path for fewer than 19 bytes and the
    `ParseInt(s, 10, 0)` slow path): values outside int64 are errors (`none`). -/
def atoi (s : Bytes) : Option Int := parseIntBits 64 s

end HL.PStr
