/-
  The width arithmetic of the formatter in Go's `int` (64 bit, wrapping), and the argument of
  every `strings.Repeat(" ", n)` call that a configured width can reach (property C19:
  a configuration must not be able to crash a request).

  Go code transcribed:
    internal/formatter/formatter.go
      FormatDocumentWithOptions        `opts.IndentSize <= 0` → default; the global column and
                                       the `MinAlignmentColumn` test
      calculateGlobalAlignmentColumnWithIndent   `indentSize + maxLen + minSpaces`
      calculateAlignmentWithGlobal     `accountCol + maxAmountCostLen + minSpaces`
      formatTransactionWithOpts        `strings.Repeat(" ", opts.IndentSize)`
      formatPostingWithOpts            `strings.Repeat(" ", max(AccountCol-currentLen, minSpaces))`,
                                       the same for the balance assertion, `Repeat(" ", minSpaces)`
    internal/server/inline_completion.go  buildInlinePostingsText: `strings.Repeat(" ", indentSize)`

  `HL.Model.Format` computes the same columns with natural numbers, i.e. it idealises Go's
  `int` as unbounded; `HL.Props.C19.widths_match_format_model` shows the two agree for every
  accepted configuration, and `HL.Props.C19.pinned_width_overflows_allocation` shows what happened
  before the settings were bounded.

  What the document contributes enters as four lengths (`Lens`): they are rune counts of
  pieces of the document or of numbers rendered from it, hence between 0 and the size of the
  document in memory.
-/
import HL.Model.Format
import HL.Model.Settings
namespace HL.FmtWidth
open HL.Settings (wrap64)

/-- `strings.Repeat(" ", n)` panics for `n < 0` ("negative Repeat count") and when the `n`
    bytes cannot be allocated: `makeslice: len out of range` beyond the runtime's `maxAlloc`
    (2^48 on linux/amd64, less elsewhere). -/
def maxAlloc : Int := 2 ^ 48

def repeatOK (n : Int) : Bool := decide (0 ≤ n) && decide (n ≤ maxAlloc)

/-- The lengths the document contributes to the width arithmetic of one posting line. -/
structure Lens where
  /-- longest account (display length) in the document: `maxLen` -/
  account : Int
  /-- runes written before the amount (indent, status mark, account): `currentLen` -/
  head : Int
  /-- `maxAmountCostLen` of the transaction -/
  amount : Int
  /-- runes written before the balance assertion: `currentLen` there -/
  pre : Int

def minSpaces : Int := 2

/-- `if opts.IndentSize <= 0 { opts.IndentSize = defaultIndentSize }` -/
def goIndent (indentSize : Int) : Int := if indentSize ≤ 0 then 4 else indentSize

/-- `globalAccountCol` of FormatDocumentWithOptions (alignment on) -/
def goGlobalCol (indent minCol account : Int) : Int :=
  let g := wrap64 (wrap64 (indent + account) + minSpaces)
  if minCol > 0 && g < minCol then minCol else g

def imax (a b : Int) : Int := if a ≥ b then a else b

/-- the blanks in front of an amount -/
def goAmountGap (col head : Int) : Int :=
  if col > 0 then imax (wrap64 (col - head)) minSpaces else minSpaces

/-- `BalanceAssertionCol` -/
def goBaCol (col amount : Int) : Int := wrap64 (wrap64 (col + amount) + minSpaces)

/-- the blanks in front of a balance assertion -/
def goBaGap (baCol pre : Int) : Int :=
  if baCol > 0 then imax (wrap64 (baCol - pre)) minSpaces else minSpaces

/-- The counts of the `strings.Repeat` calls for one posting line when amounts are aligned:
    the indent (also the one of the inline completion), the gap before the amount, the gap
    before the balance assertion. -/
def repeatCounts (indentSize minCol : Int) (d : Lens) : List Int :=
  let ind := goIndent indentSize
  let col := goGlobalCol ind minCol d.account
  [ind, goAmountGap col d.head, goBaGap (goBaCol col d.amount) d.pre]

/-- … and when they are not (`alignAmounts = false`): the indent and `minSpaces`. -/
def repeatCountsUnaligned (indentSize : Int) : List Int := [goIndent indentSize, minSpaces]

end HL.FmtWidth
