import HL.Model.Balance
/-!
  Model of the balance part of `Analyzer.analyzeInternal` (internal/analyzer/analyzer.go) at
  journal level: the loop `for i := range journal.Transactions { br := CheckBalance(tx); if
  !br.Balanced { diags = append(diags, createBalanceDiagnostic(tx, br)) } … }` projected to the
  codes UNBALANCED / MULTIPLE_INFERRED (the UNDECLARED_* diagnostics appended in the same loop
  are `HL.Undeclared.analyzeInternal`, property C18; the date-tag diagnostics carry other codes).

  One diagnostic = `Diagnostic{Range: tx.Range, Severity: SeverityError, Code, Message}`.
  A panic inside `CheckBalance` (`decimal.Mul` exponent overflow) aborts the whole analysis:
  `none`.

  Correspondence: ops `c02.diag` / `c02.session` (per transaction, `Driver/C02.diagJ`) and
  `c02.gcore` (this function on the tree of the REAL parser against the real `Analyze`).
-/
namespace HL.Balance
open HL HL.Ast

structure BalDiag where
  range : Rng
  /-- `SeverityError` = 0 (analyzer.DiagnosticSeverity) -/
  severity : Nat
  code : Code
  message : Bytes
deriving Repr, DecidableEq, Inhabited, BEq

/-- `createBalanceDiagnostic(tx, br)`. -/
def mkBalDiag (tx : Transaction) (r : Result) : BalDiag :=
  let cm := balanceDiagnostic r
  ⟨tx.range, 0, cm.1, cm.2⟩

/-- the loop of `analyzeInternal`, balance diagnostics only; `none` = panic. -/
def analyzeTxs : List Transaction → Option (List BalDiag)
  | [] => some []
  | tx :: rest =>
    match check tx with
    | none => none
    | some r =>
      match analyzeTxs rest with
      | none => none
      | some ds => some (if r.balanced then ds else mkBalDiag tx r :: ds)

/-- `Analyze(journal).Diagnostics` filtered to the codes UNBALANCED / MULTIPLE_INFERRED. -/
def analyzeBalance (j : Journal) : Option (List BalDiag) := analyzeTxs j.transactions

end HL.Balance
