/-
  The line-end handling of internal/parser/lexer.go AS PINNED (before the `fix:` commit that made
  a CR directly followed by LF part of the line end: findings crlf-line-ends of C03,
  crlf-comment-length of C17, crlf-line-end of C08, crlf-blank-comment of C04/C05).  Kept only
  so that the `pinned_*_counterexample` theorems (HL/Props/C03Cex.lean, HL/Props/C17.lean) can
  state, kernel-checked, what the old lexer did on each witness; nothing else refers to this
  file.  The current lexer is modelled in HL/Model/Lexer.lean.

  Only the functions the repair touched are copied (`scanCode`, `scanComment`, `scanIndent`,
  `scanNewline`, `scanQuotedCommodity`, `scanText`, and the dispatchers above them); every
  other scan function, loop and look-ahead is the one of HL/Model/Lexer.lean, which the repair
  left alone.

  Pinned behaviour: only LF ends a line.  Every loop that runs to the end of the line stops at
  LF, so the CR of a CRLF line end is part of a comment's / text's / code's value and extent; a
  CR behind any other token becomes a Text token of its own whose trimmed value is empty; a line
  consisting of CR LF starts with an Indent token `"\r"`.
-/
import HL.Model.Lexer

/-!
  Token ends AS PINNED before the `fix:` commit for trailing blanks in ranges (findings
  account-trailing-blank, commodity-text-trailing-blank, amount-trailing-blank of C08,
  text-commodity-trailing-blank of C09): `scanAccount` and `scanText` built their token with
  `End: l.position()` of the state the scan stopped in — behind a single blank that follows an
  account name, behind the white space that follows a text — although the value stops at the
  last character.  Only these two functions are copied; the loops and the lexer state they
  leave behind are those of HL/Model/Lexer.lean (the repair changed nothing but the `End` field).
  Used by `HL.Props.C08.pinned_*_trailing_blank_counterexample` and by the CRLF-era lexer below.
-/
namespace HL.Lex.PinnedTrail
open HL HL.Utf8 HL.Lex

def scanAccount (z : Z) : Token × Z :=
  let (e, l) := scanAccountF z.after.length z z
  mkTok .account (between z l) z e

def scanText (z : Z) : Token × Z :=
  let e := advLine (fun ch => !(ch == 0x3B || ch == 0x7C)) z
  mkTok .text (trimSpace (between z e)) z e

end HL.Lex.PinnedTrail

namespace HL.Lex.Pinned
open HL HL.Utf8 HL.Lex

/-- the account token of that time ended where the scan stopped -/
abbrev scanAccount := PinnedTrail.scanAccount

def scanCode (z : Z) : Token × Z :=
  let z1 := advance z
  let z2 := advWhile (fun c => c != 0x29 && c != 0x0A) z1
  let e := advIf (· == 0x29) z2
  mkTok .code (between z1 z2) z e

def scanComment (z : Z) : Token × Z :=
  let z1 := advance z
  let e := advWhile (fun c => c != 0x0A) z1
  mkTok .comment (between z1 e) z e

def scanIndent (z : Z) : Token × Z :=
  let e := advWhile (fun c => isWhitespace c && c != 0x0A) z
  mkTok .indent (between z e) z e

def scanNewline (z : Z) : Token × Z :=
  let z1 := advance z
  mkTok .newline [0x0A] z { z1 with line := z1.line + 1, col := 1, atStart := true }

def scanQuotedCommodity (z : Z) : Token × Z :=
  let z1 := advance z
  let z2 := advWhile (fun c => c != 0x22 && c != 0x0A) z1
  let e := advIf (· == 0x22) z2
  mkTok .commodity (between z1 z2) z e

def scanText (z : Z) : Token × Z :=
  let e := advWhile (fun ch => !(ch == 0x0A || ch == 0x3B || ch == 0x7C)) z
  mkTok .text (trimSpace (between z e)) z e

def scanDirectiveOrAccount (z : Z) : Token × Z :=
  let z1 := advWhile isLetter z
  let word := between z z1
  if isDirective word then mkTok .directive word z z1
  else if looksLikeAccount z.after then scanAccount z else scanText z

def scanCommodityOrText (C : Classes) (z : Z) : Token × Z :=
  let followsAmount := followsAmountNumber z
  let z1 := advWhile isLetter z
  let early : Bool :=
    z.before.length < z1.before.length && !z1.after.isEmpty && !followsAmount &&
    isAllUppercase (between z z1) && digitOrSignedDigit z1.after
  if early then mkTok .commodity (between z z1) z z1
  else
    let z2 := advWhile (fun c => isLetter c || isDigit c) z1
    let value := between z z2
    if looksLikeCommodity C value then mkTok .commodity value z z2
    else scanText z

def scanInLineAt (C : Classes) (z : Z) : Token × Z :=
  match z.after with
  | [] => mkTok .eof [] z z
  | ch :: _ =>
    let r := peekRune z
    if ch == 0x0A then scanNewline z
    else if ch == 0x3B then scanComment z
    else if ch == 0x28 then
      if looksLikeVirtualAccount z.after then punct .lparen [0x28] z else scanCode z
    else if ch == 0x29 then punct .rparen [0x29] z
    else if ch == 0x5B then punct .lbracket [0x5B] z
    else if ch == 0x5D then punct .rbracket [0x5D] z
    else if ch == 0x7C then punct .pipe [0x7C] z
    else if ch == 0x40 then scanAt z
    else if ch == 0x3D then scanEquals z
    else if ch == 0x2A || ch == 0x21 then scanStatus z
    else if isCurrencySymbol r then scanCurrencySymbol z
    else if ch == 0x22 then scanQuotedCommodity z
    else if ch == 0x2D || ch == 0x2B then
      if nextIsCurrencySymbol z.after || nextIsLetterCommodity z.after || nextIsDigit z.after then scanSign z
      else scanText z
    else if isDigit ch then
      if looksLikeDate z.after then scanDate z else scanNumber z
    else if isLetter ch || C.isLetter r then
      if looksLikeAccount z.after then scanAccount z else scanCommodityOrText C z
    else scanText z

def scanInLine (C : Classes) (z0 : Z) : Token × Z := scanInLineAt C (skipSpaces z0)

def scanLineStart (C : Classes) (z0 : Z) : Token × Z :=
  let z := { z0 with atStart := false }
  let p := peek z
  if p == 0x3B then scanComment z
  else if isWhitespace p && p != 0x0A then scanIndent z
  else if isDigit p then scanDate z
  else if isLetter p then scanDirectiveOrAccount z
  else scanInLine C z

def next (C : Classes) (z : Z) : Token × Z :=
  match z.after with
  | [] => mkTok .eof [] z z
  | _ :: _ =>
    if z.atStart && z.col == 1 then scanLineStart C z else scanInLine C z

def lexF (C : Classes) : Nat → Z → List Token
  | 0, _ => []
  | n+1, z =>
    let r := next C z
    if r.1.ty == .eof then [r.1] else r.1 :: lexF C n r.2

/-- The whole token stream of an input, as the pinned lexer produced it. -/
def lexAll (C : Classes) (input : Bytes) : List Token := lexF C (input.length + 2) (Z.init input)

end HL.Lex.Pinned
