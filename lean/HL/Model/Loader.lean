/-
  Model of internal/include/loader.go (Load, LoadFromContent, loadWithContent — split into
  parseFile + loadParsed by fix-include-3 —, loadSingleInclude, expandGlob's filtering,
  ClearCache, InvalidateFile) at the level of the include graph.  `loadF` is
  loadWithContent/loadParsed, `single` + `descend` are loadSingleInclude, `items` flattens the
  two nested loops over `journal.Includes` and over the glob matches.

  What is modelled
  * the recursion of `loadWithContent` and `loadSingleInclude` with everything it shares
    between calls: the `visited` map, the loader's cache (explicit state, threaded), the
    result being accumulated (`Files`, `FileOrder`), the error list and its order;
  * every error the loader can produce, with the path and the range it carries and (for
    cycles) the including file named in the message;
  * the size and depth limits, and the three behaviours that were repaired
    (repo_patches/fix-include-*.diff): a `Mode` selects pinned or repaired behaviour for each
    of them, so that the pinned behaviour stays on record (counterexample theorems) and the
    correspondence can be run against either tree.

  What is abstracted (exercised by the harness on real temp dirs, not modelled)
  * the path layer: `ResolvePathSafe`, `IsGlobPattern`, `ConvertHledgerGlob`,
    `doublestar.FilepathGlob`, `filepath.*`, `os.UserHomeDir`.  A directive arrives in the
    model already resolved (`Target`): a file path, a path-traversal refusal, the sorted list
    of paths a glob pattern can match (the model keeps those that exist and removes the
    including file, as `FilepathGlob` + `expandGlob` do), or an invalid pattern.  Paths are node ids (`Nat`); two directive
    texts that resolve to the same cleaned path are the same node.
  * the parser: a file is `File` = its size, an identity of its content (`ver`), the include
    directives in order with their ranges, and the positions of its parse errors.
  * `os.Stat`/`os.ReadFile`: `FS := Path → Option File`.

  Loops are structural recursion on fuel (`loadF`); `HL.Props.C10.load_terminates` shows that
  `maxDepth + 1` is always enough, for every file system.
-/
import HL.Model.Ast
namespace HL.Loader
open HL

abbrev Path := Nat

/-- What the path layer makes of one include directive of a given file. -/
inductive Target where
  /-- not a glob, `ResolvePathSafe` succeeded: the cleaned absolute path -/
  | file (p : Path)
  /-- not a glob, `ResolvePathSafe` refused (more than five `..`) -/
  | traversal
  /-- glob: every known path whose name matches the pattern, sorted as `sort.Strings` sorts
      them; `doublestar.FilepathGlob` returns those of them that exist at the time of the load -/
  | glob (ms : List Path)
  /-- glob: `FilepathGlob` returned an error -/
  | globBad
deriving Repr, DecidableEq, Inhabited

/-- `ast.Include` after path resolution. -/
structure Inc where
  raw : String
  rng : Rng
  tgt : Target
deriving Repr, DecidableEq, Inhabited

/-- A file as the loader sees it: `os.Stat` size and `parser.Parse` of its content. -/
structure File where
  size : Nat
  ver : Nat
  incs : List Inc
  perrs : List Pos
deriving Repr, DecidableEq, Inhabited

abbrev FS := Path → Option File

structure Limits where
  maxSize : Nat
  maxDepth : Nat
deriving Repr, DecidableEq, Inhabited

/-- Which of the three repairs are present (false = behaviour of the pinned tree). -/
structure Mode where
  /-- fix-include-1-diamond: `visited` tells "being included" from "already loaded" -/
  stack : Bool
  /-- fix-include-2-depth: the limit bounds nesting and is reported on the directive -/
  depth : Bool
  /-- fix-include-3-cache-descent: a cache hit still follows the cached file's includes -/
  descend : Bool
deriving Repr, DecidableEq, Inhabited

def Mode.pinned : Mode := ⟨false, false, false⟩
def Mode.repaired : Mode := ⟨true, true, true⟩

inductive Kind where
  | notFound | cycle | depth | parse | tooLarge | traversal | globNoMatch | globBad
deriving Repr, DecidableEq, Inhabited

/-- `LoadError`: `Kind` (the depth error has Go kind `ErrorCycleDetected`; it is told apart by
    its message), `Path` (a resolved path `path`, or for glob and traversal errors the
    directive text `raw`), `Range`, and for cycles the including file named in the message. -/
structure Err where
  kind : Kind
  path : Path
  raw : String
  rng : Rng
  base : Option Path
deriving Repr, DecidableEq, Inhabited

abbrev Cache := List (Path × File)

def Cache.get (c : Cache) (p : Path) : Option File := (c.find? (·.1 == p)).map (·.2)
def Cache.set (c : Cache) (p : Path) (f : File) : Cache := (p, f) :: c.filter (·.1 != p)
def Cache.del (c : Cache) (p : Path) : Cache := c.filter (·.1 != p)

/-- `*ResolvedJournal` (`Errors` is never filled by the loader). -/
structure Res where
  primary : File
  files : Cache
  order : List Path
deriving Repr, DecidableEq, Inhabited

/-- What is shared between all calls of one load: the keys of `visited`, the loader's cache. -/
structure St where
  seen : List Path
  cache : Cache
deriving Repr, DecidableEq, Inhabited

/-- One iteration of the loops in `loadWithContent`: either an error that is appended on the
    spot or a call of `loadSingleInclude`. -/
inductive Item where
  | err (e : Err)
  | tgt (rng : Rng) (p : Path)
deriving Repr, DecidableEq, Inhabited

/-- The iterations caused by one directive of file `path` (`expandGlob` removes the including
    file from the matches and fails when nothing is left). -/
def itemsOf (fs : FS) (path : Path) (i : Inc) : List Item :=
  match i.tgt with
  | .file p => [.tgt i.rng p]
  | .traversal => [.err ⟨.traversal, 0, i.raw, i.rng, none⟩]
  | .globBad => [.err ⟨.globBad, 0, i.raw, i.rng, none⟩]
  | .glob ms =>
    let ms' := ms.filter (fun q => (fs q).isSome && q != path)
    if ms'.isEmpty then [.err ⟨.globNoMatch, 0, i.raw, i.rng, none⟩] else ms'.map (.tgt i.rng)

def items (fs : FS) (path : Path) (f : File) : List Item := f.incs.flatMap (itemsOf fs path)

/-- Accumulator of the loops: the result under construction, errors so far, shared state. -/
structure Acc where
  res : Res
  errs : List Err
  st : St
deriving Repr, DecidableEq, Inhabited

/-- result of `loadWithContent`: `(*ResolvedJournal, []LoadError)` and the shared state -/
abbrev LoadOut := Option Res × List Err × St

def Acc.addErr (a : Acc) (e : Err) : Acc := { a with errs := a.errs ++ [e] }

/-- `result.Files[p] = f; result.FileOrder = append(…, p); maps.Copy(result.Files, sub.Files);
    result.FileOrder = append(…, sub.FileOrder...)`. -/
def Res.merge (r : Res) (p : Path) (f : File) (sub : Res) : Res :=
  { r with files := sub.files.foldl (fun c kv => c.set kv.1 kv.2) (r.files.set p f),
           order := r.order ++ p :: sub.order }

section
variable (fs : FS) (lim : Limits) (m : Mode)

/-- The part of `loadSingleInclude` after the file `f` at `p` has been obtained (from disk or,
    with `m.descend`, from the cache): depth test (repaired), nested load, merge. -/
def descend (rec : Path → File → List Path → Nat → St → Option LoadOut)
    (rng : Rng) (p : Path) (f : File) (stk : List Path) (depth : Nat) (a : Acc) : Option Acc :=
  if m.depth && depth + 1 ≥ lim.maxDepth then
    some (a.addErr ⟨.depth, p, "", rng, none⟩)
  else
    match rec p f stk (depth + 1) a.st with
    | none => none
    | some (none, es, st') => some { a with errs := a.errs ++ es, st := st' }
    | some (some sub, es, st') =>
      let st'' := if m.descend then st' else { st' with cache := st'.cache.set p sub.primary }
      some { res := a.res.merge p sub.primary sub, errs := a.errs ++ es, st := st'' }

/-- `loadSingleInclude(basePath, includePath, incRange, visited, depth, result)`.
    `stk` is the include stack (`base` first): the keys of `visited` whose value is `true`
    in the repaired code. -/
def single (rec : Path → File → List Path → Nat → St → Option LoadOut)
    (base : Path) (rng : Rng) (p : Path) (stk : List Path) (depth : Nat) (a : Acc) : Option Acc :=
  let cyc : Err := ⟨.cycle, p, "", rng, some base⟩
  if m.stack && stk.contains p then some (a.addErr cyc)
  else if m.stack && a.st.seen.contains p then some a
  else if !m.stack && a.st.seen.contains p then some (a.addErr cyc)
  else
    match a.st.cache.get p with
    | some cf =>
      if m.descend then descend lim m rec rng p cf stk depth a
      else some { a with res := { a.res with files := a.res.files.set p cf, order := a.res.order ++ [p] } }
    | none =>
      match fs p with
      | none => some (a.addErr ⟨.notFound, p, "", rng, none⟩)
      | some f =>
        if f.size > lim.maxSize then some (a.addErr ⟨.tooLarge, p, "", rng, none⟩)
        else
          let a' := if m.descend then { a with st := { a.st with cache := a.st.cache.set p f } } else a
          descend lim m rec rng p f stk depth a'

/-- The loops over `journal.Includes` and over the glob matches, flattened. -/
def runItems (rec : Path → File → List Path → Nat → St → Option LoadOut)
    (base : Path) (stk : List Path) (depth : Nat) : List Item → Acc → Option Acc
  | [], a => some a
  | .err e :: rest, a => runItems rec base stk depth rest (a.addErr e)
  | .tgt rng p :: rest, a =>
    match single fs lim m rec base rng p stk depth a with
    | none => none
    | some a' => runItems rec base stk depth rest a'

def parseErr (path : Path) (p : Pos) : Err := ⟨.parse, path, "", ⟨p, p⟩, none⟩

/-- `loadWithContent(path, content, visited, depth)` where `file` is the parse of `content`
    and `stk` the include stack above `path`.  `none` = out of fuel. -/
def loadF : Nat → Path → File → List Path → Nat → St → Option LoadOut
  | 0, _, _, _, _, _ => none
  | fuel + 1, path, file, stk, depth, st =>
    if !m.depth && st.seen.length ≥ lim.maxDepth then
      some (none, [⟨.depth, path, "", Rng.zero, none⟩], st)
    else
      let a0 : Acc := ⟨⟨file, [], []⟩, file.perrs.map (parseErr path), { st with seen := path :: st.seen }⟩
      match runItems fs lim m (loadF fuel) path (path :: stk) depth (items fs path file) a0 with
      | none => none
      | some a => some (some a.res, a.errs, a.st)

/-- Fuel handed to `loadF` by the entry points. -/
def fuelFor : Nat := lim.maxDepth + 1

/-- Result of an entry point: `(*ResolvedJournal, []LoadError)` and the loader's cache afterwards. -/
structure Result where
  res : Option Res
  errs : List Err
  cache : Cache
deriving Repr, DecidableEq, Inhabited

/-- `LoadFromContent(root, content)`, `file` = size and parse of `content`. -/
def loadFromContent (cache : Cache) (root : Path) (file : File) : Result :=
  if file.size > lim.maxSize then ⟨none, [⟨.tooLarge, root, "", Rng.zero, none⟩], cache⟩
  else
    match loadF fs lim m (fuelFor lim) root file [] 0 ⟨[], cache⟩ with
    | none => ⟨none, [], cache⟩
    | some (r, es, st) => ⟨r, es, st.cache⟩

/-- `Load(root)`. -/
def load (cache : Cache) (root : Path) : Result :=
  match fs root with
  | none => ⟨none, [⟨.notFound, root, "", Rng.zero, none⟩], cache⟩
  | some f => loadFromContent fs lim m cache root f

end

/-! ### Histories on one loader (C11) -/

inductive Op where
  | load (root : Path)
  | loadContent (root : Path) (file : File)
  /-- the file at `p` changes on disk (or is removed) and `InvalidateFile(p)` is called -/
  | edit (p : Path) (f : Option File)
  /-- the file changes on disk and nobody tells the loader (outside C11's histories) -/
  | editSilently (p : Path) (f : Option File)
  | clear
deriving Repr, DecidableEq, Inhabited

def FS.set (fs : FS) (p : Path) (f : Option File) : FS := fun q => if q = p then f else fs q

/-- world = files on disk + loader cache -/
structure World where
  fs : FS
  cache : Cache

def stepOp (lim : Limits) (m : Mode) (w : World) : Op → World × Option Result
  | .load r => let x := load w.fs lim m w.cache r; (⟨w.fs, x.cache⟩, some x)
  | .loadContent r f => let x := loadFromContent w.fs lim m w.cache r f; (⟨w.fs, x.cache⟩, some x)
  | .edit p f => (⟨w.fs.set p f, w.cache.del p⟩, none)
  | .editSilently p f => (⟨w.fs.set p f, w.cache⟩, none)
  | .clear => (⟨w.fs, []⟩, none)

end HL.Loader
