/-
  Model of the hover request (property C20, server-level part).

  Go code transcribed here:
    internal/server/hover.go            Hover, positionInRange, findElementAtPosition,
                                        getPayeeOrDescription, (*columnMapper).payeeRange (the walk over the
                                        header line: HL/Model/PayeeRange.lean), estimatePayeeRange, findTagAtPosition,
                                        buildHoverContentWithTransactions and the six builders,
                                        countPostingsForAccountInTransactions, forEachTag,
                                        countTagUsage, countTagValueUsage, collectTagValues,
                                        (the range: columnMapper.toProtocol, the cursor:
                                        columnMapper.runePosition — internal/server/position.go)
    internal/server/server.go           resolvedForDocument, workspaceResolvedFor (which resolved
                                        journal Hover uses)
    internal/workspace/workspace.go     Workspace.Contains
    internal/include/types.go           ResolvedJournal.AllTransactions
    internal/analyzer/account_balance.go CalculateAccountBalances(FromTransactions)
    internal/lsputil/mapper.go          RuneOffsetToUTF16, UTF16OffsetToRuneOffset (on the lines of
                                        the document, valid UTF-8: `List Char` as in HL/Model/Text.lean);
                                        utf8.RuneCountInString (on Go strings = byte sequences)
    shopspring/decimal                  the zero Decimal, Add (RescalePair), String — only as far as
                                        Hover uses them; the full library model is HL/Model/Dec.lean
                                        (owned by the C20 "balances" part)

  Inputs are syntax trees (the parser is modelled elsewhere): the journal parsed from the
  requesting document, the cursor, the workspace's resolved journal (nil when there is no
  workspace or it has no root), the per-URI resolved journal stored by publishDiagnostics
  (upstream now drops it on every didChange and stores it only for the current version, so it is
  nil from a change until that change's diagnostics task has resolved the includes: in that
  window, without a workspace, Hover aggregates over the document alone).

  Facts read off the code and used below:
  * `HoverCommodity` is declared but no code path produces it: hovering the commodity of an amount
    gives the amount hover (the amount's range covers its commodity).
  * `Transaction.Tags` is never filled by the parser; `forEachTag` and `findElementAtPosition`
    read `Transaction.Comments[*].Tags` and `Posting.Tags` only.
  * `CalculateAccountBalances(journal)` and `CalculateAccountBalancesFromTransactions(journal.Transactions)`
    are the same loop, so both branches of Hover compute `accountBalances` of the chosen list.
  * `balances[account]` is created only together with its first commodity entry, so
    `ok && len(commodityBalances) > 0` is just `ok`; the nested map is modelled as one association
    list keyed by (account, commodity).  `sort.Strings` makes the output independent of map order.
-/
import HL.Model.Ast
import HL.Model.Text
import HL.Model.PayeeRange
namespace HL.Hover
open HL HL.Ast

/-! ### shopspring/decimal, as far as Hover needs it -/

/-- The zero value `decimal.Decimal{}` (nil big.Int read as 0, exponent 0). -/
def decZero : Dec := ⟨0, 0⟩

/-- `Decimal.Add`: `RescalePair` brings both operands to the smaller exponent, then the
    coefficients are added. -/
def decAdd (a b : Dec) : Dec :=
  if a.exp < b.exp then ⟨a.coef + b.coef * (10 : Int) ^ (b.exp - a.exp).toNat, a.exp⟩
  else if b.exp < a.exp then ⟨a.coef * (10 : Int) ^ (a.exp - b.exp).toNat + b.coef, b.exp⟩
  else ⟨a.coef + b.coef, a.exp⟩

/-- The exact value denoted by a decimal. -/
def decToRat (d : Dec) : Rat := (d.coef : Rat) * (10 : Rat) ^ d.exp

/-- Decimal digits of a natural number, most significant first (`big.Int.String` of a
    non-negative value); structural on fuel so that the kernel can evaluate it. -/
def digitsF : Nat → Nat → List UInt8 → List UInt8
  | 0, _, acc => acc
  | f + 1, n, acc =>
    let acc' := UInt8.ofNat (48 + n % 10) :: acc
    if n / 10 = 0 then acc' else digitsF f (n / 10) acc'

def natStr (n : Nat) : Bytes := digitsF (n + 1) n []

/-- Drop trailing `'0'` bytes. -/
def trimZeros (l : Bytes) : Bytes :=
  (l.reverse.dropWhile (· == 48)).reverse

/-- `Decimal.String()` (= `string(true)`). -/
def decStr (d : Dec) : Bytes :=
  if d.exp ≥ 0 then
    let v := d.coef * (10 : Int) ^ d.exp.toNat
    (if v < 0 then [45] else []) ++ natStr v.natAbs
  else
    let str := natStr d.coef.natAbs
    let k := (-d.exp).toNat
    let intPart := if str.length > k then str.take (str.length - k) else [48]
    let frac := if str.length > k then str.drop (str.length - k)
                else List.replicate (k - str.length) 48 ++ str
    let frac := trimZeros frac
    let number := if frac.isEmpty then intPart else intPart ++ [46] ++ frac
    if d.coef < 0 then 45 :: number else number

/-! ### lsputil.UTF16Len on a Go string

  `for _, r := range s` decodes UTF-8; an invalid byte yields U+FFFD and advances by one.
  `utf16w` returns (UTF-16 units, bytes consumed) of the first rune. -/

def inR (b lo hi : UInt8) : Bool := lo ≤ b && b ≤ hi

def runeStep : Bytes → Nat × Nat
  | [] => (0, 0)
  | b0 :: r =>
    if b0 < 0x80 then (1, 1)
    else if inR b0 0xC2 0xDF then
      match r with
      | b1 :: _ => if inR b1 0x80 0xBF then (1, 2) else (1, 1)
      | _ => (1, 1)
    else if inR b0 0xE0 0xEF then
      match r with
      | b1 :: b2 :: _ =>
        let lo : UInt8 := if b0 == 0xE0 then 0xA0 else 0x80
        let hi : UInt8 := if b0 == 0xED then 0x9F else 0xBF
        if inR b1 lo hi && inR b2 0x80 0xBF then (1, 3) else (1, 1)
      | _ => (1, 1)
    else if inR b0 0xF0 0xF4 then
      match r with
      | b1 :: b2 :: b3 :: _ =>
        let lo : UInt8 := if b0 == 0xF0 then 0x90 else 0x80
        let hi : UInt8 := if b0 == 0xF4 then 0x8F else 0xBF
        if inR b1 lo hi && inR b2 0x80 0xBF && inR b3 0x80 0xBF then (2, 4) else (1, 1)
      | _ => (1, 1)
    else (1, 1)

def u16lenF : Nat → Bytes → Nat
  | 0, _ => 0
  | f + 1, s =>
    match s with
    | [] => 0
    | _ => let (u, w) := runeStep s; u + u16lenF f (s.drop w)

/-- `lsputil.UTF16Len`. -/
def u16len (s : Bytes) : Nat := u16lenF s.length s

def runeLenF : Nat → Bytes → Nat
  | 0, _ => 0
  | f + 1, s =>
    match s with
    | [] => 0
    | _ => 1 + runeLenF f (s.drop (runeStep s).2)

/-- `utf8.RuneCountInString`. -/
def runeLen (s : Bytes) : Nat := runeLenF s.length s

/-! ### ResolvedJournal -/

/-- `include.ResolvedJournal`: `Files` is a Go map (association list, first match wins — keys
    are unique in every value the harness produces), `FileOrder` a slice of paths. -/
structure Resolved where
  primary : Option Journal
  files : List (Bytes × Journal)
  order : List Bytes
deriving Repr, Inhabited

def lookupFile (files : List (Bytes × Journal)) (p : Bytes) : Option Journal :=
  (files.find? (fun e => e.1 == p)).map (·.2)

def fileTxs (files : List (Bytes × Journal)) (p : Bytes) : List Transaction :=
  match lookupFile files p with
  | some j => j.transactions
  | none => []

/-- `ResolvedJournal.AllTransactions`: the primary's transactions, then for every entry of
    `FileOrder`, in order, the transactions of that file if it is in `Files`.  An entry that is
    listed twice is visited twice. -/
def allTransactions (r : Resolved) : List Transaction :=
  (match r.primary with | some j => j.transactions | none => []) ++
    r.order.flatMap (fileTxs r.files)

/-- What a handler can see of the workspace: its resolved journal (`Workspace.GetResolved`, not
    nil) and the path of its root journal (`Workspace.RootJournalPath`). -/
structure WsView where
  resolved : Resolved
  root : Bytes
deriving Repr, Inhabited

/-- `Workspace.Contains`: the path is the root journal or a key of `resolved.Files`. -/
def WsView.contains (v : WsView) (path : Bytes) : Bool :=
  path != [] && (path == v.root || (lookupFile v.resolved.files path).isSome)

/-- `Server.workspaceResolvedFor` (fix-orphan-journal-own-tree.diff): the workspace's resolved
    journal when the requesting document is the root journal or a file of its include tree;
    nil for a journal outside that tree, and when there is no workspace or it has no resolved
    journal (`v = none`). -/
def workspaceResolvedFor (v : Option WsView) (path : Bytes) : Option Resolved :=
  match v with
  | some v => if v.contains path then some v.resolved else none
  | none => none

/-- `Server.resolvedForDocument`: `ws` is what `workspaceResolvedFor` returned; when that is nil,
    whatever publishDiagnostics stored for this URI.  (Completion and inline completion keep
    `getWorkspaceResolved`: the workspace's journal whenever there is one — modelled in C16.) -/
def workspaceResolved (ws : Option Resolved) (perUri : Option Resolved) : Option Resolved :=
  match ws with
  | some r => some r
  | none => perUri

/-- The transaction list Hover aggregates over. -/
def hoverTransactions (ws perUri : Option Resolved) (doc : Journal) : List Transaction :=
  match workspaceResolved ws perUri with
  | some r => allTransactions r
  | none => doc.transactions

/-! ### Element under the cursor -/

structure LspPos where
  line : Nat
  char : Nat
deriving Repr, DecidableEq, Inhabited

/-- `positionInRange`: 1-based comparison, both ends inclusive; the cursor's character counts
    runes, like the columns of the tree. -/
def positionInRange (p : LspPos) (r : Rng) : Bool :=
  let line := p.line + 1
  let col := p.char + 1
  if line < r.start.line || line > r.stop.line then false
  else if line == r.start.line && col < r.start.col then false
  else if line == r.stop.line && col > r.stop.col then false
  else true

inductive Element where
  | date (rng : Rng) (tx : Transaction)
  | payee (rng : Rng) (payee : Bytes) (tx : Transaction)
  | tag (rng : Rng) (name : Bytes)
  | tagValue (rng : Rng) (name value : Bytes)
  | account (rng : Rng) (account : Account)
  | amount (rng : Rng) (amount : Amount) (cost : Option Cost)
deriving Repr, Inhabited

def Element.rng : Element → Rng
  | .date r _ | .payee r _ _ | .tag r _ | .tagValue r _ _ | .account r _ | .amount r _ _ => r

/-- `getPayeeOrDescription`. -/
def payeeOrDescription (tx : Transaction) : Bytes :=
  if tx.payee != [] then tx.payee else tx.description

/-- `estimatePayeeRange`: one column after the date, two more when a status mark is present (the
    whole answer of the tree as pinned; now the fallback when the mapper has no text for the line). -/
def estimatePayeeRange (tx : Transaction) (payee : Bytes) : Rng :=
  let startCol := tx.date.range.stop.col + 1 + (if tx.status != .none then 2 else 0)
  ⟨⟨tx.date.range.start.line, startCol, 0⟩, ⟨tx.date.range.start.line, startCol + runeLen payee, 0⟩⟩

/-- `(*columnMapper).payeeRange` (repo_patches/fix-payee-range.diff): the description is looked
    up on the header line of the document (`lns`: the lines of the mapper); the payee is a
    trimmed prefix of the description.  Without that line, or when the line ends before a
    description: the estimate. -/
def payeeRange (lns : List HL.Text.Txt) (tx : Transaction) (payee : Bytes) : Rng :=
  match HL.PayeeRange.payeeStart lns tx.date.range.start.line tx.date.range.stop.col with
  | some col => ⟨⟨tx.date.range.start.line, col, 0⟩, ⟨tx.date.range.start.line, col + runeLen payee, 0⟩⟩
  | none => estimatePayeeRange tx payee

/-- The element reported for a tag whose range contains the cursor: the name part up to and
    including the colon column; after it the value, whose range is measured back from the end
    of the tag. -/
def tagElement (t : Tag) (p : LspPos) : Element :=
  if p.char + 1 ≤ t.range.start.col + runeLen t.name then
    .tag ⟨t.range.start, ⟨t.range.start.line, t.range.start.col + runeLen t.name,
                          t.range.start.off + t.name.length⟩⟩ t.name
  else
    .tagValue ⟨⟨t.range.stop.line, t.range.stop.col - runeLen t.value,
                t.range.stop.off - t.value.length⟩, t.range.stop⟩ t.name t.value

/-- `findTagAtPosition`. -/
def findTagAtPosition (tags : List Tag) (p : LspPos) : Option Element :=
  match tags with
  | [] => none
  | t :: ts =>
    if positionInRange p t.range then some (tagElement t p) else findTagAtPosition ts p

/-- The loop over `tx.Comments`. -/
def findInComments (cs : List Comment) (p : LspPos) : Option Element :=
  match cs with
  | [] => none
  | c :: cs => match findTagAtPosition c.tags p with
    | some e => some e
    | none => findInComments cs p

/-- `p.Amount != nil && positionInRange(pos, p.Amount.Range)`. -/
def amountElement (po : Posting) (p : LspPos) : Option Element :=
  match po.amount with
  | some a => if positionInRange p a.range then some (.amount a.range a po.cost) else none
  | none => none

/-- The loop over `tx.Postings`: account, then amount, then the posting's tags. -/
def findInPostings (ps : List Posting) (p : LspPos) : Option Element :=
  match ps with
  | [] => none
  | po :: ps =>
    if positionInRange p po.account.range then some (.account po.account.range po.account)
    else
      match amountElement po p with
      | some e => some e
      | none =>
        match findTagAtPosition po.tags p with
        | some e => some e
        | none => findInPostings ps p

/-- `payee != "" && positionInRange(pos, mapper.payeeRange(tx, payee))`. -/
def payeeElement (lns : List HL.Text.Txt) (tx : Transaction) (p : LspPos) : Option Element :=
  if payeeOrDescription tx != [] then
    if positionInRange p (payeeRange lns tx (payeeOrDescription tx)) then
      some (.payee (payeeRange lns tx (payeeOrDescription tx)) (payeeOrDescription tx) tx)
    else none
  else none

/-- One iteration of the loop of `findElementAtPosition`. -/
def findInTransaction (lns : List HL.Text.Txt) (tx : Transaction) (p : LspPos) : Option Element :=
  if positionInRange p tx.date.range then some (.date tx.date.range tx)
  else
    match payeeElement lns tx p with
    | some e => some e
    | none =>
      match findInComments tx.comments p with
      | some e => some e
      | none => findInPostings tx.postings p

/-- `findElementAtPosition`: first transaction, in document order, with a match (`lns`: the
    mapper of the text the transactions were parsed from). -/
def findElement (lns : List HL.Text.Txt) (txs : List Transaction) (p : LspPos) : Option Element :=
  match txs with
  | [] => none
  | tx :: txs => match findInTransaction lns tx p with
    | some e => some e
    | none => findElement lns txs p

/-! ### Aggregates -/

abbrev Balances := List ((Bytes × Bytes) × Dec)

/-- `balances[acct][com] = balances[acct][com].Add(q)` (a missing entry reads as the zero Decimal). -/
def balAdd (m : Balances) (k : Bytes × Bytes) (q : Dec) : Balances :=
  match m with
  | [] => [(k, decAdd decZero q)]
  | (k', v) :: r => if k' = k then (k', decAdd v q) :: r else (k', v) :: balAdd r k q

def balPostings (m : Balances) (ps : List Posting) : Balances :=
  ps.foldl (fun m p => match p.amount with
    | none => m
    | some a => balAdd m (p.account.name, a.commodity.symbol) a.quantity) m

/-- `CalculateAccountBalancesFromTransactions`: postings without an amount are skipped. -/
def accountBalances (txs : List Transaction) : Balances :=
  txs.foldl (fun m tx => balPostings m tx.postings) []

def balLookup (m : Balances) (k : Bytes × Bytes) : Option Dec :=
  (m.find? (fun e => e.1 == k)).map (·.2)

/-- Byte-wise lexicographic `≤` (Go string comparison, `sort.Strings`). -/
def bytesLe : Bytes → Bytes → Bool
  | [], _ => true
  | _ :: _, [] => false
  | a :: as, b :: bs => if a < b then true else if b < a then false else bytesLe as bs

/-- `sort.Strings` and its use on map keys: a sorted rearrangement.  Insertion sort (structural,
    so that the kernel can evaluate it); the keys sorted here are distinct, so every correct
    sort gives the same list. -/
def insertBy {α} (le : α → α → Bool) (x : α) : List α → List α
  | [] => [x]
  | y :: ys => if le x y then x :: y :: ys else y :: insertBy le x ys

def sortBy {α} (le : α → α → Bool) (l : List α) : List α := l.foldr (insertBy le) []

/-- The "Balance" section: the commodities of `balances[account]`, sorted, with their sums. -/
def accountBalanceLines (m : Balances) (account : Bytes) : List (Bytes × Dec) :=
  sortBy (fun a b => bytesLe a.1 b.1) ((m.filter (fun e => e.1.1 == account)).map (fun e => (e.1.2, e.2)))

/-- `countPostingsForAccountInTransactions`: every posting to the account, with or without an
    amount. -/
def countPostings (account : Bytes) (txs : List Transaction) : Nat :=
  txs.foldl (fun n tx => tx.postings.foldl (fun n p => if p.account.name == account then n + 1 else n) n) 0

/-- The loop in `buildPayeeHoverWithTransactions`. -/
def countPayee (payee : Bytes) (txs : List Transaction) : Nat :=
  txs.foldl (fun n tx => if tx.payee == payee || tx.description == payee then n + 1 else n) 0

/-- `forEachTag`: the tags visited, in order: per transaction its comments' tags, then its
    postings' tags. -/
def allTags (txs : List Transaction) : List Tag :=
  txs.flatMap fun tx => tx.comments.flatMap (·.tags) ++ tx.postings.flatMap (·.tags)

/-- `countTagUsage`. -/
def countTag (name : Bytes) (txs : List Transaction) : Nat :=
  (allTags txs).foldl (fun n t => if t.name == name then n + 1 else n) 0

/-- `countTagValueUsage`. -/
def countTagValue (name value : Bytes) (txs : List Transaction) : Nat :=
  (allTags txs).foldl (fun n t => if t.name == name && t.value == value then n + 1 else n) 0

def insertUniq (v : Bytes) (l : List Bytes) : List Bytes := if l.contains v then l else l ++ [v]

/-- `collectTagValues`: distinct values, sorted. -/
def tagValues (name : Bytes) (txs : List Transaction) : List Bytes :=
  sortBy bytesLe ((allTags txs).foldl (fun s t => if t.name == name then insertUniq t.value s else s) [])

/-! ### Hover -/

/-- The figures (and identifying names) in the markdown the six builders produce. -/
inductive Figures where
  | account (name : Bytes) (balance : List (Bytes × Dec)) (postings : Nat)
  | amount (quantity : Dec) (commodity : Bytes) (cost : Option (Bool × Dec × Bytes))
  | payee (name : Bytes) (transactions : Nat)
  | date (year month day : Int) (payee : Bytes) (postings : Nat)
  | tag (name : Bytes) (usage : Nat) (values : List Bytes)
  | tagValue (name value : Bytes) (usage : Nat)
deriving Repr, Inhabited, DecidableEq

/-- `buildHoverContentWithTransactions`. -/
def buildFigures (e : Element) (balances : Balances) (txs : List Transaction) : Figures :=
  match e with
  | .account _ a => .account a.name (accountBalanceLines balances a.name) (countPostings a.name txs)
  | .amount _ a c => .amount a.quantity a.commodity.symbol
      (c.map fun c => (c.isTotal, c.amount.quantity, c.amount.commodity.symbol))
  | .payee _ p _ => .payee p (countPayee p txs)
  | .date _ tx => .date tx.date.year tx.date.month tx.date.day (payeeOrDescription tx) tx.postings.length
  | .tag _ n => .tag n (countTag n txs) (tagValues n txs)
  | .tagValue _ n v => .tagValue n v (countTagValue n v txs)

/-- `uint32(x - 1)` of an `int`: wraps for `x ≤ 0`. -/
def toU32 (x : Nat) : Nat := if x = 0 then 4294967295 else (x - 1) % 4294967296

/-- `columnMapper.lineColumn`: the character is the UTF-16 length of the first `col − 1` runes of
    the line; without the line the column is passed on.  `lns` = the lines of the document. -/
def convChar (lns : List HL.Text.Txt) (line col : Nat) : Nat :=
  if line = 0 then toU32 col else
  match lns[line - 1]? with
  | some ln => HL.Text.u16len (ln.take (col - 1)) % 4294967296
  | none => toU32 col

/-- `columnMapper.runePosition`: the cursor with its character counted in runes. -/
def runePos (lns : List HL.Text.Txt) (p : LspPos) : LspPos :=
  match lns[p.line]? with
  | some ln => ⟨p.line, HL.Text.takeU16 ln p.char⟩
  | none => p

structure HoverResult where
  figures : Figures
  range : Nat × Nat × Nat × Nat
deriving Repr, Inhabited, DecidableEq

/-- `Server.Hover` after the cursor was converted: `p` counts runes.  `doc` is `parser.Parse` of
    the requesting document, `lns` its lines. -/
def hoverR (ws perUri : Option Resolved) (doc : Journal) (lns : List HL.Text.Txt) (p : LspPos) :
    Option HoverResult :=
  match findElement lns doc.transactions p with
  | none => none
  | some e =>
    let txs := hoverTransactions ws perUri doc
    let r := e.rng
    some ⟨buildFigures e (accountBalances txs) txs,
          (toU32 r.start.line, convChar lns r.start.line r.start.col,
           toU32 r.stop.line, convChar lns r.stop.line r.stop.col)⟩

/-- `Server.Hover` once the document is found. -/
def hover (ws perUri : Option Resolved) (doc : Journal) (lns : List HL.Text.Txt) (p : LspPos) :
    Option HoverResult :=
  hoverR ws perUri doc lns (runePos lns p)

/-- `Server.Hover` for the document at `path` (`uriToPath` of the request's URI), given what the
    workspace holds.  The pinned server passed the workspace's resolved journal to `hover`
    whatever the path (`pinnedHoverAt`). -/
def hoverAt (v : Option WsView) (perUri : Option Resolved) (path : Bytes) (doc : Journal)
    (lns : List HL.Text.Txt) (p : LspPos) : Option HoverResult :=
  hover (workspaceResolvedFor v path) perUri doc lns p

/-- `Server.Hover` before fix-orphan-journal-own-tree.diff. -/
def pinnedHoverAt (v : Option WsView) (perUri : Option Resolved) (_path : Bytes) (doc : Journal)
    (lns : List HL.Text.Txt) (p : LspPos) : Option HoverResult :=
  hover (v.map (·.resolved)) perUri doc lns p

end HL.Hover
