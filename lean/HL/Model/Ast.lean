/-
  Shared data types: byte strings, positions, tokens (internal/parser/token.go) and the
  syntax tree (internal/ast/types.go).  Go strings are byte sequences: `Bytes`.
-/
namespace HL

abbrev Bytes := List UInt8

def Bytes.ofString (s : String) : Bytes := s.toUTF8.toList
/-- ASCII literal helper for models and specs (`b!"account"` would need a macro; keep it a function). -/
def bs (s : String) : Bytes := s.toUTF8.toList

/-- `shopspring/decimal.Decimal`: `coef * 10^exp`. -/
structure Dec where
  coef : Int
  exp : Int
deriving Repr, DecidableEq, Inhabited, BEq

/-- `parser.Position` / `ast.Position`: 1-based line, 1-based column in runes, byte offset. -/
structure Pos where
  line : Nat
  col : Nat
  off : Nat
deriving Repr, DecidableEq, Inhabited, BEq

structure Rng where
  start : Pos
  stop : Pos
deriving Repr, DecidableEq, Inhabited, BEq

def Pos.zero : Pos := ⟨0, 0, 0⟩
def Rng.zero : Rng := ⟨Pos.zero, Pos.zero⟩

/-- `parser.TokenType`, in declaration order (the numeric value is the constructor index). -/
inductive TokType where
  | eof | newline | indent | date | status | code | text | account | number | commodity
  | comment | directive | tag | at | atAt | equals | doubleEquals | lparen | rparen
  | lbracket | rbracket | pipe | colon | semicolon | sign
deriving Repr, DecidableEq, Inhabited, BEq

def TokType.toCode : TokType → Nat
  | .eof => 0 | .newline => 1 | .indent => 2 | .date => 3 | .status => 4 | .code => 5
  | .text => 6 | .account => 7 | .number => 8 | .commodity => 9 | .comment => 10
  | .directive => 11 | .tag => 12 | .at => 13 | .atAt => 14 | .equals => 15
  | .doubleEquals => 16 | .lparen => 17 | .rparen => 18 | .lbracket => 19 | .rbracket => 20
  | .pipe => 21 | .colon => 22 | .semicolon => 23 | .sign => 24

def TokType.ofCode : Nat → TokType
  | 0 => .eof | 1 => .newline | 2 => .indent | 3 => .date | 4 => .status | 5 => .code
  | 6 => .text | 7 => .account | 8 => .number | 9 => .commodity | 10 => .comment
  | 11 => .directive | 12 => .tag | 13 => .at | 14 => .atAt | 15 => .equals
  | 16 => .doubleEquals | 17 => .lparen | 18 => .rparen | 19 => .lbracket | 20 => .rbracket
  | 21 => .pipe | 22 => .colon | 23 => .semicolon | _ => .sign

/-- `TokenType.String()`. -/
def TokType.name : TokType → String
  | .eof => "EOF" | .newline => "Newline" | .indent => "Indent" | .date => "Date"
  | .status => "Status" | .code => "Code" | .text => "Text" | .account => "Account"
  | .number => "Number" | .commodity => "Commodity" | .comment => "Comment"
  | .directive => "Directive" | .tag => "Tag" | .at => "At" | .atAt => "AtAt"
  | .equals => "Equals" | .doubleEquals => "DoubleEquals" | .lparen => "LParen"
  | .rparen => "RParen" | .lbracket => "LBracket" | .rbracket => "RBracket" | .pipe => "Pipe"
  | .colon => "Colon" | .semicolon => "Semicolon" | .sign => "Sign"

structure Token where
  ty : TokType
  val : Bytes
  pos : Pos
  stop : Pos      -- `Token.End`
deriving Repr, DecidableEq, Inhabited, BEq

namespace Ast

inductive Status where | none | pending | cleared
deriving Repr, DecidableEq, Inhabited, BEq

inductive Virtual where | none | balanced | unbalanced
deriving Repr, DecidableEq, Inhabited, BEq

inductive Side where | left | right
deriving Repr, DecidableEq, Inhabited, BEq

structure Tag where
  name : Bytes
  value : Bytes
  range : Rng
deriving Repr, DecidableEq, Inhabited, BEq

structure Comment where
  text : Bytes
  tags : List Tag
  range : Rng
deriving Repr, DecidableEq, Inhabited, BEq

structure Date where
  year : Int
  month : Int
  day : Int
  range : Rng
deriving Repr, DecidableEq, Inhabited, BEq

structure Account where
  name : Bytes
  range : Rng
deriving Repr, DecidableEq, Inhabited, BEq

structure Commodity where
  symbol : Bytes
  side : Side
  range : Rng
deriving Repr, DecidableEq, Inhabited, BEq

structure Amount where
  quantity : Dec
  raw : Bytes                 -- RawQuantity
  commodity : Commodity
  signBeforeCommodity : Bool
  range : Rng
deriving Repr, DecidableEq, Inhabited, BEq

structure Cost where
  amount : Amount
  isTotal : Bool
  range : Rng
deriving Repr, DecidableEq, Inhabited, BEq

structure Assertion where
  amount : Amount
  isStrict : Bool
  isInclusive : Bool
  range : Rng
deriving Repr, DecidableEq, Inhabited, BEq

structure Posting where
  status : Status
  account : Account
  amount : Option Amount
  assertion : Option Assertion
  cost : Option Cost
  comment : Bytes
  tags : List Tag
  virt : Virtual
  range : Rng
deriving Repr, DecidableEq, Inhabited, BEq

structure Transaction where
  date : Date
  date2 : Option Date
  status : Status
  code : Bytes
  description : Bytes
  payee : Bytes
  note : Bytes
  postings : List Posting
  tags : List Tag
  comments : List Comment
  range : Rng
deriving Repr, DecidableEq, Inhabited, BEq

structure Include where
  path : Bytes
  range : Rng
deriving Repr, DecidableEq, Inhabited, BEq

/-- Go's `map[string]string` for sub-directives: association list, last write wins on lookup
    is modelled by replacing on insert (keys unique). -/
abbrev Subdirs := List (Bytes × Bytes)

inductive Directive where
  | account (account : Account) (tags : List Tag) (comment : Bytes) (subdirs : Subdirs) (range : Rng)
  | commodity (commodity : Commodity) (format : Bytes) (note : Bytes) (subdirs : Subdirs) (range : Rng)
  | price (date : Date) (commodity : Commodity) (price : Amount) (range : Rng)
  | year (year : Int) (range : Rng)
  | defaultCommodity (symbol : Bytes) (format : Bytes) (range : Rng)
deriving Repr, DecidableEq, Inhabited, BEq

def Directive.range : Directive → Rng
  | .account _ _ _ _ r => r
  | .commodity _ _ _ _ r => r
  | .price _ _ _ r => r
  | .year _ r => r
  | .defaultCommodity _ _ r => r

structure Journal where
  transactions : List Transaction
  directives : List Directive
  comments : List Comment
  includes : List Include
deriving Repr, DecidableEq, Inhabited, BEq

structure ParseError where
  msg : Bytes
  pos : Pos
deriving Repr, DecidableEq, Inhabited, BEq

end Ast
end HL
