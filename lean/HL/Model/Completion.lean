/-
  Model of internal/server/completion.go (Completion, getCountsForContext,
  rankCompletionItemsByScore, determineCompletionContext, determinePostingContext,
  findDoublespace, findAmountEnd, parsePosting, determineTagContext,
  generateCompletionItems (labels only), extractAccountPrefix, getAccountsForPrefix,
  extractCurrentTagName, calculateTextEditRange, findCommodityStart, extractQueryText,
  accountQueryStart, payeeQueryStart, tagNameQueryStart,
  fuzzyMatchScore, fuzzyMatchScoreBySegments, filterAndScoreFuzzyMatch, filterByPrefix),
  of the lookup side of internal/analyzer/indexer.go (AccountIndex.All) and of
  the completion.maxResults normalisation in internal/server/settings.go.

  Scope.  The symbol table (names with usage counts, the by-prefix index) is computed by the
  analyzer from parsed journals and is an INPUT here (`Table`); the harness extracts it from
  the real analyzer.  The model maps (line text, cursor, trigger, table, settings) to the
  completion context, the query, the edit range and the ordered, truncated items.
  Date items depend on `time.Now()` and are not modelled (the context is).

  Strings are `List Char` (see HL/Model/Text.lean): documents are valid UTF-8, every index the
  Go code computes is a rune boundary, and a Go byte offset `b` into the line is represented by
  the char index `k` with `u8len (line.take k) = b`; differences and comparisons of offsets
  into the same string are preserved by that correspondence.  Every delimiter the code
  searches for is ASCII.  `strings.ToLower` is rune-wise (`unicode.ToLower`), so it is
  `List.map lower` for a parameter `lower : Char → Char`; the theorems hold for every `lower`,
  the driver instantiates it with `HL.Completion.goLower` (ASCII exact plus an explicit table
  for the non-ASCII letters the generators use).

  `sort.SliceStable` is modelled by `rankExec` (a stable insertion sort, see
  `HL.Props.C16.rankExec_stable`); most theorems hold for every sorted permutation
  (`IsRanking`), of which `rankExec` is one.

  The model describes the code WITH the completion repairs (repo_patches/fix-completion-*.diff):
  the edit range and the query are cut at the same place (`accountQueryStart`,
  `payeeQueryStart`, `tagNameQueryStart`, `findCommodityStart` on the text before the cursor);
  status marks, the bracket of a virtual posting and a transaction code are not part of the
  fragment; tag names are filtered by the fragment typed in the comment and replace it; every
  line that starts with a blank or a tab is a posting line; account candidates are narrowed by
  a case-insensitive scan of all accounts (the by-prefix index of the analyzer is no longer
  consulted); a trailing colon of the query is matched by the colon that follows a segment; the
  status mark of a posting is skipped with the indent before the account separator is sought.
  The code before these repairs is kept in HL/Model/CompletionPinned.lean (namespace
  `HL.Completion.Pinned`) for the kernel-checked `pinned_*_counterexample` theorems.
-/
import HL.Model.Text
import HL.Generated.Facts
namespace HL.Completion
open HL.Text

abbrev Str := List Char

inductive Ctx where
  | unknown | account | payee | commodity | tagName | tagValue | date
deriving DecidableEq, Repr, Inhabited

def directiveAccount : Str := "account ".toList
def directiveApplyAccount : Str := "apply account ".toList
def directiveCommodity : Str := "commodity ".toList
def fourBlanks : Str := [' ', ' ', ' ', ' ']

/-! ### `strings` helpers on char lists -/

/-- `strings.HasPrefix(s, p)`. -/
def hasPrefix (s p : Str) : Bool := p.isPrefixOf s

/-- `strings.Index(s, string(c))`. -/
def indexOf (c : Char) : Str → Option Nat
  | [] => none
  | x :: xs => if x = c then some 0 else (indexOf c xs).map (· + 1)

/-- `strings.LastIndexAny` / `strings.LastIndex` for single ASCII chars: last index whose char satisfies `p`. -/
def lastIndexP (p : Char → Bool) : Str → Option Nat
  | [] => none
  | x :: xs => match lastIndexP p xs with
    | some k => some (k + 1)
    | none => if p x then some 0 else none

/-- `unicode.IsSpace`. -/
def isSpace (c : Char) : Bool :=
  let n := c.toNat
  n == 0x20 || (0x09 ≤ n && n ≤ 0x0D) || n == 0x85 || n == 0xA0 || n == 0x1680 ||
  (0x2000 ≤ n && n ≤ 0x200A) || n == 0x2028 || n == 0x2029 || n == 0x202F || n == 0x205F || n == 0x3000

def trimLeftP (p : Char → Bool) (s : Str) : Str := s.dropWhile p
def trimRightP (p : Char → Bool) (s : Str) : Str := (s.reverse.dropWhile p).reverse
/-- `strings.TrimSpace`. -/
def trimSpace (s : Str) : Str := trimRightP isSpace (trimLeftP isSpace s)

def isBlankTab (c : Char) : Bool := c == ' ' || c == '\t'
def isBlank (c : Char) : Bool := c == ' '

/-- `strings.Split(s, string(c))`. -/
def splitOn (c : Char) : Str → List Str
  | [] => [[]]
  | x :: xs =>
    if x = c then [] :: splitOn c xs
    else match splitOn c xs with
      | [] => [[x]]
      | s :: ss => (x :: s) :: ss

/-- `strings.TrimSuffix(s, ":")`. -/
def trimColon (s : Str) : Str := if s.getLast? = some ':' then s.dropLast else s

/-! ### Posting-line anatomy -/

/-- `findDoublespace`. -/
def findDoublespace : Str → Option Nat
  | a :: b :: r => if a = ' ' ∧ b = ' ' then some 0 else (findDoublespace (b :: r)).map (· + 1)
  | _ => none

def isDigit (c : Char) : Bool := '0' ≤ c && c ≤ '9'
def isDigitOrSign (c : Char) : Bool := isDigit c || c == '-' || c == '+'
def isSign (c : Char) : Bool := c == '-' || c == '+'
def isNumChar (c : Char) : Bool := isDigit c || c == '.' || c == ',' || c == '_'

/-- `if i < len(s) && s[i] == ')' { i++ }`. -/
def closeParen : Str → Nat
  | ')' :: _ => 1
  | _ => 0

/-- `findAmountEnd` after the optional `(`: a run that is neither digit/sign nor blank nor `)`,
    signs, number characters, optional `)`. -/
def amountEndFrom (r0 : Str) : Nat :=
  let w := (r0.takeWhile fun c => !isDigitOrSign c && c != ' ' && c != ')').length
  let r1 := r0.drop w
  let g := (r1.takeWhile isSign).length
  let r2 := r1.drop g
  let d := (r2.takeWhile isNumChar).length
  let r3 := r2.drop d
  w + g + d + closeParen r3

/-- `findAmountEnd`. -/
def findAmountEnd (s : Str) : Nat :=
  match s with
  | '(' :: r => 1 + amountEndFrom r
  | _ => amountEndFrom s

structure Parts where
  indent : Nat
  sep : Option Nat
  skip : Nat
  amountEnd : Nat
deriving Repr, DecidableEq

/-- Indent and status mark in front of a posting's account (`strings.TrimLeft(line, " \t*!")`). -/
def isPostingLead (c : Char) : Bool := c == ' ' || c == '\t' || c == '*' || c == '!'

/-- `parsePosting` (the fields the completion code reads). -/
def parsePosting (line : Str) : Parts :=
  let trimmed := trimLeftP isPostingLead line
  let indent := line.length - trimmed.length
  match findDoublespace trimmed with
  | none => ⟨indent, none, 0, 0⟩
  | some k =>
    let afterSep := trimmed.drop k
    let afterAccount := trimLeftP isBlank afterSep
    ⟨indent, some k, afterSep.length - afterAccount.length, findAmountEnd afterAccount⟩

/-- `determinePostingContext` (`col` = char index of the cursor). -/
def determinePostingContext (line : Str) (col : Nat) : Ctx :=
  let p := parsePosting line
  let posInContent : Int := (col : Int) - p.indent
  if posInContent < 0 then .account else
  match p.sep with
  | none => .account
  | some k =>
    if posInContent ≤ k then .account else
    let rel : Int := posInContent - k - p.skip
    if rel ≤ p.amountEnd then .account else .commodity

/-- `determineTagContext`; `.unknown` = "not in a comment". -/
def determineTagContext (line : Str) (col : Nat) : Ctx :=
  match indexOf ';' line with
  | none => .unknown
  | some semi =>
    if col ≤ semi then .unknown else
    let after := line.drop (semi + 1)
    let cin := col - semi - 1
    let cin := if cin > after.length then after.length else cin
    let before := after.take cin
    match lastIndexP (· == ':') before with
    | none => .tagName
    | some lastColon =>
      match lastIndexP (· == ',') before with
      | none => .tagValue
      | some lastComma =>
        if lastComma > lastColon then
          if ':' ∈ trimSpace (before.drop (lastComma + 1)) then .tagValue else .tagName
        else .tagValue

/-- `determineCompletionContext` on the cursor's line (`trig` = `ctx.TriggerCharacter`, `[]` when
    there is no completion context). -/
def determineContext (line : Str) (ch : Nat) (trig : Str) : Ctx :=
  let col := takeU16 line ch
  let t := determineTagContext line col
  if t ≠ .unknown then t else
  if trig = [':'] then .account else
  if trig = ['@'] ∨ trig = ['='] then .commodity else
  if line = [] then .date else
  if hasPrefix line directiveAccount then .account else
  if hasPrefix line directiveCommodity then .commodity else
  if hasPrefix line directiveApplyAccount then .account else
  if hasPrefix line [' '] || hasPrefix line ['\t'] then determinePostingContext line col else
  match line with
  | c :: _ => if isDigit c then .payee else .date
  | [] => .date

/-! ### The symbol table -/

structure Table where
  accounts : List Str
  byPrefix : List (Str × List Str)
  payees : List Str
  commodities : List Str
  tags : List Str
  tagValues : List (Str × List Str)
  accountCounts : List (Str × Nat)
  payeeCounts : List (Str × Nat)
  commodityCounts : List (Str × Nat)
  tagCounts : List (Str × Nat)
deriving Repr, Inhabited

/-- `getCountsForContext` (`none` = nil map). -/
def countsFor (t : Table) : Ctx → Option (List (Str × Nat))
  | .account => some t.accountCounts
  | .payee => some t.payeeCounts
  | .commodity => some t.commodityCounts
  | .tagName => some t.tagCounts
  | _ => none

/-- `counts[label]` with the nil-map guard of the sort comparator. -/
def countOf (counts : Option (List (Str × Nat))) (l : Str) : Nat :=
  match counts with
  | none => 0
  | some m => (m.lookup l).getD 0

/-- `getAccountsForPrefix`: the accounts that start with the typed parent in any letter case;
    all accounts when there is no parent or no such account. -/
def accountsForPrefix (lower : Char → Char) (t : Table) (pre : Str) : List Str :=
  if pre = [] then t.accounts else
  let narrowed := t.accounts.filter fun a => (pre.map lower).isPrefixOf (a.map lower)
  if narrowed = [] then t.accounts else narrowed

/-- `extractCurrentTagName`. -/
def extractCurrentTagName (line : Str) (col : Nat) : Str :=
  match indexOf ';' line with
  | none => []
  | some semi =>
    if col ≤ semi then [] else
    let after := line.drop (semi + 1)
    let cin := col - semi - 1
    let cin := if cin > after.length then after.length else cin
    let before := after.take cin
    match lastIndexP (· == ':') before with
    | none => []
    | some lastColon =>
      let start := match lastIndexP (· == ',') (before.take lastColon) with
        | none => 0
        | some k => k + 1
      trimSpace ((before.take lastColon).drop start)

/-! ### Query and edit range -/

/-- `strings.CutPrefix`. -/
def cutPrefix (s p : Str) : Option Str := if p.isPrefixOf s then some (s.drop p.length) else none

def isPayeeSkip (c : Char) : Bool := c == ' ' || c == '*' || c == '!'

/-- The commodity fragment of a posting prefix `s` (text before the cursor): `(start, text)`. -/
def commodityQuery (before : Str) : Str :=
  let trimmed := trimLeftP isPostingLead before
  match findDoublespace trimmed with
  | none => []
  | some k =>
    let afterAccount := trimLeftP isBlank (trimmed.drop k)
    let e := findAmountEnd afterAccount
    if e ≥ afterAccount.length then [] else trimLeftP isBlank (afterAccount.drop e)

def isAccountSkip (c : Char) : Bool := c == ' ' || c == '\t' || c == '*' || c == '!' || c == '(' || c == '['

/-- `accountQueryStart` on the text before the cursor: where the account name being typed starts
    (char index; the Go function computes `len(beforeCursor) - len(rest)` for a suffix `rest`). -/
def accountQueryStart (before : Str) : Nat :=
  if hasPrefix before directiveAccount then directiveAccount.length
  else if hasPrefix before directiveApplyAccount then directiveApplyAccount.length
  else before.length - (trimLeftP isAccountSkip before).length

/-- The part of `payeeQueryStart` after the status marks: a closed transaction code and the blanks
    behind it are skipped. -/
def skipCode (rest : Str) : Str :=
  match rest with
  | '(' :: _ =>
    match indexOf ')' rest with
    | some e => trimLeftP isBlank (rest.drop (e + 1))
    | none => rest
  | _ => rest

/-- `payeeQueryStart`. -/
def payeeQueryStart (before : Str) : Nat :=
  match indexOf ' ' before with
  | none => before.length
  | some k => before.length - (skipCode (trimLeftP isPayeeSkip (before.drop (k + 1)))).length

/-- Where the comment part that holds the tag name being typed starts: after the semicolon or
    the last comma behind it. -/
def tagPartStart (before : Str) : Nat :=
  let start := match indexOf ';' before with
    | some k => k + 1
    | none => 0
  match lastIndexP (· == ',') before with
  | some c => if c ≥ start then c + 1 else start
  | none => start

/-- `tagNameQueryStart`. -/
def tagNameQueryStart (before : Str) : Nat :=
  before.length - (trimLeftP isBlankTab (before.drop (tagPartStart before))).length

/-- `extractQueryText` on the cursor's line. -/
def extractQuery (c : Ctx) (line : Str) (col : Nat) : Str :=
  let before := line.take col
  match c with
  | .account => before.drop (accountQueryStart before)
  | .payee => before.drop (payeeQueryStart before)
  | .tagName => before.drop (tagNameQueryStart before)
  | .commodity =>
    match cutPrefix before directiveCommodity with
    | some a => a
    | none => commodityQuery before
  | _ => []

/-- `findCommodityStart(line, byteCol)`. -/
def findCommodityStart (line : Str) (col : Nat) : Nat :=
  let p := parsePosting line
  match p.sep with
  | none => col
  | some k =>
    let cs := p.indent + k + p.skip + p.amountEnd
    cs + ((line.drop cs).takeWhile isBlank).length

/-- Start (char index) of the range of `calculateTextEditRange`; `none` = nil range. -/
def editStart (c : Ctx) (line : Str) (col : Nat) : Option Nat :=
  let before := line.take col
  match c with
  | .account => some (accountQueryStart before)
  | .payee => some (payeeQueryStart before)
  | .tagName => some (tagNameQueryStart before)
  | .commodity =>
    if hasPrefix before directiveCommodity then some directiveCommodity.length
    else some (findCommodityStart before col)
  | _ => none

/-- `calculateTextEditRange`: `(start, end)` in UTF-16 units on the cursor's line; the end is the
    request position as sent. -/
def editRange (c : Ctx) (line : Str) (ch : Nat) : Option (Nat × Nat) :=
  (editStart c line (takeU16 line ch)).map fun s => (u16len (line.take s), ch)

/-- `extractAccountPrefix`: the typed fragment up to its last colon. -/
def extractAccountPrefix (line : Str) (col : Nat) : Str :=
  let q := extractQuery .account line col
  match lastIndexP (· == ':') q with
  | none => []
  | some k => q.take (k + 1)

/-- The labels of `generateCompletionItems`, in order (dates excepted). -/
def labelsFor (lower : Char → Char) (t : Table) (c : Ctx) (line : Str) (col : Nat) : List Str :=
  match c with
  | .account => accountsForPrefix lower t (extractAccountPrefix line col)
  | .payee => t.payees
  | .commodity => t.commodities
  | .tagName => t.tags
  | .tagValue => (t.tagValues.lookup (extractCurrentTagName line col)).getD []
  | .date => []
  | .unknown => t.accounts

/-! ### Matching and scoring -/

/-- The four score constants of completion.go are REGENERATED facts (HL/Generated/Facts.lean):
    the model scores with the values the source has now.  Proofs use only that the base score
    and the empty-pattern score are positive (HL/Generated/Expect/Completion.lean). -/
def fuzzyScoreEmptyPattern : Nat := HL.Generated.Facts.fuzzyScoreEmptyPattern
def scoreBase : Nat := HL.Generated.Facts.fuzzyScoreBaseMatch
def scoreConsecutive : Nat := HL.Generated.Facts.fuzzyScoreConsecutiveBonus
def scoreBoundary : Nat := HL.Generated.Facts.fuzzyScoreWordBoundary

/-- The loop of `fuzzyMatchScore` over the lower-cased runes: `i` index of the head of the text,
    `prev` the previous text rune, `last` = `lastMatchIdx`, `bonus` = `consecutiveBonus`.
    Returns the score and the unmatched rest of the pattern. -/
def fuzzyLoop : Str → Str → Nat → Option Char → Int → Nat → Nat → Nat × Str
  | [], pat, _, _, _, _, score => (score, pat)
  | _ :: _, [], _, _, _, _, score => (score, [])
  | t :: ts, p :: ps, i, prev, last, bonus, score =>
    if t = p then
      let score := score + scoreBase
      let bs : Nat × Nat := if last = (i : Int) - 1 then (bonus + scoreConsecutive, score + (bonus + scoreConsecutive)) else (0, score)
      let score := if i = 0 ∨ prev = some ':' then bs.2 + scoreBoundary else bs.2
      fuzzyLoop ts ps (i + 1) (some t) i bs.1 score
    else fuzzyLoop ts (p :: ps) (i + 1) (some t) last bonus score

/-- `fuzzyMatchScore`. -/
def fuzzyScore (lower : Char → Char) (text pat : Str) : Nat :=
  if pat = [] then fuzzyScoreEmptyPattern else
  let r := fuzzyLoop (text.map lower) (pat.map lower) 0 none (-1) 0 0
  if r.2 ≠ [] then 0 else r.1

/-- `fuzzyMatchScoreBySegments`. -/
def fuzzyScoreBySegments (lower : Char → Char) (name pat : Str) : Nat :=
  if pat = [] then fuzzyScoreEmptyPattern else
  (splitOn ':' name).foldl (fun best seg => let s := fuzzyScore lower seg pat; if s > best then s else best) 0

structure Scored where
  label : Str
  score : Nat
deriving Repr, DecidableEq, Inhabited

/-- `filterByPrefix`. -/
def filterByPrefix (lower : Char → Char) (items : List Str) (q : Str) : List Scored :=
  (items.filter fun l => (q.map lower).isPrefixOf (l.map lower)).map fun l => ⟨l, fuzzyScoreEmptyPattern⟩

/-- The score the fuzzy branch of `filterAndScoreFuzzyMatch` gives one label (0 = dropped).
    A trailing colon of the query is dropped for the per-segment match, and then only the segments
    that are followed by a colon (all but the last) are considered. -/
def fuzzyItemScore (lower : Char → Char) (q : Str) (l : Str) : Nat :=
  let s1 := match lastIndexP (· == ':') l with
    | none => 0
    | some k => fuzzyScoreBySegments lower (if q.getLast? = some ':' then l.take k else l) (trimColon q)
  if s1 > 0 then s1 else fuzzyScore lower l q

/-- `filterAndScoreFuzzyMatch`. -/
def filterAndScore (lower : Char → Char) (items : List Str) (q : Str) (fuzzy : Bool) : List Scored :=
  if q = [] then items.map fun l => ⟨l, fuzzyScoreEmptyPattern⟩
  else if !fuzzy then filterByPrefix lower items q
  else items.filterMap fun l =>
    let s := fuzzyItemScore lower q l
    if s > 0 then some ⟨l, s⟩ else none

/-! ### Ranking and truncation -/

/-- The comparator of `rankCompletionItemsByScore` ("a goes before b"). -/
def less (counts : Option (List (Str × Nat))) (a b : Scored) : Bool :=
  if a.score ≠ b.score then a.score > b.score
  else countOf counts a.label > countOf counts b.label

/-- What every correct sort guarantees: a permutation no later element of which must precede an
    earlier one. -/
def IsRanking (counts : Option (List (Str × Nat))) (input out : List Scored) : Prop :=
  out.Perm input ∧ out.Pairwise fun a b => less counts b a = false

def insertRanked (counts : Option (List (Str × Nat))) (x : Scored) : List Scored → List Scored
  | [] => [x]
  | y :: ys => if less counts y x then y :: insertRanked counts x ys else x :: y :: ys

/-- One executable ranking (stable insertion sort). -/
def rankExec (counts : Option (List (Str × Nat))) : List Scored → List Scored
  | [] => []
  | x :: xs => insertRanked counts x (rankExec counts xs)

/-- `normalizeServerSettings` for `completion.maxResults`. -/
def normMax (raw : Int) : Nat := if raw ≤ 0 then 50 else raw.toNat

/-- The truncation at the end of `Completion`. -/
def truncate (max : Nat) (l : List Scored) : List Scored :=
  if max > 0 ∧ l.length > max then l.take max else l

/-! ### The pipeline -/

structure Settings where
  maxRaw : Int
  fuzzy : Bool
deriving Repr, Inhabited

structure Result where
  ctx : Ctx
  query : Str
  range : Option (Nat × Nat)
  items : List Scored
deriving Repr, Inhabited

/-- The filtered, scored, not yet ranked items of a request. -/
def scoredFor (lower : Char → Char) (t : Table) (st : Settings) (line : Str) (ch : Nat) (trig : Str) : List Scored :=
  let c := determineContext line ch trig
  let col := takeU16 line ch
  filterAndScore lower (labelsFor lower t c line col) (extractQuery c line col) st.fuzzy

/-- `Completion`, given the ranking `ranked` of the scored items. -/
def finish (st : Settings) (line : Str) (ch : Nat) (trig : Str) (ranked : List Scored) : Result :=
  let c := determineContext line ch trig
  { ctx := c, query := extractQuery c line (takeU16 line ch), range := editRange c line ch,
    items := truncate (normMax st.maxRaw) ranked }

/-- `Completion` (`sort.SliceStable` = `rankExec`). -/
def complete (lower : Char → Char) (t : Table) (st : Settings) (line : Str) (ch : Nat) (trig : Str) : Result :=
  let c := determineContext line ch trig
  finish st line ch trig (rankExec (countsFor t c) (scoredFor lower t st line ch trig))

/-- The text a client puts in place of the range: `InsertText` (tag names) or the label. -/
def newText (c : Ctx) (l : Str) : Str := if c = .tagName then l ++ [':'] else l

/-! ### `strings.ToLower` on the documented alphabet -/

/-- `unicode.ToLower` restricted to: ASCII; Latin-1 letters; Greek (with tonos capitals) and Cyrillic basic blocks;
    `İ` (U+0130 ↦ `i`); Deseret capitals U+10400..U+10427.  Identity elsewhere (the generators
    use no other cased letters). -/
def goLower (c : Char) : Char :=
  let n := c.toNat
  if 0x41 ≤ n ∧ n ≤ 0x5A then Char.ofNat (n + 32)
  else if (0xC0 ≤ n ∧ n ≤ 0xDE) ∧ n ≠ 0xD7 then Char.ofNat (n + 32)
  else if n = 0x130 then 'i'
  else if 0x391 ≤ n ∧ n ≤ 0x3A9 ∧ n ≠ 0x3A2 then Char.ofNat (n + 32)
  else if n = 0x386 then Char.ofNat 0x3AC
  else if 0x388 ≤ n ∧ n ≤ 0x38A then Char.ofNat (n + 37)
  else if n = 0x38C then Char.ofNat 0x3CC
  else if n = 0x38E ∨ n = 0x38F then Char.ofNat (n + 63)
  else if 0x410 ≤ n ∧ n ≤ 0x42F then Char.ofNat (n + 32)
  else if 0x400 ≤ n ∧ n ≤ 0x40F then Char.ofNat (n + 80)
  else if 0x10400 ≤ n ∧ n ≤ 0x10427 then Char.ofNat (n + 40)
  else c

end HL.Completion
