/-
  Model of internal/lsputil/mapper.go (NewPositionMapper, LSPToByte,
  UTF16OffsetToByteOffset, ApplyChange, UTF16Len, ByteOffsetToUTF16) and of
  internal/server/server.go (DidOpen, DidChange, DidClose, isFullChange, applyChange).

  Texts are `List Char`: documents reach the server through encoding/json, which only
  produces valid UTF-8, and on valid UTF-8 Go's `for _, r := range s` enumerates exactly
  the code points.  Go's byte offsets correspond to char indices through the UTF-8 width
  of the prefix (`utf8Len`); every slice boundary the Go code computes is a rune boundary,
  so `content[:startByte] + text + content[endByte:]` is `take`/`drop` on chars.
  The correspondence check (ops `c01.*`) ties this to the real functions on generated input.
-/
namespace HL.Text

abbrev Txt := List Char

/-- UTF-16 width of a code point (`r >= 0x10000` in mapper.go). -/
def u16w (c : Char) : Nat := if c.val.toNat ≥ 0x10000 then 2 else 1

/-- `UTF16Len`. -/
def u16len : Txt → Nat
  | [] => 0
  | c :: cs => u16w c + u16len cs

/-- UTF-8 width of a code point (`utf8.RuneLen`). -/
def u8w (c : Char) : Nat :=
  let n := c.val.toNat
  if n < 0x80 then 1 else if n < 0x800 then 2 else if n < 0x10000 then 3 else 4

def u8len : Txt → Nat
  | [] => 0
  | c :: cs => u8w c + u8len cs

/-- Number of chars consumed by the loop of `UTF16OffsetToByteOffset(s, n)`:
    it stops as soon as the running UTF-16 count is `≥ n`. -/
def takeU16 : Txt → Nat → Nat
  | [], _ => 0
  | c :: cs, n => if n = 0 then 0 else 1 + takeU16 cs (n - u16w c)

/-- `UTF16OffsetToByteOffset` (result in bytes). -/
def utf16ToByte (s : Txt) (n : Nat) : Nat := u8len (s.take (takeU16 s n))

/-- Number of chars consumed by the loop of `ByteOffsetToUTF16(s, b)`. -/
def takeU8 : Txt → Nat → Nat
  | [], _ => 0
  | c :: cs, b => if b = 0 then 0 else 1 + takeU8 cs (b - u8w c)

/-- `ByteOffsetToUTF16`. -/
def byteToUtf16 (s : Txt) (b : Nat) : Nat := u16len (s.take (takeU8 s b))

/-- The first line (up to, not including, the first `'\n'`). -/
def firstLine : Txt → Txt
  | [] => []
  | c :: cs => if c = '\n' then [] else c :: firstLine cs

/-- The text after the first `'\n'`, if there is one. -/
def afterNL : Txt → Option Txt
  | [] => none
  | c :: cs => if c = '\n' then some cs else afterNL cs

/-- `strings.Split(content, "\n")`. -/
def splitLines : Nat → Txt → List Txt
  | 0, s => [s]
  | fuel+1, s => match afterNL s with
    | none => [firstLine s]
    | some rest => firstLine s :: splitLines fuel rest

def lines (s : Txt) : List Txt := splitLines s.length s

/-- The part of a line on which `LSPToByte` counts UTF-16 units.
    `trimCR = false` is mapper.go as pinned (`m.lines[line]`, trailing `\r` included);
    `trimCR = true` is the repaired code (`strings.TrimSuffix(line, "\r")`). -/
def countable (trimCR : Bool) (l : Txt) : Txt :=
  if trimCR && l.getLast? = some '\r' then l.dropLast else l

/-- `LSPToByte` as a char index into the whole text.
    Recursive on the line number: line 0 is the first line, line l+1 is line l of the
    text after the first newline; a line number past the last line yields the text's end. -/
def lspToIdx (trimCR : Bool) : Txt → Nat → Nat → Nat
  | s, 0, ch => takeU16 (countable trimCR (firstLine s)) ch
  | s, l+1, ch => match afterNL s with
    | none => s.length
    | some rest => (firstLine s).length + 1 + lspToIdx trimCR rest l ch

structure Range where
  sl : Nat
  sc : Nat
  el : Nat
  ec : Nat
deriving Repr, DecidableEq, Inhabited

/-- `PositionMapper.ApplyChange`. -/
def applyChange (trimCR : Bool) (s : Txt) (r : Range) (text : Txt) : Txt :=
  let a := lspToIdx trimCR s r.sl r.sc
  let b := lspToIdx trimCR s r.el r.ec
  let (a, b) := if a > b then (b, a) else (a, b)
  let a := min a s.length
  let b := min b s.length
  s.take a ++ text ++ s.drop b

/-- `isFullChange`. -/
def isFullChange (r : Range) : Bool := r.sl == 0 && r.sc == 0 && r.el == 0 && r.ec == 0

/-- A content change as `Server.didChange` sees it (`server.ContentChange`): the range is
    absent for a full replacement.  `cmd/hledger-lsp/main.go` decodes the notification into
    this shape itself (`didChangeHandler` → `DidChangeRaw`). -/
structure Change where
  range : Option Range
  text : Txt
deriving Repr, DecidableEq, Inhabited

/-- `Server.DidChange` (typed protocol params, range by value): the zero range stands for
    "no range" (`isFullChange`).  This is the API the pinned code exposed on the wire too. -/
def ofProtocol (r : Range) (t : Txt) : Change := ⟨if isFullChange r then none else some r, t⟩

/-- The loop body of `Server.didChange`. -/
def applyOne (trimCR : Bool) (s : Txt) (c : Change) : Txt :=
  match c.range with
  | none => c.text
  | some r => applyChange trimCR s r c.text

def applyAll (trimCR : Bool) (s : Txt) (cs : List Change) : Txt :=
  cs.foldl (applyOne trimCR) s

/-! ### The document store (`Server.documents`) -/

abbrev Uri := String
abbrev Docs := List (Uri × Txt)

def Docs.get (d : Docs) (u : Uri) : Option Txt := (d.find? (·.1 == u)).map (·.2)
def Docs.erase (d : Docs) (u : Uri) : Docs := d.filter (·.1 != u)
def Docs.set (d : Docs) (u : Uri) (t : Txt) : Docs := (u, t) :: d.erase u

inductive Note where
  | didOpen (u : Uri) (t : Txt)
  | didChange (u : Uri) (cs : List Change)
  | didClose (u : Uri)
deriving Repr, Inhabited

def step (trimCR : Bool) (d : Docs) : Note → Docs
  | .didOpen u t => d.set u t
  | .didChange u cs => match d.get u with
    | some t => d.set u (applyAll trimCR t cs)
    | none => d
  | .didClose u => d.erase u

def run (trimCR : Bool) (h : List Note) : Docs := h.foldl (step trimCR) []

end HL.Text
