import HL.Model.Balance

/-!
  Model of the hover text builders of internal/server/hover.go that print figures:
  buildAccountHoverWithTransactions, buildAmountHover, buildPayeeHoverWithTransactions,
  buildTagValueHover, getPayeeOrDescription.  (`%d` of a non-negative int is `natDigits`;
  `sort.Strings` on the unique commodity keys is insertion sort by byte-wise order.)
-/
namespace HL
namespace HoverText
open Ast Balance

/-- `getPayeeOrDescription`. -/
def payeeOrDescription (tx : Transaction) : Bytes := if tx.payee ≠ [] then tx.payee else tx.description

/-- `buildAccountHoverWithTransactions`. -/
def accountHover (name : Bytes) (b : AccountBalances) (txs : List Transaction) : Bytes :=
  let head := bs "**Account:** `" ++ name ++ bs "`\n\n"
  let bal : Bytes := match KV.find? b name with
    | none => []
    | some cb =>
      if cb.isEmpty then [] else
      bs "**Balance:**\n" ++
        (KV.sortStrings (cb.map (·.1))).flatMap (fun c => bs "- " ++ Dec.toString (KV.get cb c Dec.zero) ++ bs " " ++ c ++ bs "\n") ++
        bs "\n"
  head ++ bal ++ bs "**Postings:** " ++ Dec.natDigits (countPostings name txs)

/-- `buildAmountHover`. -/
def amountHover (a : Amount) (cost : Option Cost) : Bytes :=
  bs "**Amount:** " ++ Dec.toString a.quantity ++ bs " " ++ a.commodity.symbol ++
  match cost with
  | none => []
  | some c =>
    if c.isTotal then bs "\n\n**Total cost:** @@ " ++ Dec.toString c.amount.quantity ++ bs " " ++ c.amount.commodity.symbol
    else bs "\n\n**Unit cost:** @ " ++ Dec.toString c.amount.quantity ++ bs " " ++ c.amount.commodity.symbol

/-- `buildPayeeHoverWithTransactions`. -/
def payeeHover (payee : Bytes) (txs : List Transaction) : Bytes :=
  bs "**Payee:** " ++ payee ++ bs "\n\n**Transactions:** " ++ Dec.natDigits (countPayee payee txs)

/-- `buildTagValueHover`. -/
def tagValueHover (name value : Bytes) (txs : List Transaction) : Bytes :=
  bs "**Tag:** `" ++ name ++ bs "`\n" ++
  (if value = [] then bs "**Value:** *(empty)*\n\n" else bs "**Value:** `" ++ value ++ bs "`\n\n") ++
  bs "**Usage:** " ++ Dec.natDigits (countTagValueUsage name value txs)

end HoverText
end HL
