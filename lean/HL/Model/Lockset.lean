/-
  Lockset model for C14 (DESIGN 3.8, 7.C14).

  An abstract labelled transition system of threads executing straight-line instruction
  sequences (acquire / release of reader-writer locks, accesses to shared locations, goroutine
  start) under an arbitrary scheduler, the definition of a *data race* in that system, and the
  *lockset discipline* over an access table (one row per access class extracted from the Go
  source by tools/access).

  What is modelled (and against which Go facts):
    * `sync.Mutex` / `sync.RWMutex`:  `acq l .excl` = `Lock`, `acq l .shared` = `RLock`,
      `rel l` = `Unlock` / `RUnlock`.  `Lock` is enabled when nobody holds `l`, `RLock` when
      nobody holds it exclusively (the permissive reading: a *waiting* writer does not stop a
      reader from entering — every real execution is an execution of this system; the
      writer-preference of Go's RWMutex only matters for deadlocks and is accounted for in
      `StrictBlocked`).
    * `go f(..)`:  `spawn t`.  A thread only runs after it has been spawned.
    * thread 0 is the sequential initialisation (`NewServer`, `SetClient`, `Initialize`),
      thread 1 the serial jsonrpc handler thread; every other thread is a `publish` or a
      `refresh` goroutine, any number of each.
    * `sync.Map` methods and other `sync` primitives are atomic accesses; an access whose
      object was created in the same function and is not yet published is `fresh`.

  Everything here is core Lean (the compiled driver imports it).
-/
namespace HL.Lockset

inductive Role | init | main | publish | refresh
  deriving DecidableEq, Repr, Inhabited

inductive Mode | shared | excl
  deriving DecidableEq, Repr, Inhabited

inductive Kind | read | write
  deriving DecidableEq, Repr, Inhabited

/-- The attributes of one dynamic access. -/
structure Acc (ι : Type) where
  loc : ι
  kind : Kind
  atomic : Bool
  fresh : Bool
  deriving DecidableEq, Repr

/-- One row of the access table: an access class of the Go source.
    `locks` = the locks the translator found held at every site of the class,
    `sites` = "function:line" of the sites (documentation only, never inspected by proofs). -/
structure Row (ι κ : Type) where
  loc : ι
  role : Role
  kind : Kind
  locks : List (κ × Mode)
  atomic : Bool
  fresh : Bool
  sites : List String
  deriving Repr

abbrev Held (κ : Type) := List (κ × Mode)

inductive Instr (ι κ : Type)
  | acq (l : κ) (m : Mode)
  | rel (l : κ)
  | acc (a : Acc ι)
  | spawn (t : Nat)

variable {ι κ : Type} [DecidableEq ι] [DecidableEq κ]

/-- remove the first entry for lock `l` -/
def eraseLock (l : κ) : Held κ → Held κ
  | [] => []
  | (x, m) :: r => if x = l then r else (x, m) :: eraseLock l r

theorem mem_of_mem_eraseLock {l : κ} {x : κ × Mode} {h : Held κ} :
    x ∈ eraseLock l h → x ∈ h := by
  induction h with
  | nil => intro hx; exact hx
  | cons y r ih =>
    obtain ⟨y1, y2⟩ := y
    unfold eraseLock
    split
    · intro hx; exact List.mem_cons_of_mem _ hx
    · intro hx
      rcases List.mem_cons.mp hx with h1 | h1
      · exact h1 ▸ List.mem_cons_self
      · exact List.mem_cons_of_mem _ (ih h1)

def applyInstr (h : Held κ) : Instr ι κ → Held κ
  | .acq l m => (l, m) :: h
  | .rel l => eraseLock l h
  | .acc _ => h
  | .spawn _ => h

/-- The locks a thread holds after executing the instruction sequence `is` from the start:
    a *static* function of the program text. -/
def heldAfter (is : List (Instr ι κ)) : Held κ := is.foldl applyInstr []

/-- A pool of threads: the program and the role of every thread id. -/
structure Pool (ι κ : Type) where
  prog : Nat → List (Instr ι κ)
  role : Nat → Role

structure State (κ : Type) where
  started : Nat → Bool
  pc : Nat → Nat
  held : Nat → Held κ

def State.init : State κ := ⟨fun t => t == 0, fun _ => 0, fun _ => []⟩

def upd {α : Type} (f : Nat → α) (t : Nat) (v : α) : Nat → α := fun x => if x = t then v else f x

@[simp] theorem upd_same {α : Type} (f : Nat → α) (t : Nat) (v : α) : upd f t v t = v := by
  simp [upd]

theorem upd_other {α : Type} (f : Nat → α) (t x : Nat) (v : α) (h : x ≠ t) : upd f t v x = f x := by
  simp [upd, h]

/-- Enabledness of an instruction (permissive reader-writer semantics). -/
def canFire (σ : State κ) : Instr ι κ → Prop
  | .acq l .excl => ∀ t' m, (l, m) ∉ σ.held t'
  | .acq l .shared => ∀ t', (l, Mode.excl) ∉ σ.held t'
  | _ => True

def fire (σ : State κ) (t : Nat) (i : Instr ι κ) : State κ :=
  { started := match i with
      | .spawn t' => upd σ.started t' true
      | _ => σ.started
    pc := upd σ.pc t (σ.pc t + 1)
    held := upd σ.held t (applyInstr (σ.held t) i) }

/-- The instruction thread `t` is about to execute. -/
def next (P : Pool ι κ) (σ : State κ) (t : Nat) : Option (Instr ι κ) := (P.prog t)[σ.pc t]?

def Step (P : Pool ι κ) (σ σ' : State κ) : Prop :=
  ∃ t i, σ.started t = true ∧ next P σ t = some i ∧ canFire σ i ∧ σ' = fire σ t i

inductive Reachable (P : Pool ι κ) : State κ → Prop
  | init : Reachable P State.init
  | step {σ σ'} : Reachable P σ → Step P σ σ' → Reachable P σ'

/-! ### Data race -/

def Acc.conflict (a b : Acc ι) : Prop :=
  a.loc = b.loc ∧ (a.kind = .write ∨ b.kind = .write) ∧ ¬(a.atomic = true ∧ b.atomic = true) ∧
  a.fresh = false ∧ b.fresh = false

/-- Two different started threads are both about to perform conflicting accesses (at least one
    write, not both atomic, neither on a thread-private fresh object).  In this system two
    accesses are simultaneously enabled exactly when neither is ordered before the other by a
    lock hand-over or a goroutine start, so this is the usual definition of a data race for
    lock-based programs; `no_common_lock_of_race` below shows that the racing threads then hold
    no common lock with one of them holding it exclusively. -/
def Race (P : Pool ι κ) (σ : State κ) : Prop :=
  ∃ t1 t2 a1 a2, t1 ≠ t2 ∧ σ.started t1 = true ∧ σ.started t2 = true ∧
    next P σ t1 = some (.acc a1) ∧ next P σ t2 = some (.acc a2) ∧ a1.conflict a2

/-! ### The table and the discipline -/

/-- Every access instruction of every thread is an instance of a table row of the thread's
    role, and the locks the row names are held — *statically*, by the acquire/release
    instructions that precede the access in the thread's program. -/
def Conforms (T : List (Row ι κ)) (P : Pool ι κ) : Prop :=
  ∀ t n a, (P.prog t)[n]? = some (.acc a) →
    ∃ r ∈ T, r.role = P.role t ∧ r.loc = a.loc ∧ r.kind = a.kind ∧ r.atomic = a.atomic ∧
      r.fresh = a.fresh ∧ ∀ x ∈ r.locks, x ∈ heldAfter ((P.prog t).take n)

/-- Thread structure of the server: thread 0 is the initialisation and starts other threads
    only with its last instruction; exactly one `main` thread. -/
structure WF (P : Pool ι κ) : Prop where
  init_iff : ∀ t, P.role t = .init ↔ t = 0
  main_unique : ∀ t1 t2, P.role t1 = .main → P.role t2 = .main → t1 = t2
  init_spawn_last : ∀ n t', (P.prog 0)[n]? = some (.spawn t') → n + 1 = (P.prog 0).length

/-- Can accesses of these two roles be performed by two different, simultaneously running
    threads?  `init` runs before every goroutine start; `main` has one instance. -/
def concurrentRoles (a b : Role) : Bool :=
  a != .init && b != .init && !(a == .main && b == .main)

def rowConflict (r s : Row ι κ) : Bool :=
  r.loc == s.loc && (r.kind == .write || s.kind == .write) && !(r.atomic && s.atomic) &&
  !r.fresh && !s.fresh

def commonLock (r s : Row ι κ) : Bool :=
  r.locks.any fun x => s.locks.any fun y => x.1 == y.1 && (x.2 == .excl || y.2 == .excl)

/-- the pair is fine -/
def pairOK (r s : Row ι κ) : Bool :=
  !(rowConflict r s && concurrentRoles r.role s.role) || commonLock r s

/-- The lockset discipline: every two conflicting rows whose roles can run concurrently hold a
    common lock, at least one of them exclusively. -/
def disciplined (T : List (Row ι κ)) : Bool :=
  T.all fun r => T.all fun s => pairOK r s

/-- the offending pairs, for reports and counterexamples -/
def racePairs (T : List (Row ι κ)) : List (Row ι κ × Row ι κ) :=
  T.flatMap fun r => (T.filter fun s => !pairOK r s).map fun s => (r, s)

/-! ### Memory reachable from shared fields (escape / alias table)

  A field of slice, map or pointer type is the handle of more memory — the backing array, the
  map, the pointee: its *store*.  The access table above has one location per field; the store
  behind a field is a location of its own, and its set of accessors (its *owner set*) is not
  determined by the accesses to the field: a reference that was loaded from the field inside a
  lock region and is still used after the region was left (returned, kept in a result struct
  or a local, handed to a callee) makes the role that uses it an accessor of the store
  WITHOUT the lock.  tools/access follows the references and emits one `Escape` row per class
  of access to a store. -/

/-- How the reference an access goes through relates to the lock region it was loaded in. -/
inductive How
  /-- every lock that was held when the reference was loaded from shared memory is still held -/
  | inRegion
  /-- the access is the read of a copy (`slices.Clone`, `maps.Clone`, `append(fresh, x...)`,
      `copy(fresh, x)`); what the function goes on with is private -/
  | copied
  /-- some lock of the region the reference was loaded in is no longer held: an alias that
      outlives its lock region -/
  | escaped
  deriving DecidableEq, Repr, Inhabited

/-- One row of the escape table: role `role` accesses store `store` through a reference
    (`how`), holding `locks` at the access; `mutated` = the access appends to / assigns an
    element or field of / deletes from / sorts the store; `fresh` = the object the access goes
    through was created by the accessing function and is not published yet. -/
structure Escape (σ κ : Type) where
  store : σ
  role : Role
  how : How
  mutated : Bool
  locks : List (κ × Mode)
  fresh : Bool
  sites : List String
  deriving Repr

section escapes
variable {σ : Type} [DecidableEq σ]

/-- The access to the store that an escape row stands for: the accessing role joins the owner
    set of the store with exactly the locks it holds at that point. -/
def Escape.toRow (e : Escape σ κ) : Row σ κ :=
  ⟨e.store, e.role, if e.mutated then .write else .read, e.locks, false, e.fresh, e.sites⟩

def storeRows (E : List (Escape σ κ)) : List (Row σ κ) := E.map Escape.toRow

/-- The owner set of a store: who accesses it, how, holding what. -/
def accessors (E : List (Escape σ κ)) (s : σ) : List (Role × Kind × List (κ × Mode)) :=
  ((storeRows E).filter fun r => r.loc == s && !r.fresh).map fun r => (r.role, r.kind, r.locks)

/-- No reference that outlives its lock region un-copied is appended to or written through
    (writes to an object that is still private to its creator do not count). -/
def noEscapedMutation (E : List (Escape σ κ)) : Bool :=
  E.all fun e => !(e.how == .escaped && e.mutated) || e.fresh

def escapedMutations (E : List (Escape σ κ)) : List (Escape σ κ) :=
  E.filter fun e => e.how == .escaped && e.mutated && !e.fresh

/-- The alias discipline: no escaped reference is written through, and the accesses to every
    store — through the field, through copies being taken, through escaped aliases — obey the
    lockset discipline; in particular the original is not mutated in place after publication
    unless every accessor of the store, escaped aliases included, holds the lock. -/
def aliasDisciplined (E : List (Escape σ κ)) : Bool :=
  noEscapedMutation E && disciplined (storeRows E)

def Row.mapLoc {ι' : Type} (f : ι → ι') (r : Row ι κ) : Row ι' κ :=
  ⟨f r.loc, r.role, r.kind, r.locks, r.atomic, r.fresh, r.sites⟩

/-- The table over the fields (`inl`) and the stores behind them (`inr`). -/
def fullTable (T : List (Row ι κ)) (E : List (Escape σ κ)) : List (Row (ι ⊕ σ) κ) :=
  T.map (Row.mapLoc Sum.inl) ++ (storeRows E).map (Row.mapLoc Sum.inr)

end escapes

/-! ### Lock order and deadlock -/

/-- Every acquisition happens while holding only locks that the order table lists before the
    acquired one. -/
def OrderConforms (O : List (κ × κ)) (P : Pool ι κ) : Prop :=
  ∀ t n l m, (P.prog t)[n]? = some (.acq l m) →
    ∀ x ∈ heldAfter ((P.prog t).take n), (x.1, l) ∈ O

/-- Every thread releases what it acquired (`defer mu.Unlock()`). -/
def Balanced (P : Pool ι κ) : Prop := ∀ t, heldAfter (P.prog t) = []

/-- The order table is acyclic, witnessed by a rank function (a strict rank also forbids
    re-acquiring a lock that is already held, which deadlocks a Go RWMutex as soon as a
    writer waits). -/
def acyclicBy (rank : κ → Nat) (O : List (κ × κ)) : Bool :=
  O.all fun p => rank p.1 < rank p.2

/-- Thread `t` cannot proceed even under the most blocking reading of Go's RWMutex:
    it wants a lock that somebody holds (in any mode), or it wants a read lock while a writer
    is waiting for the same lock (writer preference). -/
def StrictBlocked (P : Pool ι κ) (σ : State κ) (t : Nat) : Prop :=
  ∃ l m, next P σ t = some (.acq l m) ∧
    ((∃ t' m', (l, m') ∈ σ.held t') ∨
     (m = .shared ∧ ∃ w, σ.started w = true ∧ next P σ w = some (.acq l .excl)))

def Unfinished (P : Pool ι κ) (σ : State κ) (t : Nat) : Prop :=
  σ.started t = true ∧ σ.pc t < (P.prog t).length

end HL.Lockset
