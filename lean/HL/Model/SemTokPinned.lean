/-
  The tokenizer of internal/server/semantic.go AS PINNED (before the `fix:` commits that repaired
  the findings code-length, quoted-commodity-length, tag-search-position, tag-byte-offsets,
  text-trimmed-position and nonbmp-column of property C17).  Kept only so that the
  `pinned_*_counterexample` theorems of HL/Props/C17.lean can state, kernel-checked, what the old
  code did on each witness; nothing else refers to this file.  The current code is modelled in
  HL/Model/SemTok.lean.

  Pinned behaviour: a token's column is the lexer's rune column (`tok.Pos.Column - 1`), its
  length is `UTF16Len(tok.Value)` (+1 for a comment); tags are located inside a comment with
  `strings.Index` from a search position that skipped parts do not advance, and are placed by
  byte offsets and byte lengths.
-/
import HL.Model.SemTok

namespace HL.SemTok.Pinned
open HL HL.SemTok

/-- A token found inside a comment, before it is given a line and column:
    byte offset in the comment text, byte length, token type. -/
structure TagSpan where
  off : Nat
  len : Nat
  ty : UInt32
deriving Repr, DecidableEq, Inhabited

/-- One iteration of the `for _, part := range parts` loop of `extractTagTokensFromComment`.
    State: `searchStart` and the tokens appended so far (as spans: the Go code computes
    `col = baseCol + 1 + uint32(off)`, `length = uint32(len)` from exactly these numbers). -/
def extractStep (cls : Classes) (comment : Bytes) (st : Nat × List TagSpan) (part : Bytes) :
    Nat × List TagSpan :=
  let searchStart := st.1
  let trimmed := trimSpace part
  match indexOf [colon] trimmed with
  | none => st
  | some colonIdx =>
    let name := trimSpace (trimmed.take colonIdx)
    if name.isEmpty || !isValidTagName cls name then st else
    match indexOf (name ++ [colon]) (comment.drop searchStart) with
    | none => st
    | some ts =>
      let tagStart := ts + searchStart
      let acc := st.2 ++ [{ off := tagStart, len := name.length + 1, ty := tyTag }]
      let tagNameEnd := tagStart + name.length + 1
      let value := if colonIdx + 1 < trimmed.length then trimSpace (trimmed.drop (colonIdx + 1)) else []
      if value.isEmpty then (tagNameEnd, acc) else
      match indexOf value (comment.drop tagNameEnd) with
      | none => (tagNameEnd, acc)
      | some vs =>
        (tagNameEnd + vs + value.length,
         acc ++ [{ off := tagNameEnd + vs, len := value.length, ty := tyTagValue }])

/-- The spans `extractTagTokensFromComment` finds in a comment text. -/
def extractSpans (cls : Classes) (comment : Bytes) : List TagSpan :=
  if !comment.contains colon then [] else
  ((splitOn comma comment).foldl (extractStep cls comment) (0, [])).2

/-- `semanticToken{line: baseLine, col: baseCol + 1 + uint32(off), length: uint32(len), …}`. -/
def tagToken (baseLine baseCol : UInt32) (sp : TagSpan) : SemToken :=
  { line := baseLine, col := baseCol + 1 + u32 sp.off, len := u32 sp.len, ty := sp.ty, mods := 0 }

/-- `extractTagTokensFromComment` (`[]` for nil). -/
def extractTags (cls : Classes) (t : Token) : List SemToken :=
  (extractSpans cls t.val).map (tagToken (u32pred t.pos.line) (u32pred t.pos.col))

/-- The token appended at the end of the loop body. -/
def plainToken (t : Token) (semType mods : UInt32) : SemToken :=
  let length := u32 (u16lenB t.val)
  let length := if t.ty == .comment then length + 1 else length
  { line := u32pred t.pos.line, col := u32pred t.pos.col, len := length, ty := semType, mods := mods }

/-- One iteration of the loop of `tokenizeForSemantics` for a non-EOF token. -/
def stepTok (cls : Classes) (c : Ctx) (t : Token) : Ctx × List SemToken :=
  let c := lineStart c t
  match mapTokenType t.ty with
  | none => (c, [])
  | some semType =>
    let mods : UInt32 :=
      if c.inDirective && (c.directiveType == kwAccount || c.directiveType == kwCommodity)
          && (t.ty == .account || t.ty == .commodity || t.ty == .text) then 1 else 0
    let payee := t.ty == .text && c.isPayee
    let semType := if payee then tyPayee else semType
    let c := if payee then { c with isPayee := false } else c
    let tags := if t.ty == .comment then extractTags cls t else []
    if !tags.isEmpty then (c, tags) else (c, [plainToken t semType mods])

def tokGo (cls : Classes) : Ctx → List Token → List SemToken
  | _, [] => []
  | c, t :: ts =>
    if t.ty == .eof then [] else
    let r := stepTok cls c t
    r.2 ++ tokGo cls r.1 ts

/-- `tokenizeForSemantics`, given the lexer's output for the content. -/
def tokenize (cls : Classes) (toks : List Token) : List SemToken := tokGo cls {} toks

/-- `tokGo` together with, for every emitted token, the lexer token it was made from
    (provenance only; `(tokGoSrc …).map (·.1) = tokGo …`, lemma `tokGoSrc_fst`). -/
def tokGoSrc (cls : Classes) : Ctx → List Token → List (SemToken × Token)
  | _, [] => []
  | c, t :: ts =>
    if t.ty == .eof then [] else
    let r := stepTok cls c t
    r.2.map (·, t) ++ tokGoSrc cls r.1 ts

def tokenizeSrc (cls : Classes) (toks : List Token) : List (SemToken × Token) := tokGoSrc cls {} toks

end HL.SemTok.Pinned
