/-
  The workspace as the document handlers drive it: internal/server/server.go

    Server.DidOpen    documents.Store; workspace.UpdateFile(path, text); loader.InvalidateFile
                      (repo_patches/fix-didopen-workspace.diff; the pinned DidOpen only stored
                      the document: `openDoc := false`)
    Server.didChange  the same for an open document
    Server.DidSave    workspace.UpdateFile(path, GetDocument(uri)) — for a document that is not
                      open, the file as read from disk
    Server.DidClose   documents.Delete; workspace.UpdateFile(path, file as read from disk)
                      (repo_patches/fix-didclose-workspace.diff; `close := false`: pinned)

  on top of HL/Model/Workspace.lean (`updateFile`).  A file's text is abstracted to its
  contribution (HL/Model/Index.lean: what the parser and the analyzer compute from it — in the
  resolved journal `rfiles` / `primary` the contribution stands for the syntax tree parsed from
  that text).  `view` is a ghost component: what the CLIENT sees — the buffer of every open
  document, the file on disk for the others (`DInv.opened`, `DInv.others` in HL/Lemmas/WsDocs.lean).

  `save` is the editor writing the buffer to disk followed by the didSave notification.
  `close` is DidClose: the buffer is discarded, the client sees the file on disk again; the
  repaired server (fix-didclose-workspace.diff) reads it and passes it to `UpdateFile`, the
  pinned one left the workspace alone.

  `Fixes` selects the pinned (`false`) or repaired (`true`) handler, one flag per repair.
-/
import HL.Model.Workspace
namespace HL.WsDocs
open HL.Index HL.Workspace

structure DS where
  disk : FS
  bufs : AList Contrib      -- Server.documents, by path
  view : FS                 -- ghost: buffers over disk
  w : WS
  deriving Repr, Inhabited

inductive Ev where
  | openDoc (p : String) (c : Contrib)
  | change (p : String) (c : Contrib)
  | save (p : String)
  | close (p : String)
  deriving Repr, Inhabited

/-- which of the two handler repairs the server contains -/
structure Fixes where
  openDoc : Bool := true
  close : Bool := true
  deriving Repr, Inhabited, DecidableEq

def dstep (fx : Fixes) (cfg : Cfg) (s : DS) : Ev → DS
  | .openDoc p c =>
    { s with bufs := s.bufs.set p c, view := s.view.set p c,
             w := if fx.openDoc then updateFile cfg s.disk s.w p c else s.w }
  | .close p =>
    match s.disk.get p with                       -- `os.ReadFile(path)`
    | some c =>
      { s with bufs := s.bufs.erase p, view := s.view.set p c,
               w := if fx.close then updateFile cfg s.disk s.w p c else s.w }
    | none => { s with bufs := s.bufs.erase p, view := s.view.erase p }
  | .change p c =>
    match s.bufs.get p with
    | none => s                                   -- `if doc, ok := s.documents.Load(uri); ok`
    | some _ =>
      { s with bufs := s.bufs.set p c, view := s.view.set p c, w := updateFile cfg s.disk s.w p c }
  | .save p =>
    match s.bufs.get p with
    | some c =>
      { s with disk := s.disk.set p c, view := s.view.set p c,
               w := updateFile cfg (s.disk.set p c) s.w p c }
    | none =>
      match s.disk.get p with                     -- `os.ReadFile(path)`
      | some c => { s with view := s.view.set p c, w := updateFile cfg s.disk s.w p c }
      | none => s

/-- `Initialize` + `Initialized` on the directory `fs`, nothing open yet. -/
def dstart (cfg : Cfg) (fs : FS) : DS := { disk := fs, bufs := [], view := fs, w := init cfg fs }

def drun (fx : Fixes) (cfg : Cfg) (fs : FS) (es : List Ev) : DS :=
  es.foldl (dstep fx cfg) (dstart cfg fs)

/-- The tree the workspace's resolved journal holds for `p` (`Primary` for the root journal,
    `Files[p]` otherwise). -/
def held (w : WS) (p : String) : Option Contrib :=
  if p = w.root then w.primary else w.rfiles.get p

end HL.WsDocs
