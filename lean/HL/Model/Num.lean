import HL.Model.Dec

/-!
  Model of internal/parser/parser.go `normalizeNumber`, `normalizeMantissa`, `removeSeparator`
  (as of fix b74e439 "normalise digit separators in the mantissa only") and of
  the string preparation `parseAmount` (lines 346-355) performs on a Number token before
  `decimal.NewFromString`: prefix "-" when the sign token is "-" and the text does not already
  start with "-", delete every blank (`strings.ReplaceAll(s, " ", "")`), normalise.
-/
namespace HL
namespace Num

def DOT : UInt8 := 46
def COMMA : UInt8 := 44
def MINUS : UInt8 := 45
def ZERO : UInt8 := 48
def SPACE : UInt8 := 32

/-- the scanning loop: number of occurrences of `c` and index of the last one (0 if none). -/
def scan (c : UInt8) : Bytes → Nat → Nat × Nat → Nat × Nat
  | [], _, acc => acc
  | x :: r, i, (cnt, last) => if x == c then scan c r (i + 1) (cnt + 1, i) else scan c r (i + 1) (cnt, last)

def countOf (c : UInt8) (s : Bytes) : Nat := (scan c s 0 (0, 0)).1
def lastOf (c : UInt8) (s : Bytes) : Nat := (scan c s 0 (0, 0)).2

/-- `removeSeparator`. -/
def removeSeparator (s : Bytes) (sep : UInt8) : Bytes := s.filter (· != sep)

/-- `hasNonZero` loop over `s[:k]`. -/
def hasNonZero (s : Bytes) (k : Nat) : Bool := (s.take k).any fun c => c != ZERO && c != MINUS

/-- the final loop: marks are dropped except the one at index `decimalPos`, which becomes '.'. -/
def rebuild (decimalPos : Nat) : Bytes → Nat → Bytes
  | [], _ => []
  | c :: r, i =>
    if c == DOT || c == COMMA then
      if i == decimalPos then DOT :: rebuild decimalPos r (i + 1) else rebuild decimalPos r (i + 1)
    else c :: rebuild decimalPos r (i + 1)

/-- `normalizeMantissa` (the whole of `normalizeNumber` before fix b74e439). -/
def normalizeMantissa (s : Bytes) : Bytes :=
  let dotCount := countOf DOT s
  let commaCount := countOf COMMA s
  let lastDot := lastOf DOT s
  let lastComma := lastOf COMMA s
  if dotCount == 0 && commaCount == 0 then s
  else if dotCount == 0 && commaCount == 1 then
    if lastComma ≥ 1 && s.length - lastComma - 1 == 3 && hasNonZero s lastComma then
      s.take lastComma ++ s.drop (lastComma + 1)
    else s.take lastComma ++ DOT :: s.drop (lastComma + 1)
  else if dotCount == 1 && commaCount == 0 then
    if lastDot ≥ 1 && s.length - lastDot - 1 == 3 && hasNonZero s lastDot then
      s.take lastDot ++ s.drop (lastDot + 1)
    else s
  else if commaCount > 1 && dotCount == 0 then removeSeparator s COMMA
  else if dotCount > 1 && commaCount == 0 then removeSeparator s DOT
  else
    let decimalPos :=
      if dotCount > 0 && commaCount == 1 && lastComma > lastDot then lastComma
      else if commaCount > 0 && dotCount == 1 && lastDot > lastComma then lastDot
      else if dotCount > 0 && commaCount == 1 then lastDot
      else 0
    rebuild decimalPos s 0

def isE (c : UInt8) : Bool := c == 69 || c == 101

/-- `s[:i]`, `s[i:]` for `i = strings.IndexAny(s, "eE")` (`(s, [])` when there is none). -/
def splitExp : Bytes → Bytes × Bytes
  | [] => ([], [])
  | c :: r => if isE c then ([], c :: r) else
      let q := splitExp r
      (c :: q.1, q.2)

/-- `normalizeNumber`: separators are normalised in the mantissa only. -/
def normalizeNumber (s : Bytes) : Bytes :=
  let q := splitExp s
  normalizeMantissa q.1 ++ q.2

/-- `strings.ReplaceAll(s, " ", "")`. -/
def stripBlanks (s : Bytes) : Bytes := s.filter (· != SPACE)

/-- parseAmount lines 346-349: `sign == "-" && !HasPrefix(raw, "-")`. -/
def signed (neg : Bool) (raw : Bytes) : Bytes :=
  if neg && raw.head? != some MINUS then MINUS :: raw else raw

/-- the text handed to `decimal.NewFromString`. -/
def prepare (neg : Bool) (raw : Bytes) : Bytes := normalizeNumber (stripBlanks (signed neg raw))

/-- `maxAmountExponent` (fix e860024: amounts with |decimal exponent| > 1000 are rejected). -/
def maxAmountExponent : Int := 1000

/-- Quantity of a Number token under sign `neg`; `none` = "invalid number". -/
def quantity (neg : Bool) (raw : Bytes) : Option Dec :=
  match Dec.ofString (prepare neg raw) with
  | none => none
  | some d => if d.exp > maxAmountExponent ∨ d.exp < -maxAmountExponent then none else some d

end Num
end HL
