/-
  Byte-string helpers for the formatter model (C04/C05).

  The formatter receives the document as a Go `string`, i.e. arbitrary bytes.  This file models
  the few library functions the formatter applies to such strings:

    utf8.DecodeRuneInString      decodeRune      (invalid or truncated sequence: U+FFFD, width 1)
    `for _, r := range s`        runes           (list of (rune, byte width))
    utf8.RuneCountInString       runeCount
    lsputil.UTF16Len             u16len          (astral runes count 2, everything else 1)
    utf8.RuneLen / AppendRune    runeLen / encodeRune
    unicode.IsDigit              isDigitRune     (category Nd, Unicode 15.0.0 table of Go 1.24)
    strings.Split(s, "\n")       splitLines
    strings.TrimRight(s, " \t")  trimRight
    strings.Repeat(" ", n)       spaces
-/
import HL.Model.Ast
namespace HL.FmtText
open HL

/-- Continuation byte `10xxxxxx`. -/
def isCont (b : UInt8) : Bool := 0x80 ≤ b && b ≤ 0xBF

/-- Go's `acceptRanges` for the second byte, by first byte. -/
def lo2 (b0 : UInt8) : UInt8 := if b0 == 0xE0 then 0xA0 else if b0 == 0xF0 then 0x90 else 0x80
def hi2 (b0 : UInt8) : UInt8 := if b0 == 0xED then 0x9F else if b0 == 0xF4 then 0x8F else 0xBF
def accept2 (b0 b1 : UInt8) : Bool := lo2 b0 ≤ b1 && b1 ≤ hi2 b0

def runeError : Nat := 0xFFFD

/-- `utf8.DecodeRuneInString` on a non-empty string: (rune, width). -/
def decodeRune : Bytes → Nat × Nat
  | [] => (runeError, 1)
  | b0 :: rest =>
    if b0 < 0x80 then (b0.toNat, 1)
    else if b0 < 0xC2 then (runeError, 1)
    else if b0 < 0xE0 then
      match rest with
      | b1 :: _ => if isCont b1 then ((b0.toNat % 32) * 64 + b1.toNat % 64, 2) else (runeError, 1)
      | [] => (runeError, 1)
    else if b0 < 0xF0 then
      match rest with
      | b1 :: rest1 =>
        if accept2 b0 b1 then
          match rest1 with
          | b2 :: _ => if isCont b2 then ((b0.toNat % 16) * 4096 + (b1.toNat % 64) * 64 + b2.toNat % 64, 3)
                       else (runeError, 1)
          | [] => (runeError, 1)
        else (runeError, 1)
      | [] => (runeError, 1)
    else if b0 < 0xF5 then
      match rest with
      | b1 :: rest1 =>
        if accept2 b0 b1 then
          match rest1 with
          | b2 :: rest2 =>
            if isCont b2 then
              match rest2 with
              | b3 :: _ => if isCont b3 then
                    ((b0.toNat % 8) * 262144 + (b1.toNat % 64) * 4096 + (b2.toNat % 64) * 64 + b3.toNat % 64, 4)
                  else (runeError, 1)
              | [] => (runeError, 1)
            else (runeError, 1)
          | [] => (runeError, 1)
        else (runeError, 1)
      | [] => (runeError, 1)
    else (runeError, 1)

/-- `for i, r := range s`: the runes with their byte widths.  The first argument counts the
    bytes of the current rune that are still to be skipped (structural recursion). -/
def runesAux : Nat → Bytes → List (Nat × Nat)
  | _, [] => []
  | 0, b :: bs => let d := decodeRune (b :: bs); d :: runesAux (d.2 - 1) bs
  | k+1, _ :: bs => runesAux k bs

def runes (s : Bytes) : List (Nat × Nat) := runesAux 0 s

/-- `utf8.RuneCountInString`, with the skip counter of `runesAux`. -/
def runeCountAux : Nat → Bytes → Nat
  | _, [] => 0
  | 0, b :: bs => 1 + runeCountAux ((decodeRune (b :: bs)).2 - 1) bs
  | k+1, _ :: bs => runeCountAux k bs

def runeCount (s : Bytes) : Nat := runeCountAux 0 s

def u16w (r : Nat) : Nat := if r ≥ 0x10000 then 2 else 1

/-- `lsputil.UTF16Len`. -/
def u16lenAux : Nat → Bytes → Nat
  | _, [] => 0
  | 0, b :: bs => let d := decodeRune (b :: bs); u16w d.1 + u16lenAux (d.2 - 1) bs
  | k+1, _ :: bs => u16lenAux k bs

def u16len (s : Bytes) : Nat := u16lenAux 0 s

/-- `utf8.RuneLen` (−1 for surrogates and values above U+10FFFF is never met here: the
    argument is always a decoded rune). -/
def runeLen (r : Nat) : Nat :=
  if r < 0x80 then 1 else if r < 0x800 then 2 else if r < 0x10000 then 3 else 4

/-- `utf8.AppendRune` / `strings.Builder.WriteRune`. -/
def encodeRune (r : Nat) : Bytes :=
  let r := if (0xD800 ≤ r && r ≤ 0xDFFF) || r > 0x10FFFF then runeError else r
  if r < 0x80 then [UInt8.ofNat r]
  else if r < 0x800 then [UInt8.ofNat (0xC0 + r / 64), UInt8.ofNat (0x80 + r % 64)]
  else if r < 0x10000 then
    [UInt8.ofNat (0xE0 + r / 4096), UInt8.ofNat (0x80 + (r / 64) % 64), UInt8.ofNat (0x80 + r % 64)]
  else [UInt8.ofNat (0xF0 + r / 262144), UInt8.ofNat (0x80 + (r / 4096) % 64),
        UInt8.ofNat (0x80 + (r / 64) % 64), UInt8.ofNat (0x80 + r % 64)]

/-- First code points of the ranges of `unicode.Nd` (Unicode 15.0.0); every range has ten
    members except U+1D7CE..U+1D7FF (fifty). -/
def ndStarts : List Nat := [48, 1632, 1776, 1984, 2406, 2534, 2662, 2790, 2918, 3046, 3174, 3302,
  3430, 3558, 3664, 3792, 3872, 4160, 4240, 6112, 6160, 6470, 6608, 6784, 6800, 6992, 7088, 7232,
  7248, 42528, 43216, 43264, 43472, 43504, 43600, 44016, 65296, 66720, 68912, 69734, 69872, 69942,
  70096, 70384, 70736, 70864, 71248, 71360, 71472, 71904, 72016, 72784, 73040, 73120, 73552, 92768,
  92864, 93008, 123200, 123632, 124144, 125264, 130032]

/-- `unicode.IsDigit`. -/
def isDigitRune (r : Nat) : Bool :=
  ndStarts.any (fun lo => lo ≤ r && r ≤ lo + 9) || (120782 ≤ r && r ≤ 120831)

/-- `strings.Split(s, "\n")`. -/
def splitLines : Bytes → List Bytes
  | [] => [[]]
  | b :: bs =>
    if b = 10 then [] :: splitLines bs
    else match splitLines bs with
      | l :: ls => (b :: l) :: ls
      | [] => [[b]]

def isBlank (b : UInt8) : Bool := b == 32 || b == 9

/-- `strings.TrimRight(s, " \t")`. -/
def trimRight : Bytes → Bytes
  | [] => []
  | b :: bs =>
    let t := trimRight bs
    if t.isEmpty && isBlank b then [] else b :: t

/-- `strings.Repeat(" ", n)`. -/
def spaces (n : Nat) : Bytes := List.replicate n 32

/-- Trim byte 32 on both sides (`strings.TrimSpace` on a string made of digits, marks and
    blanks only). -/
def trimSp (s : Bytes) : Bytes :=
  ((s.dropWhile (· == 32)).reverse.dropWhile (· == 32)).reverse

/-- `strings.LastIndex(s, string(b))`, −1 when absent. -/
def lastIndexAux (c : UInt8) : Bytes → Nat → Int → Int
  | [], _, acc => acc
  | b :: bs, i, acc => lastIndexAux c bs (i + 1) (if b == c then (i : Int) else acc)

def lastIndex (s : Bytes) (c : UInt8) : Int := lastIndexAux c s 0 (-1)

/-- `uint32(i)` for a Go `int` (two's complement truncation). -/
def u32 (i : Int) : UInt32 := UInt32.ofNat (i % 4294967296).toNat

end HL.FmtText
