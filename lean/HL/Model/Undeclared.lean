/-
  Model of the undeclared-account / undeclared-commodity warnings (property C18).

  Transcribed Go code (juev/hledger-lsp):
    internal/analyzer/analyzer.go   Analyze, AnalyzeWithExternalDeclarations, analyzeInternal
                                    (the UNDECLARED_* part), collectDeclaredAccounts,
                                    collectDeclaredCommodities, collectDeclared*FromResolved,
                                    DeclarationsFromResolved, MergeDeclarations,
                                    predefinedAccountTypes, isAccountDeclared,
                                    checkUndeclaredAccounts, checkUndeclaredCommodities
    internal/server/server.go       analyze / analyzeResolved (choice of declaration sources,
                                    filtering by shouldIncludeDiagnostic, conversion to protocol
                                    diagnostics), shouldIncludeDiagnostic, toProtocolSeverity
    internal/workspace/workspace.go GetDeclaredAccounts, GetDeclaredCommodities

  Inputs are syntax trees (`HL.Ast.Journal`, produced by the REAL parser in the correspondence
  runs).  The include loader and the workspace (root selection, which files get loaded) belong to
  C10–C12: here their *results* are inputs — `curTree`, the files the loader resolves below the
  current document, and `wsTree`, the files of the workspace's resolved journal (root journal first)
  or `none` when the server has no workspace view.

  Histories.  The model is stateless: what is published for a document is a function of the
  CURRENT contents (the buffer of that document; for every other file what the editor last saved).
  The real server keeps caches (Workspace.cachedAccounts / cachedCommodities / cachedFormats, the
  loader's parse cache, the workspace's resolved journal maintained by UpdateFile); op `c18.hist`
  plays short histories of didOpen / didChange / didSave / didClose and formatting, completion,
  hover, token, symbol, folding requests on one server and compares the last publish with this
  stateless model, so a stale or wrongly filled cache is a correspondence break (and an oracle
  failure).  Domain of that op: see harness/c18hist.go.

  Go maps.  Every `map[string]bool` in this code only ever holds `true` and is observed through
  three operations: lookup `m[k]`, `for k := range m` and `len(m) > 0`.  It is modelled as the
  list of inserted keys, duplicates allowed (inserting a key twice changes none of the three
  observations); `range` + `HasPrefix` is `List.any`.  `Props/C18.declared_order_irrelevant`
  proves that every result depends on such a list only through its membership relation, which
  is the statement that Go's randomised iteration order is not observable here.

  strings.ToLower.  `isAccountDeclared` lower-cases the whole account name and compares the part
  before the first ':' with six ASCII words.  The model takes the lower-casing function as a
  parameter `lower`; the theorems hold for every `lower` that commutes with cutting at the first
  colon (`LowerOK`).  The correspondence runs use `goLower`: ASCII A–Z, plus the only two
  non-ASCII runes that `unicode.ToLower` sends into ASCII (U+0130 'İ' ↦ 'i', U+212A 'K' ↦ 'k';
  op `c18.lower` re-derives this list from the real `unicode` tables on every run).  For the
  only observation made — "is the lower-cased first segment one of six ASCII words" — `goLower`
  and `strings.ToLower` agree on every byte string: any other non-ASCII rune, and any invalid
  byte (mapped to U+FFFD), leaves a byte ≥ 0x80 in both outputs.
-/
import HL.Model.Ast
namespace HL.Undeclared
open HL HL.Ast

/-- Diagnostic codes seen by `shouldIncludeDiagnostic`.  `other` stands for any code without a
    switch (parse errors carry no code and never pass through the filter). -/
inductive Code where
  | undeclaredAccount | undeclaredCommodity | unbalanced | multipleInferred | other
deriving Repr, DecidableEq, Inhabited

def Code.name : Code → String
  | .undeclaredAccount => "UNDECLARED_ACCOUNT"
  | .undeclaredCommodity => "UNDECLARED_COMMODITY"
  | .unbalanced => "UNBALANCED"
  | .multipleInferred => "MULTIPLE_INFERRED"
  | .other => ""

/-- `analyzer.Diagnostic`.  `sev`: `analyzer.DiagnosticSeverity` (SeverityWarning = 1). -/
structure Diag where
  range : Rng
  sev : Nat
  msg : Bytes
  code : Code
deriving Repr, DecidableEq, Inhabited, BEq

def colon : UInt8 := 58

/-! ### Declarations -/

/-- `collectDeclaredAccounts`. -/
def collectDeclaredAccounts (j : Journal) : List Bytes :=
  j.directives.filterMap fun d => match d with
    | .account a _ _ _ _ => some a.name
    | _ => none

/-- `collectDeclaredCommodities`. -/
def collectDeclaredCommodities (j : Journal) : List Bytes :=
  j.directives.filterMap fun d => match d with
    | .commodity c _ _ _ _ => some c.symbol
    | _ => none

/-- `predefinedAccountTypes`: assets, liabilities, equity, expenses, revenues, income
    (explicit bytes so that the kernel can evaluate examples). -/
def predefinedAccountTypes : List Bytes := [
  [97, 115, 115, 101, 116, 115],
  [108, 105, 97, 98, 105, 108, 105, 116, 105, 101, 115],
  [101, 113, 117, 105, 116, 121],
  [101, 120, 112, 101, 110, 115, 101, 115],
  [114, 101, 118, 101, 110, 117, 101, 115],
  [105, 110, 99, 111, 109, 101]]

def asciiLower (b : UInt8) : UInt8 := if 65 ≤ b ∧ b ≤ 90 then b + 32 else b

/-- The lower-casing used in the correspondence runs (see the header). -/
def goLower : Bytes → Bytes
  | 0xC4 :: 0xB0 :: r => 105 :: goLower r
  | 0xE2 :: 0x84 :: 0xAA :: r => 107 :: goLower r
  | b :: r => asciiLower b :: goLower r
  | [] => []

/-- Non-ASCII runes that `unicode.ToLower` maps to an ASCII rune, as (rune, image) pairs
    flattened; checked against the real tables by op `c18.lower`. -/
def nonAsciiToAscii : List Nat := [304, 105, 8490, 107]

/-- `isAccountDeclared`. -/
def isAccountDeclared (lower : Bytes → Bytes) (accountName : Bytes) (declared : List Bytes) : Bool :=
  let lowerName := lower accountName
  -- colonIdx := strings.Index(lowerName, ":"); prefix := lowerName[:colonIdx] (all of it if -1)
  let pfx := lowerName.takeWhile (· != colon)
  if predefinedAccountTypes.contains pfx then true
  else if declared.contains accountName then true
  else declared.any fun declaredAccount => (declaredAccount ++ [colon]).isPrefixOf accountName

def accountMsg (name : Bytes) : Bytes := bs "account '" ++ name ++ bs "' is not declared"
def commodityMsg (sym : Bytes) : Bytes := bs "commodity '" ++ sym ++ bs "' has no directive"

/-- `checkUndeclaredAccounts`. -/
def checkUndeclaredAccounts (lower : Bytes → Bytes) (tx : Transaction) (declared : List Bytes) : List Diag :=
  tx.postings.filterMap fun posting =>
    if !isAccountDeclared lower posting.account.name declared then
      some ⟨posting.range, 1, accountMsg posting.account.name, .undeclaredAccount⟩
    else none

/-- State of the closure `checkCommodity` inside `checkUndeclaredCommodities`. -/
structure ComState where
  seen : List Bytes
  diags : List Diag
deriving Repr, DecidableEq, Inhabited

def checkCommodity (declared : List Bytes) (st : ComState) (symbol : Bytes) (r : Rng) : ComState :=
  if symbol != [] && !declared.contains symbol && !st.seen.contains symbol then
    ⟨symbol :: st.seen, st.diags ++ [⟨r, 1, commodityMsg symbol, .undeclaredCommodity⟩]⟩
  else st

/-- Body of the loop over postings: amount, then cost, then balance assertion. -/
def checkPosting (declared : List Bytes) (st : ComState) (p : Posting) : ComState :=
  let st := match p.amount with
    | some a => checkCommodity declared st a.commodity.symbol a.commodity.range
    | none => st
  let st := match p.cost with
    | some c => checkCommodity declared st c.amount.commodity.symbol c.amount.commodity.range
    | none => st
  match p.assertion with
    | some b => checkCommodity declared st b.amount.commodity.symbol b.amount.commodity.range
    | none => st

/-- `checkUndeclaredCommodities`. -/
def checkUndeclaredCommodities (tx : Transaction) (declared : List Bytes) : List Diag :=
  (tx.postings.foldl (checkPosting declared) ⟨[], []⟩).diags

/-- The UNDECLARED_* diagnostics of one transaction inside `analyzeInternal`'s loop
    (the balance and date-tag diagnostics appended around them belong to C02). -/
def analyzeTx (lower : Bytes → Bytes) (declaredAccounts declaredCommodities : List Bytes)
    (tx : Transaction) : List Diag :=
  (if !declaredAccounts.isEmpty then checkUndeclaredAccounts lower tx declaredAccounts else []) ++
  (if !declaredCommodities.isEmpty then checkUndeclaredCommodities tx declaredCommodities else [])

/-- `analyzeInternal` projected to the codes UNDECLARED_ACCOUNT / UNDECLARED_COMMODITY.
    `Analyze j` is `analyzeInternal j [] []`. -/
def analyzeInternal (lower : Bytes → Bytes) (j : Journal) (extAccounts extCommodities : List Bytes) : List Diag :=
  let declaredAccounts := collectDeclaredAccounts j ++ extAccounts
  let declaredCommodities := collectDeclaredCommodities j ++ extCommodities
  j.transactions.flatMap (analyzeTx lower declaredAccounts declaredCommodities)

/-! ### Server level -/

/-- `diagnosticsSettings`. -/
structure Settings where
  undeclaredAccounts : Bool
  undeclaredCommodities : Bool
  unbalancedTransactions : Bool
deriving Repr, DecidableEq, Inhabited, BEq

/-- `shouldIncludeDiagnostic`. -/
def shouldIncludeDiagnostic (code : Code) (s : Settings) : Bool :=
  match code with
  | .undeclaredAccount => s.undeclaredAccounts
  | .undeclaredCommodity => s.undeclaredCommodities
  | .unbalanced | .multipleInferred => s.unbalancedTransactions
  | .other => true

/-- `toProtocolSeverity`. -/
def toProtocolSeverity : Nat → Nat
  | 0 => 1 | 1 => 2 | 2 => 3 | 3 => 4 | _ => 1

/-- `uint32(n - 1)` for a Go `int` n ≥ 0 (wraps for 0). -/
def u32pred (n : Nat) : Nat := (n + 4294967295) % 4294967296

/-- `protocol.Diagnostic` (source is always "hledger-lsp"). -/
structure PubDiag where
  sl : Nat
  sc : Nat
  el : Nat
  ec : Nat
  sev : Nat
  code : Code
  msg : Bytes
deriving Repr, DecidableEq, Inhabited, BEq

def toPub (d : Diag) : PubDiag :=
  ⟨u32pred d.range.start.line, u32pred d.range.start.col, u32pred d.range.stop.line,
   u32pred d.range.stop.col, toProtocolSeverity d.sev, d.code, d.msg⟩

def emptyJournal : Journal := ⟨[], [], [], []⟩

def fileAt (files : List Journal) (i : Nat) : Journal := (files[i]?).getD emptyJournal

/-- Declarations of the listed files, by `f` (`AllDirectives` of a resolved journal, or the loops
    of `collectDeclared*FromResolved`). -/
def declsOf (files : List Journal) (idx : List Nat) (f : Journal → List Bytes) : List Bytes :=
  idx.flatMap fun i => f (fileAt files i)

/-- `workspace.GetDeclaredAccounts` / `GetDeclaredCommodities` as seen from `Server.analyze`:
    nothing when the server has no workspace or the workspace has no resolved journal (the
    getters return nil), else the declarations found in `AllDirectives()` of the resolved journal. -/
def wsDecls (files : List Journal) (wsTree : Option (List Nat)) (f : Journal → List Bytes) : List Bytes :=
  match wsTree with
  | some l => declsOf files l f
  | none => []

/-- `external.Accounts` as `Server.analyzeResolved` builds it (with
    repo_patches/fix-c18-include-declarations.diff applied):
      external := workspace caches (when a workspace exists and has a resolved journal)
      external  = MergeDeclarations(DeclarationsFromResolved(resolved), external)
    `DeclarationsFromResolved` walks the primary journal (the document itself) and every file the
    loader resolved below it. -/
def externalAccounts (files : List Journal) (cur : Nat) (curTree : List Nat)
    (wsTree : Option (List Nat)) : List Bytes :=
  (collectDeclaredAccounts (fileAt files cur) ++ declsOf files curTree collectDeclaredAccounts) ++
    wsDecls files wsTree collectDeclaredAccounts

/-- `external.Commodities`, likewise. -/
def externalCommodities (files : List Journal) (cur : Nat) (curTree : List Nat)
    (wsTree : Option (List Nat)) : List Bytes :=
  (collectDeclaredCommodities (fileAt files cur) ++ declsOf files curTree collectDeclaredCommodities) ++
    wsDecls files wsTree collectDeclaredCommodities

/-- The declared sets `analyzeInternal` ends up with for the current document: its own
    declarations plus the external ones. -/
def serverDeclaredAccounts (files : List Journal) (cur : Nat) (curTree : List Nat)
    (wsTree : Option (List Nat)) : List Bytes :=
  collectDeclaredAccounts (fileAt files cur) ++ externalAccounts files cur curTree wsTree

def serverDeclaredCommodities (files : List Journal) (cur : Nat) (curTree : List Nat)
    (wsTree : Option (List Nat)) : List Bytes :=
  collectDeclaredCommodities (fileAt files cur) ++ externalCommodities files cur curTree wsTree

/-- `Server.analyzeResolved`, projected to the UNDECLARED_* diagnostics it publishes for the
    current document:
      result := analyzer.AnalyzeWithExternalDeclarations(journal, external)
      keep the diagnostics that pass shouldIncludeDiagnostic, convert to protocol form. -/
def serverAnalyze (lower : Bytes → Bytes) (files : List Journal) (cur : Nat) (curTree : List Nat)
    (wsTree : Option (List Nat)) (s : Settings) : List PubDiag :=
  let diags := analyzeInternal lower (fileAt files cur) (externalAccounts files cur curTree wsTree)
    (externalCommodities files cur curTree wsTree)
  (diags.filter fun d => shouldIncludeDiagnostic d.code s).map toPub

/-- `Server.analyze` as it was before the fix: only the workspace caches are added to the
    document's own declarations.  Kept for `Props/C18.before_fix_include_declarations_ignored`. -/
def serverAnalyzeUnfixed (lower : Bytes → Bytes) (files : List Journal) (cur : Nat)
    (wsTree : Option (List Nat)) (s : Settings) : List PubDiag :=
  let journal := fileAt files cur
  let wsAcc := wsDecls files wsTree collectDeclaredAccounts
  let wsCom := wsDecls files wsTree collectDeclaredCommodities
  let diags := analyzeInternal lower journal wsAcc wsCom
  (diags.filter fun d => shouldIncludeDiagnostic d.code s).map toPub

end HL.Undeclared
