/-
  Hand-written expectations about the facts regenerated from /repo (HL/Generated/Facts.lean).
  Each theorem states one thing the model or a proof relies on.  If the Go source changes
  such a fact, `lake build` fails HERE, naming the fact: a proof break attributable to it.
  A Props file imports exactly the expectation modules its proofs and its model rely on.
-/
import HL.Generated.Facts
import HL.Model.Ast
namespace HL.Generated.Expect
open HL.Generated.Facts

/-- The token type enumeration of the model (HL.TokType) is parser.TokenType, in order. -/
theorem tokenTypes_match :
    tokenTypes = (List.range 25).map (fun i => (HL.TokType.ofCode i).name) := by decide

theorem account_terminators : accountTerminators = [9, 10, 13, 40, 41, 59, 61, 64, 91, 93] := by decide

theorem currency_symbols : currencySymbols = [36, 163, 165, 8364, 8372, 8381] := by decide

theorem directive_set :
    directiveSet = ["D", "P", "Y", "account", "alias", "apply", "assert", "bucket", "capture", "check", "comment",
      "commodity", "decimal-mark", "def", "define", "end", "eval", "expr", "include", "payee", "tag", "test", "year"] := by decide

/-- Amount exponents are bounded (C06: decimal arithmetic cost and int32 exponent overflow). -/
theorem exponent_bounded : 0 < maxAmountExponent ∧ maxAmountExponent ≤ 100000 := by decide

end HL.Generated.Expect
