/-
  Expectations about the Go predicates that tools/extract (pure.go) translates into Lean on
  every run (HL/Generated/Pure.lean): each is the model's definition, FOR ALL ARGUMENTS.

  The proofs look only at what the functions compute — every byte is evaluated (`forall_uint8`),
  statements about code points are reduced to linear arithmetic (`bool_arith`), strings are split
  by cases — so a rewrite of the Go function that keeps its meaning (a `switch` for a chain of
  `||`, tests in another order, a helper call) keeps them, and a change of its meaning breaks the
  build HERE, naming the function.  The lexer, text and settings models are tied to the source by
  these theorems in addition to the correspondence runs.
-/
import HL.Generated.Pure
import HL.Generated.Expect.PureTactics
import HL.Model.Lexer
namespace HL.Generated.Expect
open HL HL.Generated

/-! ### lexer.go: byte and rune classes -/

theorem isWhitespace_eq (b : UInt8) : Pure.isWhitespace b.toNat = Lex.isWhitespace b := by
  have := forall_uint8 (fun b => Pure.isWhitespace b.toNat == Lex.isWhitespace b) (by decide +kernel) b
  simpa using this

theorem isDigit_eq (b : UInt8) : Pure.isDigit b.toNat = Lex.isDigit b := by
  have := forall_uint8 (fun b => Pure.isDigit b.toNat == Lex.isDigit b) (by decide +kernel) b
  simpa using this

theorem isLetter_eq (b : UInt8) : Pure.isLetter b.toNat = Lex.isLetter b := by
  have := forall_uint8 (fun b => Pure.isLetter b.toNat == Lex.isLetter b) (by decide +kernel) b
  simpa using this

/-- `isAccountStart` is `isLetter` (the model uses `isLetter` directly). -/
theorem isAccountStart_eq (b : UInt8) : Pure.isAccountStart b.toNat = Lex.isLetter b := by
  have := forall_uint8 (fun b => Pure.isAccountStart b.toNat == Lex.isLetter b) (by decide +kernel) b
  simpa using this

theorem isCurrencySymbol_eq (r : Nat) : Pure.isCurrencySymbol r = Lex.isCurrencySymbol r := by
  unfold Pure.isCurrencySymbol Lex.isCurrencySymbol
  bool_arith

theorem isAccountTerminator_eq (r : Nat) : Pure.isAccountTerminator r = Lex.isAccountTerminator r := by
  unfold Pure.isAccountTerminator Lex.isAccountTerminator
  bool_arith

end HL.Generated.Expect
