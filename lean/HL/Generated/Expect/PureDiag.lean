/-
  server.shouldIncludeDiagnostic as translated by tools/extract (pure.go) is the model's, for every
  code and every settings value (see Expect/PureLexer.lean for the method).
-/
import HL.Generated.Pure
import HL.Model.Settings
import HL.Model.Undeclared
namespace HL.Generated.Expect
open HL HL.Generated

def diagField (d : Settings.Diagnostics) : String → Bool
  | "UndeclaredAccounts" => d.undeclaredAccounts
  | "UndeclaredCommodities" => d.undeclaredCommodities
  | "UnbalancedTransactions" => d.unbalancedTransactions
  | _ => false

theorem shouldIncludeDiagnostic_eq (code : String) (d : Settings.Diagnostics) (anyN : String → Nat) :
    Pure.shouldIncludeDiagnostic code anyN (diagField d) = Settings.shouldIncludeDiagnostic code d := by
  unfold Pure.shouldIncludeDiagnostic Settings.shouldIncludeDiagnostic diagField
  by_cases h1 : code = "UNDECLARED_ACCOUNT" <;> by_cases h2 : code = "UNDECLARED_COMMODITY" <;>
    by_cases h3 : code = "UNBALANCED" <;> by_cases h4 : code = "MULTIPLE_INFERRED" <;>
    simp_all

def undeclField (s : Undeclared.Settings) : String → Bool
  | "UndeclaredAccounts" => s.undeclaredAccounts
  | "UndeclaredCommodities" => s.undeclaredCommodities
  | "UnbalancedTransactions" => s.unbalancedTransactions
  | _ => false

/-- the same for the analyzer-side model of C18, which names the codes by an enumeration -/
theorem shouldIncludeDiagnostic_eq_code (code : Undeclared.Code) (s : Undeclared.Settings) (anyN : String → Nat) :
    Pure.shouldIncludeDiagnostic code.name anyN (undeclField s) = Undeclared.shouldIncludeDiagnostic code s := by
  cases code <;> simp [Pure.shouldIncludeDiagnostic, Undeclared.shouldIncludeDiagnostic, Undeclared.Code.name, undeclField]

end HL.Generated.Expect
