/-
  Hand-written expectations about the regenerated facts on the feature gate (property C19):
  cmd/hledger-lsp/main.go really serves its requests through `Server.FeatureGate`, and the
  gate's table is the one the model has (`HL.Settings.requestFeature`).  If the chaining is
  removed, or a row of the table is dropped or points at another switch, `lake build` fails
  HERE and with it HL.Props.C19, whose theorems on the feature switches speak about requests
  that pass through the gate.
-/
import HL.Generated.Facts
import HL.Model.Settings
namespace HL.Generated.Expect
open HL.Generated.Facts

/-- the names go.lsp.dev/protocol gives the request methods (server.go, `Method…` constants) -/
def methodConstant : List (String × String) := [
  ("textDocument/hover", "MethodTextDocumentHover"),
  ("textDocument/completion", "MethodTextDocumentCompletion"),
  ("textDocument/formatting", "MethodTextDocumentFormatting"),
  ("textDocument/semanticTokens/full", "MethodSemanticTokensFull"),
  ("textDocument/semanticTokens/full/delta", "MethodSemanticTokensFullDelta"),
  ("textDocument/semanticTokens/range", "MethodSemanticTokensRange"),
  ("textDocument/codeAction", "MethodTextDocumentCodeAction"),
  ("textDocument/foldingRange", "MethodTextDocumentFoldingRange"),
  ("textDocument/documentLink", "MethodTextDocumentDocumentLink"),
  ("workspace/symbol", "MethodWorkspaceSymbol")]

def constantOf (m : String) : String := ((methodConstant.find? fun p => p.1 == m).map (·.2)).getD m

/-- the handler that `conn.Go` serves is built from `srv.FeatureGate(…)` wrapped around the
    protocol dispatcher: every request the dispatcher sees has passed the gate -/
theorem feature_gate_chained :
    "FeatureGate" ∈ handlerChain.takeWhile (fun w => w != "ServerHandler") ∧
    "ServerHandler" ∈ handlerChain := by decide

/-- the gate's table is the model's (as a set of rows: the order in which a map literal lists
    its entries means nothing, so a reordering of the source must not break this) -/
theorem feature_gate_table :
    featureGateTable.isPerm
      (HL.Settings.requestFeature.map fun (m, f) => constantOf m ++ ":" ++ f.goField) = true := by decide

end HL.Generated.Expect
