/-
  server.isFullChange as translated by tools/extract (pure.go) is the model's isFullChange, for
  every range (see Expect/PureLexer.lean for the method).  Replaces the comparison of the
  function's source text.
-/
import HL.Generated.Pure
import HL.Generated.Expect.PureTactics
import HL.Model.Text
namespace HL.Generated.Expect
open HL HL.Generated

/-! ### server.go -/

/-- a range read through field names -/
def rangeField (r : Text.Range) : String → Nat
  | "Start.Line" => r.sl
  | "Start.Character" => r.sc
  | "End.Line" => r.el
  | "End.Character" => r.ec
  | _ => 0

theorem isFullChange_eq (r : Text.Range) (anyB : String → Bool) :
    Pure.isFullChange (rangeField r) anyB = Text.isFullChange r := by
  unfold Pure.isFullChange Text.isFullChange rangeField
  bool_arith

end HL.Generated.Expect
